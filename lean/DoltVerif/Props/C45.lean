import DoltVerif.Model.Replication
import DoltVerif.Lemmas.PullerSys
/-!
C45 — Replicas converge to their source and never show invented state.

PARTIAL by design: safety for all interleavings and faults, progress only under an explicit
fairness hypothesis, on the message-level model `Model/Replication.lean`.  Timeouts, gRPC, TLS and
process supervision are not modelled.  The model assumes a root hash never recurs (every write
produces a fresh root); see design/C45.md for the A→B→A scenario this excludes.
-/
namespace DoltVerif.C45
open DoltVerif.Replication

/-! ### (A) cluster standby replication -/

/-- the inductive invariant of the commit-hook machine -/
structure CInv (s : CState) : Prop where
  fresh_pos : s.proot < s.fresh
  proot_mem : s.proot ∈ s.hist
  hist_le : ∀ r ∈ s.hist, r ≤ s.proot ∧ 0 < r
  next_ok : s.nextHead = 0 ∨ (s.nextHead ∈ s.hist)
  last_ok : s.lastPushed = 0 ∨ (s.lastPushed ∈ s.hist ∧ s.lastPushed ≤ s.sroot)
  sroot_ok : s.sroot = 0 ∨ s.sroot ∈ s.hist
  sroot_le : s.role = .primary → s.sroot ≤ s.nextHead ∨ s.nextHead = 0
  last_le : s.lastPushed ≤ s.nextHead ∨ s.nextHead = 0
  shist_ok : ∀ r ∈ s.shist, r ∈ s.hist ∧ r ≤ s.sroot
  infl_ok : ∀ t, s.inflight = some t → t ∈ s.hist ∧ t ≤ s.nextHead ∧ s.sroot ≤ t ∧ s.role = .primary
  wait_ok : ∀ w ∈ s.waiters, w ≤ s.nextHead
  await_ok : ∀ w ∈ s.attemptWaiters, ∃ t, s.inflight = some t ∧ w ≤ t
  acked_ok : ∀ r ∈ s.acked, ∃ t ∈ s.shist, r ≤ t
  standby_zero : s.role = .standby → s.nextHead = 0 ∧ s.lastPushed = 0 ∧ s.inflight = none

theorem cinv_init : CInv cinit := by
  refine ⟨by decide, by decide, ?_, .inl rfl, .inl rfl, .inl rfl, fun _ => .inr rfl, .inr rfl, ?_, ?_, ?_, ?_, ?_, ?_⟩
  · intro r hr; simp [cinit] at hr; subst hr; decide
  all_goals simp [cinit]

theorem cstep_write {s s' : CState} (hi : CInv s) (h : cstep s .write = some s') : CInv s' := by
  simp only [cstep] at h
  split at h
  · simp only [Option.some.injEq] at h; subst h
    have hf := hi.fresh_pos
    have hmem : ∀ r ∈ s.hist, r ≤ s.proot ∧ 0 < r := hi.hist_le
    have hp0 : 0 < s.proot := (hmem _ hi.proot_mem).2
    refine ⟨by simp, by simp, ?_, ?_, ?_, ?_, hi.sroot_le, hi.last_le, ?_, ?_, hi.wait_ok, hi.await_ok, hi.acked_ok, hi.standby_zero⟩
    all_goals dsimp only
    · intro r hr
      simp only [List.mem_cons] at hr
      rcases hr with rfl | hr
      · exact ⟨Nat.le_refl _, by omega⟩
      · have := hmem r hr; exact ⟨by omega, this.2⟩
    · rcases hi.next_ok with h | h
      · exact .inl h
      · exact .inr (List.mem_cons_of_mem _ h)
    · rcases hi.last_ok with h | h
      · exact .inl h
      · exact .inr ⟨List.mem_cons_of_mem _ h.1, h.2⟩
    · rcases hi.sroot_ok with h | h
      · exact .inl h
      · exact .inr (List.mem_cons_of_mem _ h)
    · intro r hr; have := hi.shist_ok r hr; exact ⟨List.mem_cons_of_mem _ this.1, this.2⟩
    · intro t ht; have := hi.infl_ok t ht; exact ⟨List.mem_cons_of_mem _ this.1, this.2⟩
  · simp at h

theorem le_proot {s : CState} (hi : CInv s) {x : Nat} (h : x = 0 ∨ x ∈ s.hist) : x ≤ s.proot := by
  rcases h with h | h
  · omega
  · exact (hi.hist_le x h).1

/-- `nextHead := proot` (hook Execute / primaryNeedsInit) -/
theorem cinv_setNext {s : CState} (hi : CInv s) (hp : s.role = .primary) : CInv { s with nextHead := s.proot } := by
  have hs : s.sroot ≤ s.proot := le_proot hi hi.sroot_ok
  have hl : s.lastPushed ≤ s.proot := le_proot hi (hi.last_ok.imp id (·.1))
  have hn : s.nextHead ≤ s.proot := le_proot hi hi.next_ok
  refine ⟨hi.fresh_pos, hi.proot_mem, hi.hist_le, .inr hi.proot_mem, hi.last_ok, hi.sroot_ok, fun _ => .inl hs,
    .inl hl, hi.shist_ok, ?_, ?_, hi.await_ok, hi.acked_ok, ?_⟩
  all_goals dsimp only
  · intro t ht; have := hi.infl_ok t ht; exact ⟨this.1, (hi.hist_le t this.1).1, this.2.2⟩
  · intro w hw; have := hi.wait_ok w hw; omega
  · intro h; rw [hp] at h; cases h

theorem cinv_addWaiter {s : CState} (hi : CInv s) (w : Nat) (hw : w ≤ s.nextHead) :
    CInv { s with waiters := w :: s.waiters } := by
  refine ⟨hi.fresh_pos, hi.proot_mem, hi.hist_le, hi.next_ok, hi.last_ok, hi.sroot_ok, hi.sroot_le, hi.last_le,
    hi.shist_ok, hi.infl_ok, ?_, hi.await_ok, hi.acked_ok, hi.standby_zero⟩
  intro x hx
  simp only [List.mem_cons] at hx
  rcases hx with rfl | hx
  · exact hw
  · exact hi.wait_ok x hx

theorem cstep_exec {s s' : CState} (hi : CInv s) (h : cstep s .exec = some s') : CInv s' := by
  have key : ∀ s1 : CState, CInv s1 → s1.proot ≤ s1.nextHead →
      (if !caughtUp s1 then some { s1 with waiters := s1.proot :: s1.waiters } else some s1) = some s' → CInv s' := by
    intro s1 h1 hle h
    split at h
    · simp only [Option.some.injEq] at h; subst h; exact cinv_addWaiter h1 _ hle
    · simp only [Option.some.injEq] at h; subst h; exact h1
  simp only [cstep] at h
  split at h
  · simp only [Option.some.injEq] at h; subst h; exact hi
  · rename_i hr
    have hp : s.role = .primary := by
      cases hrole : s.role <;> simp_all
    by_cases hne : (s.proot != s.nextHead) = true
    · rw [if_pos hne] at h
      exact key _ (cinv_setNext hi hp) (Nat.le_refl _) h
    · rw [if_neg hne] at h
      have heq : s.proot = s.nextHead := by simpa using hne
      exact key _ hi (by omega) h

theorem cstep_init {s s' : CState} (hi : CInv s) (h : cstep s .init = some s') : CInv s' := by
  simp only [cstep] at h
  split at h
  · rename_i hc
    simp only [Option.some.injEq] at h; subst h
    exact cinv_setNext hi (by simp at hc; exact hc.1)
  · simp at h

theorem cstep_begin {s s' : CState} (hi : CInv s) (h : cstep s .begin = some s') : CInv s' := by
  simp only [cstep] at h
  split at h
  · rename_i hc
    simp only [Bool.and_eq_true, bne_iff_ne, ne_eq, beq_iff_eq] at hc
    obtain ⟨⟨⟨hnone, hp⟩, hn0⟩, hnl⟩ := hc
    simp only [Option.some.injEq] at h; subst h
    have hmem : s.nextHead ∈ s.hist := by rcases hi.next_ok with h | h; exact absurd h hn0; exact h
    have hsr : s.sroot ≤ s.nextHead := by rcases hi.sroot_le hp with h | h; exact h; exact absurd h hn0
    refine ⟨hi.fresh_pos, hi.proot_mem, hi.hist_le, hi.next_ok, hi.last_ok, hi.sroot_ok, hi.sroot_le, hi.last_le,
      hi.shist_ok, ?_, ?_, ?_, hi.acked_ok, ?_⟩
    all_goals dsimp only
    · intro t ht; simp only [Option.some.injEq] at ht; subst ht; exact ⟨hmem, Nat.le_refl _, hsr, hp⟩
    · intro w hw; simp at hw
    · intro w hw; exact ⟨s.nextHead, rfl, hi.wait_ok w hw⟩
    · intro h; rw [hp] at h; cases h
  · simp at h

theorem cstep_finishOk {s s' : CState} (hi : CInv s) (h : cstep s .finishOk = some s') : CInv s' := by
  simp only [cstep] at h
  split at h
  · simp at h
  · rename_i r hr
    obtain ⟨hmem, hle, hsr, hp⟩ := hi.infl_ok r hr
    simp only [hp, beq_self_eq_true, if_true, Option.some.injEq] at h
    subst h
    refine ⟨hi.fresh_pos, hi.proot_mem, hi.hist_le, hi.next_ok, .inr ⟨hmem, Nat.le_refl _⟩, .inr hmem, fun _ => .inl hle,
      .inl hle, ?_, ?_, hi.wait_ok, ?_, ?_, ?_⟩
    all_goals dsimp only
    · intro x hx
      simp only [List.mem_cons] at hx
      rcases hx with rfl | hx
      · exact ⟨hmem, Nat.le_refl _⟩
      · have := hi.shist_ok x hx; exact ⟨this.1, by omega⟩
    · intro t ht; simp at ht
    · intro w hw; simp at hw
    · intro x hx
      simp only [List.mem_append] at hx
      rcases hx with hx | hx
      · obtain ⟨t, ht, hwt⟩ := hi.await_ok x hx
        rw [hr] at ht; simp only [Option.some.injEq] at ht; subst ht
        exact ⟨r, List.mem_cons_self .., hwt⟩
      · obtain ⟨t, ht, hwt⟩ := hi.acked_ok x hx
        exact ⟨t, List.mem_cons_of_mem _ ht, hwt⟩
    · intro h; cases h

theorem cstep_finishFail {s s' : CState} (hi : CInv s) (h : cstep s .finishFail = some s') : CInv s' := by
  simp only [cstep] at h
  split at h
  · simp at h
  · rename_i r hr
    obtain ⟨hmem, hle, hsr, hp⟩ := hi.infl_ok r hr
    simp only [Option.some.injEq] at h; subst h
    refine ⟨hi.fresh_pos, hi.proot_mem, hi.hist_le, hi.next_ok, hi.last_ok, hi.sroot_ok, hi.sroot_le, hi.last_le,
      hi.shist_ok, ?_, ?_, ?_, hi.acked_ok, ?_⟩
    all_goals dsimp only
    · intro t ht; simp at ht
    · intro w hw
      simp only [List.mem_append] at hw
      rcases hw with hw | hw
      · obtain ⟨t, ht, hwt⟩ := hi.await_ok w hw
        rw [hr] at ht; simp only [Option.some.injEq] at ht; subst ht; omega
      · exact hi.wait_ok w hw
    · intro w hw; simp at hw
    · intro h; rw [hp] at h; cases h

theorem cstep_finishLostAck {s s' : CState} (hi : CInv s) (h : cstep s .finishLostAck = some s') : CInv s' := by
  simp only [cstep] at h
  split at h
  · simp at h
  · rename_i r hr
    obtain ⟨hmem, hle, hsr, hp⟩ := hi.infl_ok r hr
    simp only [Option.some.injEq] at h; subst h
    refine ⟨hi.fresh_pos, hi.proot_mem, hi.hist_le, hi.next_ok, ?_, .inr hmem, fun _ => .inl hle, hi.last_le,
      ?_, ?_, ?_, ?_, ?_, ?_⟩
    all_goals dsimp only
    · rcases hi.last_ok with h | h
      · exact .inl h
      · exact .inr ⟨h.1, by omega⟩
    · intro x hx
      simp only [List.mem_cons] at hx
      rcases hx with rfl | hx
      · exact ⟨hmem, Nat.le_refl _⟩
      · have := hi.shist_ok x hx; exact ⟨this.1, by omega⟩
    · intro t ht; simp at ht
    · intro w hw
      simp only [List.mem_append] at hw
      rcases hw with hw | hw
      · obtain ⟨t, ht, hwt⟩ := hi.await_ok w hw
        rw [hr] at ht; simp only [Option.some.injEq] at ht; subst ht; omega
      · exact hi.wait_ok w hw
    · intro w hw; simp at hw
    · intro x hx
      obtain ⟨t, ht, hwt⟩ := hi.acked_ok x hx
      exact ⟨t, List.mem_cons_of_mem _ ht, hwt⟩
    · intro h; rw [hp] at h; cases h

theorem cstep_other {s s' : CState} (hi : CInv s) (a : CStep)
    (ha : a = .beginGraceful ∨ a = .completeGraceful ∨ a = .standbyRestart) (h : cstep s a = some s') : CInv s' := by
  rcases ha with rfl | rfl | rfl
  · simp only [cstep] at h
    split at h
    · simp only [Option.some.injEq] at h; subst h
      exact ⟨hi.fresh_pos, hi.proot_mem, hi.hist_le, hi.next_ok, hi.last_ok, hi.sroot_ok, hi.sroot_le, hi.last_le,
        hi.shist_ok, hi.infl_ok, hi.wait_ok, hi.await_ok, hi.acked_ok, hi.standby_zero⟩
    · simp at h
  · simp only [cstep] at h
    split at h
    · simp only [Option.some.injEq] at h; subst h
      refine ⟨hi.fresh_pos, hi.proot_mem, hi.hist_le, .inl rfl, .inl rfl, hi.sroot_ok, ?_, .inr rfl,
        hi.shist_ok, ?_, ?_, ?_, hi.acked_ok, ?_⟩
      all_goals dsimp only
      · intro h; cases h
      · intro t ht; simp at ht
      · intro w hw; simp at hw
      · intro w hw; simp at hw
      · intro _; exact ⟨rfl, rfl, rfl⟩
    · simp at h
  · simp only [cstep] at h
    split at h
    · simp only [Option.some.injEq] at h; subst h; exact hi
    · exact cstep_finishFail hi (by simp only [cstep]; rename_i r hr; rw [hr]; exact h)

theorem cstep_inv {s s' : CState} (hi : CInv s) (a : CStep) (h : cstep s a = some s') : CInv s' := by
  cases a
  · exact cstep_write hi h
  · exact cstep_exec hi h
  · exact cstep_init hi h
  · exact cstep_begin hi h
  · exact cstep_finishOk hi h
  · exact cstep_finishFail hi h
  · exact cstep_finishLostAck hi h
  · exact cstep_other hi _ (.inl rfl) h
  · exact cstep_other hi _ (.inr (.inl rfl)) h
  · exact cstep_other hi _ (.inr (.inr rfl)) h

theorem crun_inv {s : CState} (hi : CInv s) (sched : List CStep) : CInv (crun s sched) := by
  induction sched generalizing s with
  | nil => exact hi
  | cons a as ih =>
    simp only [crun]
    cases h : cstep s a with
    | none => simpa using ih hi
    | some s' => simpa using ih (cstep_inv hi a h)

/-- **standby_subset** — under every interleaving of writes, hook executions, replication attempts
(succeeding, failing, or succeeding with a lost acknowledgement), graceful transitions and standby
restarts, every root the standby ever showed is a root the primary had (never invented), and so
is the one it shows now. -/
theorem standby_subset (sched : List CStep) :
    (∀ r ∈ (crun cinit sched).shist, r ∈ (crun cinit sched).hist) ∧
    ((crun cinit sched).sroot = 0 ∨ (crun cinit sched).sroot ∈ (crun cinit sched).hist) := by
  have hi := crun_inv cinv_init sched
  exact ⟨fun r hr => (hi.shist_ok r hr).1, hi.sroot_ok⟩

/-- the standby's roots only move forward in the primary's history -/
theorem standby_monotone (sched : List CStep) :
    ∀ r ∈ (crun cinit sched).shist, r ≤ (crun cinit sched).sroot :=
  fun r hr => ((crun_inv cinv_init sched).shist_ok r hr).2

/-- **standby_rejects_writes** — a server in role standby, or a primary that has begun a graceful
transition (provider read-only), accepts no write. -/
theorem standby_rejects_writes (s : CState) (h : s.role = .standby ∨ s.readOnly = true) :
    cstep s .write = none := by
  simp only [cstep]
  rcases h with h | h <;> simp [h]

/-- **ack_implies_replicated** — a commit whose replication wait returned nil was, at some point,
contained in a root the standby showed (the attempt that released it began after the commit's
hook had recorded its root). -/
theorem ack_implies_replicated (sched : List CStep) :
    ∀ r ∈ (crun cinit sched).acked, ∃ t ∈ (crun cinit sched).shist, r ≤ t :=
  (crun_inv cinv_init sched).acked_ok

/-- **graceful_no_ack_loss** — when a graceful transition completes, the standby (the new primary)
holds exactly the root the last hook execution recorded; every acknowledged commit, and every
commit whose hook ran and is still waiting, is contained in it. -/
theorem graceful_no_ack_loss {s s' : CState} (hi : CInv s) (h : cstep s .completeGraceful = some s') :
    s'.sroot = s.nextHead ∧ (∀ r ∈ s'.acked, r ≤ s'.sroot) ∧ (∀ w ∈ s.waiters, w ≤ s'.sroot) ∧ s'.role = .standby := by
  simp only [cstep] at h
  split at h
  · rename_i hc
    simp only [caughtUp, Bool.and_eq_true, Bool.or_eq_true, bne_iff_ne, ne_eq, beq_iff_eq] at hc
    obtain ⟨⟨hp, _⟩, hcu⟩ := hc
    simp only [Option.some.injEq] at h; subst h
    dsimp only
    have hcu' : s.nextHead ≠ 0 ∧ s.nextHead = s.lastPushed := by
      rcases hcu with h | h
      · exact absurd hp h
      · exact h
    have h1 : s.lastPushed ≤ s.sroot := by
      rcases hi.last_ok with h | h
      · omega
      · exact h.2
    have h2 : s.sroot ≤ s.nextHead := by
      rcases hi.sroot_le hp with h | h
      · exact h
      · exact absurd h hcu'.1
    have heq : s.sroot = s.nextHead := by omega
    refine ⟨heq, ?_, ?_, rfl⟩
    · intro r hr
      obtain ⟨t, ht, hrt⟩ := hi.acked_ok r hr
      have := (hi.shist_ok t ht).2
      omega
    · intro w hw; have := hi.wait_ok w hw; omega
  · simp at h

/-- a graceful transition reachable from the initial state: the general statement, over all schedules -/
theorem graceful_no_ack_loss_run (sched : List CStep) (s' : CState)
    (h : cstep (crun cinit sched) .completeGraceful = some s') :
    s'.sroot = (crun cinit sched).nextHead ∧ ∀ r ∈ s'.acked, r ≤ s'.sroot :=
  let g := graceful_no_ack_loss (crun_inv cinv_init sched) h
  ⟨g.1, g.2.1⟩

/-- **progress** (weak fairness made explicit) — if writes have stopped and the hook has seen the
last one (`nextHead = proot`), ONE replication attempt that succeeds makes the standby equal to
the primary.  "Eventually" is claimed only under this hypothesis. -/
theorem progress {s : CState} (hi : CInv s) (hp : s.role = .primary) (hin : s.inflight = none)
    (hq : s.nextHead = s.proot) : (crun s [.begin, .finishOk]).sroot = s.proot := by
  have hp0 : 0 < s.proot := (hi.hist_le _ hi.proot_mem).2
  by_cases hl : s.nextHead = s.lastPushed
  · have hb : cstep s .begin = none := by simp [cstep, hl]
    have hf : cstep s .finishOk = none := by simp [cstep, hin]
    simp only [crun, hb, hf, Option.getD_none]
    have h1 : s.lastPushed ≤ s.sroot := by
      rcases hi.last_ok with h | h
      · omega
      · exact h.2
    rcases hi.sroot_le hp with h | h <;> omega
  · have hb : cstep s .begin = some { s with inflight := some s.nextHead, attemptWaiters := s.waiters, waiters := [] } := by
      simp only [cstep]
      rw [if_pos]
      simp [hin, hp, hl]; omega
    have h1 : crun s [.begin, .finishOk] =
        (cstep { s with inflight := some s.nextHead, attemptWaiters := s.waiters, waiters := [] } .finishOk).getD
          { s with inflight := some s.nextHead, attemptWaiters := s.waiters, waiters := [] } := by
      simp only [crun, hb, Option.getD_some]
    rw [h1]
    simp [cstep, hp, hq]

/-! ### (B) push-on-write and read replica -/

theorem mem_setB {m : List (Branch × Nat)} {b : Branch} {v : Nat} {p : Branch × Nat}
    (h : p ∈ setB m b v) : p = (b, v) ∨ p ∈ m := Puller.mem_setRef h

theorem lookup_setB (m : List (Branch × Nat)) (b : Branch) (v : Nat) : (setB m b v).lookup b = some v :=
  Puller.lookup_setRef_same m b v

theorem lookup_setB_other (m : List (Branch × Nat)) (b c : Branch) (v : Nat) (h : c ≠ b) :
    (setB m b v).lookup c = m.lookup c := Puller.lookup_setRef_other m b c v h

theorem lookup_delB_other (m : List (Branch × Nat)) (b c : Branch) (h : c ≠ b) :
    (delB m b).lookup c = m.lookup c := Puller.lookup_filter_ne m b c h

theorem lookup_delB_same (m : List (Branch × Nat)) (b : Branch) : (delB m b).lookup b = none := by
  induction m with
  | nil => rfl
  | cons p m ih =>
    obtain ⟨k, v⟩ := p
    simp only [delB, List.filter] at ih ⊢
    by_cases hk : k = b
    · subst hk; simp [ih]
    · have h1 : (k != b) = true := by simpa using hk
      have h2 : (b == k) = false := by simpa using (Ne.symm hk)
      simp only [h1, List.lookup_cons, h2]; exact ih

theorem mem_of_lookup {m : List (Branch × Nat)} {b : Branch} {v : Nat} (h : m.lookup b = some v) : (b, v) ∈ m := by
  induction m with
  | nil => simp at h
  | cons p m ih =>
    obtain ⟨k, w⟩ := p
    rw [List.lookup_cons] at h
    by_cases hk : b == k
    · simp [hk] at h; simp at hk; subst hk; subst h; simp
    · simp [hk] at h; exact List.mem_cons_of_mem _ (ih h)

structure PInv (s : PState) : Prop where
  jobs_ok : ∀ p ∈ s.jobs, p ∈ s.phist
  rhist_ok : ∀ p ∈ s.rhist, p ∈ s.phist
  rhead_ok : ∀ p ∈ s.rhead, p ∈ s.rhist
  qhist_ok : ∀ p ∈ s.qhist, p ∈ s.rhist
  qhead_ok : ∀ p ∈ s.qhead, p ∈ s.qhist
  phead_ok : ∀ p ∈ s.phead, p ∈ s.phist
  /-- a pending hook pushes the branch's CURRENT head (the TxLock keeps later commits out) -/
  job_cur : ∀ b h, s.jobs.lookup b = some h → s.phead.lookup b = some h
  /-- per branch: a hook is pending, or its last hook failed, or the remote is at the primary's head -/
  sync : ∀ b, (s.jobs.lookup b).isSome = true ∨ b ∈ s.stale ∨ s.rhead.lookup b = s.phead.lookup b
  stale_warn : s.stale ≠ [] → 0 < s.warnings

theorem pinv_init : PInv pinit := by
  refine ⟨?_, ?_, ?_, ?_, ?_, ?_, ?_, ?_, ?_⟩ <;> simp [pinit]

theorem pstep_inv {s s' : PState} (hi : PInv s) (a : PStep) (h : pstep s a = some s') : PInv s' := by
  cases a with
  | commit b =>
    simp only [pstep] at h
    split at h
    · simp at h
    · rename_i hfree
      simp only [Option.some.injEq] at h; subst h
      refine ⟨?_, fun p hp => List.mem_cons_of_mem _ (hi.rhist_ok p hp), hi.rhead_ok, hi.qhist_ok, hi.qhead_ok, ?_, ?_, ?_, hi.stale_warn⟩
      all_goals dsimp only
      · intro p hp
        rcases mem_setB hp with rfl | hp
        · exact List.mem_cons_self ..
        · exact List.mem_cons_of_mem _ (hi.jobs_ok p hp)
      · intro p hp
        rcases mem_setB hp with rfl | hp
        · exact List.mem_cons_self ..
        · exact List.mem_cons_of_mem _ (hi.phead_ok p hp)
      · intro c h hc
        by_cases hcb : c = b
        · subst hcb; rw [lookup_setB] at hc ⊢; exact hc
        · rw [lookup_setB_other _ _ _ _ hcb] at hc ⊢; exact hi.job_cur c h hc
      · intro c
        by_cases hcb : c = b
        · subst hcb; left; rw [lookup_setB]; rfl
        · rw [lookup_setB_other _ _ _ _ hcb, lookup_setB_other _ _ _ _ hcb]; exact hi.sync c
  | hook b ok =>
    simp only [pstep] at h
    split at h
    · simp at h
    · rename_i hd hj
      have hmem : (b, hd) ∈ s.jobs := mem_of_lookup hj
      have hcur : s.phead.lookup b = some hd := hi.job_cur b hd hj
      have hjobs : ∀ p ∈ delB s.jobs b, p ∈ s.phist := fun p hp => hi.jobs_ok p (List.mem_filter.mp hp).1
      have hjc : ∀ c h, (delB s.jobs b).lookup c = some h → s.phead.lookup c = some h := by
        intro c h hc
        by_cases hcb : c = b
        · subst hcb; rw [lookup_delB_same] at hc; cases hc
        · rw [lookup_delB_other _ _ _ hcb] at hc; exact hi.job_cur c h hc
      split at h
      · simp only [Option.some.injEq] at h; subst h
        refine ⟨hjobs, ?_, ?_, ?_, hi.qhead_ok, hi.phead_ok, hjc, ?_, ?_⟩
        all_goals dsimp only
        · intro p hp
          simp only [List.mem_cons] at hp
          rcases hp with rfl | hp
          · exact hi.jobs_ok _ hmem
          · exact hi.rhist_ok p hp
        · intro p hp
          rcases mem_setB hp with rfl | hp
          · exact List.mem_cons_self ..
          · exact List.mem_cons_of_mem _ (hi.rhead_ok p hp)
        · intro p hp; exact List.mem_cons_of_mem _ (hi.qhist_ok p hp)
        · intro c
          by_cases hcb : c = b
          · subst hcb; right; right; rw [lookup_setB, hcur]
          · rw [lookup_delB_other _ _ _ hcb, lookup_setB_other _ _ _ _ hcb]
            rcases hi.sync c with h | h | h
            · exact .inl h
            · exact .inr (.inl (List.mem_filter.mpr ⟨h, by simpa using hcb⟩))
            · exact .inr (.inr h)
        · intro hne
          apply hi.stale_warn
          intro hnil; rw [hnil] at hne; simp at hne
      · simp only [Option.some.injEq] at h; subst h
        refine ⟨hjobs, hi.rhist_ok, hi.rhead_ok, hi.qhist_ok, hi.qhead_ok, hi.phead_ok, hjc, ?_, by intro _; exact Nat.succ_pos _⟩
        intro c
        dsimp only
        by_cases hcb : c = b
        · subst hcb; exact .inr (.inl (List.mem_cons_self ..))
        · rw [lookup_delB_other _ _ _ hcb]
          rcases hi.sync c with h | h | h
          · exact .inl h
          · exact .inr (.inl (List.mem_cons_of_mem _ h))
          · exact .inr (.inr h)
  | pull =>
    simp only [pstep, Option.some.injEq] at h; subst h
    refine ⟨hi.jobs_ok, hi.rhist_ok, hi.rhead_ok, ?_, ?_, hi.phead_ok, hi.job_cur, hi.sync, hi.stale_warn⟩
    all_goals dsimp only
    · intro p hp
      simp only [List.mem_append] at hp
      rcases hp with hp | hp
      · exact hi.rhead_ok p hp
      · exact hi.qhist_ok p hp
    · intro p hp; exact List.mem_append_left _ hp

theorem prun_inv {s : PState} (hi : PInv s) (sched : List PStep) : PInv (prun s sched) := by
  induction sched generalizing s with
  | nil => exact hi
  | cons a as ih =>
    simp only [prun]
    cases h : pstep s a with
    | none => simpa using ih hi
    | some s' => simpa using ih (pstep_inv hi a h)

/-- **read_replica_subset** — every (branch, head) a read replica ever shows is one the remote
showed, and every one the remote ever showed is a head the primary's branch had: under all
interleavings of commits, (failing) hook executions and replica pulls. -/
theorem read_replica_subset (sched : List PStep) :
    (∀ p ∈ (prun pinit sched).qhist, p ∈ (prun pinit sched).rhist) ∧
    (∀ p ∈ (prun pinit sched).rhist, p ∈ (prun pinit sched).phist) ∧
    (∀ p ∈ (prun pinit sched).qhead, p ∈ (prun pinit sched).phist) := by
  have hi := prun_inv pinv_init sched
  exact ⟨hi.qhist_ok, hi.rhist_ok, fun p hp => hi.rhist_ok p (hi.qhist_ok p (hi.qhead_ok p hp))⟩

/-- **push_on_write** — when the hook of a commit on `b` has returned (nothing pending for `b`),
either the remote's head of `b` IS the primary's head of `b`, or the last push of `b` failed and a
warning has been raised.  All interleavings (commits on other branches, failures, replica pulls). -/
theorem push_on_write (sched : List PStep) (b : Branch)
    (hq : (prun pinit sched).jobs.lookup b = none) :
    (prun pinit sched).rhead.lookup b = (prun pinit sched).phead.lookup b ∨
    (b ∈ (prun pinit sched).stale ∧ 0 < (prun pinit sched).warnings) := by
  have hi := prun_inv pinv_init sched
  rcases hi.sync b with h | h | h
  · rw [hq] at h; cases h
  · exact .inr ⟨h, hi.stale_warn (by intro hn; rw [hn] at h; cases h)⟩
  · exact .inl h

/-- convergence: quiescent and no branch's last push failed ⇒ the remote equals the primary on
every branch, and one replica pull then makes the replica equal to the primary. -/
theorem pow_converges (sched : List PStep) (hq : (prun pinit sched).jobs = [])
    (hs : (prun pinit sched).stale = []) (b : Branch) :
    (prun pinit sched).rhead.lookup b = (prun pinit sched).phead.lookup b ∧
    (prun pinit (sched ++ [.pull])).qhead.lookup b = (prun pinit (sched ++ [.pull])).phead.lookup b := by
  have h1 : (prun pinit sched).rhead.lookup b = (prun pinit sched).phead.lookup b := by
    rcases push_on_write sched b (by rw [hq]; rfl) with h | h
    · exact h
    · rw [hs] at h; cases h.1
  refine ⟨h1, ?_⟩
  have happ : ∀ (s : PState) (a : List PStep), prun s (a ++ [.pull]) = (prun (prun s a) [.pull]) := by
    intro s a
    induction a generalizing s with
    | nil => rfl
    | cons x a ih => simp only [List.cons_append, prun]; exact ih _
  rw [happ]
  simp only [prun, pstep, Option.getD_some]
  exact h1

/-- the per-branch lock matters: a second commit on a branch whose hook is still pending is not
enabled (this is what rules out two overlapping forced SetHeads finishing in the wrong order). -/
theorem commit_waits_for_hook (s : PState) (b : Branch) (h : (s.jobs.lookup b).isSome = true) :
    pstep s (.commit b) = none := by
  simp [pstep, h]

/-! #### non-vacuity -/

/-- two writes, a failed attempt, a lost acknowledgement, a successful attempt, a graceful transition -/
private def exSched : List CStep :=
  [.init, .write, .exec, .begin, .finishFail, .write, .exec, .begin, .finishLostAck, .begin, .finishOk,
   .beginGraceful, .completeGraceful]

example : (crun cinit exSched).role = .standby ∧ (crun cinit exSched).sroot = 3 ∧
    (crun cinit exSched).proot = 3 ∧ (crun cinit exSched).shist = [3, 3] ∧ (crun cinit exSched).acked = [3, 2] := by decide
example : cstep (crun cinit (exSched.take 12)) .completeGraceful ≠ none := by decide
/-- before the successful attempt the transition is refused (not caught up) -/
example : cstep (crun cinit ((exSched.take 9) ++ [.beginGraceful])) .completeGraceful = none := by decide
example : (prun pinit [.commit 7, .hook 7 false, .commit 7, .hook 7 true, .pull]).qhead = [(7, 2)] := by decide
example : (prun pinit [.commit 7, .hook 7 false]).stale = [7] ∧ (prun pinit [.commit 7, .hook 7 false]).warnings = 1 := by decide
example : (prun pinit [.commit 7, .commit 8, .hook 8 true, .hook 7 true]).jobs = [] := by decide

end DoltVerif.C45
