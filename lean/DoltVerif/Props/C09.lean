import DoltVerif.Gen.Fbs
import DoltVerif.Gen.Walk
import DoltVerif.Gen.Loads
import DoltVerif.Model.Walk
/-!
C09 — The reference walker reports every address an object can dereference.

All statements are about the tables regenerated from the Go source on this run
(`Gen.Walk`: what `SerialMessage.WalkAddrs` / `message.WalkAddresses` hand to the callback;
`Gen.Loads`: which fields the loaders turn into hashes and read; `Gen.Fbs`: the schemas) and the
reviewed classification of `Model/Walk.lean`.  Field-level facts are decided over the whole finite
tables and lifted to all objects by `Walk.lift_cover`.

Since the repair of the working-set walker (/repo bf9bc24) the field-level statements hold in FULL;
the only remaining partial statement is about tuple encodings (`ExtendedAddrEnc`).
-/
namespace DoltVerif.C09
open DoltVerif DoltVerif.Walk

abbrev walked : List Fld := walkedFields Gen.Walk.direct Gen.Walk.msgDirect
abbrev loads : List Fld := loadFields Gen.Loads.extracts Gen.Loads.workingSetReads

/-- **walk_covers_loads** (full): every field a loader dereferences — every field from which loader
code builds a hash, and every field of a stored working set that `doltdb.newWorkingSet` reads
through `datas.WorkingSetHead / MergeState / RebaseState` — is reported by the walker. -/
theorem walk_covers_loads : ∀ f ∈ loads, f ∈ walked := by
  decide +kernel

/-- nothing a loader reads is missing from the walker -/
theorem nothing_missing : missing walked loads = [] := by
  decide +kernel

/-- the working-set chain specifically (the place of the former defect): all seven addresses
`doltdb.newWorkingSet` dereferences are walked -/
theorem working_set_loads_walked :
    ∀ r ∈ Gen.Loads.workingSetReads, fst2 r ∈ walked := by
  decide +kernel

/-- the chain extraction did see the rebase and merge state (guards against a vacuous table) -/
theorem working_set_chain_complete :
    ("RebaseState", "onto_commit_addr") ∈ Gen.Loads.workingSetReads.map fst2 ∧
    ("RebaseState", "pre_working_root_addr") ∈ Gen.Loads.workingSetReads.map fst2 ∧
    ("MergeState", "pre_merge_head_commit_addr") ∈ Gen.Loads.workingSetReads.map fst2 ∧
    ("MergeState", "from_commit_addr") ∈ Gen.Loads.workingSetReads.map fst2 ∧
    ("MergeState", "pre_working_root_addr") ∈ Gen.Loads.workingSetReads.map fst2 ∧
    ("WorkingSet", "working_root_addr") ∈ Gen.Loads.workingSetReads.map fst2 ∧
    ("WorkingSet", "staged_root_addr") ∈ Gen.Loads.workingSetReads.map fst2 := by
  decide +kernel

/-- **walk_covers_address_fields** (full): every address-typed field of the schema (incl. the hash
strings `merge_state.pending_commit_hashes`) is walked. -/
theorem walk_covers_address_fields : ∀ f ∈ addressFields, f ∈ walked := by
  decide +kernel

/-- every embedded-message field is walked by recursion -/
theorem walk_covers_embedded : ∀ f ∈ embeddedFields, f ∈ Gen.Walk.embedded := by
  decide +kernel

/-- every tuple-items field is walked through an offsets field, or is on the reviewed exempt list -/
theorem walk_covers_tuple_fields :
    ∀ f ∈ tupleFields, (∃ m ∈ Gen.Walk.msgDirect, m.1 = f.1 ∧ m.2.1 = f.2 ∧ m.2.2 ≠ "") ∨ f ∈ tupleExempt := by
  decide +kernel

/-- every sub-table that holds address or embedded fields is descended into by the walker -/
theorem walk_covers_subtables :
    ∀ s ∈ subtableFields Gen.Fbs.tables, s.2.2 ∈ tablesWithAddrs → s ∈ Gen.Walk.subtables := by
  decide +kernel

/-- every sub-table the loaders descend into and that holds addresses is one the walker descends into -/
theorem walk_covers_loader_descents :
    ∀ d ∈ Gen.Loads.descends, (∃ s ∈ subtableFields Gen.Fbs.tables, s.1 = d.1 ∧ s.2.1 = d.2.1 ∧ s.2.2 ∈ tablesWithAddrs) →
      (∃ s ∈ Gen.Walk.subtables, s.1 = d.1 ∧ s.2.1 = d.2.1) := by
  decide +kernel

/-- every kind of stored message has a case in `SerialMessage.WalkAddrs`; kinds delegated to
`message.WalkAddresses` have a walker there; the kinds that report nothing have no address,
embedded or tuple field -/
theorem kinds_covered :
    (∀ p ∈ Gen.Fbs.fileIds, p.2 ∈ Gen.Walk.caseKinds ∨ p.2 ∈ nonChunkTables) ∧
    (∀ k ∈ Gen.Walk.delegated, k ∈ Gen.Walk.msgDispatch.map (·.1)) ∧
    (∀ k ∈ Gen.Walk.noRefs, k ∉ (addressFields ++ embeddedFields ++ tupleFields).map (·.1)) := by
  decide +kernel

/-- FULL statement about tuple encodings: every encoding that holds an address is enumerated by the
iterators the node serializer uses to fill `value_address_offsets`.  FALSE on the current tree
(`Witness.leaf_encodings_full_refuted`). -/
def leaf_encodings_covered_full : Prop :=
  ∀ e ∈ Gen.Walk.isAddrEncs ++ Gen.Walk.isAdaptiveEncs,
    e ∈ Gen.Walk.iterAddressEncs ++ Gen.Walk.iterAdaptiveEncs

/-- proved part: … or it is the listed known omission (`ExtendedAddrEnc`, Doltgres extended types) -/
theorem leaf_encodings_covered_partial :
    ∀ e ∈ Gen.Walk.isAddrEncs ++ Gen.Walk.isAdaptiveEncs,
      e ∈ Gen.Walk.iterAddressEncs ++ Gen.Walk.iterAdaptiveEncs ∨ e ∈ knownMissingEncs := by
  decide +kernel

/-- **obj_level** (full): for every object `o` (any assignment of address lists to fields, every
optional field populated or not) every non-empty address that loading `o` reads is reported by the
walker. -/
theorem obj_level (o : Obj) (a : Addr) (h : a ∈ loadReads loads o) : a ∈ walk walked o := by
  have hc : ∀ f ∈ loads, f ∈ walked ∨ f ∈ ([] : List Fld) := fun f hf => Or.inl (walk_covers_loads f hf)
  cases lift_cover hc o a h with
  | inl hw => exact hw
  | inr he => obtain ⟨f, hf, _⟩ := he; exact absurd hf List.not_mem_nil

/-- **obj_level**, schema form: every non-empty address stored in an address-typed field is
reported by the walker. -/
theorem obj_level_address_fields (o : Obj) (a : Addr) (h : a ∈ fieldsAddrs addressFields o) :
    a ∈ walk walked o := by
  have hc : ∀ f ∈ addressFields, f ∈ walked ∨ f ∈ ([] : List Fld) :=
    fun f hf => Or.inl (walk_covers_address_fields f hf)
  cases lift_cover (loads := addressFields) hc o a h with
  | inl hw => exact hw
  | inr he => obtain ⟨f, hf, _⟩ := he; exact absurd hf List.not_mem_nil

/-! non-vacuity: a working set in the middle of a revert *and* a rebase (every optional field
populated by a distinct address): everything loading it reads is reported. -/
def exampleWs : Obj := ⟨[(("WorkingSet", "working_root_addr"), [1]), (("WorkingSet", "staged_root_addr"), [2]),
  (("MergeState", "pre_working_root_addr"), [3]), (("MergeState", "from_commit_addr"), [4]),
  (("MergeState", "pre_merge_head_commit_addr"), [5]), (("MergeState", "pending_commit_hashes"), [8, 9]),
  (("RebaseState", "pre_working_root_addr"), [6]), (("RebaseState", "onto_commit_addr"), [7])]⟩

example : (loadReads loads exampleWs).eraseDups.length = 7 ∧
    (∀ a ∈ loadReads loads exampleWs, a ∈ walk walked exampleWs) ∧
    (∀ a ∈ [1, 2, 3, 4, 5, 6, 7, 8, 9], a ∈ walk walked exampleWs) := by
  decide +kernel

end DoltVerif.C09
