import DoltVerif.Gen.Fbs
import DoltVerif.Gen.Walk
import DoltVerif.Gen.Loads
import DoltVerif.Model.Walk
/-!
C09 — The reference walker reports every address an object can dereference.

All statements are about the tables regenerated from the Go source on this run
(`Gen.Walk`: what `SerialMessage.WalkAddrs` / `message.WalkAddresses` hand to the callback;
`Gen.Loads`: which fields the loaders turn into hashes and read; `Gen.Fbs`: the schemas) and the
reviewed classification of `Model/Walk.lean`.  Field-level facts are decided over the whole finite
tables and lifted to all objects by `Walk.lift_cover`.
-/
namespace DoltVerif.C09
open DoltVerif DoltVerif.Walk

abbrev walked : List Fld := walkedFields Gen.Walk.direct Gen.Walk.msgDirect
abbrev loads : List Fld := loadFields Gen.Loads.extracts Gen.Loads.workingSetReads

/-- FULL statement (DESIGN.md §6): every field a loader dereferences is reported by the walker. -/
def walk_covers_loads_full : Prop := ∀ f ∈ loads, f ∈ walked

/-- proved part: … or it is one of the explicitly listed known omissions. -/
theorem walk_covers_loads_partial : ∀ f ∈ loads, f ∈ walked ∨ f ∈ knownMissing := by
  decide +kernel

/-- the full statement holds exactly when no loaded field is missing from the walker -/
theorem walk_covers_loads_full_iff : walk_covers_loads_full ↔ missing walked loads = [] := by
  unfold walk_covers_loads_full missing
  rw [List.filter_eq_nil_iff]
  constructor
  · intro h f hf; simpa using h f hf
  · intro h f hf; simpa using h f hf

/-- any field in `missing` refutes the full statement -/
theorem missing_refutes_full (f : Fld) (h : f ∈ missing walked loads) : ¬ walk_covers_loads_full := by
  intro hfull
  have := walk_covers_loads_full_iff.mp hfull
  rw [this] at h
  exact absurd h (List.not_mem_nil)

/-- FULL statement for the schema: every address field is walked. -/
def walk_covers_address_fields_full : Prop := ∀ f ∈ addressFields, f ∈ walked

/-- every address-typed field of the schema is walked, or is a listed known omission -/
theorem walk_covers_address_fields : ∀ f ∈ addressFields, f ∈ walked ∨ f ∈ knownMissing := by
  decide +kernel

/-- every embedded-message field is walked by recursion -/
theorem walk_covers_embedded : ∀ f ∈ embeddedFields, f ∈ Gen.Walk.embedded := by
  decide +kernel

/-- every tuple-items field is walked through an offsets field, or is on the reviewed exempt list -/
theorem walk_covers_tuple_fields :
    ∀ f ∈ tupleFields, (∃ m ∈ Gen.Walk.msgDirect, m.1 = f.1 ∧ m.2.1 = f.2 ∧ m.2.2 ≠ "") ∨ f ∈ tupleExempt := by
  decide +kernel

/-- every sub-table that (transitively through one level) holds address or embedded fields is
descended into by the walker, or is the listed known omission (`WorkingSet.rebase_state`) -/
theorem walk_covers_subtables :
    ∀ s ∈ subtableFields Gen.Fbs.tables, s.2.2 ∈ tablesWithAddrs →
      s ∈ Gen.Walk.subtables ∨ (s.1, s.2.1) ∈ knownMissingSubtables := by
  decide +kernel

/-- every sub-table the loaders descend into and that holds addresses is one the walker descends
into (or the known omission) -/
theorem walk_covers_loader_descents :
    ∀ d ∈ Gen.Loads.descends, (∃ s ∈ subtableFields Gen.Fbs.tables, s.1 = d.1 ∧ s.2.1 = d.2.1 ∧ s.2.2 ∈ tablesWithAddrs) →
      (∃ s ∈ Gen.Walk.subtables, s.1 = d.1 ∧ s.2.1 = d.2.1) ∨ (d.1, d.2.1) ∈ knownMissingSubtables := by
  decide +kernel

/-- every kind of stored message has a case in `SerialMessage.WalkAddrs`; kinds delegated to
`message.WalkAddresses` have a walker there; the kinds that report nothing have no address,
embedded or tuple field -/
theorem kinds_covered :
    (∀ p ∈ Gen.Fbs.fileIds, p.2 ∈ Gen.Walk.caseKinds ∨ p.2 ∈ nonChunkTables) ∧
    (∀ k ∈ Gen.Walk.delegated, k ∈ Gen.Walk.msgDispatch.map (·.1)) ∧
    (∀ k ∈ Gen.Walk.noRefs, k ∉ (addressFields ++ embeddedFields ++ tupleFields).map (·.1)) := by
  decide +kernel

/-- every tuple encoding that holds an address is enumerated by the iterators the node serializer
uses to fill `value_address_offsets`, or is the listed known omission (`ExtendedAddrEnc`) -/
theorem leaf_encodings_covered :
    ∀ e ∈ Gen.Walk.isAddrEncs ++ Gen.Walk.isAdaptiveEncs,
      e ∈ Gen.Walk.iterAddressEncs ++ Gen.Walk.iterAdaptiveEncs ∨ e ∈ knownMissingEncs := by
  decide +kernel

/-- OBJECT LEVEL: for every object `o` (any assignment of address lists to fields, every optional
field populated or not) every non-empty address that loading `o` reads is reported by the walker,
or sits in one of the known-omitted fields. -/
theorem obj_level (o : Obj) (a : Addr) (h : a ∈ loadReads loads o) :
    a ∈ walk walked o ∨ ∃ f ∈ knownMissing, a ∈ o.get f :=
  lift_cover walk_covers_loads_partial o a h

/-- OBJECT LEVEL, schema form: every non-empty address stored in an address-typed field is
reported by the walker or sits in a known-omitted field. -/
theorem obj_level_address_fields (o : Obj) (a : Addr) (h : a ∈ fieldsAddrs addressFields o) :
    a ∈ walk walked o ∨ ∃ f ∈ knownMissing, a ∈ o.get f :=
  lift_cover (loads := addressFields) walk_covers_address_fields o a h

/-- objects that populate none of the known-omitted fields are fully covered -/
theorem obj_level_clean (o : Obj) (hclean : ∀ f ∈ knownMissing, o.get f = []) (a : Addr)
    (h : a ∈ loadReads loads o) : a ∈ walk walked o := by
  cases obj_level o a h with
  | inl hw => exact hw
  | inr he =>
    obtain ⟨f, hf, hm⟩ := he
    rw [hclean f hf] at hm
    exact absurd hm (List.not_mem_nil)

/-! non-vacuity: a working set with a merge state whose four loaded addresses are all reported -/
def exampleWs : Obj := ⟨[(("WorkingSet", "working_root_addr"), [1]), (("WorkingSet", "staged_root_addr"), [2]),
  (("MergeState", "pre_working_root_addr"), [3]), (("MergeState", "from_commit_addr"), [4])]⟩

example : loadReads loads exampleWs ≠ [] ∧ (∀ a ∈ loadReads loads exampleWs, a ∈ walk walked exampleWs) := by
  decide +kernel

example : (∀ f ∈ knownMissing, exampleWs.get f = []) := by decide +kernel

end DoltVerif.C09
