import DoltVerif.Lemmas.VcsOpsDb
import DoltVerif.Lemmas.VcsOpsWfb
/-!
C31 — Cherry-pick, revert and rebase obey their merge definitions.

Statements are about the machine of `Model/VcsOps*.lean` (tied to dolt by `Tie/VcsOps.lean` and the
`vcsops` correspondence harness).  `merge3 cherry base ours theirs` is the table-wise / key-wise /
cell-wise three-way merge (`merge.MergeRoots`); its two laws `merge3 c b b x = x` and
`merge3 c b x b = x` are proved in `Lemmas/VcsOpsMerge.lean` and re-stated here.
-/
namespace DoltVerif.C31
open DoltVerif.VcsOps

/-! ### the merge laws -/

/-- ours = base ⇒ the merge is theirs: for every well-formed theirs and any base; in cherry-pick mode
(no table-level fast-forward, the schema merge can only append columns) provided theirs' new columns
come after the surviving ones (`ColsAppend`) — see `cherry_pick_onto_own_parent_full_false`. -/
theorem merge_base_ours (c : Bool) (b x : Root) (hx : RootWF x)
    (hcols : c = true → ∀ n bt xt, get b n = some bt → get x n = some xt → ColsAppend bt.cols xt.cols) :
    merge3 c b b x = .ok x :=
  merge3_base_ours c b x hx hcols

/-- theirs = base ⇒ the merge is ours -/
theorem merge_base_theirs (c : Bool) (b x : Root) (hx : Sorted ltStr (keys x)) : merge3 c b x b = .ok x :=
  merge3_base_theirs c b x hx

/-- Boolean test used by the non-vacuity examples -/
def okIs (r : Except MergeErr Root) (x : Root) : Bool :=
  match r with
  | .ok y => decide (y = x)
  | .error _ => false

example : okIs (merge3 true [("t", ⟨[⟨"a", .int⟩], [(1, [.int 1])]⟩)] [("t", ⟨[⟨"a", .int⟩], [(1, [.int 1])]⟩)]
    [("t", ⟨[⟨"a", .int⟩, ⟨"b", .str⟩], [(1, [.int 2, .null]), (3, [.null, .str "x"])]⟩)])
    [("t", ⟨[⟨"a", .int⟩, ⟨"b", .str⟩], [(1, [.int 2, .null]), (3, [.null, .str "x"])]⟩)] = true := by decide

/-! ### cherry-pick -/

theorem errOfMerge_ne_ok (e : MergeErr) : errOfMerge e ≠ .ok := by
  cases e <;> simp [errOfMerge]

theorem cherryRoot_error (d : Db) (c : Nat) (e : Res) (h : d.cherryRoot c = .error e) : e ≠ .ok := by
  unfold Db.cherryRoot at h
  split at h
  · cases h; simp
  · split at h
    · cases h; simp
    · split at h
      · split at h
        · cases h; simp
        · split at h
          · cases h; exact errOfMerge_ne_ok _
          · cases h
      · cases h; simp

theorem cherryRoot_ok (d : Db) (c : Nat) (m : Root) (h : d.cherryRoot c = .ok m) :
    d.ws.staged = d.headRoot ∧ d.ws.working = d.headRoot ∧
    ∃ cm p, d.commit? c = some cm ∧ cm.parents = [p] ∧ cm.root ≠ d.rootOf p ∧
      merge3 true (d.rootOf p) d.ws.working cm.root = .ok m := by
  unfold Db.cherryRoot at h
  split at h
  · cases h
  · next hclean =>
    have hc : d.ws.staged = d.headRoot ∧ d.ws.working = d.headRoot := by
      simpa [Db.clean] using hclean
    refine ⟨hc.1, hc.2, ?_⟩
    split at h
    · cases h
    · next cm hcm =>
      split at h
      · next p hp =>
        split at h
        · cases h
        · next hne =>
          split at h
          · cases h
          · next m' hm =>
            cases h
            exact ⟨cm, p, hcm, hp, hne, hm⟩
      · cases h

/-- **cherry_pick_def.**  A successful cherry-pick of `C` makes HEAD a new commit on top of the old
HEAD whose data is `merge3 (base := parent C) (ours := old HEAD) (theirs := C)`, and leaves the
working and staged roots equal to it. -/
theorem cherry_pick_def (d d' : Db) (r : Ref) (h : d.cherryPick r = (.ok, d')) :
    ∃ c cm p, d.resolve r = some c ∧ d.commit? c = some cm ∧ cm.parents = [p] ∧
      merge3 true (d.rootOf p) d.headRoot cm.root = .ok d'.headRoot ∧
      d'.ws.working = d'.headRoot ∧ d'.ws.staged = d'.headRoot ∧
      (d'.commit? d'.headId).map (·.parents) = some [d.headId] ∧
      (d'.commit? d'.headId).map (·.msg) = some cm.msg := by
  unfold Db.cherryPick at h
  split at h
  · cases h
  · split at h
    · cases h
    · next c hc =>
      split at h
      · next e he =>
        have := cherryRoot_error d c e he
        simp only [Prod.mk.injEq] at h
        exact absurd h.1 this
      · next m hm =>
        obtain ⟨hs, hw, cm, p, hcm, hp, _, hmerge⟩ := cherryRoot_ok d c m hm
        split at h
        · cases h
        · simp only [Prod.mk.injEq, true_and] at h
          subst h
          refine ⟨c, cm, p, hc, hcm, hp, ?_, ?_, ?_, ?_, ?_⟩
          · rw [hw] at hmerge
            simpa [Db.headRoot, rootOf_addCommit_new] using hmerge
          · simp [Db.headRoot, rootOf_addCommit_new]
          · simp [Db.headRoot, rootOf_addCommit_new]
          · simp [Db.commit?, Db.addCommit]
          · simp [Db.commit?, Db.addCommit]
            simp [Db.commit?] at hcm
            simp [hcm]

/-- **cherry_pick_onto_own_parent.**  With a clean working set whose HEAD is the parent of `C`,
cherry-picking `C` succeeds and reproduces exactly `C`'s data. -/
theorem cherry_pick_onto_own_parent (d : Db) (hd : d.WF) (c p : Nat) (cm : Commit)
    (hcm : d.commit? c = some cm) (hp : cm.parents = [p]) (hhead : d.headId = p)
    (hclean : d.clean = true) (hmerge : d.ws.merge = none) (hne : cm.root ≠ d.rootOf p)
    (hcols : ∀ n bt xt, get (d.rootOf p) n = some bt → get cm.root n = some xt → ColsAppend bt.cols xt.cols) :
    ∃ d', d.cherryPick ⟨.commit c, 0⟩ = (.ok, d') ∧ d'.headRoot = cm.root ∧
      d'.ws.working = cm.root ∧ d'.ws.staged = cm.root := by
  have hc : d.ws.staged = d.headRoot ∧ d.ws.working = d.headRoot := by simpa [Db.clean] using hclean
  have hlt := lt_length_of_commit d c cm hcm
  have hres : d.resolve ⟨.commit c, 0⟩ = some c := by simp [Db.resolve, Db.resolveBase, Db.ancestor, hlt]
  have hroot : RootWF cm.root := by
    have := rootWF_rootOf d hd c
    rwa [rootOf_of_commit d c cm hcm] at this
  have hhr : d.headRoot = d.rootOf p := by simp [Db.headRoot, hhead]
  have hcr : d.cherryRoot c = .ok cm.root := by
    unfold Db.cherryRoot
    simp only [hclean, hcm, hp, hne, if_false, Bool.not_true, Bool.false_eq_true, cherryPickIsCherry]
    rw [hc.2, hhr, merge3_base_ours true (d.rootOf p) cm.root hroot (fun _ => hcols)]
  have hne' : ¬ cm.root = d.headRoot := by rw [hhr]; exact hne
  refine ⟨(((d.addCommit [d.headId] cm.root cm.msg).1.setHead (d.addCommit [d.headId] cm.root cm.msg).2).setWs
    ⟨cm.root, cm.root, none⟩), ?_, ?_, ?_, ?_⟩
  · unfold Db.cherryPick
    simp only [hmerge, Option.isSome_none, Bool.false_eq_true, if_false, hres, hcr, hne', hcm]
  · simp [Db.headRoot, rootOf_addCommit_new]
  · simp
  · simp

/-- the property's wording without the column-order proviso -/
def cherry_pick_onto_own_parent_full : Prop :=
  ∀ (d : Db) (c p : Nat) (cm : Commit), d.WF → d.commit? c = some cm → cm.parents = [p] → d.headId = p →
    d.clean = true → d.ws.merge = none → cm.root ≠ d.rootOf p →
    ∃ d', d.cherryPick ⟨.commit c, 0⟩ = (.ok, d') ∧ d'.headRoot = cm.root

/-- … is false: when the commit added a column that does not sit at the end of its column list (it was
created by a table-level fast-forward, e.g. a revert that restored a dropped column), cherry-picking
it onto its own parent appends that column instead (dolt replay in design/C31.md). -/
theorem cherry_pick_onto_own_parent_full_false : ¬ cherry_pick_onto_own_parent_full := by
  intro h
  let r1 : Root := [("u", ⟨[⟨"c2", .int⟩], [(1, [.int 2])]⟩)]
  let r2 : Root := [("u", ⟨[⟨"c1", .str⟩, ⟨"c2", .int⟩], [(1, [.null, .int 2])]⟩)]
  let d : Db :=
    { commits := [⟨[], [], "init", 1⟩, ⟨[0], r1, "c1", 2⟩, ⟨[1], r2, "c2", 3⟩]
      branches := [("main", 1)], tags := [], wss := [("main", ⟨r1, r1, none⟩)], cur := "main", stashes := [] }
  obtain ⟨d', h1, h2⟩ := h d 2 1 ⟨[1], r2, "c2", 3⟩ (Db.wf_of_wfb d (by decide +kernel)) rfl rfl (by decide +kernel)
    (by decide +kernel) rfl (by decide +kernel)
  have h3 : (d.cherryPick ⟨.commit 2, 0⟩).2.headRoot ≠ r2 := by decide +kernel
  rw [h1] at h3
  exact h3 h2

/-! ### revert -/

/-- **revert_def.**  A successful revert of `C` merges the *working* root with `C`'s first parent
using `C` as the base (`merge3 (base := C) (ours := working) (theirs := parent C)`), stages exactly
the tables that merge changed, and commits the staged root on top of HEAD. -/
theorem revert_def (d d' : Db) (r : Ref) (h : d.revert r = (.ok, d')) :
    ∃ c cm p rest m, d.resolve r = some c ∧ d.commit? c = some cm ∧ cm.parents = p :: rest ∧
      merge3 false cm.root d.ws.working (d.rootOf p) = .ok m ∧
      d'.ws.working = m ∧
      d'.ws.staged = moveTables (changedTables d.ws.working m) m d.ws.staged ∧
      d'.headRoot = d'.ws.staged ∧
      (d'.commit? d'.headId).map (·.parents) = some [d.headId] := by
  unfold Db.revert at h
  split at h
  · cases h
  · split at h
    · cases h
    · next c hc =>
      split at h
      · cases h
      · split at h
        · cases h
        · next cm hcm =>
          split at h
          · cases h
          · next p rest hp =>
            split at h
            · next e _ =>
              simp only [Prod.mk.injEq] at h
              exact absurd h.1 (errOfMerge_ne_ok e)
            · next m hm =>
              dsimp only at h
              split at h
              · cases h
              · simp only [Prod.mk.injEq, true_and] at h
                subst h
                refine ⟨c, cm, p, rest, m, hc, hcm, hp, hm, ?_, ?_, ?_, ?_⟩
                · simp
                · simp
                · simp [Db.headRoot, rootOf_addCommit_new]
                · simp [Db.commit?, Db.addCommit]

/-- With a clean working set the reverted data is the three-way merge of HEAD and `C`'s parent with
`C` as base, and working = staged = HEAD afterwards. -/
theorem revert_def_clean (d d' : Db) (r : Ref) (hd : d.WF) (hclean : d.clean = true)
    (h : d.revert r = (.ok, d')) :
    ∃ c cm p rest, d.resolve r = some c ∧ d.commit? c = some cm ∧ cm.parents = p :: rest ∧
      merge3 false cm.root d.headRoot (d.rootOf p) = .ok d'.headRoot ∧
      d'.ws.working = d'.headRoot ∧ d'.ws.staged = d'.headRoot := by
  obtain ⟨c, cm, p, rest, m, hc, hcm, hp, hm, hw, hs, hh, _⟩ := revert_def d d' r h
  have hcl : d.ws.staged = d.headRoot ∧ d.ws.working = d.headRoot := by simpa [Db.clean] using hclean
  have hsm : Sorted ltStr (keys m) := sorted_merge3 _ _ _ _ _ hm
  have hsh : Sorted ltStr (keys d.headRoot) := (rootWF_rootOf d hd d.headId).1
  have hst : d'.ws.staged = m := by
    rw [hs, hcl.1, hcl.2]
    exact moveTables_changed d.headRoot m hsh hsm
  refine ⟨c, cm, p, rest, hc, hcm, hp, ?_, ?_, ?_⟩
  · rw [hh, hst, ← hcl.2]; exact hm
  · rw [hh, hst, hw]
  · rw [hh]

/-- **revert_latest.**  Reverting the commit HEAD points at (clean working set) succeeds and restores
exactly the data of its first parent. -/
theorem revert_latest (d : Db) (hd : d.WF) (hc : Commit) (p : Nat) (rest : List Nat)
    (hcur : get d.branches d.cur = some d.headId)
    (hhead : d.commit? d.headId = some hc) (hp : hc.parents = p :: rest)
    (hclean : d.clean = true) (hm : d.ws.merge = none) (hne : d.rootOf p ≠ hc.root) :
    ∃ d', d.revert ⟨.head, 0⟩ = (.ok, d') ∧ d'.headRoot = d.rootOf p ∧
      d'.ws.working = d.rootOf p ∧ d'.ws.staged = d.rootOf p := by
  have hcl : d.ws.staged = d.headRoot ∧ d.ws.working = d.headRoot := by simpa [Db.clean] using hclean
  have hlt := lt_length_of_commit d d.headId hc hhead
  have hres : d.resolve ⟨.head, 0⟩ = some d.headId := by simp [Db.resolve, Db.resolveBase, Db.ancestor, hcur, hlt]
  have hhr : d.headRoot = hc.root := by simp [Db.headRoot, rootOf_of_commit d d.headId hc hhead]
  have hblocked : d.revertBlocked d.headId = false := by
    simp [Db.revertBlocked, hcl.1, hcl.2, changedTables_self]
  have hwfp : RootWF (d.rootOf p) := rootWF_rootOf d hd p
  have hmerge : merge3 false hc.root d.ws.working (d.rootOf p) = .ok (d.rootOf p) := by
    rw [hcl.2, hhr]; exact merge3_base_ours false hc.root (d.rootOf p) hwfp (fun h => by cases h)
  have hsh : Sorted ltStr (keys d.headRoot) := (rootWF_rootOf d hd d.headId).1
  have hstaged : moveTables (changedTables d.ws.working (d.rootOf p)) (d.rootOf p) d.ws.staged = d.rootOf p := by
    rw [hcl.1, hcl.2]; exact moveTables_changed d.headRoot (d.rootOf p) hsh hwfp.1
  have hne' : ¬ d.rootOf p = d.headRoot := by rw [hhr]; exact hne
  refine ⟨(((d.addCommit [d.headId] (d.rootOf p) ("Revert \"" ++ hc.msg ++ "\"")).1.setHead
      (d.addCommit [d.headId] (d.rootOf p) ("Revert \"" ++ hc.msg ++ "\"")).2).setWs
      ⟨d.rootOf p, d.rootOf p, none⟩), ?_, ?_, ?_, ?_⟩
  · unfold Db.revert
    simp only [hm, Option.isSome_none, Bool.false_eq_true, if_false, hres, hblocked, hhead, hp, revertIsCherry,
      hmerge, hstaged, hne']
  · simp [Db.headRoot, rootOf_addCommit_new]
  · simp
  · simp

/-! ### rebase -/

/-- data-level cherry-pick of commit `c` onto the root `cur`:
`merge3 (base := parent c) (ours := cur) (theirs := c)` -/
def pickData (d : Db) (cur : Root) (c : Nat) : Except Res Root :=
  match d.commit? c with
  | some cm =>
    match cm.parents with
    | [p] =>
      match merge3 cherryPickIsCherry (d.rootOf p) cur cm.root with
      | .ok m => .ok m
      | .error e => .error (errOfMerge e)
    | _ => .error (.err .other)
  | none => .error (.err .badRef)

/-- one plan step at the data level: `drop` keeps the data, every other action (pick, reword,
squash, fixup) cherry-picks — squash and fixup differ from pick only in how the commit is recorded -/
def stepData (d : Db) (cur : Root) (c : Nat) (a : Action) : Except Res Root :=
  if a = .drop then .ok cur else pickData d cur c

/-- the plan folded over the data, in plan order -/
def foldData (d : Db) : Root → List (Nat × Action) → Except Res Root
  | cur, [] => .ok cur
  | cur, (c, a) :: rest =>
    match stepData d cur c a with
    | .ok m => foldData d m rest
    | .error e => .error e

theorem rebaseStep_data (d0 d d1 : Db) (hd0 : d0.WF) (cur cur1 c : Nat) (a : Action)
    (hext : d0.commits <+: d.commits) (hc : c < d0.commits.length) (hcur : cur < d.commits.length)
    (h : d.rebaseStep cur c a = .ok (d1, cur1)) :
    d.commits <+: d1.commits ∧ cur1 < d1.commits.length ∧
    stepData d0 (d.rootOf cur) c a = .ok (d1.rootOf cur1) := by
  have hcc : d.commit? c = d0.commit? c := commit_ext d0 d hext c hc
  by_cases ha : a = .drop
  · subst ha
    simp only [Db.rebaseStep] at h
    cases h
    exact ⟨List.prefix_refl _, hcur, by simp [stepData]⟩
  · have hstep : stepData d0 (d.rootOf cur) c a = pickData d0 (d.rootOf cur) c := by simp [stepData, ha]
    rw [hstep]
    unfold Db.rebaseStep at h
    split at h
    · exact absurd rfl ha
    · split at h
      · next cm curc hcm hcurc =>
        have hcm0 : d0.commit? c = some cm := by rw [← hcc]; exact hcm
        have hcurroot : d.rootOf cur = curc.root := rootOf_of_commit d cur curc hcurc
        split at h
        · next p hp =>
          have hplt : p < d0.commits.length := by
            have := hd0.parents c cm (by simpa [Db.commit?] using hcm0) p (by simp [hp])
            omega
          have hproot : d.rootOf p = d0.rootOf p := rootOf_ext d0 d hext p hplt
          split at h
          · cases h
          · next m hm =>
            have hpick : pickData d0 (d.rootOf cur) c = .ok m := by
              simp only [pickData, hcm0, hp]
              rw [hcurroot, ← hproot, hm]
            rw [hpick]
            split at h
            · next heq =>
              cases h
              exact ⟨List.prefix_refl _, hcur, by rw [hcurroot, heq]⟩
            · split at h
              · simp only [Except.ok.injEq, Prod.mk.injEq] at h
                obtain ⟨h1, h2⟩ := h
                subst h1 h2
                exact ⟨ext_addCommit _ _ _ _, by simp [addCommit_length], by simp [rootOf_addCommit_new]⟩
              · simp only [Except.ok.injEq, Prod.mk.injEq] at h
                obtain ⟨h1, h2⟩ := h
                subst h1 h2
                exact ⟨ext_addCommit _ _ _ _, by simp [addCommit_length], by simp [rootOf_addCommit_new]⟩
              · simp only [Except.ok.injEq, Prod.mk.injEq] at h
                obtain ⟨h1, h2⟩ := h
                subst h1 h2
                exact ⟨ext_addCommit _ _ _ _, by simp [addCommit_length], by simp [rootOf_addCommit_new]⟩
              · simp only [Except.ok.injEq, Prod.mk.injEq] at h
                obtain ⟨h1, h2⟩ := h
                subst h1 h2
                exact ⟨ext_addCommit _ _ _ _, by simp [addCommit_length], by simp [rootOf_addCommit_new]⟩
              · exact absurd rfl ha
        · cases h
      · cases h

theorem rebaseSteps_data (d0 : Db) (hd0 : d0.WF) (steps : List (Nat × Action)) :
    ∀ (d d1 : Db) (cur cur1 : Nat), d0.commits <+: d.commits → cur < d.commits.length →
      (∀ s ∈ steps, s.1 < d0.commits.length) → d.rebaseSteps cur steps = .ok (d1, cur1) →
      foldData d0 (d.rootOf cur) steps = .ok (d1.rootOf cur1) := by
  induction steps with
  | nil =>
    intro d d1 cur cur1 _ _ _ h
    simp only [Db.rebaseSteps, Except.ok.injEq, Prod.mk.injEq] at h
    obtain ⟨h1, h2⟩ := h
    subst h1 h2
    rfl
  | cons s rest ih =>
    intro d d1 cur cur1 hext hcur hall h
    obtain ⟨c, a⟩ := s
    simp only [Db.rebaseSteps] at h
    split at h
    · cases h
    · next d2 cur2 hstep =>
      have hc : c < d0.commits.length := hall (c, a) List.mem_cons_self
      obtain ⟨hext2, hcur2, hdata⟩ := rebaseStep_data d0 d d2 hd0 cur cur2 c a hext hc hcur hstep
      simp only [foldData, hdata]
      exact ih d2 d1 cur2 cur1 (List.IsPrefix.trans hext hext2) hcur2
        (fun s hs => hall s (List.mem_cons_of_mem _ hs)) h

theorem rebaseStep_error_ne_ok (d : Db) (cur c : Nat) (a : Action) (e : Res)
    (h : d.rebaseStep cur c a = .error e) : e ≠ .ok := by
  unfold Db.rebaseStep at h
  split at h
  · cases h
  · split at h
    · split at h
      · split at h
        · cases h; exact errOfMerge_ne_ok _
        · split at h
          · cases h
          · split at h <;> cases h
      · cases h; simp
    · cases h; simp

theorem rebaseSteps_error_ne_ok (d : Db) (cur : Nat) (steps : List (Nat × Action)) (e : Res)
    (h : d.rebaseSteps cur steps = .error e) : e ≠ .ok := by
  induction steps generalizing d cur with
  | nil => simp [Db.rebaseSteps] at h
  | cons s rest ih =>
    obtain ⟨c, a⟩ := s
    simp only [Db.rebaseSteps] at h
    split at h
    · next e' he' =>
      cases h
      exact rebaseStep_error_ne_ok d cur c a _ he'
    · exact ih _ _ h

theorem mem_rebaseCommits_lt (d : Db) (h u : Nat) (cs : List Nat) (hcs : d.rebaseCommits h u = some cs) :
    ∀ c ∈ cs, c < d.commits.length := by
  unfold Db.rebaseCommits at hcs
  dsimp only at hcs
  split at hcs
  · cases hcs
    intro c hc
    have := (List.mem_filter.mp hc).2
    unfold Db.singleParent at this
    split at this
    · next cm hcm => exact lt_length_of_commit d c cm hcm
    · cases this
  · cases hcs

/-- **rebase_plan_eq_fold.**  A successful rebase leaves on the rebased branch exactly the data of
cherry-picking the kept commits of the plan in plan order onto the upstream commit; `drop` skips a
commit, `reword`, `squash` and `fixup` give the same data as `pick` (they differ in the recorded
commits and messages only).  Working and staged roots equal the new HEAD. -/
theorem rebase_plan_eq_fold (d d' : Db) (hd : d.WF) (up : Ref) (plan : List Action)
    (h : d.rebase up plan = (.ok, d')) :
    ∃ u cs, d.resolve up = some u ∧ d.rebaseCommits d.headId u = some cs ∧ plan.length = cs.length ∧
      foldData d (d.rootOf u) (cs.zip plan) = .ok d'.headRoot ∧
      d'.ws.working = d'.headRoot ∧ d'.ws.staged = d'.headRoot := by
  unfold Db.rebase at h
  split at h
  · cases h
  · split at h
    · cases h
    · split at h
      · cases h
      · next u hu =>
        split at h
        · cases h
        · next cs hcs =>
          split at h
          · cases h
          · split at h
            · cases h
            · next hlen =>
              split at h
              · cases h
              · split at h
                · next e herr =>
                  simp only [Prod.mk.injEq] at h
                  exact absurd h.1 (rebaseSteps_error_ne_ok _ _ _ e herr)
                · next d1 cur hsteps =>
                  simp only [Prod.mk.injEq, true_and] at h
                  subst h
                  have hult := resolve_lt d up u hu
                  have hall : ∀ s ∈ cs.zip plan, s.1 < d.commits.length := by
                    intro s hs
                    exact mem_rebaseCommits_lt d d.headId u cs hcs s.1 (List.of_mem_zip hs).1
                  have hdata := rebaseSteps_data d hd (cs.zip plan) d d1 u cur (List.prefix_refl _) hult hall hsteps
                  refine ⟨u, cs, hu, hcs, by simpa using hlen, ?_, ?_, ?_⟩
                  · simpa [Db.headRoot] using hdata
                  · simp [Db.headRoot]
                  · simp [Db.headRoot]

/-! ### abort ∘ start = id -/

/-- **abort_start.**  Whatever a conflicted cherry-pick or revert wrote into the working and staged
roots (`midW`, `midS`), `--abort` brings the database back to the state before the operation,
provided that state had no staged changes (both procedures refuse to start otherwise) and — for a
revert — no unstaged changes either (`hk`): `AbortRevert` resets the working root to HEAD, so the
unrelated uncommitted changes a revert may start with are lost (`abort_start_revert_dirty_false`). -/
theorem abort_start (d : Db) (hd : d.WF) (kind : MergeKind) (midW midS : Root)
    (hcur : get d.branches d.cur = some d.headId) (hws : get d.wss d.cur = some d.ws)
    (hm : d.ws.merge = none) (hstaged : d.ws.staged = d.headRoot)
    (hk : kind = .revert → d.ws.working = d.headRoot) :
    (d.startConflicted kind midW midS).abortMerge = (.ok, d) := by
  unfold Db.startConflicted Db.abortMerge
  simp only [ws_setWs, headId_setWs, ws_setHead]
  have haw : ∀ hr, hr = d.headRoot → abortWorking kind d.ws.working hr = d.ws.working := by
    intro hr ehr
    cases kind with
    | cherry => rfl
    | revert => simp only [abortWorking]; rw [ehr]; exact (hk rfl).symm
  have e1 : (d.setWs { working := midW, staged := midS, merge := some ⟨d.ws.working, d.headId, kind⟩ }).setHead d.headId
      = d.setWs { working := midW, staged := midS, merge := some ⟨d.ws.working, d.headId, kind⟩ } := by
    simp only [Db.setHead, setWs_branches, setWs_cur]
    rw [put_get_self strictTotal_ltStr d.branches d.cur d.headId hd.branches hcur]
    rfl
  rw [e1]
  congr 1
  have e2 : (d.setWs { working := midW, staged := midS, merge := some ⟨d.ws.working, d.headId, kind⟩ }).headRoot = d.headRoot := rfl
  rw [e2, haw d.headRoot rfl, ← hstaged]
  have e3 : ({ working := d.ws.working, staged := d.ws.staged, merge := none } : WS) = d.ws := by
    cases hw : d.ws with
    | mk w s mg =>
      rw [hw] at hm
      simp only at hm
      simp [hm]
  rw [e3]
  -- writing the original working set back over the conflicted one
  cases d with
  | mk commits branches tags wss cur stashes =>
    simp only [Db.setWs] at *
    congr 1
    apply sorted_ext strictTotal_ltStr _ _ (sorted_put strictTotal_ltStr _ _ _ (sorted_put strictTotal_ltStr _ _ _ hd.wss)) hd.wss
    intro a
    rw [get_put, get_put]
    by_cases e : cur = a
    · subst e; simp [hws]
    · simp [e]

/-- without `hk`: an untracked table does not survive `dolt_revert('--abort')` -/
theorem abort_start_revert_dirty_false :
    ¬ (∀ (d : Db) (midW midS : Root), d.WF → get d.branches d.cur = some d.headId → get d.wss d.cur = some d.ws →
        d.ws.merge = none → d.ws.staged = d.headRoot →
        (d.startConflicted .revert midW midS).abortMerge = (.ok, d)) := by
  intro h
  let d : Db := { initDb with wss := [("main", ⟨[("u", ⟨[], []⟩)], [], none⟩)] }
  have := h d [] [] (Db.wf_of_wfb d (by decide +kernel)) (by decide +kernel) (by decide +kernel) (by decide +kernel)
    (by decide +kernel)
  revert this
  decide +kernel

/-! ### non-vacuity: the hypotheses of the theorems above hold on a concrete history (`exDb`:
two tables, a column added on `main`, a second branch with its own commit) -/

example : exDb.wfb = true := by decide +kernel

/-- `cherry_pick_def`: cherry-picking commit 3 (made on `other`) onto `main` succeeds -/
example : (exDb.cherryPick ⟨.commit 3, 0⟩).1 = .ok := by decide +kernel

/-- `cherry_pick_onto_own_parent`: on `other` reset to commit 1, commit 3's parent is HEAD, the
working set is clean and commit 3 is not empty -/
example :
    let d := (exDb.apply (.checkout "other")).2.apply (.resetHard (some ⟨.commit 1, 0⟩)) |>.2
    d.wfb = true ∧ d.headId = 1 ∧ d.clean = true ∧ d.ws.merge = none ∧
      (d.commit? 3).map (·.parents) = some [1] ∧ (d.commit? 3).map (·.root) ≠ some (d.rootOf 1) := by
  decide +kernel

/-- `revert_latest` / `revert_def`: HEAD of `main` (commit 2) has parent 1 with different data -/
example : get exDb.branches exDb.cur = some exDb.headId ∧ exDb.clean = true ∧ exDb.ws.merge = none ∧
    (exDb.commit? exDb.headId).map (·.parents) = some [1] ∧ exDb.rootOf 1 ≠ exDb.headRoot ∧
    (exDb.revert ⟨.head, 0⟩).1 = .ok := by decide +kernel

/-- `rebase_plan_eq_fold`: rebasing `other` (one commit) onto `main` with the plan [reword] succeeds -/
example : ((exDb.apply (.checkout "other")).2.rebase ⟨.branch "main", 0⟩ [.reword "r"]).1 = .ok := by
  decide +kernel

/-- `abort_start`: `exDb` has no staged changes and no merge in progress -/
example : get exDb.wss exDb.cur = some exDb.ws ∧ exDb.ws.merge = none ∧ exDb.ws.staged = exDb.headRoot := by
  decide +kernel

end DoltVerif.C31
