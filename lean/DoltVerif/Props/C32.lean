import DoltVerif.Lemmas.VcsOpsExec
import DoltVerif.Lemmas.VcsOpsSchemaExec
import DoltVerif.Lemmas.VcsOpsDiffTable
import DoltVerif.Lemmas.VcsOpsWfb
/-!
C32 — Diffs and patches describe exactly the change between two commits.

`diffRows f t` are the rows of `dolt_diff(a, b, t)` for a table with one column list at both
commits (`prolly.DiffMaps` over the stored rows); `diffTables` lifts it through a changed column
list; `patch a b` is the statement list of `dolt_patch(a, b)` and `exec` its execution.
-/
namespace DoltVerif.C32
open DoltVerif.VcsOps

/-! ### diff_exact -/

/-- **diff_exact.**  For any two row maps the diff
* lists its keys in strictly ascending order (so every key at most once),
* lists a key iff the two maps disagree on it (present on one side only, or different cells),
* and reports for every listed key exactly the two stored rows and the right change type
  (`added` iff absent before, `removed` iff absent after, `modified` otherwise). -/
theorem diff_exact (f t : List (Int × Row)) :
    Sorted ltInt ((diffRows f t).map (·.pk)) ∧
    (∀ k, (∃ d ∈ diffRows f t, d.pk = k) ↔ get f k ≠ get t k) ∧
    (∀ d ∈ diffRows f t, d.from = get f d.pk ∧ d.to = get t d.pk ∧ d.ty = expectedType (get f d.pk) (get t d.pk)) :=
  ⟨diffRows_sorted f t, diffRows_mem f t, diffRows_values f t⟩

example : diffRows [(1, [.int 1]), (2, [.null]), (4, [.str "x"])] [(1, [.int 1]), (2, [.int 0]), (3, [.null])]
    = [⟨2, .modified, some [.null], some [.int 0]⟩, ⟨3, .added, none, some [.null]⟩, ⟨4, .removed, some [.str "x"], none⟩] := by
  decide

/-- With a changed column list a row counts as different iff its *stored tuples* differ (cells compared
positionally, trailing NULLs not stored — so a column added at the end changes nothing, a dropped
column that is not last changes every row): exactly those keys are listed, ascending, each with its
two stored rows. -/
theorem diff_exact_schema (ft tt : Table) (hne : ft.cols ≠ tt.cols) :
    Sorted ltInt ((diffTables (some ft) (some tt)).map (·.pk)) ∧
    (∀ k, (∃ d ∈ diffTables (some ft) (some tt), d.pk = k) ↔
      ((get ft.rows k).map trimNulls ≠ (get tt.rows k).map trimNulls)) ∧
    (∀ d ∈ diffTables (some ft) (some tt), d.from = get ft.rows d.pk ∧ d.to = get tt.rows d.pk) :=
  ⟨diffTables_sorted ft tt hne, diffTables_mem ft tt hne, diffTables_values ft tt hne⟩

example : diffTables (some ⟨[⟨"a", .int⟩], [(1, [.int 1]), (2, [.null])]⟩)
    (some ⟨[⟨"a", .int⟩, ⟨"b", .str⟩], [(1, [.int 1, .null]), (2, [.null, .str "y"])]⟩)
    = [⟨2, .modified, some [.null], some [.null, .str "y"]⟩] := by decide

/-! ### patch_roundtrip -/

/-- tables present in both roots have the same column list (data-only change, tables may come and go) -/
def SameCols (a b : Root) : Prop :=
  ∀ n ft tt, get a n = some ft → get b n = some tt → ft.cols = tt.cols

/-- column names are distinct within every table (statements address columns by name) -/
def NamesNodup (b : Root) : Prop :=
  ∀ n tt, get b n = some tt → (tt.cols.map (·.name)).Nodup

/-- the patch of one table name, executed on that table, gives the second table -/
theorem execTs_patchTable (n : String) (f t : Option Table)
    (hf : ∀ x, f = some x → x.WF) (ht : ∀ x, t = some x → x.WF)
    (hc : ∀ ft tt, f = some ft → t = some tt → ft.cols = tt.cols)
    (hnn : ∀ tt, t = some tt → (tt.cols.map (·.name)).Nodup) :
    execTs f (patchTable n f t) = some t := by
  cases f with
  | none =>
    cases t with
    | none => rfl
    | some tt => exact execTs_patch_create n tt (ht tt rfl)
  | some ft =>
    cases t with
    | none => simp [patchTable, execTs_cons, execT]
    | some tt => exact execTs_patch_same n ft tt (hf ft rfl) (ht tt rfl) (hc ft tt rfl rfl) (hnn tt rfl)

theorem exec_patch_names (a b : Root)
    (htab : ∀ n, execTs (get a n) (patchTable n (get a n) (get b n)) = some (get b n))
    (ns : List String) (hns : ns.Nodup) :
    ∀ r, Sorted ltStr (keys r) → (∀ n ∈ ns, get r n = get a n) →
    ∃ r', exec (ns.flatMap (fun n => patchTable n (get a n) (get b n))) r = some r' ∧
      Sorted ltStr (keys r') ∧ (∀ n ∈ ns, get r' n = get b n) ∧ (∀ n, n ∉ ns → get r' n = get r n) := by
  induction ns with
  | nil =>
    intro r hr _
    exact ⟨r, rfl, hr, (fun n hn => absurd hn List.not_mem_nil), (fun _ _ => rfl)⟩
  | cons n rest ih =>
    intro r hr hinv
    have hkn := List.nodup_cons.mp hns
    simp only [List.flatMap_cons]
    rw [exec_append, exec_lift n _ (stmtTable_patchTable n _ _) r hr, hinv n List.mem_cons_self, htab n]
    simp only [Option.map_some, Option.bind_some]
    have hr1 := sorted_setEntry r hr n (get b n)
    have hinv1 : ∀ n' ∈ rest, get (setEntry r n (get b n)) n' = get a n' := by
      intro n' hn'
      have : ¬ n = n' := fun e => hkn.1 (e ▸ hn')
      rw [get_setEntry r hr]
      simp only [this, if_false]
      exact hinv n' (List.mem_cons_of_mem _ hn')
    obtain ⟨r', e1, e2, e3, e4⟩ := ih hkn.2 _ hr1 hinv1
    refine ⟨r', e1, e2, ?_, ?_⟩
    · intro n' hn'
      rcases List.mem_cons.mp hn' with e | h'
      · subst e
        rw [e4 n' hkn.1, get_setEntry r hr]; simp
      · exact e3 n' h'
    · intro n' hn'
      have h1 : n' ∉ rest := fun h' => hn' (List.mem_cons_of_mem _ h')
      have h2 : ¬ n = n' := fun e => hn' (e ▸ List.mem_cons_self)
      rw [e4 n' h1, get_setEntry r hr]
      simp [h2]

/-- **patch_roundtrip (data and tables).**  For well-formed roots whose common tables have the same
column list, executing `patch a b` on `a` succeeds and yields exactly `b` — every table created,
dropped, and every row inserted, updated (only the changed columns) or deleted. -/
theorem patch_roundtrip_of_tables (a b : Root) (ha : RootWF a) (hb : RootWF b)
    (htab : ∀ n, execTs (get a n) (patchTable n (get a n) (get b n)) = some (get b n)) :
    exec (patch a b) a = some b := by
  unfold patch
  have hnames := nodup_of_sorted strictTotal_ltStr _ (sorted_unionKeys strictTotal_ltStr (keys a) (keys b))
  have hn1 : ((unionKeys ltStr (keys a) (keys b)).filter (fun n => !(has b n))).Nodup := List.Nodup.sublist List.filter_sublist hnames
  have hn2 : ((unionKeys ltStr (keys a) (keys b)).filter (fun n => has b n)).Nodup := List.Nodup.sublist List.filter_sublist hnames
  dsimp only
  rw [exec_append]
  obtain ⟨r1, e1, s1, g1, o1⟩ := exec_patch_names a b htab _ hn1 a ha.1 (fun _ _ => rfl)
  rw [e1]
  simp only [Option.bind_some]
  have hinv2 : ∀ n ∈ (unionKeys ltStr (keys a) (keys b)).filter (fun n => has b n), get r1 n = get a n := by
    intro n hn
    apply o1 n
    intro h'
    have h1 := (List.mem_filter.mp hn).2
    have h2 := (List.mem_filter.mp h').2
    simp [h1] at h2
  obtain ⟨r2, e2, s2, g2, o2⟩ := exec_patch_names a b htab _ hn2 r1 s1 hinv2
  rw [e2]
  congr 1
  apply sorted_ext strictTotal_ltStr _ _ s2 hb.1
  intro n
  by_cases hu : n ∈ unionKeys ltStr (keys a) (keys b)
  · by_cases hbn : has b n = true
    · exact g2 n (List.mem_filter.mpr ⟨hu, hbn⟩)
    · have hm1 : n ∈ (unionKeys ltStr (keys a) (keys b)).filter (fun n => !(has b n)) :=
        List.mem_filter.mpr ⟨hu, by simpa using hbn⟩
      have hm2 : n ∉ (unionKeys ltStr (keys a) (keys b)).filter (fun n => has b n) :=
        fun h' => hbn (List.mem_filter.mp h').2
      rw [o2 n hm2, g1 n hm1]
  · have hm1 : n ∉ (unionKeys ltStr (keys a) (keys b)).filter (fun n => !(has b n)) :=
      fun h' => hu (List.mem_filter.mp h').1
    have hm2 : n ∉ (unionKeys ltStr (keys a) (keys b)).filter (fun n => has b n) :=
      fun h' => hu (List.mem_filter.mp h').1
    rw [o2 n hm2, o1 n hm1]
    rw [mem_unionKeys] at hu
    rw [get_none_of_not_mem a n (fun h => hu (Or.inl h)), get_none_of_not_mem b n (fun h => hu (Or.inr h))]

theorem patch_roundtrip_partial (a b : Root) (ha : RootWF a) (hb : RootWF b)
    (hc : SameCols a b) (hnn : NamesNodup b) : exec (patch a b) a = some b :=
  patch_roundtrip_of_tables a b ha hb (fun n =>
    execTs_patchTable n (get a n) (get b n) (fun x hx => ha.2 n x hx) (fun x hx => hb.2 n x hx)
      (fun ft tt h1 h2 => hc n ft tt h1 h2) (fun tt h => hnn n tt h))

/-- what a patch needs of two roots whose tables may have gained and lost columns:
* `append` — in every common table the second column list is the first one's surviving columns (in
  their order) followed by the new ones: `ALTER TABLE … ADD` can only append
  (`patch_roundtrip_full_false` is the counterexample dolt reproduces);
* distinct column names on both sides (statements address columns by name);
* `alias` — where the column list changed, two rows whose *stored tuples* coincide are also equal
  after re-laying: dolt's diff compares stored tuples, so otherwise it misses the row and the patch
  lacks its `UPDATE` (`patch_roundtrip_alias_false`; dolt replay in design/C32.md). -/
structure Patchable (a b : Root) : Prop where
  append : ∀ n ft tt, get a n = some ft → get b n = some tt → ColsAppend ft.cols tt.cols
  namesA : NamesNodup a
  namesB : NamesNodup b
  alias : ∀ n ft tt, get a n = some ft → get b n = some tt → ft.cols ≠ tt.cols → NoTupleAlias ft tt

/-- the patch of one table name in the general case -/
theorem execTs_patchTable_cols (n : String) (f t : Option Table)
    (hf : ∀ x, f = some x → x.WF) (ht : ∀ x, t = some x → x.WF)
    (happ : ∀ ft tt, f = some ft → t = some tt → ColsAppend ft.cols tt.cols)
    (hfn : ∀ ft, f = some ft → (ft.cols.map (·.name)).Nodup)
    (htn : ∀ tt, t = some tt → (tt.cols.map (·.name)).Nodup)
    (hal : ∀ ft tt, f = some ft → t = some tt → ft.cols ≠ tt.cols → NoTupleAlias ft tt) :
    execTs f (patchTable n f t) = some t := by
  cases f with
  | none =>
    cases t with
    | none => rfl
    | some tt => exact execTs_patch_create n tt (ht tt rfl)
  | some ft =>
    cases t with
    | none => simp [patchTable, execTs_cons, execT]
    | some tt =>
      by_cases hc : ft.cols = tt.cols
      · exact execTs_patch_same n ft tt (hf ft rfl) (ht tt rfl) hc (htn tt rfl)
      · exact execTs_patch_cols n ft tt (hf ft rfl) (ht tt rfl) hc (hfn ft rfl) (htn tt rfl)
          (happ ft tt rfl rfl) (hal ft tt rfl rfl hc)

/-- **patch_roundtrip.**  For well-formed roots satisfying `Patchable`, executing `patch a b` on `a`
— per table the `DROP TABLE` / `CREATE TABLE`, then the `ALTER TABLE … DROP` of every removed column
and the `ALTER TABLE … ADD` of every new one, then the `INSERT` / `UPDATE` / `DELETE` statements —
succeeds and yields exactly `b`: data and schema. -/
theorem patch_roundtrip (a b : Root) (ha : RootWF a) (hb : RootWF b) (hp : Patchable a b) :
    exec (patch a b) a = some b :=
  patch_roundtrip_of_tables a b ha hb (fun n =>
    execTs_patchTable_cols n (get a n) (get b n) (fun x hx => ha.2 n x hx) (fun x hx => hb.2 n x hx)
      (fun ft tt h1 h2 => hp.append n ft tt h1 h2) (fun ft h => hp.namesA n ft h) (fun tt h => hp.namesB n tt h)
      (fun ft tt h1 h2 hc => hp.alias n ft tt h1 h2 hc))

/-- a column dropped, two added, rows inserted / updated / deleted: the hypotheses are satisfiable -/
example : exec (patch [("t", ⟨[⟨"a", .int⟩, ⟨"b", .str⟩], [(1, [.int 1, .str "x"]), (2, [.null, .null])]⟩)]
      [("t", ⟨[⟨"b", .str⟩, ⟨"c", .int⟩, ⟨"d", .str⟩], [(1, [.str "y", .int 7, .null]), (3, [.null, .null, .str "z"])]⟩)])
      [("t", ⟨[⟨"a", .int⟩, ⟨"b", .str⟩], [(1, [.int 1, .str "x"]), (2, [.null, .null])]⟩)]
    = some [("t", ⟨[⟨"b", .str⟩, ⟨"c", .int⟩, ⟨"d", .str⟩], [(1, [.str "y", .int 7, .null]), (3, [.null, .null, .str "z"])]⟩)] := by
  decide

/-- without `alias` the statement is false: column `a` (value 5) is dropped while `b` goes from NULL
to 5 — the stored tuples `(5)` and `(5)` coincide, the diff and therefore the patch miss the row. -/
theorem patch_roundtrip_alias_false :
    ¬ (∀ a b : Root, RootWF a → RootWF b →
        (∀ n ft tt, get a n = some ft → get b n = some tt → ColsAppend ft.cols tt.cols) →
        NamesNodup a → NamesNodup b → exec (patch a b) a = some b) := by
  intro h
  have := h [("t", ⟨[⟨"a", .int⟩, ⟨"b", .int⟩], [(1, [.int 5, .null])]⟩)]
            [("t", ⟨[⟨"b", .int⟩], [(1, [.int 5])]⟩)]
            (rootWF_of_b _ (by decide)) (rootWF_of_b _ (by decide))
            (by
              intro n ft tt h1 h2
              by_cases e : n = "t"
              · subst e
                simp only [VcsOps.get, if_true, Option.some.injEq] at h1 h2
                subst h1 h2
                unfold ColsAppend
                decide
              · simp [VcsOps.get, Ne.symm e] at h1)
            (by
              intro n tt h1
              by_cases e : n = "t"
              · subst e; simp only [VcsOps.get, if_true, Option.some.injEq] at h1; subst h1; decide
              · simp [VcsOps.get, Ne.symm e] at h1)
            (by
              intro n tt h1
              by_cases e : n = "t"
              · subst e; simp only [VcsOps.get, if_true, Option.some.injEq] at h1; subst h1; decide
              · simp [VcsOps.get, Ne.symm e] at h1)
  revert this
  decide

example : exec (patch [("t", ⟨[⟨"a", .int⟩], [(1, [.int 1]), (2, [.null])]⟩), ("u", ⟨[], [(1, [])]⟩)]
      [("t", ⟨[⟨"a", .int⟩], [(2, [.int 5]), (3, [.null])]⟩), ("v", ⟨[⟨"s", .str⟩], [(0, [.str "it's"])]⟩)])
      [("t", ⟨[⟨"a", .int⟩], [(1, [.int 1]), (2, [.null])]⟩), ("u", ⟨[], [(1, [])]⟩)]
    = some [("t", ⟨[⟨"a", .int⟩], [(2, [.int 5]), (3, [.null])]⟩), ("v", ⟨[⟨"s", .str⟩], [(0, [.str "it's"])]⟩)] := by
  decide

/-- the full-strength statement: executing the patch on the first root always gives the second -/
def patch_roundtrip_full : Prop :=
  ∀ a b : Root, RootWF a → RootWF b → exec (patch a b) a = some b

/-- … which is false: `dolt_patch` re-creates a column that sits in the middle of the second
commit's column list with `ALTER TABLE … ADD`, i.e. at the end (design/C32.md has the dolt replay). -/
theorem patch_roundtrip_full_false : ¬ patch_roundtrip_full := by
  intro h
  have := h [("t", ⟨[⟨"c1", .int⟩, ⟨"c3", .int⟩], [(1, [.int 10, .int 30])]⟩)]
            [("t", ⟨[⟨"c1", .int⟩, ⟨"c2", .int⟩, ⟨"c3", .int⟩], [(1, [.int 10, .int 20, .int 30])]⟩)]
            (rootWF_of_b _ (by decide)) (rootWF_of_b _ (by decide))
  revert this
  decide

/-! ### diff_tables_agree -/

/-- **diff_tables_agree.**  What `dolt_diff_<t>` promises on a *linear* history
`HEAD = c₀ → c₁ → … → cₙ` (`IsChain`: every commit's only parent is the next one, the last has none —
no merge commit and no commit with two children in HEAD's ancestry; for those the scan registers one
child per commit and loses an edge: known finding `C32/dolt_diff_t/merge-edge-missing`):
the rows are exactly `chainDiff`, i.e. the concatenation, newest first, of
`diff(c₀, WORKING)`, `diff(c₁, c₀)`, …, `diff(cₙ, cₙ₋₁)` — each the stored-table diff of the two
adjacent commits with both sides laid out by the current working column list, tagged
`(to_commit, from_commit)` — skipping pairs whose tables are equal and ending at the first pair whose
newer side has no table `t`.  (`none` iff the working root has no table `t`.) -/
theorem diff_tables_agree (d : Db) (t : String) (wt : Table) (rest : List Nat)
    (hw : get d.ws.working t = some wt) (hch : IsChain d (d.headId :: rest)) (hnd : (d.headId :: rest).Nodup)
    (hlen : rest.length + 1 ≤ d.commits.length) :
    d.diffTable t = some (chainDiff d t wt.cols none (some wt) (d.headId :: rest)) := by
  unfold Db.diffTable
  simp only [hw]
  rw [walk_chain d d.headId rest hch hnd hlen]
  congr 1
  have := diffTableAux_chain d t wt.cols (d.headId :: rest) [(d.headId, none, some wt)] [] none (some wt) hch hnd
    (by intro c r e; cases e; simp)
  simpa using this

/-- the hypotheses are satisfiable: `main` of `exDb` is the chain 2 → 1 → 0; with an extra uncommitted
row the table function is `diff(2, WORKING) ++ diff(1, 2) ++ diff(0, 1)` -/
def exDb' : Db := (exDb.apply (.dml (.insert "t" 7 [.int 1, .null, .null]))).2

example : exDb'.headId = 2 ∧ exDb'.parentsOf 2 = [1] ∧ exDb'.parentsOf 1 = [0] ∧ exDb'.parentsOf 0 = [] ∧
    exDb'.diffTable "t" = some (chainDiff exDb' "t" [⟨"a", .int⟩, ⟨"b", .str⟩, ⟨"c", .int⟩] none
      (get exDb'.ws.working "t") [2, 1, 0]) ∧
    (exDb'.diffTable "t").map List.length = some 4 := by
  decide +kernel

end DoltVerif.C32
