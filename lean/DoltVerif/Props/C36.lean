import DoltVerif.Lemmas.SqlEscape
import DoltVerif.Model.SqlEscapeCsv
/-!
C36 — Dump and re-import reproduce the database: the literal layer.

For **all** byte strings: what `dolt dump` writes for a string / binary / identifier is read back by
the tokenizer as exactly that byte string.  Type-specific text forms (decimals, dates, JSON, floats)
are outside the model and compared by the `dump` harness only.
-/
namespace DoltVerif.C36
open DoltVerif.SqlEscape

/-- what may follow a literal: end of input, or (after blanks) anything but another string quote —
in a dump a value is followed by `,` or `)` -/
def follows (rest : Bytes) : Bool :=
  match dropBlanks rest with
  | [] => true
  | c :: _ => !isConcatQuote c

theorem lexBody_quoteBody (s : Bytes) : ∀ (acc rest : Bytes), (∀ r, rest ≠ 39 :: r) →
    lexBody 39 (quoteBody s ++ 39 :: rest) acc = some (acc ++ s, rest) := by
  unfold lexBody
  induction s with
  | nil =>
    intro acc rest h
    cases rest with
    | nil => simp [quoteBody, lexGo]
    | cons c r =>
      have hc : c ≠ 39 := fun hc => h r (by rw [hc])
      simp [quoteBody, lexGo, hc]
  | cons b bs ih =>
    intro acc rest h
    cases he : encodeChar b with
    | none =>
      obtain ⟨h1, h2, _⟩ := encode_none b he
      simp only [quoteBody, he, List.cons_append, lexGo, h1, h2, if_false]
      rw [ih (acc ++ [b]) rest h]
      simp
    | some e =>
      simp only [quoteBody, he, List.cons_append, lexGo, if_true]
      rw [ih (acc ++ [unescape e]) rest h, unescape_encode b e he]
      simp

/-- **`lex_quote`** — for every byte string `s` (NUL, quotes, backslashes, `\Z`, invalid UTF-8, …)
the tokenizer reads the literal written by `quoteAndEscapeString` back as exactly `s`, and stops
right after it (having skipped blanks). -/
theorem lex_quote (s rest : Bytes) (h : follows rest = true) :
    lexString (quote s ++ rest) = some (s, dropBlanks rest) := by
  have hq : ∀ r, rest ≠ 39 :: r := by
    intro r hr
    subst hr
    simp [follows, dropBlanks, isBlank, isConcatQuote, isStrQuote] at h
  have e : quote s ++ rest = 39 :: (quoteBody s ++ 39 :: rest) := by simp [quote]
  have h39 : isStrQuote 39 = true := by decide
  rw [e]
  simp only [lexString, h39, if_true, lexLit]
  rw [lexBody_quoteBody s [] rest hq]
  simp only [List.nil_append]
  unfold follows at h
  cases hd : dropBlanks rest with
  | nil => rfl
  | cons c r =>
    rw [hd] at h
    simp only [Bool.not_eq_eq_eq_not, Bool.not_true] at h
    simp only [h, Bool.false_eq_true, if_false]

example : follows [44, 49] = true := by decide
/-- all nine escaped bytes, a lone backslash-letter look-alike, invalid UTF-8 -/
example : lexString (quote [0, 39, 34, 8, 10, 13, 9, 26, 92, 37, 95, 255, 0xC3] ++ [41]) =
    some ([0, 39, 34, 8, 10, 13, 9, 26, 92, 37, 95, 255, 0xC3], [41]) := by decide +kernel

/-- The `follows` hypothesis is forced: adjacent literals are concatenated by the tokenizer. -/
theorem lex_quote_needs_follows : lexString (quote [97] ++ [32] ++ quote [98]) = some ([97, 98], []) := by
  decide +kernel

/-- … and a NUL byte after a literal is taken for an opening quote by the tokenizer (see
`isConcatQuote`): the hypothesis excludes it as well -/
example : lexString (quote [97] ++ [0]) = none := by decide +kernel

/-- the reader is not the inverse on arbitrary input: unknown escapes drop the backslash
(`'\%'` reads as `%`) — the writer never produces them -/
example : lexString [39, 92, 37, 39] = some ([37], []) := by decide +kernel

-- ---------------------------------------------------------------- hex

theorem scanMantissa16_hexBody (b : Bytes) : ∀ (acc rest : Bytes), (∀ c r, rest = c :: r → ¬ digitVal c < 16) →
    scanMantissa16 (hexBody b ++ rest) acc = (acc ++ hexBody b, rest) := by
  induction b with
  | nil =>
    intro acc rest h
    cases rest with
    | nil => simp [hexBody, scanMantissa16]
    | cons c r => simp [hexBody, scanMantissa16, h c r rfl]
  | cons x xs ih =>
    intro acc rest h
    obtain ⟨h1, h2, _⟩ := hexDigit_roundtrip x
    simp only [hexBody, List.cons_append, scanMantissa16, h1, h2, if_true]
    rw [ih _ rest h]
    simp

theorem decodeHexPairs_hexBody : ∀ b : Bytes, decodeHexPairs (hexBody b) = some b
  | [] => rfl
  | x :: xs => by
    obtain ⟨h1, h2, h3⟩ := hexDigit_roundtrip x
    simp only [hexBody, decodeHexPairs, h1, h2, and_self, if_true, decodeHexPairs_hexBody xs, Option.map_some, h3]

theorem length_hexBody : ∀ b : Bytes, (hexBody b).length % 2 = 0
  | [] => rfl
  | _ :: xs => by simp only [hexBody, List.length_cons]; have := length_hexBody xs; omega

/-- what may follow a `0x…` literal: end of input or a byte that is neither a hex digit nor a letter -/
def HexFollows (rest : Bytes) : Prop := ∀ c r, rest = c :: r → ¬ digitVal c < 16 ∧ isLetter c = false

/-- **`hex_roundtrip`** — every binary value, the empty one included (`0x` with zero digits),
is read back exactly. -/
theorem hex_roundtrip (b rest : Bytes) (h : HexFollows rest) : readHex (hexEncode b ++ rest) = some (b, rest) := by
  unfold readHex hexEncode
  simp only [List.cons_append, scanHexNum, decide_true, Bool.true_or, if_true]
  rw [scanMantissa16_hexBody b [] rest (fun c r hr => (h c r hr).1)]
  simp only [List.nil_append]
  cases rest with
  | nil => simp [hexNumValue, length_hexBody b, decodeHexPairs_hexBody]
  | cons c r => simp [(h c r rfl).2, hexNumValue, length_hexBody b, decodeHexPairs_hexBody]

example : readHex (hexEncode [] ++ [44]) = some ([], [44]) := by decide +kernel
example : readHex (hexEncode [0, 255, 16] ++ [41]) = some ([0, 255, 16], [41]) := by decide +kernel

-- ---------------------------------------------------------------- identifiers

theorem lexIdentBody_identBody (s : Bytes) : ∀ (acc rest : Bytes), (∀ r, rest ≠ 96 :: r) →
    lexIdentBody (identBody s ++ 96 :: rest) acc = some (acc ++ s, rest) := by
  unfold lexIdentBody
  induction s with
  | nil =>
    intro acc rest h
    cases rest with
    | nil => simp [identBody, lexIdentGo]
    | cons c r =>
      have hc : c ≠ 96 := fun hc => h r (by rw [hc])
      simp [identBody, lexIdentGo, hc]
  | cons b bs ih =>
    intro acc rest h
    by_cases hb : b = 96
    · subst hb
      simp only [identBody, if_true, List.cons_append, lexIdentGo]
      rw [ih _ rest h]
      simp
    · simp only [identBody, hb, if_false, List.cons_append, lexIdentGo]
      rw [ih _ rest h]
      simp

/-- **`ident_roundtrip`** — every table / column name (backticks included) survives quoting. -/
theorem ident_roundtrip (s rest : Bytes) (h : ∀ r, rest ≠ 96 :: r) :
    lexIdent (quoteIdent s ++ rest) = some (s, rest) := by
  have e : quoteIdent s ++ rest = 96 :: (identBody s ++ 96 :: rest) := by simp [quoteIdent]
  rw [e]
  simp only [lexIdent]
  rw [lexIdentBody_identBody s [] rest h]
  simp

example : lexIdent (quoteIdent [97, 96, 96, 98] ++ [32]) = some ([97, 96, 96, 98], [32]) := by decide +kernel

end DoltVerif.C36

namespace DoltVerif.C36
open DoltVerif.SqlEscape
-- ---------------------------------------------------------------- decimal digits

theorem digit_facts : ∀ d, d < 10 → isDigit (UInt8.ofNat (48 + d)) = true ∧ (UInt8.ofNat (48 + d)).toNat - 48 = d ∧
    UInt8.ofNat (48 + d) ≠ 78 ∧ UInt8.ofNat (48 + d) ≠ 45 ∧ UInt8.ofNat (48 + d) ≠ 39 ∧ UInt8.ofNat (48 + d) ≠ 41 := by decide

def valOf (ds : Bytes) (acc : Nat) : Nat := ds.foldl (fun a c => a * 10 + (c.toNat - 48)) acc

theorem scanDigits_append : ∀ (ds : Bytes) (rest : Bytes) (acc : Nat), (∀ c ∈ ds, isDigit c = true) →
    (∀ c r, rest = c :: r → isDigit c = false) → scanDigits (ds ++ rest) acc = (valOf ds acc, rest)
  | [], rest, acc, _, hr => by
    cases rest with
    | nil => simp [scanDigits, valOf]
    | cons c r => simp [scanDigits, valOf, hr c r rfl]
  | d :: ds, rest, acc, hd, hr => by
    simp only [List.cons_append, scanDigits, hd d (by simp), if_true, valOf, List.foldl_cons]
    exact scanDigits_append ds rest _ (fun c hc => hd c (by simp [hc])) hr

theorem natDigits_spec : ∀ n : Nat, (∀ c ∈ natDigits n, isDigit c = true) ∧ valOf (natDigits n) 0 = n ∧
    (∃ d ds, natDigits n = UInt8.ofNat (48 + d) :: ds ∧ d < 10 ∧ (d = 0 → ds = [])) := by
  intro n
  induction n using Nat.strongRecOn with
  | _ n ih =>
    rw [natDigits]
    by_cases h : n < 10
    · obtain ⟨h1, h2, _⟩ := digit_facts n h
      simp only [h, if_true, List.mem_singleton, forall_eq, h1, valOf, List.foldl_cons, List.foldl_nil, h2, Nat.zero_mul,
        Nat.zero_add, true_and]
      exact ⟨n, [], rfl, h, fun _ => rfl⟩
    · simp only [h, if_false]
      obtain ⟨ih1, ih2, d, ds, ih3, hd, hz⟩ := ih (n / 10) (by omega)
      obtain ⟨h1, h2, _⟩ := digit_facts (n % 10) (by omega)
      refine ⟨?_, ?_, ?_⟩
      · intro c hc
        simp only [List.mem_append, List.mem_singleton] at hc
        rcases hc with hc | rfl
        · exact ih1 c hc
        · exact h1
      · simp only [valOf, List.foldl_append, List.foldl_cons, List.foldl_nil] at ih2 ⊢
        rw [ih2, h2]; omega
      · refine ⟨d, ds ++ [UInt8.ofNat (48 + n % 10)], by rw [ih3]; rfl, hd, ?_⟩
        intro hd0
        -- a leading zero is impossible: n / 10 ≥ 1
        exfalso
        have := hz hd0
        rw [ih3, this, hd0] at ih2
        simp [valOf] at ih2
        omega

/-- what follows a value inside a tuple -/
def sep (c : UInt8) : Prop := c = 44 ∨ c = 41

theorem sep_facts {c : UInt8} (h : sep c) : isDigit c = false ∧ ¬ digitVal c < 16 ∧ isLetter c = false ∧
    isConcatQuote c = false ∧ isBlank c = false ∧ c ≠ 120 := by
  rcases h with rfl | rfl <;> decide

theorem parseCell_fmt (cell : Cell) (c : UInt8) (hc : sep c) (rest : Bytes) :
    parseCell (fmtCell cell ++ c :: rest) = some (cell, c :: rest) := by
  obtain ⟨hcd, hcx, hcl, hcq, hcb, hc120⟩ := sep_facts hc
  cases cell with
  | null => simp [fmtCell, nullText, parseCell]
  | str s =>
    have hf : follows (c :: rest) = true := by simp [follows, dropBlanks, hcb, hcq]
    have := lex_quote s (c :: rest) hf
    simp only [dropBlanks, hcb, Bool.false_eq_true, if_false] at this
    have hq : quote s ++ c :: rest = 39 :: (quoteBody s ++ 39 :: c :: rest) := by simp [quote]
    simp only [fmtCell]
    rw [hq] at this ⊢
    simp only [parseCell, this]
    simp
  | bin b =>
    have := hex_roundtrip b (c :: rest) (by
      intro c' r' h; cases h; exact ⟨hcx, hcl⟩)
    have hq : hexEncode b ++ c :: rest = 48 :: 120 :: (hexBody b ++ c :: rest) := by simp [hexEncode]
    simp only [fmtCell]
    rw [hq] at this ⊢
    simp only [parseCell, this]
    simp
  | int i =>
    cases i with
    | ofNat n =>
      obtain ⟨hall, hval, d, ds, hds, hd, hz⟩ := natDigits_spec n
      obtain ⟨h1, _, h78, h45, h39, _⟩ := digit_facts d hd
      have hscan := scanDigits_append (natDigits n) (c :: rest) 0 hall (by intro c' r' h; cases h; exact hcd)
      simp only [fmtCell, intText]
      rw [hds] at hscan ⊢
      simp only [List.cons_append, parseCell, h78, h45, h39, if_false, h1, if_true]
      have hnothex : (UInt8.ofNat (48 + d) = 48 && (ds ++ c :: rest).head? = some 120) = false := by
        by_cases hd0 : d = 0
        · have := hz hd0; subst this; simp [hc120]
        · have hne48 : UInt8.ofNat (48 + d) ≠ 48 := by
            intro e
            have := (digit_facts d hd).2.1
            rw [e] at this
            simp at this; omega
          have hdec : decide (UInt8.ofNat (48 + d) = 48) = false := decide_eq_false hne48
          rw [hdec, Bool.false_and]
      simp only [hnothex, Bool.false_eq_true, if_false]
      simp only [List.cons_append] at hscan
      rw [hscan, ← hds, hval]
    | negSucc n =>
      obtain ⟨hall, hval, d, ds, hds, hd, _⟩ := natDigits_spec (n + 1)
      obtain ⟨h1, _⟩ := digit_facts d hd
      have hscan := scanDigits_append (natDigits (n + 1)) (c :: rest) 0 hall (by intro c' r' h; cases h; exact hcd)
      simp only [fmtCell, intText, List.cons_append, parseCell]
      simp only [show ¬ ((45 : UInt8) = 78) by decide, if_false, if_true]
      rw [hds] at hscan ⊢
      simp only [List.cons_append, h1, if_true] at hscan ⊢
      rw [hscan, ← hds, hval]
      simp only [Option.some.injEq, Prod.mk.injEq, and_true]
      congr 1

theorem fmtCell_head (cell : Cell) : ∃ b bs, fmtCell cell = b :: bs ∧ b ≠ 41 := by
  cases cell with
  | null => exact ⟨78, _, rfl, by decide⟩
  | str s => exact ⟨39, _, rfl, by decide⟩
  | bin b => exact ⟨48, _, rfl, by decide⟩
  | int i =>
    cases i with
    | ofNat n =>
      obtain ⟨_, _, d, ds, hds, hd, _⟩ := natDigits_spec n
      exact ⟨_, ds, by simp [fmtCell, intText, hds], (digit_facts d hd).2.2.2.2.2⟩
    | negSucc n => exact ⟨45, _, rfl, by decide⟩

theorem len_join : ∀ (cells : List Cell) (cell : Cell), cells.length < (joinComma ((cell :: cells).map fmtCell)).length
  | [], cell => by
    obtain ⟨b, bs, hb, _⟩ := fmtCell_head cell
    simp [joinComma, hb]
  | c2 :: cs, cell => by
    have ih := len_join cs c2
    simp only [List.map_cons, joinComma, List.length_append, List.length_cons] at ih ⊢
    omega

theorem parseCells_fmt : ∀ (cells : List Cell) (cell : Cell) (rest : Bytes) (fuel : Nat), cells.length < fuel →
    parseCells fuel (joinComma ((cell :: cells).map fmtCell) ++ 41 :: rest) = some (cell :: cells, rest)
  | [], cell, rest, fuel, hf => by
    obtain ⟨f, rfl⟩ : ∃ f, fuel = f + 1 := ⟨fuel - 1, by omega⟩
    simp only [List.map_cons, List.map_nil, joinComma, parseCells, parseCell_fmt cell 41 (Or.inr rfl) rest]
    simp
  | c2 :: cs, cell, rest, fuel, hf => by
    obtain ⟨f, rfl⟩ : ∃ f, fuel = f + 1 := ⟨fuel - 1, by omega⟩
    have ih := parseCells_fmt cs c2 rest f (by simp at hf; omega)
    simp only [List.map_cons, joinComma, List.append_assoc, List.cons_append] at ih ⊢
    simp only [parseCells, parseCell_fmt cell 44 (Or.inl rfl) _]
    simp only [if_true, ih, Option.map_some]

/-- **`row_roundtrip`** — a whole tuple over NULL / integers / strings / binary values written by
`SqlRowAsTupleString` is read back cell by cell, whatever follows the closing parenthesis. -/
theorem row_roundtrip (r : List Cell) (rest : Bytes) : parseRow (fmtRow r ++ rest) = some (r, rest) := by
  cases r with
  | nil => simp [fmtRow, joinComma, parseRow]
  | cons cell cells =>
    obtain ⟨b, bs, hb, hne⟩ := fmtCell_head cell
    have hjoin : ∃ tl, joinComma ((cell :: cells).map fmtCell) = b :: tl := by
      cases cells with
      | nil => exact ⟨bs, by simp [joinComma, hb]⟩
      | cons c2 cs => exact ⟨bs ++ 44 :: joinComma ((c2 :: cs).map fmtCell), by simp [joinComma, hb]⟩
    obtain ⟨tl, htl⟩ := hjoin
    have hp := parseCells_fmt cells cell rest ((joinComma ((cell :: cells).map fmtCell) ++ 41 :: rest).length + 1) (by
      have := len_join cells cell
      simp only [List.length_append, List.length_cons]; omega)
    simp only [fmtRow, List.cons_append, List.append_assoc, List.singleton_append, parseRow, if_true]
    rw [htl] at hp ⊢
    simp only [List.cons_append, hne, if_false] at hp ⊢
    exact hp


example : parseRow (fmtRow [.int (-42), .str [39, 92, 0], .null, .bin [], .bin [255], .int 0] ++ [59]) =
    some ([.int (-42), .str [39, 92, 0], .null, .bin [], .bin [255], .int 0], [59]) := by decide +kernel
end DoltVerif.C36

-- ================================================================ CSV export / import, field layer

namespace DoltVerif.C36
open DoltVerif.SqlEscape.Csv

theorem parseQuoted_escBody (f : Runes) : ∀ (acc rest : Runes),
    parseQuoted .body (escBody f ++ dq :: comma :: rest) acc = some (acc ++ f, some rest) := by
  induction f with
  | nil => intro acc rest; simp [escBody, parseQuoted, comma, dq]
  | cons r rs ih =>
    intro acc rest
    by_cases hr : r = dq
    · subst hr
      simp only [escBody, if_true, List.cons_append, parseQuoted]
      simp only [show ¬ ((34 : Nat) = 44) by decide, if_false, if_true]
      rw [ih]; simp
    · simp only [escBody, hr, if_false, List.cons_append, parseQuoted]
      rw [ih]; simp

theorem parseField_plain (f : Runes) (hc : f.contains comma = false) (hn : f.contains 10 = false) : ∀ (acc rest : Runes),
    parseField (f ++ comma :: rest) acc = (acc ++ f, some rest) := by
  induction f with
  | nil => intro acc rest; simp [parseField]
  | cons r rs ih =>
    intro acc rest
    simp only [List.contains_cons, Bool.or_eq_false_iff, beq_eq_false_iff_ne, ne_eq] at hc hn
    have hrc : ¬ r = comma := fun e => hc.1 e.symm
    have h10 : ¬ r = 10 := fun e => hn.1 e.symm
    simp only [List.cons_append, parseField, hrc, h10, if_false, decide_false, Bool.false_and, Bool.false_eq_true]
    rw [ih hc.2 hn.2]; simp

/-- **`csv_field_roundtrip`** — every value (any string of code points, the empty string, NULL) written as
a CSV field by the export writer is read back by the import reader as exactly that value; NULL and the
empty string stay distinct; leading white space of *any* Unicode kind survives because the writer
quotes precisely when the reader would trim. -/
theorem csv_field_roundtrip (v : Option Runes) (rest : Runes) :
    readField (writeField v ++ comma :: rest) = some (v, some rest) := by
  cases v with
  | none =>
    have hc : isSpace comma = false := by decide
    simp [writeField, readField, trimLeft, hc, parseField, comma, dq]
  | some f =>
    by_cases hq : needsQuotes f = true
    · have hd : isSpace dq = false := by decide
      simp only [writeField, hq, if_true, List.cons_append, List.append_assoc, List.singleton_append, List.nil_append, readField,
        trimLeft, hd, Bool.false_eq_true, if_false]
      rw [parseQuoted_escBody]; simp
    · have hq' : needsQuotes f = false := by simpa using hq
      have hw : writeField (some f) = f := by simp [writeField, hq']
      rw [hw]
      simp only [needsQuotes, Bool.or_eq_false_iff] at hq'
      obtain ⟨⟨⟨⟨⟨⟨hne, _⟩, hcomma⟩, hdq⟩, _⟩, hlf⟩, hsp⟩ := hq'
      cases f with
      | nil => simp at hne
      | cons r rs =>
        have hrsp : isSpace r = false := by simpa [firstIsSpace] using hsp
        have hrdq : ¬ r = dq := by
          simp only [List.contains_cons, Bool.or_eq_false_iff, beq_eq_false_iff_ne, ne_eq] at hdq
          exact fun e => hdq.1 e.symm
        simp only [readField, List.cons_append, trimLeft, hrsp, hrdq, Bool.false_eq_true, if_false]
        have := parseField_plain (r :: rs) hcomma hlf [] rest
        simp only [List.cons_append, List.nil_append] at this
        rw [this]
        simp

example : readField (writeField (some [0xA0, 97]) ++ [44, 122]) = some (some [0xA0, 97], some [122]) := by decide
example : writeField (some [0x3000]) = [34, 0x3000, 34] ∧ writeField (some []) = [34, 34] ∧ writeField none = [] := by decide
/-- what the seeded change does: an *unquoted* field starting with U+00A0 loses it -/
example : readField ([0xA0, 97] ++ [44, 122]) = some (some [97], some [122]) := by decide

end DoltVerif.C36
