import DoltVerif.Model.Blobstore
/-!
C42 — Blobstores provide a correct conditional manifest update and byte ranges.
-/
namespace DoltVerif.C42
open DoltVerif.Blobstore

theorem wrap64_id (x : Int) (h1 : -9223372036854775808 ≤ x) (h2 : x < 9223372036854775808) : wrap64 x = x := by
  unfold wrap64; omega

/-- the domain on which the Go range arithmetic is defined: the offset addresses a position of
the blob (from either end) and nothing overflows int64 -/
structure InDomain (off len size : Int) : Prop where
  size_nonneg : 0 ≤ size
  len_nonneg : 0 ≤ len
  off_lo : -size ≤ off
  off_hi : off ≤ size
  size_small : size < 4611686018427387904
  len_small : len < 4611686018427387904

/-- **positiveRange** on its domain: start from the front or from the back, `length 0` = to the
end, clamped at the size; the result always lies inside the blob. -/
theorem positiveRange_spec (off len size : Int) (h : InDomain off len size) :
    let p := (BlobRange.mk off len).positiveRange size
    p.offset = (if off < 0 then size + off else off) ∧ 0 ≤ p.offset ∧ p.offset ≤ size ∧
    p.length = (if len = 0 ∨ p.offset + len > size then size - p.offset else len) ∧
    0 ≤ p.length ∧ p.offset + p.length ≤ size := by
  obtain ⟨h1, h2, h3, h4, h5, h6⟩ := h
  by_cases hneg : off < 0
  · simp only [BlobRange.positiveRange, hneg, if_true]
    rw [wrap64_id (size + off) (by omega) (by omega), wrap64_id (size + off + len) (by omega) (by omega),
      wrap64_id (size - (size + off)) (by omega) (by omega)]
    simp only [Bool.or_eq_true, decide_eq_true_eq, beq_iff_eq]
    by_cases hc : size + off + len > size ∨ len = 0
    · have hc' : len = 0 ∨ size + off + len > size := hc.symm
      simp only [hc, hc', if_true, true_and, and_true]; omega
    · have hc' : ¬ (len = 0 ∨ size + off + len > size) := fun h => hc h.symm
      simp only [hc, hc', if_false, true_and, and_true]; omega
  · simp only [BlobRange.positiveRange, hneg, if_false]
    rw [wrap64_id (off + len) (by omega) (by omega), wrap64_id (size - off) (by omega) (by omega)]
    simp only [Bool.or_eq_true, decide_eq_true_eq, beq_iff_eq]
    by_cases hc : off + len > size ∨ len = 0
    · have hc' : len = 0 ∨ off + len > size := hc.symm
      simp only [hc, hc', if_true, true_and, and_true]; omega
    · have hc' : ¬ (len = 0 ∨ off + len > size) := fun h => hc h.symm
      simp only [hc, hc', if_false, true_and, and_true]; omega

/-- **Ranged reads return exactly the requested bytes** (in-memory store), on the domain -/
theorem range_read_exact_inmem (val : Bytes) (off len : Int) (h : InDomain off len val.length) :
    inmemRead val ⟨off, len⟩ = .ok (specRange val off len) := by
  have hs := positiveRange_spec off len val.length h
  obtain ⟨h1, h2, h3, h4, h5, h6⟩ := h
  simp only at hs
  obtain ⟨s1, s2, s3, s4, s5, s6⟩ := hs
  unfold inmemRead
  by_cases hall : (BlobRange.mk off len).isAllRange = true
  · simp only [hall, if_true]
    simp only [BlobRange.isAllRange, Bool.and_eq_true, beq_iff_eq] at hall
    obtain ⟨rfl, rfl⟩ := hall
    simp [specRange]
  · simp only [hall, Bool.false_eq_true, if_false]
    have hspec : specRange val off len =
        (val.drop ((BlobRange.mk off len).positiveRange val.length).offset.toNat).take
          ((BlobRange.mk off len).positiveRange val.length).length.toNat := by
      unfold specRange
      simp only [Bool.or_eq_true, beq_iff_eq, decide_eq_true_eq]
      rw [← s1, ← s4]
    rw [hspec]
    by_cases hz : (((BlobRange.mk off len).positiveRange val.length).length == 0) = true
    · simp only [hz, if_true]
      have hz' : ((BlobRange.mk off len).positiveRange val.length).length = 0 := by simpa using hz
      unfold goSlice
      have : 0 ≤ ((BlobRange.mk off len).positiveRange val.length).offset ∧
          ((BlobRange.mk off len).positiveRange val.length).offset ≤ (val.length : Int) ∧ (val.length : Int) ≤ val.length :=
        ⟨s2, s3, Int.le_refl _⟩
      simp only [this, and_self, if_true, hz']
      -- p.length = 0 forces p.offset = size: both sides are empty
      have hend : ((BlobRange.mk off len).positiveRange val.length).offset = val.length := by
        rw [s4] at hz'
        split at hz' <;> omega
      rw [hend]; simp
    · simp only [hz, Bool.false_eq_true, if_false]
      rw [wrap64_id _ (by omega) (by omega)]
      unfold goSlice
      have : 0 ≤ ((BlobRange.mk off len).positiveRange val.length).offset ∧
          ((BlobRange.mk off len).positiveRange val.length).offset ≤
            ((BlobRange.mk off len).positiveRange val.length).offset + ((BlobRange.mk off len).positiveRange val.length).length ∧
          ((BlobRange.mk off len).positiveRange val.length).offset + ((BlobRange.mk off len).positiveRange val.length).length ≤ (val.length : Int) :=
        ⟨s2, by omega, s6⟩
      simp only [this, and_self, if_true]
      congr 2; omega

/-- **Ranged reads return exactly the requested bytes** (local store: seek + limited reader), on
the domain -/
theorem range_read_exact_local (val : Bytes) (off len : Int) (h : InDomain off len val.length) :
    localRead val ⟨off, len⟩ = .ok (specRange val off len) := by
  have hs := positiveRange_spec off len val.length h
  obtain ⟨h1, h2, h3, h4, h5, h6⟩ := h
  simp only at hs
  obtain ⟨s1, s2, s3, s4, s5, s6⟩ := hs
  unfold localRead
  by_cases hneg : off < 0
  · simp only [hneg, if_true]
    have hnn : ¬ ((BlobRange.mk off len).positiveRange val.length).offset < 0 := by omega
    simp only [hnn, if_false]
    have hspec : specRange val off len =
        (val.drop ((BlobRange.mk off len).positiveRange val.length).offset.toNat).take
          ((BlobRange.mk off len).positiveRange val.length).length.toNat := by
      unfold specRange
      simp only [Bool.or_eq_true, beq_iff_eq, decide_eq_true_eq]
      rw [← s1, ← s4]
    rw [hspec]
    by_cases hz : ((BlobRange.mk off len).positiveRange val.length).length = 0
    · have hend : ((BlobRange.mk off len).positiveRange val.length).offset = val.length := by
        rw [s4] at hz
        split at hz <;> omega
      simp [hz, hend]
    · simp [hz]
  · simp only [hneg, if_false]
    have hnn : ¬ off < 0 := hneg
    unfold specRange
    simp only [hneg, if_false, Bool.or_eq_true, beq_iff_eq, decide_eq_true_eq]
    have hrest : (val.drop off.toNat).length = (val.length : Int) - off := by
      rw [List.length_drop]; omega
    by_cases hz : len = 0
    · subst hz
      simp only [true_or, if_true, bne_self_eq_false, Bool.false_eq_true, if_false]
      congr 1
      rw [List.take_of_length_le]; omega
    · have hb : (len != 0) = true := by simpa using hz
      simp only [hb, if_true, hz, false_or]
      by_cases hc : off + len > val.length
      · simp only [hc, if_true]
        congr 1
        rw [List.take_of_length_le (by omega), List.take_of_length_le (by omega)]
      · simp only [hc, if_false]

example : InDomain (-3) 0 10 := ⟨by omega, by omega, by omega, by omega, by omega, by omega⟩

/-- outside the domain the in-memory store panics (finding `inmem-range-out-of-bounds-panic`) … -/
theorem inmem_panics_beyond : inmemRead [1] ⟨-4, 0⟩ = .panic ∧ inmemRead [1] ⟨2, 0⟩ = .panic := by decide
/-- … and an in-bounds offset with a length near MaxInt64 overflows the clamp test
(finding `inmem-range-length-overflow-panic`), while the local store reads to EOF -/
theorem inmem_panics_overflow : inmemRead [1, 2, 3] ⟨-1, 9223372036854775807⟩ = .panic ∧
    localRead [1, 2, 3] ⟨-1, 9223372036854775807⟩ = .ok [3] := by decide
/-- the local store on the same out-of-domain offsets: nothing / an error, never wrong bytes -/
theorem local_beyond : localRead [1] ⟨2, 0⟩ = .ok [] ∧ localRead [1] ⟨-4, 0⟩ = .error := by decide

/-- `asHttpRangeHeader` renders an open-ended range from a positive offset as `bytes=N`, which is
not a byte-range-spec of RFC 7233 (`bytes=N-`); used by the S3 and OCI backends (out of reach
offline).  No nbs caller passes (offset > 0, length 0). -/
theorem header_open_ended : (BlobRange.mk 5 0).asHttpRangeHeader = "bytes=5" ∧
    (BlobRange.mk (-5) 0).asHttpRangeHeader = "bytes=-5" ∧ (BlobRange.mk 5 3).asHttpRangeHeader = "bytes=5-7" ∧
    (BlobRange.mk 0 0).asHttpRangeHeader = "" := by decide

-- ------------------------------------------------------------------ concatenation

theorem concat_spec (blobs : List Bytes) : concat blobs = blobs.flatten := by
  induction blobs with
  | nil => rfl
  | cons b t ih => simp [concat, List.foldr] at ih ⊢; rw [← ih]

theorem concat_append (a b : List Bytes) : concat (a ++ b) = concat a ++ concat b := by
  simp [concat_spec]

theorem concat_length (blobs : List Bytes) : (concat blobs).length = (blobs.map List.length).sum := by
  simp [concat_spec, List.length_flatten]

-- ------------------------------------------------------------------ conditional update = CAS

theorem cap_success_iff (r : Reg) (e : Nat) (c : Bytes) : (cap r e c).2 = true ↔ e = r.ver := by
  unfold cap; split <;> simp_all

theorem cap_success (r : Reg) (e : Nat) (c : Bytes) (h : e = r.ver) : cap r e c = (⟨c, r.ver + 1⟩, true) := by
  simp [cap, h]

theorem cap_failure (r : Reg) (e : Nat) (c : Bytes) (h : e ≠ r.ver) : cap r e c = (r, false) := by
  simp [cap, h]

theorem cap_ver_mono (r : Reg) (e : Nat) (c : Bytes) : r.ver ≤ (cap r e c).1.ver := by
  unfold cap; split <;> simp

/-- once the version has passed `e`, every later update expecting `e` fails -/
theorem run_fail_below (r : Reg) (ops : List (Nat × Bytes)) :
    ∀ p ∈ (run r ops).2.zip ops, p.2.1 < r.ver → p.1 = false := by
  induction ops generalizing r with
  | nil => simp [run]
  | cons op t ih =>
    obtain ⟨e, c⟩ := op
    intro p hp hlt
    simp only [run, List.zip_cons_cons, List.mem_cons] at hp
    rcases hp with rfl | hp
    · simp only at hlt ⊢
      have : e ≠ r.ver := by omega
      rw [cap_failure r e c this]
    · exact ih _ p hp (Nat.lt_of_lt_of_le hlt (cap_ver_mono r e c))

/-- **At most one winner per expected version**, for every schedule of the writers' critical
sections: if an update succeeded, every later update with the same expected version fails. -/
theorem cap_is_cas (r : Reg) (ops : List (Nat × Bytes)) :
    ((run r ops).2.zip ops).Pairwise (fun a b => a.1 = true → a.2.1 = b.2.1 → b.1 = false) := by
  induction ops generalizing r with
  | nil => simp [run]
  | cons op t ih =>
    obtain ⟨e, c⟩ := op
    simp only [run, List.zip_cons_cons, List.pairwise_cons]
    refine ⟨?_, ih _⟩
    intro b hb hok heq
    have he : e = r.ver := (cap_success_iff r e c).mp hok
    apply run_fail_below _ _ b hb
    rw [cap_success r e c he]
    simp only at heq ⊢
    omega

/-- **Register semantics**: the final content is that of the last successful update (the initial
content if none succeeded), and the version counts the successes. -/
theorem run_final (r : Reg) (ops : List (Nat × Bytes)) :
    (run r ops).1.content = ((run r ops).2.zip ops).foldl (fun acc p => if p.1 then p.2.2 else acc) r.content ∧
    (run r ops).1.ver = r.ver + ((run r ops).2.filter (· = true)).length := by
  induction ops generalizing r with
  | nil => simp [run]
  | cons op t ih =>
    obtain ⟨e, c⟩ := op
    simp only [run, List.zip_cons_cons, List.foldl_cons]
    obtain ⟨ih1, ih2⟩ := ih (cap r e c).1
    by_cases he : e = r.ver
    · rw [cap_success r e c he] at ih1 ih2 ⊢
      simp only [if_true, List.filter_cons, decide_true] at ih1 ih2 ⊢
      exact ⟨ih1, by rw [ih2]; simp; omega⟩
    · rw [cap_failure r e c he] at ih1 ih2 ⊢
      simp only [Bool.false_eq_true, if_false, List.filter_cons, decide_false] at ih1 ih2 ⊢
      exact ⟨ih1, ih2⟩

/-- a success installs exactly the offered content under a version never seen before -/
theorem cap_installs (r : Reg) (e : Nat) (c : Bytes) (h : (cap r e c).2 = true) :
    (cap r e c).1.content = c ∧ (cap r e c).1.ver = r.ver + 1 ∧ r.ver < (cap r e c).1.ver := by
  have := (cap_success_iff r e c).mp h
  rw [cap_success r e c this]; simp

-- ------------------------------------------------------------------ the git backend's retry loop

theorem run_append (r : Reg) (a b : List (Nat × Bytes)) :
    (run r (a ++ b)).1 = (run (run r a).1 b).1 := by
  induction a generalizing r with
  | nil => simp [run]
  | cons op t ih => obtain ⟨e, c⟩ := op; simp only [List.cons_append, run]; exact ih _

/-- **The retry loop with re-validation on every attempt is one atomic compare-and-swap**: whatever
the other clients' updates that land between this client's fetches and pushes (`ws`), the outcome
of `CheckAndPutManifest` equals a single `cap` step applied to a state reached from the initial
one by other clients' conditional updates only — i.e. the operation linearizes at its last fetch.
(Git backend: `Tie.Blobstore.git_cap_revalidates` ties `checkEvery = true` to the source.) -/
theorem capRetry_is_cap (r : Reg) (e : Nat) (c : Bytes) (ws : List (List (Nat × Bytes))) (first : Bool) :
    ∃ others, capRetry true r e c ws first = cap (run r others).1 e c := by
  induction ws generalizing r first with
  | nil =>
    refine ⟨[], ?_⟩
    simp only [capRetry, Bool.true_or, Bool.true_and, run, cap]
    by_cases h : e = r.ver <;> simp [h]
  | cons w ws ih =>
    simp only [capRetry, Bool.true_or, Bool.true_and]
    by_cases h : e = r.ver
    · simp only [h, bne_self_eq_false, Bool.false_eq_true, if_false]
      by_cases hl : (run r w).1 = r
      · refine ⟨[], ?_⟩; simp [hl, run, cap]
      · simp only [hl, if_false]
        obtain ⟨others, ho⟩ := ih (run r w).1 false
        refine ⟨w ++ others, ?_⟩
        rw [run_append, ← h]; exact ho
    · refine ⟨[], ?_⟩
      have : (e != r.ver) = true := by simpa using h
      simp [this, run, cap, h]

/-- …whereas validating only on the first attempt is NOT a compare-and-swap: another client's
update from version 1 lands before the push, the retry overwrites it, and both writers that
expected version 1 succeed (the seeded breakage of the git backend; harness key
`cas-two-winners:git`). -/
theorem capRetry_first_only_breaks :
    (capRetry false ⟨[0], 1⟩ 1 [9] [[(1, [7])]] true) = (⟨[9], 3⟩, true) ∧
    (run ⟨[0], 1⟩ [(1, [7])]).2 = [true] ∧
    (capRetry true ⟨[0], 1⟩ 1 [9] [[(1, [7])]] true) = (⟨[7], 2⟩, false) := by decide

-- non-vacuity: two writers race from the empty store, a third from version 1
example : (run Reg.empty [(0, [1]), (0, [2]), (1, [3]), (1, [4])]).2 = [true, false, true, false] ∧
    (run Reg.empty [(0, [1]), (0, [2]), (1, [3]), (1, [4])]).1 = ⟨[3], 2⟩ := by decide

end DoltVerif.C42
