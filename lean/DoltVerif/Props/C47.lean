import DoltVerif.Lemmas.Undrop
/-!
C47 — A dropped database can be restored intact until it is purged.

Statements are about `Model/Undrop.lean` (the dropped-database manager and the provider steps around
it over a path-set model of the file system).  A database *is* the files under its directory
(`subtree fs [d]`): branches, tags, commits, working sets and tables are all stored there, so equal
subtrees mean an identical database.
-/
deriving instance DecidableEq for Except

namespace DoltVerif.C47
open DoltVerif.Undrop

theorem pathExists_parent {fs : FS} {a b : Name} (h : pathExists fs [a, b] = true) : pathExists fs [a] = true := by
  unfold pathExists at h ⊢
  rw [Bool.or_eq_true] at h ⊢
  rcases h with h | h
  · simp at h
  · right
    rw [List.any_eq_true] at h ⊢
    obtain ⟨e, he, hp⟩ := h
    refine ⟨e, he, ?_⟩
    cases hq : e.1 with
    | nil => rw [hq] at hp; simp [List.isPrefixOf] at hp
    | cons x xs =>
      rw [hq] at hp
      simp only [List.isPrefixOf, Bool.and_eq_true] at hp
      simp [List.isPrefixOf, hp.1]

theorem head_ne_not_prefix {a b : Name} (h : a ≠ b) (r q : Path) : (a :: r).isPrefixOf (b :: q) = false := by
  simp [List.isPrefixOf, h]

theorem backupName_ne (d : Name) (ms : Nat) : backupName d ms ≠ d := by
  intro h
  have := congrArg List.length h
  simp only [backupName, backupInfix, List.length_append, List.length_cons, List.length_nil, List.length_map] at this
  omega

theorem second_ne_not_prefix {h a b : Name} (hab : a ≠ b) (r : Path) :
    [h, a].isPrefixOf ([h, b] ++ r) = false := by
  simp [List.isPrefixOf, hab]

theorem subtree_initHolding {fs fs' : FS} {p : Path} (h : initHolding fs = .ok fs')
    (hp : p.isPrefixOf [holding] = false) : subtree fs' p = subtree fs p := by
  unfold initHolding at h
  split at h
  · cases h
  · split at h
    · cases h; rfl
    · cases h
      have hmk : mkDirs fs [holding] = if pathExists fs [holding] then fs else fs ++ [([holding], .dir)] := rfl
      rw [hmk]
      split
      · rfl
      · apply subtree_append_other
        intro e he
        simp only [List.mem_singleton] at he
        subst he
        exact hp

theorem subtree_prepareToMove {fs fs' : FS} {t p : Path} {ms : Nat} (h : prepareToMove fs t ms = .ok fs')
    (hs : ∀ q : Path, p.isPrefixOf q = true → t.isPrefixOf q = false)
    (hd : ∀ (b : Name) (r : Path), p.isPrefixOf (t.dropLast ++ [b] ++ r) = false) :
    subtree fs' p = subtree fs p := by
  unfold prepareToMove at h
  split at h
  · cases h; rfl
  · split at h
    · cases h
    · simp only at h
      split at h
      · cases h
      · split at h
        · rename_i hm
          cases h
          apply subtree_moveDir_other hm hs
          intro r
          simpa using hd _ r
        · cases h

/-- **undrop_drop.**  Drop a (nested) database `d`, then move its dropped copy back — which is what
`dolt_undrop` does when its validation selects the entry `d` of the holding directory (no purge in
between, no live entry with the same case-folded name, see `undrop_never_overwrites`) — and the
files under the database directory are exactly the ones from before the drop: every branch, tag,
commit, working set and table.  Whatever else happened to sit in the holding directory (an earlier
dropped copy of the same name is renamed first) is irrelevant. -/
theorem undrop_drop {fs fs1 fs1' fs2 : FS} {name d : Name} {ms : Nat} (hd : d ≠ holding)
    (hdrop : managerDrop fs name [d] ms = .ok fs1)
    (hinit : initHolding fs1 = .ok fs1')
    (hmove : moveDir fs1' [holding, d] [d] = .ok fs2) :
    subtree fs2 [d] = subtree fs [d] := by
  have hdh : [d].isPrefixOf [holding] = false := by simp [List.isPrefixOf, hd]
  have hne : holding ≠ d := fun h => hd h.symm
  unfold managerDrop at hdrop
  simp only [show ([d] == ([] : Path)) = false from rfl, Bool.false_and, Bool.false_eq_true, if_false,
    List.getLast?_singleton] at hdrop
  split at hdrop
  · cases hdrop
  · rename_i fsA hA
    split at hdrop
    · cases hdrop
    · rename_i fsB hB
      rw [subtree_moveDir hmove]
      rw [subtree_initHolding hinit (by simp [List.isPrefixOf])]
      rw [subtree_moveDir hdrop]
      rw [subtree_prepareToMove hB
        (fun q hq => by
          cases q with
          | nil => simp [List.isPrefixOf] at hq
          | cons x xs =>
            have : d = x := by simpa [List.isPrefixOf] using hq
            subst this
            exact head_ne_not_prefix hne _ _)
        (fun b r => by simp [List.isPrefixOf, hd])]
      exact subtree_initHolding hA hdh

/-- the state-level reading: `DROP DATABASE` then `dolt_undrop`, when the undrop's validation
resolves to the directory name `d` that was dropped, registers `d` again over identical files -/
theorem undrop_drop_state {st st1 st2 : St} {n n' d : Name} {ms : Nat} (hd : d ≠ holding)
    (hlive : findLive st.live n = some (d, [d]))
    (h1 : dropDb st n ms = (st1, .ok ()))
    (hsel : ∃ fs1', initHolding st1.fs = .ok fs1' ∧ firstFoldMatch (children fs1' [holding]) n' = some d)
    (h2 : (undropDb st1 n').2 = .ok ()) :
    subtree (undropDb st1 n').1.fs [d] = subtree st.fs [d] ∧ (d, [d]) ∈ (undropDb st1 n').1.live := by
  obtain ⟨fs1', hinit, hm⟩ := hsel
  unfold dropDb at h1
  rw [hlive] at h1
  simp only at h1
  cases hD : managerDrop st.fs n [d] ms with
  | error e => rw [hD] at h1; cases h1
  | ok fsD =>
    rw [hD] at h1
    cases h1
    by_cases hc : (children fs1' []).any (fun x => eqFold x d) = true
    · simp [undropDb, validateUndrop, hinit, hm, hc] at h2
    · cases hmv : moveDir fs1' [holding, d] [d] with
      | error e => simp [undropDb, validateUndrop, hinit, hm, hc, hmv] at h2
      | ok fs2 =>
        by_cases hdir : isDirAt fs2 [d, doltDir] = true
        · have hres : undropDb { fs := fsD, live := List.filter (fun x => !eqFold x.1 n) st.live } n' =
              ({ fs := fs2, live := List.filter (fun x => !eqFold x.1 n) st.live ++ [(d, [d])] }, .ok ()) := by
            simp [undropDb, validateUndrop, hinit, hm, hc, hmv, hdir]
          rw [hres]
          exact ⟨undrop_drop hd hD hinit hmv, by simp⟩
        · simp [undropDb, validateUndrop, hinit, hm, hc, hmv, hdir] at h2

/-- **undrop_never_overwrites.**  If any entry of the data directory — in particular the directory
of a live database — has the same case-folded name as the dropped copy that `dolt_undrop(name)`
selects, the call fails with "another database already exists…" and neither the registered
databases nor any stored path other than the (possibly just created, empty) holding directory
change. -/
theorem undrop_never_overwrites {st : St} {name exact : Name} {fs1 : FS}
    (hinit : initHolding st.fs = .ok fs1)
    (hm : firstFoldMatch (children fs1 [holding]) name = some exact)
    (hclash : (children fs1 []).any (fun n => eqFold n exact) = true) :
    undropDb st name = (st, .error .nameTaken) := by
  unfold undropDb validateUndrop
  simp [hinit, hm, hclash]

/-- a live database directory does produce such an entry -/
theorem mem_insertSorted {s x : Name} {l : List Name} : x ∈ insertSorted s l ↔ x = s ∨ x ∈ l := by
  induction l with
  | nil => simp [insertSorted]
  | cons y ys ih =>
    unfold insertSorted
    split
    · simp
    · split
      · rename_i _ he; subst he; simp
      · simp only [List.mem_cons, ih]
        constructor
        · rintro (h | h | h)
          · exact .inr (.inl h)
          · exact .inl h
          · exact .inr (.inr h)
        · rintro (h | h | h)
          · exact .inr (.inl h)
          · exact .inl h
          · exact .inr (.inr h)

theorem mem_children_root {fs : FS} {d : Name} {r : Path} {en : Entry} (h : (d :: r, en) ∈ fs) :
    d ∈ children fs [] := by
  unfold children
  have key : ∀ (l : FS) (acc : List Name), (d ∈ acc ∨ (d :: r, en) ∈ l) →
      d ∈ l.foldl (fun acc e => if ([] : Path).isPrefixOf e.1 then
        match (e.1.drop ([] : Path).length).head? with
        | some n => insertSorted n acc
        | none => acc else acc) acc := by
    intro l
    induction l with
    | nil => intro acc h; rcases h with h | h; exact h; cases h
    | cons e rest ih =>
      intro acc h
      simp only [List.foldl_cons]
      apply ih
      rcases h with h | h
      · left
        simp only [List.isPrefixOf, if_true, List.length_nil, List.drop_zero]
        split
        · exact mem_insertSorted.2 (.inr h)
        · exact h
      · cases h with
        | head => left; simp [mem_insertSorted]
        | tail _ h' => exact .inr h'
  exact key fs [] (.inr h)

theorem undrop_blocked_by_live_dir {st : St} {name exact d : Name} {r : Path} {en : Entry} {fs1 : FS}
    (hinit : initHolding st.fs = .ok fs1) (hmem : (d :: r, en) ∈ fs1)
    (hm : firstFoldMatch (children fs1 [holding]) name = some exact)
    (hfold : eqFold d exact = true) : undropDb st name = (st, .error .nameTaken) := by
  apply undrop_never_overwrites hinit hm
  rw [List.any_eq_true]
  exact ⟨d, mem_children_root hmem, hfold⟩

/-- **no_data_destroyed.**  `DROP DATABASE` and `dolt_undrop`, whatever their outcome, keep the
content of every stored file (they only create directories and rename path prefixes). -/
theorem no_data_destroyed (st : St) (name : Name) (ms : Nat) :
    contents (dropDb st name ms).1.fs = contents st.fs ∧ contents (undropDb st name).1.fs = contents st.fs := by
  constructor
  · unfold dropDb
    split
    · rfl
    · simp only
      split
      · rename_i h; exact contents_managerDrop h
      · rfl
  · unfold undropDb validateUndrop
    split
    · rename_i e hv
      rfl
    · rename_i fs1 src dst exact hv
      have hc1 : contents fs1 = contents st.fs := by
        split at hv
        · cases hv
        · rename_i fsA hA
          split at hv
          · cases hv
          · split at hv
            · cases hv
            · cases hv; exact contents_initHolding hA
      split
      · exact hc1
      · rename_i fs2 hmv
        have := contents_moveDir hmv
        split <;> simp only [this, hc1]

/-- **redrop_same_name** — the rule, stated outright.  Dropping a database `d` while the holding
directory already has an entry `d` (an earlier dropped database of the same directory name)
*renames the earlier copy* to `d.backup.<ms>` (`ms` = current time in milliseconds) and then
moves the new one to `d`: afterwards the earlier copy's files are all under
`.dolt_dropped_databases/d.backup.<ms>`, the newly dropped database's files under
`.dolt_dropped_databases/d`, and no file content is lost.  Both remain listed by `dolt_undrop`
(the earlier one under the name `d.backup.<ms>`).  If `d.backup.<ms>` exists too (two re-drops
within one millisecond) the drop fails with an error and moves nothing. -/
theorem redrop_same_name {fs fs1 : FS} {name d : Name} {ms : Nat} (hd : d ≠ holding)
    (hex : pathExists fs [holding, d] = true)
    (hdrop : managerDrop fs name [d] ms = .ok fs1) :
    subtree fs1 [holding, backupName d ms] = subtree fs [holding, d] ∧
    subtree fs1 [holding, d] = subtree fs [d] ∧ contents fs1 = contents fs := by
  have hb : backupName d ms ≠ d := backupName_ne d ms
  refine ⟨?_, ?_, contents_managerDrop hdrop⟩
  · -- the earlier copy
    have hne : holding ≠ d := fun h => hd h.symm
    unfold managerDrop at hdrop
    simp only [show ([d] == ([] : Path)) = false from rfl, Bool.false_and, Bool.false_eq_true, if_false,
      List.getLast?_singleton] at hdrop
    split at hdrop
    · cases hdrop
    · rename_i fsA hA
      split at hdrop
      · cases hdrop
      · rename_i fsB hB
        have hAeq : subtree fsA [holding, d] = subtree fs [holding, d] :=
          subtree_initHolding hA (by simp [List.isPrefixOf])
        -- the final move of [d] does not touch the backup
        rw [subtree_moveDir_other hdrop
          (fun q hq => by
            cases q with
            | nil => simp [List.isPrefixOf] at hq
            | cons x xs =>
              have : holding = x := by
                simp only [List.isPrefixOf, Bool.and_eq_true, beq_iff_eq] at hq; exact hq.1
              subst this
              exact head_ne_not_prefix hd _ _)
          (fun r => second_ne_not_prefix hb r)]
        -- prepareToMove renamed it there
        have hexA : pathExists fsA [holding, d] = true := by
          unfold initHolding at hA
          split at hA
          · cases hA
          · split at hA
            · cases hA; exact hex
            · rename_i hnh
              exfalso
              have : pathExists fs [holding] = true := pathExists_parent hex
              exact hnh this
        unfold prepareToMove at hB
        simp only [hexA, Bool.not_true, Bool.false_eq_true, if_false] at hB
        simp only [show ([holding, d] : Path).getLast? = some d from rfl,
          show ([holding, d] : Path).dropLast = [holding] from rfl, List.singleton_append] at hB
        split at hB
        · cases hB
        · split at hB
          · rename_i hmv
            cases hB
            rw [subtree_moveDir hmv, hAeq]
          · cases hB
  · -- the newly dropped database
    have hne : holding ≠ d := fun h => hd h.symm
    have hdh : [d].isPrefixOf [holding] = false := by simp [List.isPrefixOf, hd]
    unfold managerDrop at hdrop
    simp only [show ([d] == ([] : Path)) = false from rfl, Bool.false_and, Bool.false_eq_true, if_false,
      List.getLast?_singleton] at hdrop
    split at hdrop
    · cases hdrop
    · rename_i fsA hA
      split at hdrop
      · cases hdrop
      · rename_i fsB hB
        rw [subtree_moveDir hdrop]
        rw [subtree_prepareToMove hB
          (fun q hq => by
            cases q with
            | nil => simp [List.isPrefixOf] at hq
            | cons x xs =>
              have : d = x := by simpa [List.isPrefixOf] using hq
              subst this
              exact head_ne_not_prefix hne _ _)
          (fun b r => by simp [List.isPrefixOf, hd])]
        exact subtree_initHolding hA hdh

theorem purge_fold_sub : ∀ (ns : List Name) (fs : FS),
    ∀ e ∈ ns.foldl (fun acc n => deleteAll acc [holding, n]) fs, e ∈ fs
  | [], _, e, h => h
  | n :: rest, fs, e, h => by
    simp only [List.foldl_cons] at h
    exact (List.mem_filter.1 (purge_fold_sub rest _ e h)).1

theorem purge_fold_keep : ∀ (ns : List Name) (fs : FS) (e : Path × Entry), e ∈ fs →
    [holding].isPrefixOf e.1 = false → e ∈ ns.foldl (fun acc n => deleteAll acc [holding, n]) fs
  | [], _, _, h, _ => h
  | n :: rest, fs, e, h, hp => by
    simp only [List.foldl_cons]
    apply purge_fold_keep rest _ e _ hp
    unfold deleteAll
    rw [List.mem_filter]
    refine ⟨h, ?_⟩
    cases hq : e.1 with
    | nil => simp [List.isPrefixOf]
    | cons x xs =>
      rw [hq] at hp
      have : (holding == x) = false := by
        cases hx : (holding == x) with
        | false => rfl
        | true => simp [List.isPrefixOf, hx] at hp
      simp [List.isPrefixOf, this]

/-- **purge_confined.**  `dolt_purge_dropped_databases` always succeeds in the model, leaves the
registered databases alone, never creates a path, and keeps every stored path that is not under
the holding directory. -/
theorem purge_confined (st : St) :
    (purge st).2 = .ok () ∧ (purge st).1.live = st.live ∧
    (∀ e ∈ (purge st).1.fs, e ∈ st.fs) ∧
    (∀ e ∈ st.fs, [holding].isPrefixOf e.1 = false → e ∈ (purge st).1.fs) := by
  unfold purge
  split
  · exact ⟨rfl, rfl, fun e h => h, fun e h _ => h⟩
  · exact ⟨rfl, rfl, purge_fold_sub _ _, purge_fold_keep _ _⟩

/-! ### which dropped copy a restore selects -/

theorem find_exact {cands : List Name} {n : Name} (h : n ∈ cands) : cands.find? (fun s => s == n) = some n := by
  induction cands with
  | nil => cases h
  | cons x xs ih =>
    rw [List.find?_cons]
    by_cases hx : x = n
    · subst hx; simp
    · have : (x == n) = false := by simpa using hx
      rw [this]
      cases h with
      | head => exact absurd rfl hx
      | tail _ h' => exact ih h'

theorem find_exact_none {cands : List Name} {n : Name} (h : n ∉ cands) : cands.find? (fun s => s == n) = none := by
  rw [List.find?_eq_none]
  intro x hx hxn
  have : x = n := by simpa using hxn
  subst this
  exact h hx

theorem eqFold_refl (n : Name) : eqFold n n = true := by simp [eqFold]

/-- the selection rule of the repaired `hasCaseInsensitiveMatch` -/
theorem select_rule (cands : List Name) (n : Name) :
    (n ∈ cands → firstFoldMatch cands n = some n) ∧
    (n ∉ cands → firstFoldMatch cands n = cands.find? (fun s => eqFold n s)) := by
  constructor
  · intro h; simp [firstFoldMatch, find_exact h]
  · intro h; simp [firstFoldMatch, find_exact_none h]

theorem select_folds {cands : List Name} {n ex : Name} (h : firstFoldMatch cands n = some ex) :
    eqFold n ex = true ∧ ex ∈ cands := by
  unfold firstFoldMatch at h
  split at h
  · rename_i s hs
    cases h
    have := List.find?_some hs
    have hm := List.mem_of_find?_eq_some hs
    have : ex = n := by simpa using this
    subst this
    exact ⟨eqFold_refl _, hm⟩
  · have := List.find?_some h
    exact ⟨by simpa using this, List.mem_of_find?_eq_some h⟩

/-- what a successful `dolt_undrop(n)` registers: the selected entry of the holding directory -/
theorem undrop_selects {st : St} {n : Name} (h : (undropDb st n).2 = .ok ()) :
    ∃ fs1 exact, initHolding st.fs = .ok fs1 ∧ firstFoldMatch (children fs1 [holding]) n = some exact ∧
      eqFold n exact = true ∧ (exact, [exact]) ∈ (undropDb st n).1.live := by
  cases hA : initHolding st.fs with
  | error e => simp [undropDb, validateUndrop, hA] at h
  | ok fsA =>
    cases hm : firstFoldMatch (children fsA [holding]) n with
    | none => simp [undropDb, validateUndrop, hA, hm] at h
    | some ex =>
      have hfold : eqFold n ex = true := (select_folds hm).1
      by_cases hc : (children fsA []).any (fun x => eqFold x ex) = true
      · simp [undropDb, validateUndrop, hA, hm, hc] at h
      · cases hmv : moveDir fsA [holding, ex] [ex] with
        | error e => simp [undropDb, validateUndrop, hA, hm, hc, hmv] at h
        | ok fs2 =>
          by_cases hdir : isDirAt fs2 [ex, doltDir] = true
          · exact ⟨fsA, ex, rfl, hm, hfold, by simp [undropDb, validateUndrop, hA, hm, hc, hmv, hdir]⟩
          · simp [undropDb, validateUndrop, hA, hm, hc, hmv, hdir] at h

/-- **undrop_exact_name.**  Whenever the holding directory has an entry called exactly `n`, a
successful `dolt_undrop(n)` restores *that* dropped database — whatever other dropped databases
with the same case-folded name exist (this was false before dolt commit 5f0cdf2; the former
refuting witness is now the regression case corpus/C47/wrong-case-copy.json). -/
theorem undrop_exact_name {st : St} {n : Name} {fs1 : FS} (hinit : initHolding st.fs = .ok fs1)
    (hmem : n ∈ children fs1 [holding]) (h : (undropDb st n).2 = .ok ()) :
    (n, [n]) ∈ (undropDb st n).1.live := by
  obtain ⟨fsA, ex, hA, hm, _, hl⟩ := undrop_selects h
  rw [hinit] at hA
  cases hA
  rw [(select_rule _ n).1 hmem] at hm
  cases hm
  exact hl

/-- **undrop_fold_only.**  When no dropped database is called exactly `n`, `dolt_undrop(n)` restores
the first entry of the holding directory, in ascending byte order of the names, whose case-folded
name equals that of `n` (so with `DBX` and `Dbx` both dropped, `dolt_undrop('dbx')` restores `DBX`);
it is a case-insensitive match and it is one of the dropped databases. -/
theorem undrop_fold_only {st : St} {n : Name} {fs1 : FS} (hinit : initHolding st.fs = .ok fs1)
    (hno : n ∉ children fs1 [holding]) (h : (undropDb st n).2 = .ok ()) :
    ∃ ex, (children fs1 [holding]).find? (fun s => eqFold n s) = some ex ∧ ex ≠ n ∧
      (ex, [ex]) ∈ (undropDb st n).1.live := by
  obtain ⟨fsA, ex, hA, hm, _, hl⟩ := undrop_selects h
  rw [hinit] at hA
  cases hA
  rw [(select_rule _ n).2 hno] at hm
  refine ⟨ex, hm, ?_, hl⟩
  intro he
  subst he
  exact hno (List.mem_of_find?_eq_some hm)

def witnessOps (st : St) : St :=
  let s1 := (createDb st (bytes "dbx") 1).1
  let s2 := (dropDb s1 (bytes "dbx") 5).1
  let s3 := (createDb s2 (bytes "DBX") 2).1
  (dropDb s3 (bytes "DBX") 6).1

/-- dropped: `DBX` (incarnation 2) and `dbx` (incarnation 1) -/
def witness : St := witnessOps { fs := [], live := [] }

/-! ### non-vacuity -/

/-- the former counterexample: the exactly named copy comes back -/
example : (undropDb witness (bytes "dbx")).1.live = [((bytes "dbx"), [(bytes "dbx")])] := by decide

/-- fold-only request: the first entry in byte order -/
example : (undropDb witness (bytes "Dbx")).1.live = [((bytes "DBX"), [(bytes "DBX")])] := by decide

example : let s1 := (createDb { fs := [], live := [] } (bytes "dbx") 1).1
          let s2 := (dropDb s1 (bytes "DBX") 5).1
          let s3 := (undropDb s2 (bytes "Dbx")).1
          subtree s3.fs [(bytes "dbx")] = subtree s1.fs [(bytes "dbx")] ∧ s3.live = [((bytes "dbx"), [(bytes "dbx")])] := by decide

end DoltVerif.C47
