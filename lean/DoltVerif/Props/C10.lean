import DoltVerif.Lemmas.CorruptStages
import DoltVerif.Lemmas.CorruptLookup
import DoltVerif.Lemmas.CorruptArchive
import DoltVerif.Lemmas.CorruptJournal
import DoltVerif.Model.CorruptWitness
/-!
C10 — Corrupted storage files are reported, never misread.

The models (`Model/CorruptTable.lean`, `Model/CorruptFormats.lean`) are PANIC-FAITHFUL
transliterations: where the Go code would slice / index out of range (or call a panicking helper)
they return `.error .panicWouldOccur`.  This file holds

* `parse_total_no_panic_X` for the parsers that really are total on arbitrary bytes
  (table footer, table index, manifest, journal index, archive footer),
* for the parsers / accessors that are NOT panic-free, the full statement as a `def …_full : Prop`,
  its refutation by a concrete crashing file (`…_full_false`, replayed on the real code by the
  `corrupt` harness: corpus/C10) and the strongest partial statement proved,
* `get_checked`, `intact_index_correct_data_partial`, and `C10_full` with its refutation.
-/
namespace DoltVerif.C10
open DoltVerif.Corrupt DoltVerif.Corrupt.Table
set_option linter.unusedSimpArgs false

/-! ### parsers that are total on arbitrary byte strings -/

/-- `ReadTableFooter` never indexes out of range, whatever the bytes and their number. -/
theorem parse_total_no_panic_tableFooter (b : Bytes) : readTableFooter b ≠ .error .panicWouldOccur := by
  unfold readTableFooter
  by_cases h : b.length < footerSize
  · simp [h, throw, throwThe, MonadExceptOf.throw, bind, Except.bind]
  · have hl : (b.drop (b.length - footerSize)).length = 20 := by
      simp [List.length_drop, footerSize, uint32Size, uint64Size, magicNumberSize] at *; omega
    have h16 : List.length b - (List.length b - footerSize + 4) = 16 := by
      simp [footerSize, uint32Size, uint64Size, magicNumberSize] at *; omega
    simp only [h, if_false, hl, bind, Except.bind, pure, Except.pure]
    simp [goSliceFrom, be32, be64, hl, uint32Size, uint64Size, doltMagicSize, List.length_take, List.length_drop, throw, throwThe, MonadExceptOf.throw, bind, Except.bind, pure, Except.pure, h16]
    split <;> (try split) <;> simp

/-- `newOnHeapTableIndex`: every slice of `indexBuff` is preceded by the length guard
`len(indexBuff) == indexSize(count)+footerSize`; holds for every count (no uint32/uint64 overflow
in `28*count+20`, `12*count`, `16*count`, `8*(count/2)`). -/
theorem newOnHeapTableIndex_no_panic (b : Bytes) (count total : Nat) :
    newOnHeapTableIndex b count total ≠ .error .panicWouldOccur := by
  unfold newOnHeapTableIndex
  by_cases h : b.length ≠ indexSize count + footerSize
  · simp [h, throw, throwThe, MonadExceptOf.throw, bind, Except.bind]
  · have hl : b.length = count * 28 + 20 := by
      simp [indexSize, footerSize, suffixLen, lengthSize, prefixTupleSize, prefixLen, ordinalSize, uint32Size, uint64Size, magicNumberSize] at h; omega
    have e1 := @goSlice_ok b 0 0 (prefixTupleSize * count) (by simp [prefixTupleSize, prefixLen, ordinalSize]; omega)
    have e2 := @goSlice_ok b 0 (prefixTupleSize * count) (prefixTupleSize * count + lengthSize * count)
      (by simp [prefixTupleSize, prefixLen, ordinalSize, lengthSize]; omega)
    have e3 := @goSlice_ok b 0 (prefixTupleSize * count + lengthSize * count) (indexSize count)
      (by simp [indexSize, suffixLen, prefixTupleSize, prefixLen, ordinalSize, lengthSize]; omega)
    have e4 := @goSliceFrom_ok b 0 b.length (indexSize count)
      (by simp [indexSize, suffixLen, prefixTupleSize, prefixLen, ordinalSize, lengthSize]; omega)
    have e5 := @goSlice_ok b (prefixTupleSize * count) 0 (count / 2 * offsetSize)
      (by simp [prefixTupleSize, prefixLen, ordinalSize, offsetSize]; omega)
    simp only [h, if_false, bind, Except.bind, pure, Except.pure, e1, e2, e3, e4]
    split <;> simp [e5, bind, Except.bind, pure, Except.pure]

/-- `parseTableIndex` is total and panic-free on arbitrary byte strings of arbitrary length. -/
theorem parse_total_no_panic_tableIndex (b : Bytes) : parseTableIndex b ≠ .error .panicWouldOccur := by
  unfold parseTableIndex
  cases hf : readTableFooter b with
  | error e =>
    have := parse_total_no_panic_tableFooter b
    simp only [bind, Except.bind]
    intro hc; rw [hf] at this; injection hc with hc; subst hc; exact this rfl
  | ok ct =>
    obtain ⟨c, t⟩ := ct
    simp only [bind, Except.bind]
    exact newOnHeapTableIndex_no_panic b c t

/-- `buildArchiveFooter` on the `archiveFooterSize` bytes `loadFooter` reads. -/
theorem buildArchiveFooter_no_panic (b : Bytes) (h : b.length = Archive.footerSize) :
    Archive.buildFooter b ≠ .error .panicWouldOccur := by
  have hl : b.length = 220 := by simpa [Archive.footerSize] using h
  unfold Archive.buildFooter
  have hv : ∃ v, b[Archive.versionOffset]? = some v := by
    have : Archive.versionOffset < b.length := by simp [Archive.versionOffset, hl]
    exact ⟨b[Archive.versionOffset], by simp [this]⟩
  obtain ⟨v, hv⟩ := hv
  simp only [goIndex, hv, bind, Except.bind, pure, Except.pure]
  simp [goSliceFrom, goSlice, be32, be64, Archive.sum64, hl, Archive.sigOffset, Archive.indexLenOffset, Archive.byteSpanOffset,
    Archive.chunkCountOffset, Archive.metaLenOffset, Archive.dataChkSumOffset, Archive.indexChkSumOffset, Archive.metaChkSumOffset,
    List.length_take, List.length_drop, throw, throwThe, MonadExceptOf.throw, bind, Except.bind, pure, Except.pure]
  repeat' split
  all_goals simp_all [DoltVerif.Corrupt.panic]

/-- the archive footer parser (`loadFooter` + `buildArchiveFooter`) on an arbitrary file -/
theorem parse_total_no_panic_archiveFooter (file : Bytes) : Archive.loadFooter file ≠ .error .panicWouldOccur := by
  unfold Archive.loadFooter
  split
  · simp
  · rename_i h
    apply buildArchiveFooter_no_panic
    simp [List.length_drop]; omega

/-! ### chunk reads verify the CRC of what they return -/

/-- `NewCompressedChunk` spelled out (`n = uint64(len(buff)) - checksumSize`, wrapping). -/
theorem newCompressedChunk_eq (buff : Bytes) (n : Nat) (hn : n = sub64 buff.length checksumSize) :
    newCompressedChunk buff =
      if n ≤ buff.length then
        if 4 ≤ buff.length - n then
          if beNat ((buff.drop n).take 4) ≠ crc32c (buff.take n) then .error .checksum else .ok (buff.take n)
        else .error .panicWouldOccur
      else .error .panicWouldOccur := by
  unfold newCompressedChunk
  rw [← hn]
  by_cases h1 : n ≤ buff.length
  · rw [if_pos h1]
    have e1 : goSliceFrom buff 0 buff.length n = .ok ((buff.drop n).take (buff.length - n)) := by
      rw [goSliceFrom_ok h1]; simp
    have e2 : goSlice buff 0 0 n = .ok (buff.take n) := by
      rw [goSlice_ok (by omega)]; simp
    have hlen : ((buff.drop n).take (buff.length - n)).length = buff.length - n := by
      simp [List.length_take, List.length_drop]
    by_cases h4 : 4 ≤ buff.length - n
    · rw [if_pos h4]
      have e3 : be32 ((buff.drop n).take (buff.length - n)) = .ok (beNat ((buff.drop n).take 4)) := by
        rw [be32_ok (by omega), List.take_take, Nat.min_eq_left h4]
      simp only [bind, Except.bind, e1, e2, e3, pure, Except.pure]
      split <;> rfl
    · rw [if_neg h4]
      have e3 : be32 ((buff.drop n).take (buff.length - n)) = .error .panicWouldOccur := by
        unfold be32; rw [if_neg (by omega)]; rfl
      simp only [bind, Except.bind, e1, e3]
  · rw [if_neg h1]
    have e1 : goSliceFrom buff 0 buff.length n = .error .panicWouldOccur := by
      unfold goSliceFrom; rw [if_neg h1]; rfl
    simp only [bind, Except.bind, e1]

/-- what a successful `NewCompressedChunk` establishes -/
theorem newCompressedChunk_ok {buff p : Bytes} (h : newCompressedChunk buff = .ok p) :
    p = buff.take (sub64 buff.length checksumSize) ∧
      beNat ((buff.drop (sub64 buff.length checksumSize)).take 4) = crc32c p := by
  rw [newCompressedChunk_eq buff _ rfl] at h
  by_cases h1 : sub64 buff.length checksumSize ≤ buff.length
  · rw [if_pos h1] at h
    by_cases h4 : 4 ≤ buff.length - sub64 buff.length checksumSize
    · rw [if_pos h4] at h
      by_cases hc : beNat ((buff.drop (sub64 buff.length checksumSize)).take 4) ≠ crc32c (buff.take (sub64 buff.length checksumSize))
      · rw [if_pos hc] at h; exact absurd h (by intro h'; injection h')
      · rw [if_neg hc] at h
        injection h with h
        subst h
        exact ⟨rfl, Classical.not_not.mp hc⟩
    · rw [if_neg h4] at h; exact absurd h (by intro h'; injection h')
  · rw [if_neg h1] at h; exact absurd h (by intro h'; injection h')

/-- **get_checked**: a successful table-file read returns a non-empty payload `p` that sits in the
file at the (offset, length) the index gives for the address and passes `NewCompressedChunk`; the
chunk handed to the caller is `dec p` (snappy) — nothing else is verified. -/
theorem get_checked (o : Open) (h p : Bytes) (hg : o.get h = .ok (some p)) :
    ∃ off len buff, o.idx.lookup h = .ok (some (off, len)) ∧ readAt o.kind o.data off len = .ok buff ∧
      newCompressedChunk buff = .ok p ∧ p ≠ [] := by
  obtain ⟨e, hl, he⟩ := get_ok hg
  obtain ⟨off, len, rfl, hch⟩ := getEntry_ok he
  obtain ⟨buff, hr, hc, hp⟩ := getChunk_ok hch
  exact ⟨off, len, buff, hl, hr, hc, hp⟩

/-- … and therefore is followed in the file by its own CRC-32C. -/
theorem get_checked_crc (o : Open) (h p : Bytes) (hg : o.get h = .ok (some p)) :
    ∃ off len buff, o.idx.lookup h = .ok (some (off, len)) ∧ readAt o.kind o.data off len = .ok buff ∧
      p = buff.take (sub64 buff.length checksumSize) ∧
      beNat ((buff.drop (sub64 buff.length checksumSize)).take 4) = crc32c p ∧ p ≠ [] := by
  obtain ⟨off, len, buff, hl, hr, hc, hp⟩ := get_checked o h p hg
  have := newCompressedChunk_ok hc
  exact ⟨off, len, buff, hl, hr, this.1, this.2, hp⟩

/-- **intact_index_correct_data_partial**: corruption confined to the data region (same index,
same reader) gives an error or the same bytes as the intact file, *provided* CRC-32C behaves as an
ideal checksum on the damage (`hideal`: a record of the damaged data that passes
`NewCompressedChunk` is the record the intact file has at that place). -/
theorem intact_index_correct_data_partial (o o' : Open) (h p : Bytes)
    (hidx : o'.idx = o.idx) (hkind : o'.kind = o.kind)
    (hideal : ∀ off len buff', readAt o.kind o'.data off len = .ok buff' →
      (∃ q, newCompressedChunk buff' = .ok q) → readAt o.kind o.data off len = .ok buff')
    (hg : o'.get h = .ok (some p)) : o.get h = .ok (some p) := by
  obtain ⟨off, len, buff, hl, hr, hc, hp⟩ := get_checked o' h p hg
  rw [hidx] at hl
  rw [hkind] at hr
  exact get_of hl (hideal off len buff hr ⟨p, hc⟩) hc hp

/-- without `hideal` the statement is `C10`-style false only through CRC collisions; the hypothesis
is satisfiable (take the undamaged file itself) -/
example (o : Open) (h p : Bytes) (hg : o.get h = .ok (some p)) : o.get h = .ok (some p) :=
  intact_index_correct_data_partial o o h p rfl rfl (fun _ _ _ hr _ => hr) hg

/-! ### Bool-valued observers (so that concrete files can be checked by `decide +kernel`) -/

def okPayload (r : R (Option Bytes)) (p : Bytes) : Bool :=
  match r with
  | .ok (some q) => q == p
  | _ => false

theorem okPayload_eq {r : R (Option Bytes)} {p : Bytes} (h : okPayload r p = true) : r = .ok (some p) := by
  unfold okPayload at h
  cases r with
  | error e => cases h
  | ok v =>
    cases v with
    | none => cases h
    | some q => simp at h; rw [h]

theorem isPanic_eq {α : Type} {r : R α} (h : isPanic r = true) : r = .error .panicWouldOccur := by
  unfold isPanic at h
  cases r with
  | ok v => cases h
  | error e => cases e <;> first | rfl | cases h

/-! ### concrete files (witnesses) -/

/-- the snappy encoding of the 1-byte chunk "A" -/
def wPayload : Bytes := [0x01, 0x00, 0x41]
def wPrefix : Bytes := [1, 2, 3, 4, 5, 6, 7, 8]
def wSuffix (last : UInt8) : Bytes := [9, 10, 11, 12, 13, 14, 15, 16, 17, 18, 19, last]
/-- a valid one-chunk table file: record, prefix tuple (ordinal `ord`), length `len`, suffix, footer -/
def wTable (ord : UInt8) (len : UInt8) (last : UInt8) : Bytes :=
  wPayload ++ natBE 4 (crc32c wPayload) ++ wPrefix ++ [ord, 0, 0, 0] ++ [0, 0, 0, len] ++ wSuffix last
    ++ [0, 0, 0, 1] ++ [0, 0, 0, 0, 0, 0, 0, 1] ++ magic
def wAddr (last : UInt8) : Bytes := wPrefix ++ wSuffix last

/-- the valid file reads back (non-vacuity of everything below) -/
theorem wTable_reads : (openFile (wTable 0 7 20) 1 >>= fun o => o.get (wAddr 20)) = .ok (some wPayload) := by
  apply okPayload_eq; decide +kernel

/-- **C10 at full strength** for table files: whatever the bytes of the file, a successful read of
address `h` returns a chunk whose content hashes to `h` (`H` = SHA-512/20, `dec` = snappy). -/
def C10_full (H : Bytes → Bytes) (dec : Bytes → Option Bytes) : Prop :=
  ∀ (file : Bytes) (mcount : Nat) (o : Open) (h p d : Bytes),
    openFile file mcount = .ok o → o.get h = .ok (some p) → dec p = some d → H d = h

/-- `C10_full` is false for EVERY hash function: the table-file index (prefixes, ordinals, lengths,
suffixes) carries no checksum, and a read verifies CRC-32C of the payload, not `H d = h`.  One
flipped suffix bit (20 → 21) makes the never-stored address `wAddr 21` answer with the bytes stored
under `wAddr 20`.  (DESIGN.md §11(e); confirmed on the real code by the `corrupt` harness, known
shape `tablefile-index-unchecksummed`.) -/
theorem C10_full_false (H : Bytes → Bytes) (dec : Bytes → Option Bytes) (hd : ∃ d, dec wPayload = some d) :
    ¬ C10_full H dec := by
  intro hfull
  obtain ⟨d, hd⟩ := hd
  have key : ∀ last : UInt8, (openFile (wTable 0 7 last) 1 >>= fun o => o.get (wAddr last)) = .ok (some wPayload) →
      H d = wAddr last := by
    intro last h
    cases ho : openFile (wTable 0 7 last) 1 with
    | error e => rw [ho] at h; simp [bind, Except.bind] at h
    | ok o =>
      rw [ho] at h
      exact hfull _ 1 o _ _ d ho (by simpa [bind, Except.bind] using h) hd
  have h20 := key 20 (by apply okPayload_eq; decide +kernel)
  have h21 := key 21 (by apply okPayload_eq; decide +kernel)
  have : wAddr 20 = wAddr 21 := h20.symm.trans h21
  exact absurd this (by decide)

/-- the table-index accessors at full strength: lookups never panic -/
def lookup_no_panic_full : Prop :=
  ∀ (file : Bytes) (mcount : Nat) (o : Open) (h : Bytes), openFile file mcount = .ok o →
    o.has h ≠ .error .panicWouldOccur ∧ o.get h ≠ .error .panicWouldOccur

/-- FALSE: the ordinal read from a prefix tuple is never compared with the chunk count
(`entrySuffixMatches`: `ti.suffixes[ord*12 : ord*12+12]`), and a record length below 4 underflows
`uint64(len(buff)) - checksumSize` in `NewCompressedChunk`.  Both crashing files are one-byte
corruptions of the valid file `wTable 0 7 20`; both crash the real code (harness keys
`panic:table:nbs.onHeapTableIndex.entrySuffixMatches`, `panic:table:nbs.NewCompressedChunk`). -/
theorem lookup_no_panic_full_false : ¬ lookup_no_panic_full := by
  intro hfull
  have h : (openFile (wTable 2 7 20) 1 >>= fun o => o.has (wAddr 20)) = .error .panicWouldOccur := by
    apply isPanic_eq; decide +kernel
  cases ho : openFile (wTable 2 7 20) 1 with
  | error e =>
    have hne : isPanic (openFile (wTable 2 7 20) 1) = false := by decide +kernel
    rw [ho] at h hne; simp [bind, Except.bind] at h; subst h; simp [isPanic] at hne
  | ok o =>
    rw [ho] at h
    exact (hfull _ 1 o (wAddr 20) ho).1 (by simpa [bind, Except.bind] using h)

/-- the second crashing file: chunk length 3 in the index → `NewCompressedChunk` slices `buff[2^64-1:]` -/
theorem get_panics_on_short_length :
    (openFile (wTable 0 3 20) 1 >>= fun o => o.get (wAddr 20)) = .error .panicWouldOccur := by
  apply isPanic_eq; decide +kernel

/-! ### the positive side of `lookup_no_panic_full`: exactly the two missing guards, as hypotheses -/

theorem readAt_length {k : ReaderKind} {file : Bytes} {off len : Nat} {buff : Bytes}
    (h : readAt k file off len = .ok buff) : buff.length = len := by
  unfold readAt at h
  split at h
  · cases h
  · cases k with
    | osFile =>
      simp only [] at h
      split at h
      · rename_i h0; injection h with h; subst h; simp at h0; simp [h0]
      · split at h
        · injection h with h; subst h; simp [List.length_take, List.length_drop]; omega
        · cases h
    | bytesReader =>
      simp only [] at h
      split at h
      · cases h
      · split at h
        · injection h with h; subst h; simp [List.length_take, List.length_drop]; omega
        · cases h

theorem sub64_four {n : Nat} (h4 : 4 ≤ n) (hlt : n < two64) : sub64 n checksumSize = n - 4 := by
  unfold sub64 checksumSize
  have e4 : 4 % two64 = 4 := by decide
  rw [e4]
  have : n + two64 - 4 = (n - 4) + two64 := by omega
  rw [this, Nat.add_mod_right]
  exact Nat.mod_eq_of_lt (by omega)

/-- `NewCompressedChunk` does not panic on a buffer of at least 4 bytes -/
theorem newCompressedChunk_no_panic {buff : Bytes} (h4 : 4 ≤ buff.length) (hlt : buff.length < two64) :
    newCompressedChunk buff ≠ .error .panicWouldOccur := by
  rw [newCompressedChunk_eq buff _ rfl, sub64_four h4 hlt]
  have h1 : buff.length - 4 ≤ buff.length := by omega
  have h2 : 4 ≤ buff.length - (buff.length - 4) := by omega
  rw [if_pos h1, if_pos h2]
  split
  · intro h; cases h
  · intro h; cases h

/-- the second guard dolt lacks: every record length the index yields is at least `checksumSize` -/
def RecordLengthsOk (ti : TableIndex) : Prop :=
  ∀ ord off len, ord < ti.count → ti.getIndexEntry ord = .ok (off, len) → 4 ≤ len

/-- **lookup_no_panic_partial**: on a well-shaped index (`WF`: what `newOnHeapTableIndex` builds,
see `openFile_wf`) `has` and `get` never panic **provided** every ordinal stored in a prefix tuple
is below the chunk count and every record length is ≥ 4 — the two checks the Go code does not
make (`lookup_no_panic_full_false` shows each is needed). -/
theorem lookup_no_panic_partial (o : Open) (h : Bytes) (w : WF o.idx)
    (hord : TableIndex.OrdinalsInRange o.idx) (hlen : RecordLengthsOk o.idx) :
    o.has h ≠ .error .panicWouldOccur ∧ o.get h ≠ .error .panicWouldOccur := by
  obtain ⟨e, he, hfound⟩ := TableIndex.lookup_ok w hord h
  constructor
  · unfold Open.has
    simp only [bind, Except.bind, he, pure, Except.pure]
    intro hc; cases hc
  · unfold Open.get
    rw [he]
    cases e with
    | none => intro hc; cases hc
    | some x =>
      obtain ⟨off, len⟩ := x
      obtain ⟨ord, hlt, hent⟩ := hfound (off, len) rfl
      have h4 : 4 ≤ len := hlen ord off len hlt hent
      have h32 : len < two32 := TableIndex.getIndexEntry_len_lt hent
      show getChunk (readAt o.kind o.data off len) ≠ _
      cases hr : readAt o.kind o.data off len with
      | error err =>
        intro hc
        have : err = .panicWouldOccur := by injection hc
        subst this
        unfold readAt at hr
        split at hr
        · cases hr
        · cases hk : o.kind <;> rw [hk] at hr <;> simp only [] at hr <;> (repeat' split at hr) <;> cases hr
      | ok buff =>
        have hbl : buff.length = len := readAt_length hr
        have hnp := @newCompressedChunk_no_panic buff (by omega) (by rw [hbl]; exact Nat.lt_trans h32 (by decide))
        show afterChunk (newCompressedChunk buff) ≠ _
        cases hc : newCompressedChunk buff with
        | error err =>
          intro hcc
          have : err = .panicWouldOccur := by injection hcc
          subst this; exact hnp hc
        | ok cd =>
          show finishGet cd ≠ _
          unfold finishGet
          split <;> (intro hcc; cases hcc)

/-- the same for a table file opened by the store's own path: the shape `WF` is what the parser
builds (`openFile_wf`; `hsmall` excludes the 15 GiB indexes on which the uint32 product
`chunks1*offsetSize` wraps), and the two missing guards are the decidable checks
`ordinalsInRangeB` / `lengthsOkB` over the parsed index. -/
theorem lookup_no_panic_partial_file (file : Bytes) (m : Nat) (o : Open) (h : Bytes)
    (hopen : openFile file m = .ok o) (hsmall : (m - m / 2) * offsetSize < two32)
    (hord : ordinalsInRangeB o.idx = true) (hlen : lengthsOkB o.idx = true) :
    o.has h ≠ .error .panicWouldOccur ∧ o.get h ≠ .error .panicWouldOccur :=
  lookup_no_panic_partial o h (openFile_wf hopen hsmall) (ordinalsInRangeB_sound hord) (lengthsOkB_sound hlen)

/-- the hypotheses hold for the valid witness file … -/
example : (match openFile (wTable 0 7 20) 1 with
    | .ok o => ordinalsInRangeB o.idx && lengthsOkB o.idx
    | .error _ => false) = true := by decide +kernel
/-- … and each of the two crashing files violates exactly one of them -/
example : (match openFile (wTable 2 7 20) 1 with
    | .ok o => !ordinalsInRangeB o.idx && lengthsOkB o.idx
    | .error _ => false) = true := by decide +kernel
example : (match openFile (wTable 0 3 20) 1 with
    | .ok o => ordinalsInRangeB o.idx && !lengthsOkB o.idx
    | .error _ => false) = true := by decide +kernel

/-! ### manifest -/

/-- `parseManifest` (version prefix loop, v4 and v5 bodies, `parseSpecs`) is total and panic-free
on arbitrary bytes: every `slices[i]` follows the field-count guard and every hash field goes
through `hash.MaybeParse`.  (Before the root-hash repair the root went through `hash.Parse`, this
statement was false, and the file `wManifest` below crashed every open of the database; the check
found it, see design/C10.md.) -/
theorem parse_total_no_panic_manifest (b : Bytes) : Manifest.parseManifest b ≠ .error .panicWouldOccur := by
  unfold Manifest.parseManifest
  cases hv : Manifest.versionLoop 8 b [] with
  | error e =>
    intro hc
    have : e = .panicWouldOccur := by simpa [bind, Except.bind] using hc
    subst this; exact Manifest.versionLoop_no_panic 8 b [] hv
  | ok vr =>
    obtain ⟨version, rest⟩ := vr
    simp only [bind, Except.bind]
    split
    · exact Manifest.parseV4_no_panic rest
    · split
      · exact Manifest.parseV5_no_panic rest
      · simp [throw, throwThe, MonadExceptOf.throw]

def zeros32 : Bytes := List.replicate 32 0x30
/-- `5:x:<lock>:<root with a NUL byte>:<gcgen>` — the former crashing file -/
def wManifest : Bytes :=
  [0x35, 0x3a, 0x78, 0x3a] ++ zeros32 ++ [0x3a] ++ (List.replicate 31 0x30 ++ [0]) ++ [0x3a] ++ zeros32

/-- it is now reported as an error (and its well-formed variant parses) -/
example : (match Manifest.parseManifest wManifest with | .error .badHash => true | _ => false) = true := by
  decide +kernel
example : (match Manifest.parseManifest
    ([0x35, 0x3a, 0x78, 0x3a] ++ zeros32 ++ [0x3a] ++ zeros32 ++ [0x3a] ++ zeros32) with | .ok _ => true | _ => false) = true := by
  decide +kernel

/-! ### archive index path (in-memory reader) -/
section ArchiveIndex
open DoltVerif.Corrupt.Archive

theorem readSection_cases (file : Bytes) (off n : Nat) :
    (∃ b, readSection file off n = .ok b) ∨ readSection file off n = .error .seek ∨ readSection file off n = .error .eof := by
  unfold readSection
  split
  · exact Or.inl ⟨_, rfl⟩
  · split
    · exact Or.inr (Or.inl rfl)
    · split
      · exact Or.inl ⟨_, rfl⟩
      · exact Or.inr (Or.inr rfl)

theorem readSection_bind_no_panic {α : Type} (file : Bytes) (off n : Nat) (k : Bytes → R α)
    (hk : ∀ b, k b ≠ .error .panicWouldOccur) : (readSection file off n >>= k) ≠ .error .panicWouldOccur := by
  rcases readSection_cases file off n with ⟨b, hb⟩ | hb | hb
  · rw [hb]; exact hk b
  · rw [hb]; intro h; cases h
  · rw [hb]; intro h; cases h

/-- `newInMemoryArchiveIndexReader`: the four index sections are read through section readers at
offsets computed in wrapping uint64 arithmetic; whatever the footer claims, loading ends in a read
error or an index, never in a panic.  (Allocation of `byteSpanCount+1` / `chunkCount` elements is
not modelled: up to 32 GiB, the `archive:index-region:oom` finding.) -/
theorem loadIndexWith_no_panic (file : Bytes) (f : Footer) : loadIndexWith file f ≠ .error .panicWouldOccur := by
  unfold loadIndexWith
  apply readSection_bind_no_panic; intro spans
  apply readSection_bind_no_panic; intro pre
  apply readSection_bind_no_panic; intro refs
  apply readSection_bind_no_panic; intro suf
  intro h; cases h

/-- the archive open path (footer + index sections) on an arbitrary file -/
theorem parse_total_no_panic_archiveIndex (file : Bytes) : loadIndex file ≠ .error .panicWouldOccur := by
  unfold loadIndex
  cases hf : loadFooter file with
  | error e =>
    intro hc
    have : e = .panicWouldOccur := by simpa [bind, Except.bind] using hc
    subst this; exact parse_total_no_panic_archiveFooter file hf
  | ok f => exact loadIndexWith_no_panic file f

/-- archive reads at full strength: `has` and `get` never panic on an opened archive -/
def archive_get_no_panic_full : Prop :=
  ∀ (file : Bytes) (x : Index) (h : Bytes), loadIndex file = .ok x → Archive.get x file h ≠ .error .panicWouldOccur

/-- the valid hand-assembled archive reads back (`Witness.arcFile`; the harness opens the same
bytes with the real reader on every run) -/
theorem witness_archive_reads :
    (match loadIndex Witness.arcFile >>= fun x => Archive.get x Witness.arcFile Witness.arcAddr with
      | .ok (.snappy p) => p == Witness.payload | _ => false) = true := by decide +kernel

/-- FALSE: span ends are never checked (not against each other, not against the file size): with
the first byte of the span index set to 0xFF the span length is 0xFF00000000000000 and
`readByteSpan` calls `make([]byte, …)` with it (`makeslice: len out of range`); a span of length 0
trips the `Sample(0)` assertion of `fileReaderAt.ReadAtWithStats` instead.  Replayed on the real
reader by the harness (key `archive:index-region:panic`). -/
theorem archive_get_no_panic_full_false : ¬ archive_get_no_panic_full := by
  intro hfull
  have h : isPanic (loadIndex Witness.arcFileBad >>= fun x => Archive.get x Witness.arcFileBad Witness.arcAddr) = true := by
    decide +kernel
  cases hl : loadIndex Witness.arcFileBad with
  | error e =>
    have hne : isPanic (loadIndex Witness.arcFileBad) = false := by decide +kernel
    rw [hl] at h hne
    simp [bind, Except.bind, isPanic] at h hne
    cases e <;> simp_all
  | ok x =>
    rw [hl] at h
    exact hfull _ x _ hl (isPanic_eq (by simpa [bind, Except.bind] using h))


/-- **archive_has_no_panic**: on an archive opened by the store's path, `has` (prefix search +
suffix walk) never panics — even when the prefixes are damaged and no longer sorted:
`prollyBinSearch` re-establishes `lo < target ≤ hi` by explicit comparisons, so the interpolated
index stays in range and `bits.Div64` never overflows (`prollyBinSearch_no_panic`, for every
slice); the accessors are bounds-checked.  The panics of archive reads start after the lookup:
`archive_get_no_panic_full_false`. -/
theorem archive_has_no_panic (file : Bytes) (x : Index) (h : Bytes) (hl : loadIndex file = .ok x) :
    x.has h ≠ .error .panicWouldOccur :=
  has_no_panic (loadIndex_wf hl) h

example : (match loadIndex Witness.arcFile with | .ok x => (match x.has Witness.arcAddr with | .ok b => b | _ => false) | _ => false) = true := by
  decide +kernel

end ArchiveIndex

/-! ### journal index records -/

/-- `processIndexRecords` is total and panic-free on arbitrary bytes: the fixed-size arrays are
decoded only after `io.ReadFull` delivered all of their bytes. -/
theorem parse_total_no_panic_journalIndex (b : Bytes) : JIndex.process b ≠ .error .panicWouldOccur := by
  obtain ⟨r, hr⟩ := JIndex.loop_ok (b.length + 1) b b.length 0 0 0 [] []
  unfold JIndex.process
  rw [hr]
  intro h; cases h

/-- one lookup followed by one meta record: one batch, truncation offset = 1+28+1+40 -/
example : (match JIndex.process ([0] ++ List.replicate 28 7 ++ [1] ++ List.replicate 40 9) with
    | .ok (bs, off, false) => bs.length == 1 && off == 70
    | _ => false) = true := by decide +kernel

/-! ### journal records -/

def journal_scan_no_panic_full : Prop :=
  ∀ (data : Bytes) (buffSize : Nat), (Journal.scan data buffSize).2 ≠ some .panicWouldOccur

/-- a 9-byte record `len=9 | tag=addr | crc`: the CRC is valid, the address field is missing -/
def wRecord : Bytes := [0, 0, 0, 9, 2] ++ natBE 4 (crc32c [0, 0, 0, 9, 2])

/-- FALSE: `readJournalRecord` trusts the field layout of any record whose CRC-32C matches
(`buf = buf[journalRecAddrSz:]`, `readUint64(buf)` without length checks).  A 9-byte journal is
enough to crash journal bootstrap (harness key `panic:jrn:nbs.readJournalRecord`). -/
theorem journal_scan_no_panic_full_false : ¬ journal_scan_no_panic_full := by
  intro h; exact h wRecord 1048576 (by decide +kernel)

/-- **journal_scan_no_panic_partial**: the record scan of journal bootstrap never panics
**provided** every record of the file that passes `validateJournalRecord` has a well-formed field
layout (`Journal.fieldsOk`: an address field has its 20 bytes, a timestamp field its 8, the walk
ends on the 4 checksum bytes) — the check `readJournalRecord` does not make.  Inside the scan
`validateJournalRecord` itself is panic-free (`Journal.validate_no_panic`: its `uint32`
underflow needs a length field below 4, which the scan never passes). -/
theorem journal_scan_no_panic_partial (data : Bytes) (buffSize : Nat) (hg : Journal.ScanGuard data) :
    (Journal.scan data buffSize).2 ≠ some .panicWouldOccur :=
  Journal.scanLoop_no_panic data buffSize hg _ _ _

/-- the guard is decidable per record: a root-hash record shape passes, the witness record fails -/
example : Journal.fieldsOk 10 ([1, 1, 2] ++ List.replicate 20 7 ++ [4] ++ List.replicate 8 0 ++ [0, 0, 0, 0]) = true := by decide +kernel
example : Journal.fieldsOk 10 (wRecord.drop 4) = false := by decide +kernel

/-- `validateJournalRecord` on its own underflows `off -= journalRecChecksumSz` for a length field
below 4 (unreachable from `processJournalRecordsReader`, which passes `len(buf) = length field`). -/
theorem validate_standalone_panics : Journal.validate [0, 0, 0, 1, 0, 0, 0, 0] 0 = .error .panicWouldOccur := by
  apply isPanic_eq; decide +kernel

end DoltVerif.C10
