import DoltVerif.Lemmas.ManStoreStep
import DoltVerif.Lemmas.ManStoreClosureStep
/-!
C07 — Committed state never contains dangling references.

Property theorems over `Model/ManStore.lean` (the same model as C02; `env.refs` is what the `getAddrs`
callback reports).  Proved here: the gates (what a flush / a commit / a has-cache insertion checks, and that a
rejected write drops the memtable and reaches no `manifest.Update`), the closure step of an acknowledged
commit under its explicit hypotheses, and the refutation of the unrestricted closure statement
(`AddTableFilesToManifest` into an uninitialised store).  The run-level induction `persisted_closed_full` is
stated, not proved (see design/C07.md).
-/
namespace DoltVerif.C07
open DoltVerif.ManStore

/-- chunks in this handle's novel tables -/
def Handle.inNovel (h : Handle) (a : Addr) : Bool := h.novel.any (·.contains a)

/-- a set of addresses (as a predicate) is closed under `refs` -/
def Closed (env : Env) (S : Addr → Prop) : Prop := ∀ a, S a → ∀ b ∈ env.refs a, S b

/-- the persisted chunk set of the directory -/
def Persisted (s : Sys) (a : Addr) : Prop := s.disk.persisted a = true

instance (s : Sys) (a : Addr) : Decidable (Persisted s a) := by unfold Persisted; infer_instance

/-! ### the gates -/

/-- a dangling reference in the memtable makes the flush check fail -/
theorem flushOk_false_of_dangling (env : Env) (h : Handle) (m : Mem) (c r : Addr) (hc : c ∈ m.chunks) (hr : r ∈ env.refs c)
    (h1 : h.hasCache.contains r = false) (h2 : m.chunks.contains r = false) (h3 : h.inTables r = false) :
    flushOk env h m = false := by
  cases hf : flushOk env h m with
  | false => rfl
  | true =>
    unfold flushOk at hf
    rw [List.all_eq_true] at hf
    have := hf c hc
    rw [List.all_eq_true] at this
    have := this r hr
    rw [h1, h2, h3] at this
    simp at this

/-- and the flush check fails only for a dangling reference (no spurious rejections) -/
theorem dangling_of_flushOk_false (env : Env) (h : Handle) (m : Mem) (hf : flushOk env h m = false) :
    ∃ c ∈ m.chunks, ∃ r ∈ env.refs c,
      h.hasCache.contains r = false ∧ m.chunks.contains r = false ∧ h.inTables r = false := by
  unfold flushOk at hf
  rw [List.all_eq_false] at hf
  obtain ⟨c, hc, hf⟩ := hf
  have hf' : ((env.refs c).all fun r => h.hasCache.contains r || m.chunks.contains r || h.inTables r) = false := by
    simpa using hf
  rw [List.all_eq_false] at hf'
  obtain ⟨r, hr, hf'⟩ := hf'
  refine ⟨c, hc, r, hr, ?_⟩
  cases e1 : h.hasCache.contains r <;> cases e2 : m.chunks.contains r <;> cases e3 : h.inTables r <;> simp_all

/-- `flush_rejects_iff_dangling`: the memtable flush of a commit fails exactly when a non-empty memtable fails
the reference check -/
theorem flush_rejects_iff_dangling (env : Env) (h : Handle) :
    h.flushForCommit env = none ↔ ∃ m, h.mem = some m ∧ m.chunks.isEmpty = false ∧ flushOk env h m = false := by
  unfold Handle.flushForCommit
  cases hm : h.mem with
  | none => simp
  | some m =>
    cases he : m.chunks.isEmpty <;> cases hf : flushOk env h m <;> simp_all

/-- `dangling_commit_rejected`: a commit whose memtable has a dangling reference, or whose new root is neither
the empty hash, nor vouched for by the has-cache, nor present, returns `ErrDanglingRef`, throws the memtable
away, and never reaches `manifest.Update` (no commit is parked) — so, by C02
`failed_commit_changes_nothing`, the persisted manifest is untouched. -/
theorem dangling_commit_rejected (env : Env) (h : Handle) (cur last : Addr) (hl : h.upstream.root = last)
    (hd : h.flushForCommit env = none ∨ ∃ h1, h.flushForCommit env = some h1 ∧ h1.rootDangling cur = true) :
    (h.prepare env cur last).2 = .err .dangling ∧ (h.prepare env cur last).1.mem = none ∧
    (h.prepare env cur last).1.pc = h.pc := by
  unfold Handle.prepare
  have h0 : (h.upstream.root != last) = false := by simp [hl]
  simp only [h0, Bool.false_eq_true, if_false]
  rcases hd with hn | ⟨h1, hs, hr⟩
  · simp [hn]
  · simp only [hs, hr, if_true]
    exact ⟨trivial, trivial, (flushForCommit_fields env h h1 hs).2.1⟩

/-- system level: the step of a rejected commit leaves the manifest alone -/
theorem rejected_commit_changes_nothing (env : Env) (s : Sys) (hi : Inv s) (i : Nat) (cur last : Addr) :
    (s.next env (.cstart i cur last)).1.disk.manifest = s.disk.manifest :=
  (next_facts env s hi (.cstart i cur last)).manifest
    (ackOf_none_of_not_cresume _ _ _ (by intro j h; cases h)) rfl

/-- `parked_commit_is_checked`: a commit that gets as far as `manifest.Update` has a root that is empty,
vouched for by the has-cache, or present in the handle's memtable/tables. -/
theorem parked_commit_is_checked (env : Env) (h : Handle) (cur last : Addr)
    (hp : (h.prepare env cur last).2 = .parked) :
    ∃ h1, h.flushForCommit env = some h1 ∧ (cur = 0 ∨ h1.hasCache.contains cur = true ∨ h1.has cur = true) := by
  unfold Handle.prepare at hp
  split at hp
  · simp at hp
  · split at hp
    · simp at hp
    · rename_i h1 hs
      split at hp
      · simp at hp
      · rename_i hr
        refine ⟨h1, hs, ?_⟩
        unfold Handle.rootDangling at hr
        by_cases c0 : cur = 0
        · exact Or.inl c0
        · by_cases c1 : h1.hasCache.contains cur = true
          · exact Or.inr (Or.inl c1)
          · right; right
            have : (cur != 0) = true := by simpa using c0
            simp [this] at hr
            exact hr (by simpa using c1)

/-! ### the has-cache can only vouch for chunks that have landed -/

theorem mem_addNovel (t : Table) (novel : List Table) (u : Table) : u ∈ addNovel t novel ↔ u = t ∨ u ∈ novel := by
  unfold addNovel
  split
  · rename_i hc
    have : t ∈ novel := by simpa using hc
    constructor
    · exact Or.inr
    · rintro (rfl | h)
      · exact this
      · exact h
  · simp [or_comm]

/-- after a successful flush every chunk of the memtable is in a table of the handle -/
theorem flushed_lands (env : Env) (h : Handle) (m : Mem) (x : Option Mem) (c : Addr) (hc : c ∈ m.chunks) :
    (flushed env h m x).inTables c = true := by
  by_cases hin : h.inTables c = true
  · -- already in a table: tables only grow
    unfold Handle.inTables at hin ⊢
    simp only [flushed, Bool.or_eq_true, List.any_eq_true] at hin ⊢
    rcases hin with ⟨t, ht, hct⟩ | hup
    · exact Or.inl ⟨t, (mem_addNovel _ _ _).2 (Or.inr ht), hct⟩
    · exact Or.inr hup
  · unfold Handle.inTables
    simp only [flushed, Bool.or_eq_true, List.any_eq_true]
    left
    refine ⟨m.chunks.filter (fun c => !h.inTables c), (mem_addNovel _ _ _).2 (Or.inl rfl), ?_⟩
    simp only [List.contains_iff_mem, List.mem_filter]
    exact ⟨hc, by simpa using hin⟩

theorem flushed_tables_grow (env : Env) (h : Handle) (m : Mem) (x : Option Mem) (a : Addr) (ha : h.inTables a = true) :
    (flushed env h m x).inTables a = true := by
  unfold Handle.inTables at ha ⊢
  simp only [flushed, Bool.or_eq_true, List.any_eq_true] at ha ⊢
  rcases ha with ⟨t, ht, hct⟩ | hup
  · exact Or.inl ⟨t, (mem_addNovel _ _ _).2 (Or.inr ht), hct⟩
  · exact Or.inr hup

/-- `hascache_sound` (flush step): if every address the has-cache vouches for is in a table of the handle, this
still holds after a successful flush — the pending refs are cached only once the memtable they may point into
has landed (`addPendingRefsToHasCache` after `append`). -/
theorem hascache_sound_flush (env : Env) (h : Handle) (m : Mem) (x : Option Mem) (hok : flushOk env h m = true)
    (hs : ∀ a ∈ h.hasCache, h.inTables a = true) :
    ∀ a ∈ (flushed env h m x).hasCache, (flushed env h m x).inTables a = true := by
  intro a ha
  simp only [flushed, List.mem_append, List.mem_flatMap] at ha
  rcases ha with ha | ⟨c, hc, hr⟩
  · exact flushed_tables_grow env h m x a (hs a ha)
  · unfold flushOk at hok
    rw [List.all_eq_true] at hok
    have := hok c hc
    rw [List.all_eq_true] at this
    have := this a hr
    simp only [Bool.or_eq_true, List.contains_iff_mem] at this
    rcases this with (h1 | h2) | h3
    · exact flushed_tables_grow env h m x a (hs a h1)
    · exact flushed_lands env h m x a h2
    · exact flushed_tables_grow env h m x a h3

/-- `hascache_sound` (root step): `errorIfDangling` caches the new root only if it is present -/
theorem hascache_sound_root (h : Handle) (cur : Addr) (hnd : h.rootDangling cur = false)
    (hs : ∀ a ∈ h.hasCache, h.has a = true) : ∀ a ∈ (h.noteRoot cur).hasCache, h.has a = true := by
  intro a ha
  unfold Handle.noteRoot at ha
  split at ha
  · rename_i hc
    simp only [List.mem_append, List.mem_singleton] at ha
    rcases ha with ha | rfl
    · exact hs a ha
    · unfold Handle.rootDangling at hnd
      simp only [Bool.and_eq_true] at hc
      simp [hc.1] at hnd
      exact hnd (by simpa using hc.2)
  · exact hs a ha

/-- the opposite order would be unsound: a failed flush changes nothing in the has-cache (the memtable is
dropped, and nothing it referenced was cached) -/
theorem rejected_flush_keeps_hascache (env : Env) (h : Handle) (cur last : Addr)
    (hn : h.flushForCommit env = none) :
    (h.prepare env cur last).1.hasCache = h.hasCache := by
  unfold Handle.prepare
  split
  · rfl
  · simp [hn]

/-! ### the closure step of an acknowledged commit -/

/-- `closure_step_partial`: when a commit is acknowledged by writing `new`, the new persisted set is closed,
provided (the hypotheses the run-level invariant supplies): the old persisted set is closed, the table files
named before are still named (`hmono`, from lock equality), every chunk of a newly named table has its refs
in a newly named table or in the old persisted set (`hnovel`, from the ref check at flush). -/
theorem closure_step_partial (env : Env) (d : Disk) (new : Contents)
    (hclosed : Closed env (fun a => d.persisted a = true))
    (hmono : ∀ t ∈ d.specs, t ∈ new.specs)
    (hnovel : ∀ t ∈ new.specs, t ∉ d.specs → ∀ a ∈ t, ∀ b ∈ env.refs a,
        (∃ u ∈ new.specs, b ∈ u) ∨ d.persisted b = true) :
    Closed env (fun a => ({ d with manifest := some new } : Disk).persisted a = true) := by
  intro a ha b hb
  simp only [Disk.persisted, Disk.specs, List.any_eq_true, List.contains_iff_mem] at ha ⊢
  obtain ⟨t, ht, hat⟩ := ha
  have old_to_new : d.persisted b = true → ∃ x, x ∈ new.specs ∧ b ∈ x := by
    intro hp
    simp only [Disk.persisted, List.any_eq_true, List.contains_iff_mem] at hp
    obtain ⟨u, hu, hbu⟩ := hp
    exact ⟨u, hmono u hu, hbu⟩
  by_cases hold : t ∈ d.specs
  · have : d.persisted a = true := by
      simp only [Disk.persisted, List.any_eq_true, List.contains_iff_mem]; exact ⟨t, hold, hat⟩
    exact old_to_new (hclosed a this b hb)
  · rcases hnovel t ht hold a hat b hb with ⟨u, hu, hbu⟩ | hp
    · exact ⟨u, hu, hbu⟩
    · exact old_to_new hp

/-- every chunk a handle holds in its tables is persisted once its commit is acknowledged by a write
(`acked_chunks_persist`, the chunk half of C02): the manifest written names every non-empty novel table and
every upstream table of the handle as it was when the commit parked. -/
theorem mem_insertT (t : Table) (l : List Table) (x : Table) : x ∈ insertT t l ↔ x = t ∨ x ∈ l := by
  induction l with
  | nil => simp [insertT]
  | cons u us ih =>
    unfold insertT
    split
    · rename_i he
      have : t = u := by simpa using he
      subst this
      simp
    · split
      · simp
      · simp only [List.mem_cons, ih]
        constructor
        · rintro (h | h | h)
          · exact Or.inr (Or.inl h)
          · exact Or.inl h
          · exact Or.inr (Or.inr h)
        · rintro (h | h | h)
          · exact Or.inr (Or.inl h)
          · exact Or.inl h
          · exact Or.inr (Or.inr h)

theorem parked_specs (h : Handle) (cur last : Addr) :
    ∀ p, (h.park cur last).pc = some p → p.new.specs = h.toSpecs := by
  intro p hp; simp [Handle.park] at hp; subst hp; rfl

theorem acked_chunks_persist (h : Handle) (a : Addr) (ha : h.inTables a = true) (d : Disk) :
    ({ d with manifest := some { root := 0, lock := none, specs := h.toSpecs } } : Disk).persisted a = true := by
  unfold Handle.inTables at ha
  simp only [Bool.or_eq_true, List.any_eq_true, List.contains_iff_mem] at ha
  simp only [Disk.persisted, Disk.specs, Handle.toSpecs, List.any_eq_true, List.contains_iff_mem, List.mem_append,
    List.mem_filter]
  rcases ha with ⟨t, ht, hat⟩ | ⟨t, ht, hat⟩
  · by_cases hup : t ∈ h.upTables
    · exact ⟨t, Or.inr hup, hat⟩
    · refine ⟨t, Or.inl ⟨ht, ?_⟩, hat⟩
      have : t ≠ [] := by intro e; subst e; simp at hat
      simp [hup, this]
  · exact ⟨t, Or.inr ht, hat⟩

/-! ### the run-level invariant -/

/-- every `AddTableFilesToManifest` of the schedule is made by a handle that has a root to check against and
nothing of its own that is not persisted yet (empty memtable, no novel tables): the two shapes in which the
store's own reference check lets a dangling reference through (both refuted below, both replayed on the
implementation). -/
def SafeAdds (env : Env) : Sys → List Op → Prop
  | _, [] => True
  | s, op :: ops => AddSafe s op ∧ SafeAdds env (s.next env op).1 ops

theorem rinv_run (env : Env) (s : Sys) (hr : RInv env s) (ops : List Op) (hs : SafeAdds env s ops) : RInv env (s.run env ops) := by
  induction ops generalizing s with
  | nil => exact hr
  | cons op ops ih => exact ih _ (rinv_next env s hr op hs.1) hs.2

/-- `persisted_closed`: for every schedule of the atomic steps of any number of handles (puts with arbitrary
children, flushes at arbitrary memtable sizes, commits with right and stale `last`, rejected commits, retries,
lock time-outs, rebases, opens/closes, `WriteTableFile`, safe `AddTableFilesToManifest`), the chunk set named by
the persisted manifest is closed under references … -/
theorem persisted_closed (env : Env) (ops : List Op) (hs : SafeAdds env Sys.init ops) :
    Closed env (Persisted (Sys.init.run env ops)) :=
  (rinv_run env _ (rinv_init env) ops hs).closed

/-- … and contains the root -/
theorem root_present (env : Env) (ops : List Op) (hs : SafeAdds env Sys.init ops) :
    (Sys.init.run env ops).disk.root = 0 ∨ Persisted (Sys.init.run env ops) (Sys.init.run env ops).disk.root :=
  (rinv_run env _ (rinv_init env) ops hs).root

/-- addresses reachable from `a` through `refs` -/
inductive Reach (env : Env) (a : Addr) : Addr → Prop
  | refl : Reach env a a
  | step {b c : Addr} : Reach env a b → c ∈ env.refs b → Reach env a c

/-- `root_closure_present`: whenever a root is committed, every chunk reachable from it is in the store. -/
theorem root_closure_present (env : Env) (ops : List Op) (hs : SafeAdds env Sys.init ops) (hroot : (Sys.init.run env ops).disk.root ≠ 0)
    (a : Addr) (ha : Reach env (Sys.init.run env ops).disk.root a) : Persisted (Sys.init.run env ops) a := by
  induction ha with
  | refl => exact (root_present env ops hs).resolve_left hroot
  | step _ hc ih => exact persisted_closed env ops hs _ ih _ hc

/-- the has-cache of every handle only vouches for chunks that are in one of its novel tables or persisted
(`hascache_sound`, run level) -/
theorem hascache_sound (env : Env) (ops : List Op) (hs : SafeAdds env Sys.init ops) (i : Nat) (a : Addr)
    (ha : a ∈ ((Sys.init.run env ops).hs i).hasCache) :
    Handle.inNovel ((Sys.init.run env ops).hs i) a = true ∨ Persisted (Sys.init.run env ops) a :=
  ((rinv_run env _ (rinv_init env) ops hs).hs i).cache a ha

/-! ### conjoin: the step-level closure fact (the run-level induction still excludes conjoin, see design/C07.md) -/

/-- the manifest a conjoin writes names exactly the chunks the manifest it rewrites named: the conjoinees (all named by
`cur`) are replaced by their concatenation -/
theorem conjoin_same_chunks (cs : List Table) (cur : Contents) (hsub : ∀ t ∈ cs, t ∈ cur.specs) (a : Addr) :
    (∃ t ∈ (conjoinContents cs (conjoinedTable cs) cur).specs, a ∈ t) ↔ ∃ t ∈ cur.specs, a ∈ t := by
  simp only [conjoinContents, conjoinedTable, List.mem_append, List.mem_filter, List.mem_singleton]
  constructor
  · rintro ⟨t, (⟨ht, _⟩ | rfl), ha⟩
    · exact ⟨t, ht, ha⟩
    · obtain ⟨u, hu, hau⟩ := List.mem_flatten.1 ha
      exact ⟨u, hsub u hu, hau⟩
  · rintro ⟨t, ht, ha⟩
    by_cases hc : t ∈ cs
    · exact ⟨cs.flatten, Or.inr rfl, List.mem_flatten.2 ⟨t, hc, ha⟩⟩
    · exact ⟨t, Or.inl ⟨ht, by simpa using hc⟩, ha⟩

/-- `conjoin_step_preserves_closure`: when a conjoin lands on a directory whose manifest is `cur` (the attempt that
succeeds is always made against the manifest that is on disk), the persisted chunk set is unchanged — so it stays
closed under references, and the (unchanged) root stays in it. -/
theorem conjoin_step_preserves_closure (env : Env) (d : Disk) (cs : List Table) (cur : Contents)
    (hm : d.manifest = some cur) (hsub : ∀ t ∈ cs, t ∈ cur.specs)
    (hclosed : Closed env (fun a => d.persisted a = true)) :
    (∀ a, ({ d with manifest := some (conjoinContents cs (conjoinedTable cs) cur) } : Disk).persisted a = d.persisted a) ∧
    Closed env (fun a => ({ d with manifest := some (conjoinContents cs (conjoinedTable cs) cur) } : Disk).persisted a = true) ∧
    ({ d with manifest := some (conjoinContents cs (conjoinedTable cs) cur) } : Disk).root = d.root := by
  have key : ∀ a, ({ d with manifest := some (conjoinContents cs (conjoinedTable cs) cur) } : Disk).persisted a = d.persisted a := by
    intro a
    have h := conjoin_same_chunks cs cur hsub a
    have l : (({ d with manifest := some (conjoinContents cs (conjoinedTable cs) cur) } : Disk).persisted a = true) ↔
        ∃ t ∈ (conjoinContents cs (conjoinedTable cs) cur).specs, a ∈ t := by
      simp [Disk.persisted, Disk.specs, List.any_eq_true]
    have r : (d.persisted a = true) ↔ ∃ t ∈ cur.specs, a ∈ t := by
      simp [Disk.persisted, Disk.specs, hm, List.any_eq_true]
    have := l.trans (h.trans r.symm)
    cases h1 : ({ d with manifest := some (conjoinContents cs (conjoinedTable cs) cur) } : Disk).persisted a <;>
      cases h2 : d.persisted a <;> simp_all
  refine ⟨key, ?_, by simp [Disk.root, hm, conjoinContents]⟩
  intro a ha b hb
  rw [key] at ha ⊢
  exact hclosed a ha b hb

/-! ### the statement without the restriction, and why it is false -/

/-- the statement without the `SafeAdds` restriction -/
def persisted_closed_unrestricted : Prop :=
  ∀ (env : Env) (ops : List Op), Closed env (Persisted (Sys.init.run env ops))

/-- `AddTableFilesToManifest` into a store that has no root yet skips the reference check, so a file whose chunk
1 references the never-written chunk 2 is accepted, and `Commit(1, 0)` then persists a root with a missing
child.  (Replayed on the implementation by `nbsrefs`: known finding
`C07/addtablefiles-into-uninitialized-store-skips-refcheck`.) -/
theorem persisted_closed_unrestricted_refuted : ¬ persisted_closed_unrestricted := by
  intro h
  have := h { refs := fun a => if a = 1 then [2] else [], size := fun _ => 10 }
    [.openH 0 100, .writeTable [1], .addTables 0 [[1]], .cstart 0 1 0, .cresume 0] 1 (by decide) 2 (by decide)
  revert this
  decide

def memWitnessEnv : Env := { refs := fun a => if a = 6 then [5] else if a = 7 then [6] else [], size := fun _ => 10 }
def memWitnessOps : List Op :=
  [.openH 0 1000, .put 0 3, .cstart 0 3 0, .cresume 0, .put 0 5, .writeTable [6], .addTables 0 [[6]],
   .openH 1 1000, .put 1 7, .cstart 1 7 3, .cresume 1]

/-- the second shape: the store's reference check for added table files also accepts a reference that only the
handle's own *unflushed memtable* satisfies.  Handle 0 (root 3 committed) puts chunk 5, adds a table file whose
chunk 6 references 5; handle 1 commits a root 7 → 6.  The persisted root reaches 5, which is nowhere on disk.
(Replays on the implementation: design/C07.md.) -/
theorem addtables_memtable_ref_refuted :
    ¬ (∀ (env : Env) (ops : List Op), (Sys.init.run env ops).disk.root ≠ 0 →
        ∀ a, Reach env (Sys.init.run env ops).disk.root a → Persisted (Sys.init.run env ops) a) := by
  intro h
  have hroot : (Sys.init.run memWitnessEnv memWitnessOps).disk.root = 7 := by decide
  have := h memWitnessEnv memWitnessOps (by rw [hroot]; decide) 5
    (by rw [hroot]; exact .step (.step .refl (by decide : 6 ∈ memWitnessEnv.refs 7)) (by decide : 5 ∈ memWitnessEnv.refs 6))
  revert this
  decide

/-- with a root already present and nothing unpersisted the same addition is refused -/
example :
    let env : Env := { refs := fun a => if a = 1 then [2] else [], size := fun _ => 10 }
    ((Sys.init.run env [.openH 0 100, .put 0 3, .cstart 0 3 0, .cresume 0, .writeTable [1]]).next env (.addTables 0 [[1]])).2
      = .err .dangling := by decide

end DoltVerif.C07
