import DoltVerif.Model.Sealer
import DoltVerif.Lemmas.SealerPath
import DoltVerif.Lemmas.SealerSeal
/-!
C39 — The remote server's sealed URLs cannot be forged or escape its root.

Part 1 (sealer): over an abstract AEAD, `net/url` pair and base64 codec (`Params`).
Part 2 (file handler): `filepath.Clean` shape, the dot-dot tests, confinement of GET/POST paths.
-/
namespace DoltVerif.C39
open DoltVerif.Sealer hiding Bytes
open DoltVerif.PathClean

-- ====================================================================== Part 1: the sealer

/-- What is assumed of the AEAD under key `k`, relative to the list `issued` of all
(nonce, aad, plaintext) triples ever sealed with `k` (the ideal functionality of an authenticated
encryption scheme): `Open` succeeds exactly on ciphertexts `Seal` produced for the same nonce and
AAD, and distinct issued triples have distinct ciphertexts. -/
structure IdealAEAD (A : Aead) (k : Bytes) (issued : List (Bytes × Bytes × Bytes)) : Prop where
  open_iff : ∀ n aad c m, A.openA k n aad c = some m ↔ ((n, aad, m) ∈ issued ∧ c = A.sealA k n aad m)
  seal_inj : ∀ e ∈ issued, ∀ e' ∈ issued,
    A.sealA k e.1 e.2.1 e.2.2 = A.sealA k e'.1 e'.2.1 e'.2.2 → e = e'

/-- 96-bit random nonces: no nonce is used for two issued URLs -/
def NoncesDistinct (issued : List (Bytes × Bytes × Bytes)) : Prop :=
  ∀ e ∈ issued, ∀ e' ∈ issued, e.1 = e'.1 → e = e'

/-- everything a successful `Unseal` has checked -/
structure Accepted (P : Params) (k : Bytes) (now : Int) (u : Url) (res : Bytes × Bytes) where
  pfx : sealedPrefix.isPrefixOf u.path = true
  nbf : Int
  exp : Int
  nonce : Bytes
  ct : Bytes
  msg : Bytes
  parsed : Parsed
  hnbf : parseInt64 (qGet u.query (str "nbf")) = some nbf
  hexp : parseInt64 (qGet u.query (str "exp")) = some exp
  hnonce : P.b64.dec (qGet u.query (str "nonce")) = some nonce
  hwin : nbf ≤ now ∧ now ≤ exp
  hct : P.b64.dec (qGet u.query (str "req")) = some ct
  hlen : nonce.length = nonceLen
  hopen : P.aead.openA k nonce (aadOf (qGet u.query (str "nbf")) (qGet u.query (str "exp"))) ct = some msg
  hparse : P.url.parse msg = some parsed
  hpath : u.path.drop sealedPrefix.length = parsed.escPath
  hres : res = (parsed.path, parsed.rawQuery)

theorem unseal_ok_inv (P : Params) (k : Bytes) (now : Int) (u : Url) (res : Bytes × Bytes)
    (h : unsealUrl P k now u = .ok res) : Nonempty (Accepted P k now u res) := by
  unfold unsealUrl at h
  split at h; · cases h
  split at h; · cases h
  split at h; · cases h
  split at h; · cases h
  split at h; · cases h
  simp only at h
  split at h; · cases h
  split at h; · cases h
  split at h; · cases h
  split at h; · cases h
  split at h; · cases h
  split at h; · cases h
  split at h; · cases h
  split at h; · cases h
  split at h; · cases h
  split at h; · cases h
  rename_i hp _ _ _ _ _ nbf hnbf _ exp hexp _ nonce hnonce hw1 hw2 hlen _ ct hct _ msg hopen _ r hparse hpath
  cases h
  exact ⟨{ pfx := by simpa using hp, nbf := nbf, exp := exp, nonce := nonce, ct := ct, msg := msg, parsed := r,
           hnbf := hnbf, hexp := hexp, hnonce := hnonce, hwin := ⟨by omega, by omega⟩, hct := hct,
           hlen := by simpa using hlen, hopen := hopen, hparse := hparse, hpath := by simpa using hpath,
           hres := rfl }⟩

/-- **Unseal never reaches `cipher.AEAD.Open` with a nonce of the wrong length** (where Go's
`Open` panics): replacing the AEAD by any other that agrees with it on 12-byte nonces does not
change the result, whatever the URL.  With the result type having no panic outcome, `Unseal` is
total: every input is accepted or rejected with one of the 15 error classes. -/
theorem unseal_open_guarded (P : Params) (A' : Aead)
    (hagree : ∀ k n aad c, n.length = nonceLen → A'.openA k n aad c = P.aead.openA k n aad c)
    (k : Bytes) (now : Int) (u : Url) :
    unsealUrl { P with aead := A' } k now u = unsealUrl P k now u := by
  unfold unsealUrl
  simp only
  split <;> try rfl
  split <;> try rfl
  split <;> try rfl
  split <;> try rfl
  split <;> try rfl
  split <;> try rfl
  split <;> try rfl
  split <;> try rfl
  split <;> try rfl
  split <;> try rfl
  split <;> try rfl
  rename_i hlen
  split <;> try rfl
  rw [hagree _ _ _ _ (by simpa using hlen)]

theorem sealed_query (P : Params) (k nonce ep rq : Bytes) (now now2 : Int) :
    (sealUrl P k now now2 nonce ep rq).query =
      sealedQ (formatInt (now2 + expAheadMs)) (formatInt (now - nbfBackMs)) (P.b64.enc nonce)
        (P.b64.enc (P.aead.sealA k nonce
          (aadOf (formatInt (now - nbfBackMs)) (formatInt (now2 + expAheadMs))) (P.url.render ep rq))) := rfl

theorem sealed_path (P : Params) (k nonce ep rq : Bytes) (now now2 : Int) :
    (sealUrl P k now now2 nonce ep rq).path = sealedPrefix ++ ep := rfl

/-- **Round trip.**  A sealed URL presented inside its window unseals to the request that
`url.Parse` reads back from the sealed plaintext.  `hurl`/`hstable` are the `net/url` law the
scheme relies on (it fails in Go for paths whose escaped form differs from the path: finding D1).
`now ≤ now2` are Seal's two clock reads. -/
theorem unseal_seal (P : Params) (k nonce ep rq : Bytes) (now now2 now' : Int) (r : Parsed)
    (hb : ∀ x, P.b64.dec (P.b64.enc x) = some x)
    (ha : ∀ n aad m, P.aead.openA k n aad (P.aead.sealA k n aad m) = some m)
    (hn : nonce.length = nonceLen)
    (hrange : -(2^63 : Int) ≤ now - nbfBackMs ∧ now2 + expAheadMs < 2^63) (hmono : now ≤ now2)
    (hwin : now - nbfBackMs ≤ now' ∧ now' ≤ now2 + expAheadMs)
    (hurl : P.url.parse (P.url.render ep rq) = some r) (hstable : r.escPath = ep) :
    unsealUrl P k now' (sealUrl P k now now2 nonce ep rq) = .ok (r.path, r.rawQuery) := by
  have hnb : nbfBackMs = 10000 := rfl
  have hea : expAheadMs = 900000 := rfl
  have h1 := parseInt64_formatInt (now - nbfBackMs) hrange.1 (by omega)
  have h2 := parseInt64_formatInt (now2 + expAheadMs) (by omega) hrange.2
  unfold unsealUrl
  rw [sealed_query, sealed_path]
  obtain ⟨g1, g2, g3, g4⟩ := sealedQ_get (formatInt (now2 + expAheadMs)) (formatInt (now - nbfBackMs)) (P.b64.enc nonce)
        (P.b64.enc (P.aead.sealA k nonce
          (aadOf (formatInt (now - nbfBackMs)) (formatInt (now2 + expAheadMs))) (P.url.render ep rq)))
  obtain ⟨q1, q2, q3, q4⟩ := sealedQ_has (formatInt (now2 + expAheadMs)) (formatInt (now - nbfBackMs)) (P.b64.enc nonce)
        (P.b64.enc (P.aead.sealA k nonce
          (aadOf (formatInt (now - nbfBackMs)) (formatInt (now2 + expAheadMs))) (P.url.render ep rq)))
  have hpfx : sealedPrefix.isPrefixOf (sealedPrefix ++ ep) = true := by
    rw [List.isPrefixOf_iff_prefix]; exact List.prefix_append _ _
  have hdrop : (sealedPrefix ++ ep).drop sealedPrefix.length = ep := List.drop_left
  have hw1 : ¬ now' < now - nbfBackMs := by omega
  have hw2 : ¬ now' > now2 + expAheadMs := by omega
  simp only [hpfx, q1, q2, q3, q4, g1, g2, g3, g4, h1, h2, hb, ha, hurl, hn, hdrop, hstable, hw1, hw2,
    Bool.not_true, Bool.false_eq_true, if_false, bne_self_eq_false]

/-- **Window.**  Whatever `Unseal` accepts carries an `nbf`/`exp` pair (as `ParseInt` reads them)
with `nbf ≤ now ≤ exp`. -/
theorem window_enforced (P : Params) (k : Bytes) (now : Int) (u : Url) (res : Bytes × Bytes)
    (h : unsealUrl P k now u = .ok res) :
    ∃ nbf exp, parseInt64 (qGet u.query (str "nbf")) = some nbf ∧
      parseInt64 (qGet u.query (str "exp")) = some exp ∧ nbf ≤ now ∧ now ≤ exp := by
  obtain ⟨a⟩ := unseal_ok_inv P k now u res h
  exact ⟨a.nbf, a.exp, a.hnbf, a.hexp, a.hwin.1, a.hwin.2⟩

/-- A sealed URL used outside `[now - 10 s, now + 15 min]` is rejected (no hypothesis on the
AEAD at all: the window test precedes `Open`). -/
theorem outside_window_rejected (P : Params) (k nonce ep rq : Bytes) (now now2 now' : Int)
    (hrange : -(2^63 : Int) ≤ now - nbfBackMs ∧ now2 + expAheadMs < 2^63) (hmono : now ≤ now2)
    (hout : now' < now - nbfBackMs ∨ now' > now2 + expAheadMs) (res : Bytes × Bytes) :
    unsealUrl P k now' (sealUrl P k now now2 nonce ep rq) ≠ .ok res := by
  intro h
  obtain ⟨nbf, exp, h1, h2, h3, h4⟩ := window_enforced P k now' _ res h
  have hnb : nbfBackMs = 10000 := rfl
  have hea : expAheadMs = 900000 := rfl
  rw [sealed_query] at h1 h2
  rw [(sealedQ_get _ _ _ _).1, parseInt64_formatInt _ hrange.1 (by omega)] at h1
  rw [(sealedQ_get _ _ _ _).2.1, parseInt64_formatInt _ (by omega) hrange.2] at h2
  cases h1; cases h2
  omega

/-- **Unforgeability.**  Under the ideal AEAD, every URL `Unseal` accepts was issued: its
(nonce, window, plaintext) is in the log of sealed requests, its outer path is the sealed prefix
followed by the escaped path of that plaintext, the result is that plaintext's request, and `now`
is inside the window whose *strings* are authenticated. -/
theorem unseal_only_issued (P : Params) (k : Bytes) (issued : List (Bytes × Bytes × Bytes))
    (hI : IdealAEAD P.aead k issued) (now : Int) (u : Url) (res : Bytes × Bytes)
    (h : unsealUrl P k now u = .ok res) :
    ∃ n m r, (n, aadOf (qGet u.query (str "nbf")) (qGet u.query (str "exp")), m) ∈ issued ∧
      P.b64.dec (qGet u.query (str "nonce")) = some n ∧
      P.url.parse m = some r ∧ u.path = sealedPrefix ++ r.escPath ∧ res = (r.path, r.rawQuery) := by
  obtain ⟨a⟩ := unseal_ok_inv P k now u res h
  have := (hI.open_iff _ _ _ _).mp a.hopen
  refine ⟨a.nonce, a.msg, a.parsed, this.1, a.hnonce, a.hparse, ?_, a.hres⟩
  have hp := List.isPrefixOf_iff_prefix.mp a.pfx
  obtain ⟨t, ht⟩ := hp
  rw [← a.hpath, ← ht]; simp

section tamper
variable (P : Params) (k : Bytes) (issued : List (Bytes × Bytes × Bytes))
  (hI : IdealAEAD P.aead k issued)
  -- the issued URL: nonce `n`, window strings `nbfS`/`expS`, plaintext `m` for escaped path `ep`
  (n nbfS expS m ep : Bytes) (hmem : (n, aadOf nbfS expS, m) ∈ issued)
  (now : Int) (u' : Url) (res : Bytes × Bytes) (hok : unsealUrl P k now u' = .ok res)
include hI hmem hok

/-- changed **path** (window, nonce and payload as issued) ⇒ rejected -/
theorem tamper_path (hstable : ∀ r, P.url.parse m = some r → r.escPath = ep)
    (hnbf : qGet u'.query (str "nbf") = nbfS) (hexp : qGet u'.query (str "exp") = expS)
    (hnonce : P.b64.dec (qGet u'.query (str "nonce")) = some n)
    (hreq : P.b64.dec (qGet u'.query (str "req")) = some (P.aead.sealA k n (aadOf nbfS expS) m)) :
    u'.path = sealedPrefix ++ ep := by
  obtain ⟨a⟩ := unseal_ok_inv P k now u' res hok
  have hop := a.hopen
  rw [hnbf, hexp] at hop
  have e1 : a.nonce = n := Option.some.inj (a.hnonce.symm.trans hnonce)
  have e2 : a.ct = _ := Option.some.inj (a.hct.symm.trans hreq)
  rw [e1, e2] at hop
  have := (hI.open_iff _ _ _ _).mp hop
  have hinj := hI.seal_inj _ hmem _ this.1 this.2
  have hm : a.msg = m := by
    have := congrArg (fun e => e.2.2) hinj; simpa using this.symm
  have hp := List.isPrefixOf_iff_prefix.mp a.pfx
  obtain ⟨t, ht⟩ := hp
  have hesc := hstable a.parsed (hm ▸ a.hparse)
  rw [← hesc, ← a.hpath, ← ht]; simp

/-- changed **nbf** string (everything else as issued) ⇒ rejected -/
theorem tamper_nbf (hcolon : (0x3a : UInt8) ∉ nbfS)
    (hexp : qGet u'.query (str "exp") = expS)
    (hnonce : P.b64.dec (qGet u'.query (str "nonce")) = some n)
    (hreq : P.b64.dec (qGet u'.query (str "req")) = some (P.aead.sealA k n (aadOf nbfS expS) m)) :
    qGet u'.query (str "nbf") = nbfS := by
  obtain ⟨a⟩ := unseal_ok_inv P k now u' res hok
  have hop := a.hopen
  rw [hexp] at hop
  have e1 : a.nonce = n := Option.some.inj (a.hnonce.symm.trans hnonce)
  have e2 : a.ct = _ := Option.some.inj (a.hct.symm.trans hreq)
  rw [e1, e2] at hop
  have := (hI.open_iff _ _ _ _).mp hop
  have hinj := hI.seal_inj _ hmem _ this.1 this.2
  have haad : aadOf nbfS expS = aadOf (qGet u'.query (str "nbf")) expS := by
    have := congrArg (fun e => e.2.1) hinj; simpa using this
  exact (aadOf_inj _ _ _ _ hcolon (parseInt64_no_colon _ _ a.hnbf) haad).1.symm

/-- changed **exp** string (everything else as issued) ⇒ rejected -/
theorem tamper_exp (hcolon : (0x3a : UInt8) ∉ nbfS)
    (hnbf : qGet u'.query (str "nbf") = nbfS)
    (hnonce : P.b64.dec (qGet u'.query (str "nonce")) = some n)
    (hreq : P.b64.dec (qGet u'.query (str "req")) = some (P.aead.sealA k n (aadOf nbfS expS) m)) :
    qGet u'.query (str "exp") = expS := by
  obtain ⟨a⟩ := unseal_ok_inv P k now u' res hok
  have hop := a.hopen
  rw [hnbf] at hop
  have e1 : a.nonce = n := Option.some.inj (a.hnonce.symm.trans hnonce)
  have e2 : a.ct = _ := Option.some.inj (a.hct.symm.trans hreq)
  rw [e1, e2] at hop
  have := (hI.open_iff _ _ _ _).mp hop
  have hinj := hI.seal_inj _ hmem _ this.1 this.2
  have haad : aadOf nbfS expS = aadOf nbfS (qGet u'.query (str "exp")) := by
    have := congrArg (fun e => e.2.1) hinj; simpa using this
  exact (aadOf_inj _ _ _ _ hcolon hcolon haad).2.symm

/-- changed **nonce** (as decoded; everything else as issued) ⇒ rejected -/
theorem tamper_nonce
    (hnbf : qGet u'.query (str "nbf") = nbfS) (hexp : qGet u'.query (str "exp") = expS)
    (hreq : P.b64.dec (qGet u'.query (str "req")) = some (P.aead.sealA k n (aadOf nbfS expS) m)) :
    P.b64.dec (qGet u'.query (str "nonce")) = some n := by
  obtain ⟨a⟩ := unseal_ok_inv P k now u' res hok
  have hop := a.hopen
  rw [hnbf, hexp] at hop
  have e2 : a.ct = _ := Option.some.inj (a.hct.symm.trans hreq)
  rw [e2] at hop
  have := (hI.open_iff _ _ _ _).mp hop
  have hinj := hI.seal_inj _ hmem _ this.1 this.2
  have hn : n = a.nonce := by
    have := congrArg (fun e => e.1) hinj; simpa using this
  rw [a.hnonce, hn]

/-- changed **sealed payload** (as decoded; everything else as issued) ⇒ rejected.  This is the
one place that needs nonces to be unique among issued URLs. -/
theorem tamper_req (hD : NoncesDistinct issued)
    (hnbf : qGet u'.query (str "nbf") = nbfS) (hexp : qGet u'.query (str "exp") = expS)
    (hnonce : P.b64.dec (qGet u'.query (str "nonce")) = some n) :
    P.b64.dec (qGet u'.query (str "req")) = some (P.aead.sealA k n (aadOf nbfS expS) m) := by
  obtain ⟨a⟩ := unseal_ok_inv P k now u' res hok
  have hop := a.hopen
  rw [hnbf, hexp] at hop
  have e1 : a.nonce = n := Option.some.inj (a.hnonce.symm.trans hnonce)
  rw [e1] at hop
  have := (hI.open_iff _ _ _ _).mp hop
  have hsame := hD _ hmem _ this.1 rfl
  have hm : m = a.msg := by
    have := congrArg (fun e => e.2.2) hsame; simpa using this
  rw [a.hct, this.2, hm]

end tamper

/-- **Tamper resistance**, summary: if an accepted URL agrees with an issued one in at least four
of the five authenticated values (outer path, `nbf` string, `exp` string, decoded nonce, decoded
payload), it agrees in all five — i.e. every single-field mutation is rejected. -/
theorem tamper_rejected (P : Params) (k : Bytes) (issued : List (Bytes × Bytes × Bytes))
    (hI : IdealAEAD P.aead k issued) (hD : NoncesDistinct issued)
    (n nbfS expS m ep : Bytes) (hmem : (n, aadOf nbfS expS, m) ∈ issued)
    (hstable : ∀ r, P.url.parse m = some r → r.escPath = ep) (hcolon : (0x3a : UInt8) ∉ nbfS)
    (now : Int) (u' : Url) (res : Bytes × Bytes) (hok : unsealUrl P k now u' = .ok res)
    (A B C D E : Prop)
    (hA : A ↔ u'.path = sealedPrefix ++ ep) (hB : B ↔ qGet u'.query (str "nbf") = nbfS)
    (hC : C ↔ qGet u'.query (str "exp") = expS)
    (hDn : D ↔ P.b64.dec (qGet u'.query (str "nonce")) = some n)
    (hE : E ↔ P.b64.dec (qGet u'.query (str "req")) = some (P.aead.sealA k n (aadOf nbfS expS) m))
    (hfour : (B ∧ C ∧ D ∧ E) ∨ (A ∧ C ∧ D ∧ E) ∨ (A ∧ B ∧ D ∧ E) ∨ (A ∧ B ∧ C ∧ E) ∨ (A ∧ B ∧ C ∧ D)) :
    A ∧ B ∧ C ∧ D ∧ E := by
  rcases hfour with ⟨b, c, d, e⟩ | ⟨a, c, d, e⟩ | ⟨a, b, d, e⟩ | ⟨a, b, c, e⟩ | ⟨a, b, c, d⟩
  · exact ⟨hA.mpr (tamper_path P k issued hI n nbfS expS m ep hmem now u' res hok hstable (hB.mp b) (hC.mp c) (hDn.mp d) (hE.mp e)), b, c, d, e⟩
  · exact ⟨a, hB.mpr (tamper_nbf P k issued hI n nbfS expS m hmem now u' res hok hcolon (hC.mp c) (hDn.mp d) (hE.mp e)), c, d, e⟩
  · exact ⟨a, b, hC.mpr (tamper_exp P k issued hI n nbfS expS m hmem now u' res hok hcolon (hB.mp b) (hDn.mp d) (hE.mp e)), d, e⟩
  · exact ⟨a, b, c, hDn.mpr (tamper_nonce P k issued hI n nbfS expS m hmem now u' res hok (hB.mp b) (hC.mp c) (hE.mp e)), e⟩
  · exact ⟨a, b, c, d, hE.mpr (tamper_req P k issued hI n nbfS expS m hmem now u' res hok hD (hB.mp b) (hC.mp c) (hDn.mp d))⟩

-- non-vacuity of the AEAD hypothesis: a (degenerate) instance with a one-entry log
def exA : Aead := ⟨fun _ _ _ _ => [42], fun _ n aad c => if n = [1] ∧ aad = [2] ∧ c = [42] then some [3] else none⟩
example : IdealAEAD exA [] [([1], [2], [3])] ∧ NoncesDistinct [(([1] : Bytes), ([2] : Bytes), ([3] : Bytes))] := by
  refine ⟨⟨?_, ?_⟩, ?_⟩
  · intro n aad c m
    simp only [exA, List.mem_singleton, Prod.mk.injEq]
    constructor
    · intro h; split at h
      · rename_i hc; cases h; exact ⟨⟨hc.1, hc.2.1, rfl⟩, hc.2.2⟩
      · cases h
    · rintro ⟨⟨rfl, rfl, rfl⟩, rfl⟩; simp
  · intro e he e' he' _; simp at he he'; rw [he, he']
  · intro e he e' he' _; simp at he he'; rw [he, he']

-- ====================================================================== Part 2: the file handler

/-- **Shape of `Clean` on a relative path**: either "." or k copies of ".." followed by normal
components (all ".." first). -/
theorem clean_rel_shape (p : Bytes) (hrel : p.head? ≠ some slash) :
    clean p = [dot] ∨ ∃ k comps, (∀ c ∈ comps, Normal c) ∧ List.replicate k dotdot ++ comps ≠ [] ∧
      clean p = joinSlash (List.replicate k dotdot ++ comps) := by
  cases p with
  | nil => left; rfl
  | cons c t =>
    have hc : (c == slash) = false := by
      cases h : c == slash
      · rfl
      · exfalso; apply hrel
        have : c = slash := by simpa using h
        simp [this]
    obtain ⟨dd', k, comps, hn, hout, _⟩ := loop_rel (c :: t) [] 0 ⟨0, [], by simp, by simp [joinSlash], by simp [joinSlash]⟩
    unfold clean
    simp only [hc, Bool.false_eq_true, if_false]
    by_cases he : (loop false (c :: t) [] 0).isEmpty = true
    · left; simp [he]
    · right
      simp only [he, Bool.false_eq_true, if_false]
      refine ⟨k, comps, hn, ?_, hout⟩
      intro h0; rw [h0] at hout; simp [joinSlash] at hout; simp [hout] at he

def dotdotSlash : Bytes := [dot, dot, slash]

/-- **No `..` survives the handler's tests.**  If the cleaned relative path does not start with
"../" and is not exactly ".." then it is "." or a sequence of normal components: no component is
"..".  (The handler's `/../` and `/..` tests are implied; the exact-".." case is the one its
string tests miss and its "must contain a slash" test catches.) -/
theorem clean_no_dotdot (p : Bytes) (hrel : p.head? ≠ some slash)
    (h1 : dotdotSlash.isPrefixOf (clean p) = false) (h2 : clean p ≠ dotdot) :
    clean p = [dot] ∨ ∃ comps, comps ≠ [] ∧ (∀ c ∈ comps, Normal c) ∧ clean p = joinSlash comps ∧
      splitSlash (clean p) = comps := by
  rcases clean_rel_shape p hrel with h | ⟨k, comps, hn, hne, hc⟩
  · left; exact h
  · right
    cases k with
    | zero =>
      simp only [List.replicate_zero, List.nil_append] at hne hc
      exact ⟨comps, hne, hn, hc, by rw [hc]; exact splitSlash_joinSlash comps hne (fun c hc => (hn c hc).2.1)⟩
    | succ k =>
      exfalso
      rw [List.replicate_succ, List.cons_append] at hc
      cases hrest : List.replicate k dotdot ++ comps with
      | nil => rw [hrest] at hc; exact h2 (by simpa [joinSlash] using hc)
      | cons b l =>
        rw [hrest, joinSlash_cons_cons] at hc
        rw [hc] at h1
        simp [dotdotSlash, dotdot, List.isPrefixOf] at h1

/-- lexical path resolution below a directory (the kernel's walk without symlinks): "" and "."
stay, ".." goes up (and stays at the top), a name goes down -/
def resolve : List Bytes → List Bytes → List Bytes
  | dir, [] => dir
  | dir, c :: cs =>
    if c = [] ∨ c = [dot] then resolve dir cs
    else if c = dotdot then resolve dir.dropLast cs
    else resolve (dir ++ [c]) cs

theorem resolve_normal (dir comps : List Bytes) (h : ∀ c ∈ comps, Normal c) :
    resolve dir comps = dir ++ comps := by
  induction comps generalizing dir with
  | nil => simp [resolve]
  | cons c cs ih =>
    have hc := h c (by simp)
    have h1 : ¬ (c = [] ∨ c = [dot]) := fun h => h.elim hc.1 hc.2.2.1
    simp only [resolve, h1, if_false, hc.2.2.2]
    rw [ih _ (fun x hx => h x (by simp [hx]))]; simp

theorem splitLastSlash_append_slash (a R : Bytes) :
    splitLastSlash (a ++ slash :: R) =
      match splitLastSlash R with
      | some (d, f) => some (a ++ slash :: d, f)
      | none => some (a, R) := by
  induction a with
  | nil =>
    simp only [List.nil_append, splitLastSlash]
    cases splitLastSlash R with
    | none => simp
    | some df => rfl
  | cons x a ih =>
    simp only [List.cons_append, splitLastSlash, ih]
    cases splitLastSlash R with
    | none => simp
    | some df => rfl

theorem splitLastSlash_noSlash (c : Bytes) (h : NoSlash c) : splitLastSlash c = none := by
  induction c with
  | nil => rfl
  | cons b r ih =>
    have hb : (b == slash) = false := by have := h b (by simp); simpa using this
    simp [splitLastSlash, ih (fun x hx => h x (by simp [hx])), hb]

theorem splitLastSlash_joinSlash (comps : List Bytes) (hn : ∀ c ∈ comps, NoSlash c) (d f : Bytes)
    (h : splitLastSlash (joinSlash comps) = some (d, f)) : 2 ≤ comps.length ∧ comps.getLast? = some f := by
  induction comps generalizing d with
  | nil => simp [joinSlash, splitLastSlash] at h
  | cons a t ih =>
    cases t with
    | nil => simp [joinSlash, splitLastSlash_noSlash a (hn a (by simp))] at h
    | cons b t' =>
      rw [joinSlash_cons_cons, splitLastSlash_append_slash] at h
      cases hs : splitLastSlash (joinSlash (b :: t')) with
      | none =>
        rw [hs] at h; simp at h
        cases t' with
        | nil => simp [joinSlash] at h ⊢; exact h.2
        | cons c t'' =>
          exfalso
          rw [joinSlash_cons_cons, splitLastSlash_append_slash] at hs
          cases hq : splitLastSlash (joinSlash (c :: t'')) <;> (rw [hq] at hs; simp at hs)
      | some df =>
        rw [hs] at h; simp at h
        have := ih (fun c hc => hn c (by simp [hc])) df.1 (by rw [hs, ← h.2])
        exact ⟨by simp, by simpa using this.2⟩

theorem trimLeftSlash_rel (p : Bytes) : (trimLeftSlash p).head? ≠ some slash := by
  induction p with
  | nil => simp [trimLeftSlash]
  | cons c r ih =>
    unfold trimLeftSlash
    by_cases hc : (c == slash) = true
    · simpa [hc] using ih
    · simp only [hc, Bool.false_eq_true, if_false, List.head?_cons]
      intro he; simp at he; simp [he] at hc

/-- a table-file name: 32 base32 characters, optionally followed by ".darc" -/
def HashLike (f : Bytes) : Prop :=
  isHashName f = true ∨ (archiveSuffix.isSuffixOf f = true ∧ isHashName (f.take (f.length - archiveSuffix.length)) = true)

/-- **GET confinement.**  Whatever path `ServeHTTP` opens for a GET is a sequence of ≥ 2 normal
components (no "", ".", ".."), so its lexical resolution below any root is the root followed by
those components — the root is a prefix — and its last component is a hash-like file name. -/
theorem confined_get (urlPath rel : Bytes) (h : getPath urlPath = .serve rel) (root : List Bytes) :
    ∃ comps f, (∀ c ∈ comps, Normal c) ∧ rel = joinSlash comps ∧ 2 ≤ comps.length ∧
      resolve root (splitSlash rel) = root ++ comps ∧ comps.getLast? = some f ∧ HashLike f := by
  unfold getPath at h
  simp only at h
  split at h; · cases h
  rename_i htests
  split at h; · cases h
  rename_i d f hsplit
  have hserve : rel = clean (trimLeftSlash urlPath) ∧
      isHashName (if hasSuffix f archiveSuffix = true then f.take (f.length - archiveSuffix.length) else f) = true := by
    by_cases hh : isHashName (if hasSuffix f archiveSuffix = true then f.take (f.length - archiveSuffix.length) else f) = true
    · simp only [hh, if_true] at h; cases h; exact ⟨rfl, hh⟩
    · simp only [hh, Bool.false_eq_true, if_false] at h; cases h
  obtain ⟨hrelEq, hhash⟩ := hserve
  subst hrelEq
  have hrel := trimLeftSlash_rel urlPath
  have hpre : str "../" = dotdotSlash := by decide
  have h1 : dotdotSlash.isPrefixOf (clean (trimLeftSlash urlPath)) = false := by
    cases hq : dotdotSlash.isPrefixOf (clean (trimLeftSlash urlPath))
    · rfl
    · exfalso; simp [hasPrefix, hpre, hq] at htests
  have h2 : clean (trimLeftSlash urlPath) ≠ dotdot := by
    intro he; rw [he] at hsplit
    simp [dotdot, splitLastSlash, dot, slash] at hsplit
  rcases clean_no_dotdot _ hrel h1 h2 with hd | ⟨comps, hne, hn, hc, hs⟩
  · rw [hd] at hsplit; simp [splitLastSlash, dot, slash] at hsplit
  · rw [hc] at hsplit
    have := splitLastSlash_joinSlash comps (fun c hc => (hn c hc).2.1) d f hsplit
    refine ⟨comps, f, hn, hc, this.1, ?_, this.2, ?_⟩
    · rw [hs]; exact resolve_normal root comps hn
    · unfold HashLike
      by_cases hsuf : hasSuffix f archiveSuffix = true
      · right; simp only [hsuf, if_true] at hhash; exact ⟨hsuf, hhash⟩
      · left; simpa [hsuf] using hhash

theorem isHashChar_ne_slash (c : UInt8) (h : isHashChar c = true) : c ≠ slash ∧ c ≠ dot := by
  constructor <;> (intro he; subst he; simp [isHashChar, slash, dot] at h)

/-- **POST/PUT confinement of the file name.**  The name handed to `writeTableFile` is a 32
character base32 name, optionally with the ".darc" suffix: it contains no '/', so the file is
created directly inside the store directory the `DBCache` returns.  The database path `dbPath` is
passed to the `DBCache` *as received* (not cleaned, may contain ".."): confinement of the directory
is the `DBCache`'s obligation, see `post_dbpath_unconstrained`. -/
theorem confined_post (urlPath dbPath file : Bytes) (h : postPath urlPath = .write dbPath file) :
    validateFileName file = true ∧ isHashName (file.take 32) = true ∧
      (file.length = 32 ∨ (file.length = 37 ∧ archiveSuffix.isSuffixOf file = true)) := by
  unfold postPath at h
  simp only at h
  split at h; · cases h
  split at h
  · rename_i hv
    cases h
    refine ⟨hv, ?_⟩
    unfold validateFileName at hv
    have hal : archiveSuffix.length = 5 := by decide
    split at hv
    · rename_i h32
      have : file.length = 32 := by simpa using h32
      exact ⟨by rw [List.take_of_length_le (by omega)]; exact hv, Or.inl this⟩
    · split at hv
      · rename_i h37
        simp only [Bool.and_eq_true, beq_iff_eq, hasSuffix] at h37
        exact ⟨hv, Or.inr ⟨by omega, h37.2⟩⟩
      · cases hv
  · cases h

/-- the POST branch does not constrain the database path: a traversal reaches the `DBCache` -/
theorem post_dbpath_unconstrained :
    postPath (str "/../../x/0123456789abcdefghijklmnopqrstuv") =
      .write (str "../../x") (str "0123456789abcdefghijklmnopqrstuv") := by decide

-- non-vacuity
example : getPath (str "/db//./sub/../0123456789abcdefghijklmnopqrstuv.darc") =
    .serve (str "db/0123456789abcdefghijklmnopqrstuv.darc") := by decide +kernel
example : getPath (str "/db/../../0123456789abcdefghijklmnopqrstuv") = .dotdot := by decide +kernel
example : getPath (str "/..") = .noSlash := by decide +kernel
example : clean (str "a/../../b/./c//d/..") = str "../b/c" := by decide +kernel

end DoltVerif.C39
