import DoltVerif.Props.C20
/-!
C21 — A commit and its working-set update land together.

`CommitWithWorkingSet` writes the branch head and the working set inside one edit closure, hence
with one compare-and-swap of the single root register (`Model/RefStore.lean`, `Op.commitWS`).
All statements hold for every schedule of every mix of concurrent operations, crashes included.
-/
namespace DoltVerif.C21
open DoltVerif.RefStore

/-- **guards.**  The combined update succeeds only if the working set is still the one the caller
read (`prevWsHash`) *and* the branch head is still the caller's head; then both keys are written. -/
theorem guards {os : Objs} {c w : Name} {h1 w1 w0 h0 loc : Nat} {m m' : DMap}
    (h : (edit os (.commitWS c w h1 w1 w0 h0) loc m).2 = .ok m') :
    get m w = w0 ∧ get m c = h0 ∧ m' = put (put m c h1) w w1 := by
  have e1 := C20.succeeds_only_on_expected h (w, w0) (by simp [C20.expects])
  have e2 := C20.succeeds_only_on_expected h (c, h0) (by simp [C20.expects])
  refine ⟨e1, e2, ?_⟩
  simp only [edit] at h
  split at h
  · cases h
  · split at h
    · cases h
    · cases h; rfl

/-- the effect on the pair: both new values, nothing else touched -/
theorem pair_effect {os : Objs} {c w : Name} {h1 w1 w0 h0 loc : Nat} {m m' : DMap}
    (h : (edit os (.commitWS c w h1 w1 w0 h0) loc m).2 = .ok m') (hcw : c ≠ w)
    (hc : c < m.length) (hw : w < m.length) :
    (get m c, get m w) = (h0, w0) ∧ (get m' c, get m' w) = (h1, w1) ∧
    ∀ k, k ≠ c → k ≠ w → get m' k = get m k := by
  obtain ⟨e1, e2, e3⟩ := guards h
  subst e3
  refine ⟨by rw [e1, e2], ?_, ?_⟩
  · rw [get_put_other hcw, get_put_same hc, get_put_same (by rw [length_put]; exact hw)]
  · intro k hkc hkw
    rw [get_put_other hkw, get_put_other hkc]

/-- one step of the system never shows half of a combined update: whatever step is taken while
thread `t` runs `CommitWithWorkingSet`, if that step is `t`'s, the root either stays as it is or
moves from `(h0, w0)` to `(h1, w1)` in both keys at once. -/
theorem pair_step_atomic {os : Objs} {s s' : State} {t : Nat} {th : Thread} {c w : Name} {h1 w1 w0 h0 : Nat}
    (hth : thread s t = some th) (hop : th.op = .commitWS c w h1 w1 w0 h0)
    (hcw : c ≠ w) (hc : c < s.root.length) (hw : w < s.root.length)
    (hs : step os s (.attempt t) = some s') :
    s'.root = s.root ∨
    ((get s.root c, get s.root w) = (h0, w0) ∧ (get s'.root c, get s'.root w) = (h1, w1) ∧
      ∀ k, k ≠ c → k ≠ w → get s'.root k = get s.root k) := by
  simp only [step, hth] at hs
  split at hs
  · cases hs
  · rename_i r k _
    split at hs
    · cases hs; exact .inl rfl
    · rename_i loc' m' hed
      split at hs
      · rename_i hroot
        cases hs
        right
        have he : (edit os (.commitWS c w h1 w1 w0 h0) th.loc s.root).2 = .ok m' := by
          rw [← hop, hroot, hed]
        exact pair_effect he hcw hc hw
      · cases hs; exact .inl rfl

/-- **pair_atomic.**  In every schedule, every `CommitWithWorkingSet` that took effect found
`(head, ws) = (h0, w0)` and left `(head, ws) = (h1, w1)` — in one root transition; since the roots
ever held are exactly the successive states of the event log (`C20.update_linearizable`), no root
between the two exists, so no reader of any root can see `(h1, w0)` or `(h0, w1)` produced by this
operation; a `CommitWithWorkingSet` that failed produced no root at all. -/
theorem pair_atomic (os : Objs) (init : DMap) (n : Nat) (sched : List Label) (s : State)
    (h : exec os (State.init init n) sched = some s) :
    ∀ t c w h1 w1 w0 h0 loc pre post, Event.applied t (.commitWS c w h1 w1 w0 h0) loc pre post ∈ s.events →
      c ≠ w → c < pre.length → w < pre.length →
      (get pre c, get pre w) = (h0, w0) ∧ (get post c, get post w) = (h1, w1) ∧
      ∀ k, k ≠ c → k ≠ w → get post k = get pre k := by
  have hv := (C20.update_linearizable os init n sched s h).1
  intro t c w h1 w1 w0 h0 loc pre post hm hcw hc hw
  have key : ∀ (cur : DMap) (evs : List Event), Valid os cur evs →
      Event.applied t (.commitWS c w h1 w1 w0 h0) loc pre post ∈ evs →
      (edit os (.commitWS c w h1 w1 w0 h0) loc pre).2 = .ok post := by
    intro cur evs
    induction evs generalizing cur with
    | nil => intro _ hm; cases hm
    | cons ev rest ih =>
      intro hv hm
      cases ev with
      | applied t' op' loc' pre' post' =>
        obtain ⟨_, h2, h3⟩ := hv
        cases hm with
        | head => exact h2
        | tail _ hm' => exact ih _ h3 hm'
      | failed t' op' loc' seen' k' sn' e' =>
        obtain ⟨_, h2⟩ := hv
        cases hm with
        | tail _ hm' => exact ih _ h2 hm'
  exact pair_effect (key init s.events hv hm) hcw hc hw

/-- **pair_crash_atomic.**  A crash at any point — in particular between the read and the CAS of a
`CommitWithWorkingSet`, or after its CAS and before its acknowledgement — leaves the root register
and the log of effects as they are and forgets every in-flight operation: the recovered root is one
of the roots of the event log, i.e. the state before or after the combined update, never between.
(That the register itself survives a crash as a single value is C02/C03's subject: one root record
in the journal.) -/
theorem pair_crash_atomic {os : Objs} {s s' : State} (hs : step os s .crash = some s') :
    s'.root = s.root ∧ s'.events = s.events ∧ s'.hist = s.hist ∧ ∀ t, thread s' t = none := by
  simp only [step] at hs
  cases hs
  refine ⟨rfl, rfl, rfl, ?_⟩
  intro t
  simp only [thread, List.getElem?_map]
  cases s.threads[t]? <;> rfl

/-- …and the invariants of C20 keep holding after the crash, for whatever runs next. -/
theorem linearizable_across_crashes (os : Objs) (init : DMap) (n : Nat) (sched1 sched2 : List Label) (s : State)
    (h : exec os (State.init init n) (sched1 ++ [.crash] ++ sched2) = some s) :
    Valid os init s.events ∧ final init s.events = s.root :=
  let r := C20.update_linearizable os init n _ s h
  ⟨r.1, r.2.1⟩

/-! ### non-vacuity: a combined update races with a working-set writer and loses once -/

def pairSched : List Label :=
  [.invoke 0 (.commitWS 0 1 11 51 50 10), .invoke 1 (.updateWS 1 60 50), .read 0, .read 1, .attempt 1,
   .attempt 0, .read 0, .attempt 0]

/-- thread 1 changed the working set first: the combined update retries, sees ws = 60 ≠ 50 and
fails; the head is untouched (never (11, 60) or (11, 50)). -/
example : (exec [] (State.init [10, 50] 2) pairSched).map (fun s => (s.root, s.hist)) =
    some ([10, 60], [[10, 50], [10, 60]]) := by decide

example : (exec [] (State.init [10, 50] 2)
    [.invoke 0 (.commitWS 0 1 11 51 50 10), .read 0, .crash, .invoke 0 (.commitWS 0 1 11 51 50 10), .read 0, .attempt 0]).map
      (fun s => (s.root, s.hist)) = some ([11, 51], [[10, 50], [11, 51]]) := by decide

end DoltVerif.C21
