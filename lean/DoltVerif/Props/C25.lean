import DoltVerif.Model.TxnIdx
import DoltVerif.Lemmas.TxnDump
/-!
C25 — Secondary indexes always mirror their table.  Statements about `Model/TxnIdx.lean` for all
tables, all index definitions (any column list, any prefix lengths, unique or not) and all operation
sequences.
-/
namespace DoltVerif.C25
open DoltVerif.Txn DoltVerif.TxnIdx

/-- "exactly one entry per row, derived from that row's current values, and nothing else":
the stored entries have no duplicates and `e` is stored iff it is the entry of a current row -/
def Mirrors (d : IdxDef) (rows : Root) (es : Entries) : Prop :=
  es.Nodup ∧ ∀ e, e ∈ es ↔ ∃ k r, get rows k = some r ∧ e = entry d k r

def Inv (t : ITable) : Prop := ∀ p ∈ t.idx, Mirrors p.1 t.rows p.2

theorem entry_key_inj {d : IdxDef} {k k' : Key} {r r' : Row} (h : entry d k r = entry d k' r') : k = k' := by
  unfold entry at h
  have := List.append_inj_right' h rfl
  simpa using this

theorem mem_addE (e x : List Cell) (es : Entries) : x ∈ addE e es ↔ x = e ∨ x ∈ es := by
  unfold addE; split
  · constructor
    · exact Or.inr
    · rintro (rfl | h) <;> assumption
  · simp

theorem nodup_addE (e : List Cell) (es : Entries) (h : es.Nodup) : (addE e es).Nodup := by
  unfold addE; split
  · exact h
  · exact List.nodup_cons.2 ⟨by assumption, h⟩

theorem mem_delE (e x : List Cell) (es : Entries) : x ∈ delE e es ↔ x ≠ e ∧ x ∈ es := by
  unfold delE; simp [List.mem_filter, and_comm]

theorem nodup_delE (e : List Cell) (es : Entries) (h : es.Nodup) : (delE e es).Nodup :=
  h.sublist List.filter_sublist

theorem get_rowsAfter (k : Key) (v : Option Row) (rows : Root) (k' : Key) :
    get (rowsAfter k v rows) k' = if k' = k then v else get rows k' := by
  cases v with
  | none => simp only [rowsAfter]; rw [get_del]
  | some r => simp only [rowsAfter]; rw [get_put]

/-- deleting the old entry leaves exactly the entries of the other rows -/
theorem delOld_spec (d : IdxDef) (k : Key) (rows : Root) (es : Entries) (h : Mirrors d rows es) :
    let es1 := match get rows k with | some ro => delE (entry d k ro) es | none => es
    es1.Nodup ∧ ∀ e, e ∈ es1 ↔ ∃ k' r, k' ≠ k ∧ get rows k' = some r ∧ e = entry d k' r := by
  obtain ⟨hnd, hiff⟩ := h
  cases hold : get rows k with
  | none =>
    refine ⟨hnd, fun e => ?_⟩
    rw [hiff]
    constructor
    · rintro ⟨k', r, hg, rfl⟩
      exact ⟨k', r, (by intro hk; subst hk; rw [hold] at hg; cases hg), hg, rfl⟩
    · rintro ⟨k', r, _, hg, rfl⟩; exact ⟨k', r, hg, rfl⟩
  | some ro =>
    refine ⟨nodup_delE _ _ hnd, fun e => ?_⟩
    rw [mem_delE, hiff]
    constructor
    · rintro ⟨hne, k', r, hg, rfl⟩
      refine ⟨k', r, ?_, hg, rfl⟩
      intro hk; subst hk; rw [hold] at hg; injection hg with hg; subst hg; exact hne rfl
    · rintro ⟨k', r, hk, hg, rfl⟩
      exact ⟨fun heq => hk (entry_key_inj heq), k', r, hg, rfl⟩

theorem idxAfter_mirrors (d : IdxDef) (k : Key) (v : Option Row) (rows : Root) (es : Entries)
    (h : Mirrors d rows es) : Mirrors d (rowsAfter k v rows) (idxAfter d k (get rows k) v es) := by
  obtain ⟨hnd1, hiff1⟩ := delOld_spec d k rows es h
  unfold idxAfter
  cases v with
  | none =>
    refine ⟨hnd1, fun e => ?_⟩
    show (e ∈ match get rows k with | some ro => delE (entry d k ro) es | none => es) ↔ _
    rw [hiff1]
    constructor
    · rintro ⟨k', r, hk, hg, rfl⟩; exact ⟨k', r, by rw [get_rowsAfter]; simp [hk, hg], rfl⟩
    · rintro ⟨k', r, hg, rfl⟩
      rw [get_rowsAfter] at hg
      by_cases hk : k' = k
      · simp [hk] at hg
      · exact ⟨k', r, hk, by simpa [hk] using hg, rfl⟩
  | some rn =>
    refine ⟨nodup_addE _ _ hnd1, fun e => ?_⟩
    show (e ∈ addE (entry d k rn) (match get rows k with | some ro => delE (entry d k ro) es | none => es)) ↔ _
    rw [mem_addE, hiff1]
    constructor
    · rintro (rfl | ⟨k', r, hk, hg, rfl⟩)
      · exact ⟨k, rn, by rw [get_rowsAfter]; simp, rfl⟩
      · exact ⟨k', r, by rw [get_rowsAfter]; simp [hk, hg], rfl⟩
    · rintro ⟨k', r, hg, rfl⟩
      rw [get_rowsAfter] at hg
      by_cases hk : k' = k
      · subst hk; simp at hg; subst hg; exact Or.inl rfl
      · exact Or.inr ⟨k', r, hk, by simpa [hk] using hg, rfl⟩

/-- the fan-out of one row change keeps every index a mirror of the table -/
theorem setKey_inv (k : Key) (v : Option Row) (t : ITable) (h : Inv t) : Inv (setKey k v t) := by
  intro p hp
  simp only [setKey, List.mem_map] at hp
  obtain ⟨q, hmem, rfl⟩ := hp
  exact idxAfter_mirrors q.1 k v t.rows q.2 (h q hmem)

/-- a (re)built index mirrors the table -/
theorem rebuild_mirrors (d : IdxDef) (rows : Root) : Mirrors d rows (rebuild d rows) := by
  unfold rebuild
  constructor
  · have hk := nodup_dump_keys rows
    generalize dump rows = l at hk
    induction l with
    | nil => simp
    | cons p l ih =>
      obtain ⟨k, r⟩ := p
      simp only [List.map_cons, List.nodup_cons] at hk ⊢
      refine ⟨?_, ih hk.2⟩
      intro hm
      rw [List.mem_map] at hm
      obtain ⟨⟨k', r'⟩, hm, he⟩ := hm
      have := entry_key_inj he; subst this
      exact hk.1 (List.mem_map.2 ⟨(k', r'), hm, rfl⟩)
  · intro e
    simp only [List.mem_map]
    constructor
    · rintro ⟨⟨k, r⟩, hm, rfl⟩; exact ⟨k, r, (mem_dump rows k r).1 hm, rfl⟩
    · rintro ⟨k, r, hg, rfl⟩; exact ⟨(k, r), (mem_dump rows k r).2 hg, rfl⟩

/-- `index_inv` (step): every operation — insert, update (delete-old + insert-new, also when no
indexed column changes), delete, CREATE INDEX (rebuild), DROP INDEX, three-way merge applied through
the per-key fan-out — keeps every index an exact mirror of the primary rows. -/
theorem applyIOp_inv (t : ITable) (op : IOp) (h : Inv t) : Inv (applyIOp t op).1 := by
  cases op with
  | ins k r =>
    simp only [applyIOp]
    split
    · exact h
    · split
      · exact h
      · exact setKey_inv _ _ _ h
  | upd k c v =>
    simp only [applyIOp]
    split
    · exact h
    · split
      · exact h
      · exact setKey_inv _ _ _ h
  | del k => exact setKey_inv _ _ _ h
  | createIndex d =>
    simp only [applyIOp]
    split
    · exact h
    · intro p hp
      simp only [List.mem_append, List.mem_singleton] at hp
      rcases hp with hp | rfl
      · exact h p hp
      · exact rebuild_mirrors d t.rows
  | dropIndex n =>
    simp only [applyIOp]
    split
    · intro p hp
      exact h p (List.mem_filter.1 hp).1
    · exact h
  | mergeFrom w s =>
    simp only [applyIOp]
    split
    · exact h
    · generalize mergeKeysOf t.rows w s = ks
      -- fold of setKey steps from an invariant state
      have : ∀ (acc : ITable), Inv acc →
          Inv (ks.foldl (fun acc k => if mergedAt t.rows w s k = get t.rows k then acc else setKey k (mergedAt t.rows w s k) acc) acc) := by
        induction ks with
        | nil => intro acc ha; exact ha
        | cons a ks ih =>
          intro acc ha
          simp only [List.foldl_cons]
          apply ih
          split
          · exact ha
          · exact setKey_inv _ _ _ ha
      exact this t h

/-- `index_inv`: for every reachable table state — any program of the operations above from a table
without indexes (or from any state satisfying the invariant) — every index contains exactly one
entry per row, derived from the row's current values, and nothing else. -/
theorem index_inv (ops : List IOp) (t : ITable) (h : Inv t) : Inv (runIOps t ops) := by
  induction ops generalizing t with
  | nil => exact h
  | cons op rest ih => exact ih _ (applyIOp_inv t op h)

theorem index_inv_from_empty (rows : Root) (ops : List IOp) : Inv (runIOps ⟨rows, []⟩ ops) :=
  index_inv ops _ (by intro p hp; cases hp)

/-- the merged rows the fold of `mergeFrom` produces are the three-way merge of the rows -/
example : (applyIOp ⟨[(1, [some (.int 1), some (.str "ab")])], [(⟨"i", [1], [1], false⟩, [[some (.str "a"), some (.int 1)]])]⟩
    (.upd 1 1 (some (.str "zz")))).1.idx = [(⟨"i", [1], [1], false⟩, [[some (.str "z"), some (.int 1)]])] := by decide

example : Inv (runIOps ⟨[], []⟩ [.createIndex ⟨"i", [1], [1], false⟩, .ins 1 [some (.int 1), some (.str "ab")],
    .upd 1 1 (some (.str "zz")), .mergeFrom [(2, [none, none])] []]) := index_inv_from_empty _ _

end DoltVerif.C25
