import DoltVerif.Lemmas.RefStore
import DoltVerif.Props.C19
/-!
C20 — Ref updates are linearizable and never lose a concurrent update.

Statements are about `Model/RefStore.lean`: the store root is one register holding the datasets
map; every `database.update(edit)` is the loop {read root; evaluate the edit closure; CAS}, taken
apart into the atomic steps `read` and `attempt`; any number of threads, any operations with any
parameters invoked at any time (`Label.invoke`), crashes included.  All theorems quantify over
**every** schedule (`exec os (State.init init n) sched = some s`).
-/
namespace DoltVerif.C20
open DoltVerif.RefStore DoltVerif.Dag

/-- **update_linearizable.**  For every schedule of atomic steps: the log of completed operations,
read as a *sequential* program from the initial map, is valid — each operation that took effect
(`applied`, logged at its successful CAS, in CAS order) evaluated its edit on exactly the state
the sequential run is in at that point (`pre = cur`) and produced the next state; each failed
operation (`failed`) is an error result of its edit and changes nothing — and the final root is
the result of that sequential run; the roots ever held are exactly its successive states. -/
theorem update_linearizable (os : Objs) (init : DMap) (n : Nat) (sched : List Label) (s : State)
    (h : exec os (State.init init n) sched = some s) :
    Valid os init s.events ∧ final init s.events = s.root ∧ s.hist = roots init s.events := by
  have hg := good_exec (good_init os init n) h
  exact ⟨hg.valid, hg.root_eq, hg.hist_eq⟩

/-- an operation takes effect at most once: the step that logs its completion makes its thread
idle, and an idle thread logs nothing until a new operation is invoked -/
theorem complete_once {os : Objs} {s s' : State} {t : Nat} (hs : step os s (.attempt t) = some s')
    (hlog : s'.events.length = s.events.length + 1) (ht : t < s.threads.length) : thread s' t = none := by
  simp only [step] at hs
  split at hs
  · rename_i th _
    split at hs
    · cases hs
    · split at hs
      · cases hs; simp [thread, ht]
      · split at hs
        · cases hs; simp [thread, ht]
        · cases hs; simp at hlog
  · cases hs

theorem idle_cannot_attempt {os : Objs} {s : State} {t : Nat} (h : thread s t = none) :
    step os s (.attempt t) = none ∧ step os s (.read t) = none := by
  simp [step, h]

/-- the expectations a conditional update carries: (dataset, value it must currently hold) -/
def expects : Op → List (Name × Nat)
  | .commit ds e _ => [(ds, e)]
  | .ff ds e _ _ _ _ => [(ds, e)]
  | .tag ds _ => [(ds, 0)]
  | .updateWS ds _ prev => [(ds, prev)]
  | .commitWS c w _ _ pw eh => [(w, pw), (c, eh)]
  | .setHead _ _ _ _ => []
  | .delete _ _ => []
  | .set _ _ => []

/-- a conditional update succeeds only on a map that holds exactly what it expects -/
theorem succeeds_only_on_expected {os : Objs} {op : Op} {loc : Nat} {m m' : DMap}
    (h : (edit os op loc m).2 = .ok m') : ∀ p ∈ expects op, get m p.1 = p.2 := by
  cases op with
  | commit ds e hh =>
    simp only [edit] at h
    split at h
    · cases h
    · rename_i hne
      intro p hp; simp only [expects, List.mem_singleton] at hp; subst hp
      simpa using hne
  | ff ds e hh ws ad nw =>
    simp only [edit] at h
    split at h
    · cases h
    · rename_i hne
      intro p hp; simp only [expects, List.mem_singleton] at hp; subst hp
      simpa using hne
  | tag ds t =>
    simp only [edit] at h
    split at h
    · cases h
    · rename_i hne
      intro p hp; simp only [expects, List.mem_singleton] at hp; subst hp
      simpa using hne
  | updateWS ds a prev =>
    simp only [edit] at h
    split at h
    · cases h
    · rename_i hne
      intro p hp; simp only [expects, List.mem_singleton] at hp; subst hp
      simpa using hne
  | commitWS c w hh wa pw eh =>
    simp only [edit] at h
    split at h
    · cases h
    · rename_i hne1
      split at h
      · cases h
      · rename_i hne2
        intro p hp
        simp only [expects, List.mem_cons, List.not_mem_nil, or_false] at hp
        rcases hp with hp | hp <;> subst hp
        · simpa using hne1
        · simpa using hne2
  | setHead _ _ _ _ => intro p hp; cases hp
  | delete _ _ => intro p hp; cases hp
  | set _ _ => intro p hp; cases hp

/-- a delete that has seen the branch at `first` on an earlier attempt only deletes that value -/
theorem delete_pinned {os : Objs} {ds : Name} {ws : Option Name} {loc : Nat} {m m' : DMap}
    (h : (edit os (.delete ds ws) loc m).2 = .ok m') (hloc : loc ≠ 0) : get m ds = loc := by
  by_cases hc : get m ds = loc
  · exact hc
  · exfalso
    have hb : (get m ds != 0 && loc == 0) = false := by simp [hloc]
    simp [edit, hb, hc] at h

/-- **no_lost_update.**  In every schedule, whenever an operation took effect, the root it replaced
(`pre`, which by `update_linearizable` is the result of everything linearized before it — in
particular of the latest acknowledged update of each dataset) holds, in every dataset the
operation is conditional on, exactly the value the caller expected.  So an acknowledged update is
only ever replaced by an operation that is linearized later *and observed it*; an operation with
a stale expectation fails instead (`stale_fails`). -/
theorem no_lost_update (os : Objs) (init : DMap) (n : Nat) (sched : List Label) (s : State)
    (h : exec os (State.init init n) sched = some s) :
    ∀ t op loc pre post, Event.applied t op loc pre post ∈ s.events → ∀ p ∈ expects op, get pre p.1 = p.2 := by
  have hv := (update_linearizable os init n sched s h).1
  intro t op loc pre post hm
  have key : ∀ (cur : DMap) (evs : List Event), Valid os cur evs → Event.applied t op loc pre post ∈ evs →
      (edit os op loc pre).2 = .ok post := by
    intro cur evs
    induction evs generalizing cur with
    | nil => intro _ hm; cases hm
    | cons ev rest ih =>
      intro hv hm
      cases ev with
      | applied t' op' loc' pre' post' =>
        obtain ⟨_, h2, h3⟩ := hv
        cases hm with
        | head => exact h2
        | tail _ hm' => exact ih _ h3 hm'
      | failed t' op' loc' seen' k' sn' e' =>
        obtain ⟨_, h2⟩ := hv
        cases hm with
        | tail _ hm' => exact ih _ h2 hm'
  exact succeeds_only_on_expected (key init s.events hv hm)

theorem stale_fails {os : Objs} {op : Op} {loc : Nat} {m : DMap} {p : Name × Nat}
    (hp : p ∈ expects op) (hstale : get m p.1 ≠ p.2) : ∃ e, (edit os op loc m).2 = .error e := by
  cases hres : (edit os op loc m).2 with
  | error e => exact ⟨e, rfl⟩
  | ok m' => exact absurd (succeeds_only_on_expected hres p hp) hstale

/-- what each successful operation writes (datasets inside the universe) -/
theorem commit_effect {os : Objs} {ds : Name} {e hh loc : Nat} {m m' : DMap}
    (h : (edit os (.commit ds e hh) loc m).2 = .ok m') : m' = put m ds hh ∧ get m ds = e := by
  have he := succeeds_only_on_expected h (ds, e) (by simp [expects])
  simp only [edit] at h
  split at h
  · cases h
  · split at h
    · cases h
    · cases h; exact ⟨rfl, he⟩

/-- `BuildNewCommit`: an ordinary commit (no Force, no Amend) on a dataset that has a head gets that
head among its parents -/
theorem buildParents_contains_head {head : Nat} {ps ps' : List Nat} (hh : head ≠ 0)
    (h : buildParents head ps false 0 = .ok ps') : head ∈ ps' := by
  by_cases hps : ps.isEmpty = true
  · simp [buildParents, hh, hps] at h
    subst h; simp
  · by_cases hc : head ∈ ps
    · simp [buildParents, hh, hps, hc] at h
      subst h; exact hc
    · simp [buildParents, hh, hps, hc] at h

/-- **commit_ff_move_to_descendant.**  (a) A successful ordinary `Commit` moves the branch from the
head `e` the caller's snapshot showed to a commit that names `e` as a parent, hence to a proper
descendant.  (b) A successful `FastForward` (pre-check + edit) moves the branch from `e` to a
commit of which `e` is an ancestor-or-self, by C19's soundness of `FindCommonAncestor`. -/
theorem commit_ff_move_to_descendant {g : Graph} (hb : Built g) {os : Objs} :
    (∀ {ds : Name} {e hh loc : Nat} {m m' : DMap} {ps ps' : List Nat} {hc : Commit},
      buildParents e ps false 0 = .ok ps' → e ≠ 0 → lookup g hh = some hc → hc.parents = ps' →
      (edit os (.commit ds e hh) loc m).2 = .ok m' → get m ds = e ∧ m' = put m ds hh ∧ Anc g e hh) ∧
    (∀ {ds : Name} {e hh loc nw : Nat} {ws : Option Name} {ad : Bool} {m m' : DMap},
      ffPre g e hh = .ok () → e ≠ 0 →
      (edit os (.ff ds e hh ws ad nw) loc m).2 = .ok m' → get m ds = e ∧ AncStar g e hh) := by
  constructor
  · intro ds e hh loc m m' ps ps' hc hbp he hl hpar hed
    obtain ⟨h1, h2⟩ := commit_effect hed
    refine ⟨h2, h1, .parent ⟨hc, hl, ?_⟩⟩
    rw [hpar]; exact buildParents_contains_head he hbp
  · intro ds e hh loc nw ws ad m m' hpre he hed
    refine ⟨succeeds_only_on_expected hed (ds, e) (by simp [expects]), ?_⟩
    simp only [ffPre, he, if_false] at hpre
    split at hpre
    · rename_i c nn hlc hln
      have hcm := (lookup_some hlc)
      have hnm := (lookup_some hln)
      obtain ⟨r, hr, hs⟩ := C19.lca_sound_complete hb hcm.1 hnm.1
      rw [hr] at hpre
      cases r with
      | none => cases hpre
      | some a =>
        simp only at hpre
        split at hpre
        · rename_i hae
          obtain ⟨_, _, hca, _⟩ := hs
          rw [hcm.2, hnm.2] at hca
          rw [← hae]; exact hca.2
        · cases hpre
    · cases hpre

/-- **forced_ops_unconditional.**  The forcing writes succeed from any state: the plain setters
always; `SetHead` without a working-set path whenever the head type does not change (it never
compares the current value with an expectation). -/
theorem forced_ops_unconditional (os : Objs) (loc : Nat) (m : DMap) :
    (∀ ds v, (edit os (.set ds v) loc m).2 = .ok (put m ds v)) ∧
    (∀ ds hh nw, (get m ds = 0 ∨ typeName os (get m ds) = typeName os hh) →
      (edit os (.setHead ds hh none nw) loc m).2 = .ok (put m ds hh)) := by
  constructor
  · intro ds v; rfl
  · intro ds hh nw hcond
    simp only [edit]
    split
    · rename_i hc
      rcases hcond with h0 | ht
      · simp [h0] at hc
      · simp [ht] at hc
    · rfl

/-! ### non-vacuity: two committers race on one branch; the loser retries and fails -/

def raceSched : List Label :=
  [.invoke 0 (.commit 0 0 11), .invoke 1 (.commit 0 0 22), .read 0, .read 1, .attempt 1, .attempt 0, .read 0, .attempt 0]

example : (exec [] (State.init [0, 0] 2) raceSched).map (fun s => (s.root, s.events.length, s.hist)) =
    some ([22, 0], 2, [[0, 0], [22, 0]]) := by decide

example : (exec [] (State.init [0, 0] 2) raceSched).map (·.events) =
    some [.applied 1 (.commit 0 0 22) 0 [0, 0] [22, 0], .failed 0 (.commit 0 0 11) 0 [22, 0] 1 0 .mergeNeeded] := by decide

end DoltVerif.C20
