import DoltVerif.Lemmas.JournalLoss
import DoltVerif.Lemmas.JournalWriter
import DoltVerif.Lemmas.JournalWindow
/-!
C03 — Crash at any point recovers the last acknowledged state without loss.

Statements about `Model/JournalRec.lean`, `Model/JournalRecover.lean` (transliterations of
`journal_record.go`) and `Model/JournalWriter.lean` (state machine of `journal_writer.go`), tied to
the Go source by `Tie/Journal.lean` and by the `journalcrash` harness.  `B` is
`journalWriterBuffSize`.  CRC-32C is never unfolded: every theorem holds for any checksum function.
-/
namespace DoltVerif.C03
open DoltVerif.Journal

/-- `readRecord_encode`: what either writer emits validates and parses back to the record. -/
theorem readRecord_encode (r : Rec) (h : r.Fits) :
    validate r.encode = .ok () ∧ readRecord r.encode = .ok r.parsed := by
  refine ⟨?_, Journal.readRecord_encode r h⟩
  have := isValid_encode r h
  unfold isValid at this
  split at this
  · rename_i u hu; cases u; exact hu
  · cases this

example : (Rec.chunk (zeros 20) [1, 2, 3]).Fits ∧ (Rec.root (zeros 20) 1700000000).Fits := by
  constructor <;> constructor <;> simp [zeros, chunkRecSz, chunkPayloadOff, lenSz, addrSz, checksumSz]

/-- `recover_clean`: a journal consisting of well-formed records recovers to exactly those records,
with nothing to truncate. -/
theorem recover_clean (B : Nat) (rs : List Rec) (h : AllFit B rs) :
    recover B (encAll rs) = .ok (placed rs 0) (encAll rs).length := by
  have := scan_encAll_append B true rs [] 0 h
  simp only [List.append_nil, Nat.zero_add] at this
  unfold recover recoverFrom
  simp only [List.drop_zero, this, scan_nil, List.append_nil]

/-- `recover_torn_tail`: synced records followed by any tail in which no CRC-valid record starts
(`NoValidRecord`, the `NoEmbeddedRecords` hypothesis of DESIGN.md — forced by the proof, see
`damage_then_valid_reported` for what happens without it) recover to exactly the synced records;
the tail is discarded silently and the truncation offset is the end of the last whole record. -/
theorem recover_torn_tail (B : Nat) (rs : List Rec) (t : Bytes) (h : AllFit B rs) (ht : NoValidRecord B t) :
    recover B (encAll rs ++ t) = .ok (placed rs 0) (encAll rs).length := by
  have hs := scan_encAll_append B true rs t 0 h
  simp only [Nat.zero_add] at hs
  have h0 : ¬ ValidAt B t := by simpa using ht 0
  have hstop := scan_stop_of_not_validAt B true t (encAll rs).length h0
  unfold recover recoverFrom
  simp only [List.drop_zero, hs, hstop, List.append_nil]
  by_cases hl : t.length < 4
  · simp [hl]
  · simp only [hl, if_false]
    have hd : (encAll rs ++ t).drop (encAll rs).length = t := List.drop_left
    rw [hd, dlc_of_noValidRecord B false t.length t (Nat.le_refl _) ht]

/-- the unsynced tail was dropped entirely -/
theorem recover_dropped_tail (B : Nat) (rs : List Rec) (h : AllFit B rs) :
    recover B (encAll rs ++ []) = .ok (placed rs 0) (encAll rs).length :=
  recover_torn_tail B rs [] h (noValidRecord_nil B)

/-- the unsynced tail reads back as zeros (pre-allocated / zero-filled blocks), any length -/
theorem recover_zero_filled (B : Nat) (rs : List Rec) (z : Nat) (h : AllFit B rs) :
    recover B (encAll rs ++ zeros z) = .ok (placed rs 0) (encAll rs).length :=
  recover_torn_tail B rs (zeros z) h (noValidRecord_zeros B z)

/-- a record torn after `p` bytes, optionally followed by zeros: recovered silently *provided* no
CRC-valid record starts inside the torn bytes.  The hypothesis cannot be dropped: a chunk payload
that contains a root record followed by another record satisfies `damage_then_valid_reported`. -/
theorem recover_torn_record (B : Nat) (rs : List Rec) (r : Rec) (p z : Nat) (h : AllFit B rs)
    (hne : NoValidRecord B (r.encode.take p ++ zeros z)) :
    recover B (encAll rs ++ (r.encode.take p ++ zeros z)) = .ok (placed rs 0) (encAll rs).length :=
  recover_torn_tail B rs _ h hne

theorem scan_off_ge (B : Nat) (kinds : Bool) : ∀ (n : Nat) (g : Bytes) (off : Nat), g.length ≤ n →
    off ≤ (scan B kinds g off).off := by
  intro n
  induction n with
  | zero =>
    intro g off hg
    have : g = [] := List.length_eq_zero_iff.mp (by omega)
    subst this; rw [scan_nil]; exact Nat.le_refl _
  | succ n ih =>
    intro g off hg
    rw [scan]
    split
    · exact Nat.le_refl _
    · rename_i l hl
      split
      · exact Nat.le_refl _
      · split
        · exact Nat.le_refl _
        · split
          · exact Nat.le_refl _
          · split
            · split
              · exact Nat.le_refl _
              · split
                · exact Nat.le_refl _
                · have := ih (g.drop l) (off + l) (by simp; omega)
                  simp only []
                  omega
            · exact Nat.le_refl _

/-- `recover_never_loses_synced`: whatever bytes `g` follow the synced records — torn, zero-filled,
garbage, adversarial — recovery never silently drops a synced record: it either succeeds with
every synced record first (and truncates at or after their end), or reports data loss at an offset
at or after their end, or fails because `g` itself holds a CRC-valid but malformed record. -/
theorem recover_never_loses_synced (B : Nat) (rs : List Rec) (g : Bytes) (h : AllFit B rs) :
    match recover B (encAll rs ++ g) with
    | .ok out off => placed rs 0 <+: out ∧ (encAll rs).length ≤ off
    | .dataLoss off => (encAll rs).length ≤ off
    | .fatal e => (scan B true g (encAll rs).length).stop = .fatal e := by
  have hs := scan_encAll_append B true rs g 0 h
  simp only [Nat.zero_add] at hs
  have hoff := scan_off_ge B true g.length g (encAll rs).length (Nat.le_refl _)
  unfold recover recoverFrom
  simp only [List.drop_zero, hs]
  cases hst : (scan B true g (encAll rs).length).stop with
  | eof => exact ⟨List.prefix_append _ _, hoff⟩
  | fatal e => rfl
  | recovered =>
    simp only []
    generalize dlc B (List.drop (scan B true g (encAll rs).length).off (encAll rs ++ g)) false = d
    match d with
    | .ok true => exact hoff
    | .ok false => exact ⟨List.prefix_append _ _, hoff⟩
    | .error _ => exact ⟨List.prefix_append _ _, hoff⟩

/-- `damage_then_valid_reported`: synced records, then damage in which no valid record starts, then a
well-formed root record, then any well-formed record (with at least a root record's worth of bytes
from there to EOF — the loop bound of `possibleDataLossCheck`) is reported as possible data loss at
the end of the synced records, never silently truncated.  This is also the mechanism of the
finding `journal-torn-payload-resync`: take `junk` = the header of a torn chunk record and the
root/record pair from inside its payload. -/
theorem damage_then_valid_reported (B : Nat) (rs : List Rec) (junk : Bytes) (ra : Bytes) (ts : Nat) (x : Rec)
    (rest : Bytes) (h : AllFit B rs) (hroot : (Rec.root ra ts).Fits) (hrB : (Rec.root ra ts).encode.length ≤ B)
    (hx : x.Fits) (hxB : x.encode.length ≤ B) (hne : junk ≠ [])
    (h40 : rootRecSz ≤ (x.encode ++ rest).length)
    (hj : ∀ i, i < junk.length → ¬ ValidAt B ((junk ++ ((Rec.root ra ts).encode ++ (x.encode ++ rest))).drop i)) :
    recover B (encAll rs ++ (junk ++ ((Rec.root ra ts).encode ++ (x.encode ++ rest)))) = .dataLoss (encAll rs).length := by
  have hs := scan_encAll_append B true rs (junk ++ ((Rec.root ra ts).encode ++ (x.encode ++ rest))) 0 h
  simp only [Nat.zero_add] at hs
  have hjl : 0 < junk.length := List.length_pos_iff.mpr hne
  have h0 : ¬ ValidAt B (junk ++ ((Rec.root ra ts).encode ++ (x.encode ++ rest))) := by simpa using hj 0 hjl
  have hstop := scan_stop_of_not_validAt B true _ (encAll rs).length h0
  have hrl := Rec.length_encode_root ra ts hroot
  have hlong : ¬ (junk ++ ((Rec.root ra ts).encode ++ (x.encode ++ rest))).length < 4 := by
    simp [hrl]; omega
  unfold recover recoverFrom
  simp only [List.drop_zero, hs, hstop, hlong, if_false, List.append_nil]
  have hd : (encAll rs ++ (junk ++ ((Rec.root ra ts).encode ++ (x.encode ++ rest)))).drop (encAll rs).length
      = junk ++ ((Rec.root ra ts).encode ++ (x.encode ++ rest)) := List.drop_left
  rw [hd]
  have hs40 : rootRecSz ≤ ((Rec.root ra ts).encode ++ (x.encode ++ rest)).length := by
    simp [hrl, rootRecSz, lenSz, addrSz, timestampSz, checksumSz]
  rw [dlc_skip B false _ hs40 junk hj]
  rw [dlc_encode_append B false _ _ hroot hrB hs40]
  simp only [Bool.false_eq_true, if_false]
  rw [dlc_encode_append B _ x rest hx hxB h40]
  simp [Rec.parsed, kindRoot]

/-- `windowed_dataloss_check`: `possibleDataLossCheck` as implemented — a `2 * journalWriterBuffSize`
window refilled with `io.ReadFull` after shifting the unprocessed remainder to the front — gives
the same verdict as the whole-suffix scan `dlc` that `recover` uses, on every byte string, for
every buffer size of at least 20 bytes (the real one is 5 MiB, `Tie.Journal.buff_size`).  Hence all
theorems above hold for the loop that exists. -/
theorem windowed_dataloss_check (B : Nat) (hB : 20 ≤ B) (s : Bytes) : windowedDlc B s = dlc B s false :=
  windowedDlc_eq_dlc B hB s

example : (20 : Nat) ≤ 5 * 1024 * 1024 := by decide

/-- last root among well-formed records -/
def lastRootRec : List Rec → Option Bytes
  | [] => none
  | r :: rs =>
    match lastRootRec rs with
    | some x => some x
    | none => match r with | .root a _ => some a | .chunk _ _ => none

theorem lastRoot_placed (rs : List Rec) (off : Nat) : lastRoot (placed rs off) = lastRootRec rs := by
  induction rs generalizing off with
  | nil => rfl
  | cons r rs ih =>
    simp only [placed, lastRoot, lastRootRec, ih]
    cases lastRootRec rs with
    | some x => rfl
    | none => cases r <;> simp [Rec.parsed, kindRoot, kindChunk]

/-- `recovered_root_is_last_synced`: after a crash that leaves the synced records followed by a tail
without valid records, the recovered root is the root of the last synced root record. -/
theorem recovered_root_is_last_synced (B : Nat) (rs : List Rec) (t : Bytes) (h : AllFit B rs) (ht : NoValidRecord B t) :
    ∃ out off, recover B (encAll rs ++ t) = .ok out off ∧ lastRoot out = lastRootRec rs :=
  ⟨_, _, recover_torn_tail B rs t h ht, lastRoot_placed rs 0⟩

/-- `ack_implies_durable`: for every sequence of writer operations (chunk writes with buffer-full
flushes and the 64 MiB self-commit, root commits with index flushes, capacity errors), at the
moment of every acknowledgement `Ack(r)` the journal file — as produced by the `WriteAt`s so far —
lies entirely below the fsync watermark, and it is the base file followed by the encoding of whole
records ending in the root record for `r`. -/
theorem ack_implies_durable (s0 : WState) (d0 : Disk) (ops : List Op)
    (hb : s0.buf = []) (hl : d0.file.length = s0.off) (hlog : s0.log = [])
    (pre post : List Ev) (r : Bytes) (h : (run s0 ops).2 = pre ++ Ev.ack r :: post) :
    (diskAfter d0 pre).durable = (diskAfter d0 pre).file.length ∧
    ∃ recs ts, (diskAfter d0 pre).file = d0.file ++ encAll (recs ++ [Rec.root r ts]) := by
  have hinv : Inv d0.file s0 d0 := ⟨hl, by simp [hb, hlog, encAll]⟩
  have := (run_spec d0.file ops s0 d0 hinv).2
  rw [h, acksDurable_append] at this
  exact this.2.1

example : ∃ evs, (run { cap := 100, maxNovel := 0, threshold := 1000 } [.chunk (zeros 20) [1, 2], .commit (zeros 20)]).2 = evs ∧
    evs.length = 5 := ⟨_, rfl, by decide⟩

theorem lastRootRec_append_root (recs : List Rec) (r : Bytes) (ts : Nat) :
    lastRootRec (recs ++ [Rec.root r ts]) = some r := by
  induction recs with
  | nil => rfl
  | cons x xs ih => simp [lastRootRec, ih]

/-- `acked_root_survives_crash`: writer and recovery together.  Start from an empty journal, run any
operations; crash at any later time with the acknowledged prefix intact and *any* tail in which no
CRC-valid record starts: recovery succeeds and shows exactly the acknowledged root `r` (the
in-flight suffix is discarded silently), with every acknowledged record in its place. -/
theorem acked_root_survives_crash (B : Nat) (s0 : WState) (ops : List Op)
    (hb : s0.buf = []) (ho : s0.off = 0) (hlog : s0.log = [])
    (pre post : List Ev) (r : Bytes) (h : (run s0 ops).2 = pre ++ Ev.ack r :: post)
    (t : Bytes) (ht : NoValidRecord B t)
    (hfit : ∀ recs ts, (diskAfter ⟨[], 0⟩ pre).file = encAll (recs ++ [Rec.root r ts]) → AllFit B (recs ++ [Rec.root r ts])) :
    ∃ out off, recover B ((diskAfter ⟨[], 0⟩ pre).file.take (diskAfter ⟨[], 0⟩ pre).durable ++ t) = .ok out off ∧
      lastRoot out = some r := by
  obtain ⟨hd, recs, ts, hf⟩ := ack_implies_durable s0 ⟨[], 0⟩ ops hb (by simp [ho]) hlog pre post r h
  simp only [List.nil_append] at hf
  rw [hd, List.take_length, hf]
  have hfit' := hfit recs ts hf
  refine ⟨_, _, recover_torn_tail B _ t hfit' ht, ?_⟩
  rw [lastRoot_placed, lastRootRec_append_root]

end DoltVerif.C03
