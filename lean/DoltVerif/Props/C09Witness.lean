import DoltVerif.Props.C09
/-!
C09 — refuting witness for the one statement that is still only partial on the *current* source
tree: tuple encodings (known finding `walk-missing:ProllyTreeNode.value_items[ExtendedAddrEnc]`).
`val.IsAddrEncoding` lists `ExtendedAddrEnc`, `val.IterAddressFields` does not, so
`writeAddressOffsets` never records such a field and `walkProllyMapAddresses` never reports it.
(The repair changes serialized node bytes for Doltgres and was not applied.)  This module stops
compiling when the iterator is repaired; it is then removed from checks/C09.json.
-/
namespace DoltVerif.C09.Witness
open DoltVerif DoltVerif.Walk DoltVerif.C09

theorem leaf_encodings_full_refuted : ¬ leaf_encodings_covered_full := by
  intro h
  exact absurd (h "ExtendedAddrEnc" (by decide +kernel)) (by decide +kernel)

/-- exactly this encoding is missing (nothing else) -/
theorem missing_encodings_exactly :
    (Gen.Walk.isAddrEncs ++ Gen.Walk.isAdaptiveEncs).filter
      (fun e => !(Gen.Walk.iterAddressEncs ++ Gen.Walk.iterAdaptiveEncs).contains e) = ["ExtendedAddrEnc"] := by
  decide +kernel

end DoltVerif.C09.Witness
