import DoltVerif.Props.C09
/-!
C09 — refuting witness for the FULL statements on the *current* source tree (known finding
`walk-missing:*`, DESIGN.md §11 d).  This module is expected to stop compiling when the walker is
repaired (design/C09-fix.patch); it is then removed from checks/C09.json together with the
`knownMissing` entries.
-/
namespace DoltVerif.C09.Witness
open DoltVerif DoltVerif.Walk DoltVerif.C09

/-- `doltdb.newWorkingSet` reads `rebase_state.onto_commit_addr`; the walker does not report it. -/
theorem walk_covers_loads_full_refuted : ¬ walk_covers_loads_full :=
  missing_refutes_full ("RebaseState", "onto_commit_addr") (by decide +kernel)

/-- exactly these loaded fields are missing from the walker (nothing else) -/
theorem missing_exactly :
    (missing walked loads).eraseDups = [("MergeState", "pre_merge_head_commit_addr"),
      ("RebaseState", "onto_commit_addr"), ("RebaseState", "pre_working_root_addr")] := by
  decide +kernel

theorem walk_covers_address_fields_full_refuted : ¬ walk_covers_address_fields_full := by
  intro h
  exact absurd (h ("RebaseState", "onto_commit_addr") (by decide +kernel)) (by decide +kernel)

/-- object-level witness: a working set in the middle of a rebase.  Loading it reads address 7
(the onto-commit); the walker reports only the working and staged roots. -/
def rebasingWs : Obj := ⟨[(("WorkingSet", "working_root_addr"), [1]), (("WorkingSet", "staged_root_addr"), [2]),
  (("RebaseState", "pre_working_root_addr"), [6]), (("RebaseState", "onto_commit_addr"), [7])]⟩

theorem obj_level_full_refuted :
    ¬ (∀ (o : Obj) (a : Addr), a ∈ loadReads loads o → a ∈ walk walked o) := by
  intro h
  exact absurd (h rebasingWs 7 (by decide +kernel)) (by decide +kernel)

end DoltVerif.C09.Witness
