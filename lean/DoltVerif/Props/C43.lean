import DoltVerif.Props.C29
/-!
C43 — conflict tables and conflict resolution are exact (model: `conflictRows`, `resolve`,
`applyTheirs` of `Model/RowMerge.lean`; the conflict artifacts of a merge are the conflicted keys,
the three versions are read back from the base table, the current table and theirs' table, as
conflicts_tables_prolly.go does).
-/
namespace DoltVerif.C43
open DoltVerif.RowMerge

/-- **conflict_table_exact**: `dolt_conflicts_<t>` has exactly one row per conflicted key, in the
order of the artifact map, showing base / ours (= current table) / theirs as stored -/
theorem conflict_table_exact (base right : Table) (m : Merged) :
    (conflictRows base right m).map (·.key) = m.conflicts ∧
    ∀ cr ∈ conflictRows base right m,
      cr.base = (get base.rows cr.key).map (viewRow base.sch) ∧
      cr.ours = (get m.rows cr.key).map (viewRow m.sch) ∧
      cr.theirs = (get right.rows cr.key).map (viewRow right.sch) := by
  constructor
  · simp [conflictRows, List.map_map, Function.comp_def]
  · intro cr hcr
    simp only [conflictRows, List.mem_map] at hcr
    obtain ⟨k, _, rfl⟩ := hcr
    simp

/-- the conflicted keys of a merge are exactly the keys whose per-key outcome is a conflict -/
theorem conflicts_are_key_outcomes
    (f : Option Row → Option Row → Option Row → Except Err KeyOut) (slow : Bool)
    (base left right : Rows) (keys : List Key) (rows : Rows) (confs : List Key) (st : Stats)
    (h : mergeKeys f slow base left right keys = .ok (rows, confs, st)) (k : Key) :
    k ∈ confs ↔ k ∈ keys ∧ ∃ o, f (get base k) (get left k) (get right k) = .ok o ∧ o.conflict = true := by
  induction keys generalizing rows confs st with
  | nil => simp [mergeKeys] at h; obtain ⟨_, rfl, _⟩ := h; simp
  | cons k' ks ih =>
    simp only [mergeKeys, bind, Except.bind, pure, Except.pure] at h
    cases hf : f (get base k') (get left k') (get right k') with
    | error e => simp [hf] at h
    | ok o =>
      cases hm : mergeKeys f slow base left right ks with
      | error e => simp [hf, hm] at h
      | ok x =>
        obtain ⟨rows', confs', st'⟩ := x
        simp [hf, hm] at h
        obtain ⟨_, hc, _⟩ := h
        have ih' := ih rows' confs' st' hm
        subst hc
        by_cases hk : k = k'
        · subst hk
          by_cases hoc : o.conflict = true
          · simp [hoc, hf]
          · simp [hoc, hf, ih']
        · by_cases hoc : o.conflict = true
          · simp [hoc, hk, ih']
          · simp [hoc, hk, ih']

/-- **resolve_ours**: table untouched, conflicts cleared -/
theorem resolve_ours (right : Table) (m : Merged) :
    ∃ m', resolve true right m = .ok m' ∧ m'.rows = m.rows ∧ m'.sch = m.sch ∧ m'.conflicts = [] := by
  unfold resolve
  by_cases h : m.conflicts.isEmpty = true
  · refine ⟨m, by simp [h], rfl, rfl, ?_⟩
    simpa using h
  · exact ⟨{ m with conflicts := [] }, by simp [h], rfl, rfl, rfl⟩

/-- **resolve_theirs**: when it succeeds, every conflicted key holds exactly theirs' stored row (or
is deleted when theirs has none), every other key is unchanged, and the conflicts are cleared; it
refuses (`confSchIncompatible`) exactly when there are conflicts and the schemas differ -/
theorem resolve_theirs (right : Table) (m : Merged) (m' : Merged)
    (h : resolve false right m = .ok m') :
    m'.conflicts = [] ∧
    ∀ k, get m'.rows k = if k ∈ m.conflicts then get right.rows k else get m.rows k := by
  unfold resolve at h
  by_cases he : m.conflicts.isEmpty = true
  · simp [he] at h; subst h
    have : m.conflicts = [] := by simpa using he
    simp [this]
  · simp only [he] at h
    by_cases hs : (m.sch != right.sch) = true
    · simp [hs] at h
    · simp [hs] at h
      subst h
      exact ⟨rfl, fun k => get_applyTheirs right.rows m.conflicts m.rows k⟩

theorem resolve_theirs_refuses (right : Table) (m : Merged) (hc : m.conflicts ≠ [])
    (hs : m.sch ≠ right.sch) : resolve false right m = .error .confSchIncompatible := by
  unfold resolve
  have : m.conflicts.isEmpty = false := by
    cases hm : m.conflicts with
    | nil => exact absurd hm hc
    | cons a as => rfl
  simp [this, hs]

/-- **resolve_idempotent**: resolving an already resolved table changes nothing -/
theorem resolve_idempotent (ours ours' : Bool) (right : Table) (m m' : Merged)
    (h : resolve ours right m = .ok m') : resolve ours' right m' = .ok m' := by
  have hc : m'.conflicts = [] := by
    cases ours with
    | true => obtain ⟨x, hx, _, _, hx'⟩ := resolve_ours right m; rw [h] at hx; cases hx; exact hx'
    | false => exact (resolve_theirs right m m' h).1
  unfold resolve
  simp [hc]

/-- **conflict table of a merge = the property's conflicts.**  For tables sharing a schema: the keys
listed by `dolt_conflicts_<t>` after the merge are exactly the keys the cell-wise specification
calls conflicts, and each such row shows the stored base row, OURS' row (which the table still
holds) and theirs' row. -/
theorem conflict_table_matches_spec (s : Schema) (hd : idsDistinct s = true) (base ours theirs : Rows)
    (hb : tableOk ⟨s, base⟩ = true) (ho : tableOk ⟨s, ours⟩ = true) (ht : tableOk ⟨s, theirs⟩ = true) :
    ∃ m, mergeTable ⟨s, base⟩ ⟨s, ours⟩ ⟨s, theirs⟩ = .ok m ∧
      (∀ k, k ∈ (conflictRows ⟨s, base⟩ ⟨s, theirs⟩ m).map (·.key) ↔
        (specKey s (get base k) (get ours k) (get theirs k)).2 = true) ∧
      (∀ cr, cr ∈ conflictRows ⟨s, base⟩ ⟨s, theirs⟩ m →
        cr.base = (get base cr.key).map (viewRow s) ∧
        cr.ours = (get ours cr.key).map (viewRow s) ∧
        cr.theirs = (get theirs cr.key).map (viewRow s)) := by
  obtain ⟨m, hm, hsch, hspec⟩ := C29.rowmerge_spec s hd base ours theirs hb ho ht
  refine ⟨m, hm, fun k => ?_, fun cr hcr => ?_⟩
  · rw [(conflict_table_exact ⟨s, base⟩ ⟨s, theirs⟩ m).1]
    have := hspec k
    simp only [Prod.ext_iff] at this
    rw [← this.2]; simp
  · obtain ⟨h1, h2, h3⟩ := (conflict_table_exact ⟨s, base⟩ ⟨s, theirs⟩ m).2 cr hcr
    refine ⟨h1, ?_, h3⟩
    -- a conflicted key keeps ours' row
    have hk : cr.key ∈ m.conflicts := by
      rw [← (conflict_table_exact ⟨s, base⟩ ⟨s, theirs⟩ m).1]
      exact List.mem_map_of_mem hcr
    have hs := hspec cr.key
    simp only [Prod.ext_iff] at hs
    have hconf : (specKey s (get base cr.key) (get ours cr.key) (get theirs cr.key)).2 = true := by
      rw [← hs.2]; simpa using hk
    have hrow : (specKey s (get base cr.key) (get ours cr.key) (get theirs cr.key)).1 = get ours cr.key := by
      unfold specKey at hconf ⊢
      by_cases c1 : get theirs cr.key = get base cr.key
      · simp [c1] at hconf
      · by_cases c2 : get ours cr.key = get base cr.key
        · simp [c1, c2] at hconf
        · by_cases c3 : get ours cr.key = get theirs cr.key
          · simp [c1, c2, c3] at hconf
          · simp only [c1, c2, c3, if_false] at hconf ⊢
            cases hl : get ours cr.key <;> cases hr : get theirs cr.key <;> simp_all
            split at hconf <;> simp_all
    rw [h2, hsch, hs.1, hrow]

/-- on a merge that kept the schema, `resolve --theirs` never refuses -/
theorem resolve_theirs_same_schema (right : Table) (m : Merged) (hs : m.sch = right.sch) :
    ∃ m', resolve false right m = .ok m' := by
  unfold resolve
  by_cases he : m.conflicts.isEmpty = true
  · exact ⟨m, by simp [he]⟩
  · exact ⟨{ m with rows := applyTheirs right.rows m.conflicts m.rows, conflicts := [] }, by simp [he, hs]⟩

/-- **merge_then_resolve (end to end).**  For tables sharing a schema: `dolt_merge` followed by
`dolt_conflicts_resolve --theirs` succeeds and leaves, for EVERY key, theirs' row (or no row) where
the cell-wise specification reports a conflict and the specification's merged row everywhere else,
with no conflicts left; followed by `--ours` it leaves the specification's row everywhere (a
conflicted key keeps ours' row). -/
theorem merge_then_resolve (s : Schema) (hd : idsDistinct s = true) (base ours theirs : Rows)
    (hb : tableOk ⟨s, base⟩ = true) (ho : tableOk ⟨s, ours⟩ = true) (ht : tableOk ⟨s, theirs⟩ = true) :
    ∃ m mt mo, mergeTable ⟨s, base⟩ ⟨s, ours⟩ ⟨s, theirs⟩ = .ok m ∧
      resolve false ⟨s, theirs⟩ m = .ok mt ∧ resolve true ⟨s, theirs⟩ m = .ok mo ∧
      mt.conflicts = [] ∧ mo.conflicts = [] ∧
      (∀ k, get mt.rows k =
        if (specKey s (get base k) (get ours k) (get theirs k)).2 = true then get theirs k
        else (specKey s (get base k) (get ours k) (get theirs k)).1) ∧
      (∀ k, get mo.rows k = (specKey s (get base k) (get ours k) (get theirs k)).1) := by
  obtain ⟨m, hm, hsch, hspec⟩ := C29.rowmerge_spec s hd base ours theirs hb ho ht
  obtain ⟨mt, hmt⟩ := resolve_theirs_same_schema ⟨s, theirs⟩ m hsch
  obtain ⟨mo, hmo, hrows, _, hco⟩ := resolve_ours ⟨s, theirs⟩ m
  obtain ⟨hct, hgt⟩ := resolve_theirs ⟨s, theirs⟩ m mt hmt
  refine ⟨m, mt, mo, hm, hmt, hmo, hct, hco, fun k => ?_, fun k => ?_⟩
  · have hk := hspec k
    simp only [Prod.ext_iff] at hk
    rw [hgt k, ← hk.2, ← hk.1]
    by_cases hc : k ∈ m.conflicts <;> simp [hc]
  · have hk := hspec k
    simp only [Prod.ext_iff] at hk
    rw [hrows, hk.1]

/-- the hypotheses of `merge_then_resolve` are met by the conflicted example below -/
example : idsDistinct [⟨1, .int⟩] = true ∧ tableOk ⟨[⟨1, .int⟩], [(1, [some (.int 1)])]⟩ = true ∧
    tableOk ⟨[⟨1, .int⟩], [(1, [some (.int 2)])]⟩ = true ∧ tableOk ⟨[⟨1, .int⟩], [(1, [some (.int 3)])]⟩ = true ∧
    (specKey [⟨1, .int⟩] (some [some (.int 1)]) (some [some (.int 2)]) (some [some (.int 3)])).2 = true := by decide

/-- non-vacuity: a conflicted merge whose resolution with theirs installs theirs' row -/
example :
    let base : Table := ⟨[⟨1, .int⟩], [(1, [some (.int 1)])]⟩
    let ours : Table := ⟨[⟨1, .int⟩], [(1, [some (.int 2)])]⟩
    let theirs : Table := ⟨[⟨1, .int⟩], [(1, [some (.int 3)])]⟩
    (match mergeTable base ours theirs with
     | .ok m => m.conflicts == [1] && (match resolve false theirs m with
                  | .ok m' => m'.rows == theirs.rows | .error _ => false)
     | .error _ => false) = true := by decide

end DoltVerif.C43
