/-
Specification: a sorted dictionary as an association list ordered by an abstract comparator
`cmp : κ → κ → Ordering` (a total preorder whose `.eq` class is key identity, e.g. a tuple
descriptor's comparator).  Core-only; shared by C11–C14.
-/
namespace DoltVerif.SortedDict

variable {κ ν : Type}

/-- an edit batch entry: `some v` = put, `none` = delete -/
abbrev Edits (κ ν : Type) := List (κ × Option ν)

def emit (k : κ) : Option ν → List (κ × ν)
  | some v => [(k, v)]
  | none => []

/-- cut a key-sorted association list at key `k`: the entries below `k`, and the entries above
it (an entry equal to `k` is dropped) -/
def cutAt (cmp : κ → κ → Ordering) (k : κ) : List (κ × ν) → List (κ × ν) × List (κ × ν)
  | [] => ([], [])
  | kv :: kvs =>
    match cmp k kv.1 with
    | .lt => ([], kv :: kvs)
    | .eq => ([], kvs)
    | .gt => (kv :: (cutAt cmp k kvs).1, (cutAt cmp k kvs).2)

/-- apply a key-sorted batch of edits (at most one per key) to a key-sorted association list:
a merge walk — entries below the next edit key are kept, an entry with that key is replaced
(put) or dropped (delete) -/
def applyEdits (cmp : κ → κ → Ordering) : List (κ × ν) → Edits κ ν → List (κ × ν)
  | kvs, [] => kvs
  | kvs, e :: es =>
    (cutAt cmp e.1 kvs).1 ++ emit e.1 e.2 ++ applyEdits cmp (cutAt cmp e.1 kvs).2 es

/-- single-key operations on a sorted association list -/
def lookup (cmp : κ → κ → Ordering) (kvs : List (κ × ν)) (k : κ) : Option (κ × ν) :=
  kvs.find? (fun kv => cmp k kv.1 == .eq)

def insert (cmp : κ → κ → Ordering) : List (κ × ν) → κ → ν → List (κ × ν)
  | [], k, v => [(k, v)]
  | kv :: kvs, k, v =>
    match cmp k kv.1 with
    | .lt => (k, v) :: kv :: kvs
    | .eq => (k, v) :: kvs
    | .gt => kv :: insert cmp kvs k v

def erase (cmp : κ → κ → Ordering) : List (κ × ν) → κ → List (κ × ν)
  | [], _ => []
  | kv :: kvs, k =>
    match cmp k kv.1 with
    | .lt => kv :: kvs
    | .eq => kvs
    | .gt => kv :: erase cmp kvs k

/-- keys strictly increasing -/
def Sorted (cmp : κ → κ → Ordering) (kvs : List (κ × ν)) : Prop :=
  kvs.Pairwise (fun a b => cmp a.1 b.1 = .lt)

end DoltVerif.SortedDict

namespace DoltVerif.SortedDict
variable {κ ν : Type}

/-- operations on a mutable map, as the property states them -/
inductive MOp (κ ν : Type) where
  | put (k : κ) (v : ν)
  | del (k : κ)
  | checkpoint
  | revert

/-- the specification state: the current entries and the entries as of the last checkpoint
(initially: the entries the mutable map was created from) -/
structure Dict (κ ν : Type) where
  cur : List (κ × ν)
  cp : List (κ × ν)

def Dict.step (cmp : κ → κ → Ordering) (d : Dict κ ν) : MOp κ ν → Dict κ ν
  | .put k v => { d with cur := insert cmp d.cur k v }
  | .del k => { d with cur := erase cmp d.cur k }
  | .checkpoint => { d with cp := d.cur }
  | .revert => { d with cur := d.cp }

/-- `SortedDict.run`: the entries after a sequence of operations -/
def run (cmp : κ → κ → Ordering) (base : List (κ × ν)) (ops : List (MOp κ ν)) : List (κ × ν) :=
  (ops.foldl (Dict.step cmp) ⟨base, base⟩).cur

end DoltVerif.SortedDict
