/-
Model of dolt's binlog row-value encoding (C40) and of the replica-side decoding.

ENCODER = transliteration of
  go/libraries/doltcore/sqle/binlogreplication/binlog_type_serialization.go
    integerSerializer / floatSerializer / yearSerializer / dateSerializer / timeSerializer /
    datetimeSerializer / timestampSerializer / decimalSerializer (+ encodePartialDecimalBits,
    encodeDecimalBits, digitsToBytes) / bitSerializer / enumSerializer / setSerializer /
    stringSerializer (+ encodeBytes) / blobSerializer, textSerializer (+ encodeBlobBytes) /
    jsonSerializer, geometrySerializer (length prefix only; the payload is opaque here) and every
    `metadata` method;
  go/libraries/doltcore/sqle/binlogreplication/binlog_row_serialization.go
    serializeRowToBinlogBytes (concatenation of the non-NULL cells + NULL bitmap).
The encoder keeps dolt's behaviour where it is wrong (the seconds carry of negative fractional
TIME values, DECIMAL(p,p)): see Props/C40.lean for the refuting witnesses.  YEAR 0000 and the JSON
object key length were repaired in /repo (e60c6b5, 22b8e06) and are modelled as repaired.

DECODER = written from the MySQL binary-log row format description (log_event / my_time.cc
`my_time_packed_from_binary`, `my_datetime_packed_from_binary`, `my_timestamp_from_binary`,
decimal.c `bin2decimal`, field.cc `Field_*::unpack`), NOT from dolt's code: it dispatches on the
type byte and the metadata word of the TableMap event exactly like a replica does.

Bytes are `List UInt8`; packing arithmetic is done in `Nat` (truncations explicit).
Core-only (no Mathlib) so the driver links.
-/
namespace DoltVerif.Binlog

abbrev Bytes := List UInt8

/-- Go's `byte(n)` / `uint8(n)` conversion of a non-negative integer. -/
def byteOf (n : Nat) : UInt8 := UInt8.ofNat (n % 256)

/-- `k` little-endian bytes of `v` (`binary.LittleEndian.PutUintN` + slicing the low bytes). -/
def leBytes : Nat → Nat → Bytes
  | 0, _ => []
  | k+1, v => byteOf v :: leBytes k (v / 256)

/-- the low `k` bytes of `v`, most significant first (`binary.BigEndian.PutUintN` + slicing the
tail, or the explicit `byte(v>>16), byte(v>>8), byte(v)` sequences). -/
def beBytes : Nat → Nat → Bytes
  | 0, _ => []
  | k+1, v => byteOf (v / 256 ^ k) :: beBytes k v

/-- two's complement image of a Go signed integer converted to an unsigned type of `bits` bits. -/
def twos (bits : Nat) (v : Int) : Nat := (v % ((2 : Int) ^ bits)).toNat

def readLE : Nat → Bytes → Option (Nat × Bytes)
  | 0, bs => some (0, bs)
  | _+1, [] => none
  | k+1, b :: bs =>
    match readLE k bs with
    | some (v, r) => some (b.toNat + 256 * v, r)
    | none => none

def readBEAux : Nat → Bytes → Nat → Option (Nat × Bytes)
  | 0, bs, acc => some (acc, bs)
  | _+1, [], _ => none
  | k+1, b :: bs, acc => readBEAux k bs (acc * 256 + b.toNat)

def readBE (k : Nat) (bs : Bytes) : Option (Nat × Bytes) := readBEAux k bs 0

def takeN : Nat → Bytes → Option (Bytes × Bytes)
  | 0, bs => some ([], bs)
  | _+1, [] => none
  | k+1, b :: bs =>
    match takeN k bs with
    | some (t, r) => some (b :: t, r)
    | none => none

/-! ## column types, cells -/

inductive IntW where
  | w1 | w2 | w3 | w4 | w8
  deriving DecidableEq, Repr

def IntW.bytes : IntW → Nat
  | .w1 => 1 | .w2 => 2 | .w3 => 3 | .w4 => 4 | .w8 => 8

/-- the column types of `typeSerializersMap` (VARCHAR/VARBINARY share `varchar`, CHAR/BINARY share
`char`, all BLOB and TEXT sizes share `blob`; `maxBytes` = `StringType.MaxByteLength()`). -/
inductive ColType where
  | int (w : IntW) (signed : Bool)
  | float32 | float64
  | year | date | time
  | datetime (fsp : Nat) | timestamp (fsp : Nat)
  | decimal (prec scale : Nat)
  | bit (nbits : Nat) | enum (n : Nat) | set (n : Nat)
  | varchar (maxBytes : Nat) | char (maxBytes : Nat) | blob (maxBytes : Nat)
  | json | geometry
  deriving DecidableEq, Repr

/-- a stored (non-NULL) SQL value as the serializers receive it. -/
inductive Cell where
  /-- integers, YEAR (the int16 year), BIT/SET (uint64), ENUM (uint16 index), FLOAT/DOUBLE (IEEE bits) -/
  | int (v : Int)
  | date (y m d : Nat)
  /-- TIME as signed microseconds (`timeValue.UnixMicro()`) -/
  | time (micros : Int)
  | datetime (y mo d h mi s us : Nat)
  /-- TIMESTAMP as unix seconds + microseconds -/
  | timestamp (secs us : Nat)
  /-- DECIMAL value = (-1)^neg * unscaled * 10^-scale (already rounded to the column's scale) -/
  | decimal (neg : Bool) (unscaled : Nat)
  /-- strings, blobs, and the opaque payload of JSON / GEOMETRY -/
  | bytes (b : Bytes)
  deriving DecidableEq, Repr

inductive Err where
  | range        -- typ.Convert rejects the value (out of the column type's range)
  | remaining    -- decimalSerializer: "unexpected remaining string after encoding full digits"
  | mismatch     -- the Go type assertion on the converted value fails
  | panic        -- the Go code would index out of range
  deriving DecidableEq, Repr

/-! ## MySQL type codes (vitess `mysql.Type*`, tied by Tie/Binlog.lean) -/

def tTiny := 1
def tShort := 2
def tLong := 3
def tFloat := 4
def tDouble := 5
def tLongLong := 8
def tInt24 := 9
def tDate := 10
def tYear := 13
def tVarchar := 15
def tBit := 16
def tTimestamp2 := 17
def tDateTime2 := 18
def tTime2 := 19
def tJSON := 245
def tNewDecimal := 246
def tEnum := 247
def tSet := 248
def tBlob := 252
def tString := 254
def tGeometry := 255

/-- `blobSerializer.metadata` / `textSerializer.metadata` / the thresholds of `encodeBlobBytes`. -/
def blobLenBytes (maxBytes : Nat) : Nat :=
  if maxBytes > 0xFFFFFF then 4 else if maxBytes > 0xFFFF then 3 else if maxBytes > 0xFF then 2 else 1

/-- the `metadata` methods: (type byte, metadata word; `uint16` truncation explicit). -/
def colMeta : ColType → Nat × Nat
  | .int .w1 _ => (tTiny, 0)
  | .int .w2 _ => (tShort, 0)
  | .int .w3 _ => (tInt24, 0)
  | .int .w4 _ => (tLong, 0)
  | .int .w8 _ => (tLongLong, 0)
  | .float32 => (tFloat, 4)
  | .float64 => (tDouble, 8)
  | .year => (tYear, 0)
  | .date => (tDate, 0)
  | .time => (tTime2, 6)
  | .datetime fsp => (tDateTime2, fsp % 65536)
  | .timestamp fsp => (tTimestamp2, fsp % 65536)
  | .decimal p s => (tNewDecimal, ((p % 65536) <<< 8 ||| (s % 65536)) % 65536)
  | .bit n => (tBit, (((n / 8) % 65536) <<< 8 ||| ((n % 8) % 65536)) % 65536)
  | .enum n => (tString, if n ≤ 0xFF then tEnum <<< 8 ||| 1 else tEnum <<< 8 ||| 2)
  | .set n => (tString, (tSet <<< 8 ||| ((n + 7) / 8) % 65536) % 65536)
  | .varchar m => (tVarchar, m % 65536)
  | .char m =>
      let mx := m % 65536
      let upperBits := ((mx >>> 8) <<< 12) % 65536
      let lowerBits := mx &&& 0xFF
      (tString, ((tString <<< 8) ^^^ upperBits) ||| lowerBits)
  | .blob m => (tBlob, blobLenBytes m)
  | .json => (tJSON, 4)
  | .geometry => (tGeometry, 4)

/-- is the column signed (`sqltypes.IsSigned` of the column's query type, the only thing a
replica takes from its own schema). -/
def signedOf : ColType → Bool
  | .int _ s => s
  | _ => false

/-! ## encoder (dolt) -/

def intInRange (w : IntW) (signed : Bool) (v : Int) : Bool :=
  if signed then decide (-(2 : Int) ^ (8 * w.bytes - 1) ≤ v ∧ v < (2 : Int) ^ (8 * w.bytes - 1))
  else decide (0 ≤ v ∧ v < (2 : Int) ^ (8 * w.bytes))

/-- `integerSerializer.serialize`. -/
def encInt (w : IntW) (v : Int) : Bytes := leBytes w.bytes (twos 64 v)

/-- `yearSerializer.serialize`: `if intValue == 0 { return []byte{0} }` (YEAR 0000, repaired by
/repo e60c6b5), otherwise `[]byte{byte(intValue - 1900)}` on an int16. -/
def encYear (v : Int) : Bytes := if v = 0 then [0] else [byteOf (twos 16 (v - 1900))]

/-- `dateSerializer.serialize`. -/
def encDate (y m d : Nat) : Bytes :=
  leBytes 3 ((y <<< 9 ||| m <<< 5 ||| d) % 2 ^ 32)

/-- the hour/minute/second/fraction adjustment of `timeSerializer.serialize`
(result: hours, minutes, seconds, microseconds field). -/
def timeFields (negative : Bool) (d : Nat) : Nat × Nat × Nat × Nat :=
  let durationInSeconds := d / 1000000
  let hours := durationInSeconds / (60 * 60)
  let minutes := durationInSeconds / 60 % 60
  let seconds := durationInSeconds % 60
  let microseconds := d % 1000000
  if negative = true ∧ microseconds > 0 then
    let seconds := seconds + 1
    let (seconds, minutes) := if seconds = 60 then (0, minutes + 1) else (seconds, minutes)
    let (minutes, hours) := if minutes = 60 then (0, hours + 1) else (minutes, hours)
    (hours, minutes, seconds, 0x1000000 - microseconds)
  else (hours, minutes, seconds, microseconds)

/-- `timeSerializer.serialize` (dolt always uses 6 fractional digits). -/
def encTime (micros : Int) : Bytes :=
  let negative := decide (micros < 0)
  let d := micros.natAbs
  let (hours, minutes, seconds, microseconds) := timeFields negative d
  let hms : Int := ((hours <<< 12 ||| minutes <<< 6 ||| seconds) + 0x800000 : Nat)
  let hms := if negative then -hms else hms
  beBytes 3 (twos 32 hms) ++ beBytes 3 microseconds

/-- the fractional-seconds switch shared by `datetimeSerializer` and `timestampSerializer`. -/
def encFrac (fsp : Nat) (micros : Nat) : Bytes :=
  if fsp = 1 ∨ fsp = 2 then [byteOf (micros / 10000)]
  else if fsp = 3 ∨ fsp = 4 then beBytes 2 (micros / 100)
  else if fsp = 5 ∨ fsp = 6 then beBytes 3 micros
  else []

/-- `datetimeSerializer.serialize`. -/
def encDatetime (fsp y mo d h mi s us : Nat) : Bytes :=
  let ym := y * 13 + mo
  let ymd := (ym <<< 5) ||| d
  let hms := (h <<< 12) ||| (mi <<< 6) ||| s
  let ymdhms := (((ymd <<< 17) ||| hms) + 0x8000000000) % 2 ^ 64
  beBytes 5 ymdhms ++ encFrac fsp us

/-- `timestampSerializer.serialize`. -/
def encTimestamp (fsp secs us : Nat) : Bytes :=
  beBytes 4 (secs % 2 ^ 32) ++ encFrac fsp us

/-- `digitsToBytes`. -/
def digitsToBytes : Nat → Nat
  | 0 => 0 | 1 => 1 | 2 => 1 | 3 => 2 | 4 => 2 | 5 => 3 | 6 => 3 | 7 => 4 | 8 => 4 | 9 => 4
  | _ => 0

/-- minimal decimal digits of `n`, most significant first (`"0"` for 0): the integer part that
`apd.Decimal.Text('f')` prints. -/
def natDigits (n : Nat) : List Nat :=
  if h : n < 10 then [n] else natDigits (n / 10) ++ [n % 10]
termination_by n
decreasing_by omega

/-- exactly `k` decimal digits of `n` (zero padded, most significant first): the fractional part
`Text('f')` prints for a value rounded to scale `k`. -/
def fixedDigits : Nat → Nat → List Nat
  | 0, _ => []
  | k+1, n => fixedDigits k (n / 10) ++ [n % 10]

/-- `strconv.Atoi` on a string of decimal digits. -/
def atoi (ds : List Nat) : Nat := ds.foldl (fun acc d => acc * 10 + d) 0

/-- `for len(stringIntegerVal) < numFullDigits { stringIntegerVal = "0" + stringIntegerVal }` -/
def padLeft (k : Nat) (ds : List Nat) : List Nat := List.replicate (k - ds.length) 0 ++ ds

/-- `encodePartialDecimalBits`. -/
def encPartial (ds : List Nat) : Bytes :=
  if ds.length = 0 then [] else beBytes (digitsToBytes ds.length) (atoi ds)

/-- `encodeDecimalBits`: full groups of nine digits, returns the bytes and the remaining digits. -/
def encGroups (ds : List Nat) : Bytes × List Nat :=
  if _h : ds.length ≥ 9 then
    let r := encGroups (ds.drop 9)
    (beBytes 4 (atoi (ds.take 9) % 2 ^ 32) ++ r.1, r.2)
  else ([], ds)
termination_by ds.length
decreasing_by simp [List.length_drop]; omega

def xorAll (m : UInt8) (bs : Bytes) : Bytes := bs.map (· ^^^ m)

/-- sign handling at the end of `decimalSerializer.serialize`. -/
def decimalSign (neg : Bool) : Bytes → Bytes
  | [] => []   -- (Go would panic on buffer[0]; unreachable: precision ≥ 1 makes the buffer non-empty)
  | b :: bs =>
    let buf := (b ^^^ 0x80) :: bs
    if neg then xorAll 0xff buf else buf

/-- `decimalSerializer.serialize` for a value already at the column's scale. -/
def encDecimal (p s : Nat) (neg : Bool) (unscaled : Nat) : Except Err Bytes :=
  if unscaled ≥ 10 ^ p then .error .range else
  let numFullDigits := p - s
  let numLeftoverFullDigits := numFullDigits - (numFullDigits / 9) * 9
  let intStr := padLeft numFullDigits (natDigits (unscaled / 10 ^ s))
  let fracStr := fixedDigits s (unscaled % 10 ^ s)
  let b1 := encPartial (intStr.take numLeftoverFullDigits)
  let (b2, rem) := encGroups (intStr.drop numLeftoverFullDigits)
  if rem.length > 0 then .error .remaining else
  let buf :=
    if s > 0 then
      let (b3, rem2) := encGroups fracStr
      b1 ++ b2 ++ b3 ++ encPartial rem2
    else b1 ++ b2
  .ok (decimalSign neg buf)

/-- `bitSerializer.serialize`. -/
def encBit (nbits : Nat) (v : Nat) : Bytes := beBytes ((nbits + 7) / 8) (v % 2 ^ 64)

/-- `enumSerializer.serialize`. -/
def encEnum (n : Nat) (v : Nat) : Bytes :=
  if n ≤ 0xFF then [byteOf v] else leBytes 2 (v % 65536)

/-- `setSerializer.serialize`. -/
def encSet (n : Nat) (v : Nat) : Bytes := leBytes ((n + 7) / 8) (v % 2 ^ 64)

/-- `encodeBytes`. -/
def encVar (maxBytes : Nat) (b : Bytes) : Bytes :=
  if maxBytes > 255 then leBytes 2 (b.length % 65536) ++ b else byteOf b.length :: b

/-- `encodeBlobBytes`. -/
def encBlob (maxBytes : Nat) (b : Bytes) : Bytes :=
  leBytes (blobLenBytes maxBytes) (b.length % 2 ^ 32) ++ b

/-- value domain of a column type (what `typ.Convert` accepts for a stored value). -/
def inDomain : ColType → Cell → Bool
  | .int w s, .int v => intInRange w s v
  | .float32, .int v => decide (0 ≤ v ∧ v < 2 ^ 32)
  | .float64, .int v => decide (0 ≤ v ∧ v < 2 ^ 64)
  | .year, .int v => decide (v = 0 ∨ (1901 ≤ v ∧ v ≤ 2155))
  | .date, .date y m d => decide (y ≤ 9999 ∧ m ≤ 12 ∧ d ≤ 31)
  | .time, .time us => decide (us.natAbs ≤ 3020399000000)
  | .datetime fsp, .datetime y mo d h mi s us =>
      decide (fsp ≤ 6 ∧ y ≤ 9999 ∧ mo ≤ 12 ∧ d ≤ 31 ∧ h ≤ 23 ∧ mi ≤ 59 ∧ s ≤ 59 ∧ us < 1000000 ∧
        us % 10 ^ (6 - fsp) = 0)
  | .timestamp fsp, .timestamp secs us =>
      decide (fsp ≤ 6 ∧ secs < 2 ^ 32 ∧ us < 1000000 ∧ us % 10 ^ (6 - fsp) = 0)
  | .decimal p s, .decimal _ u => decide (1 ≤ p ∧ p ≤ 65 ∧ s ≤ 30 ∧ s ≤ p ∧ u < 10 ^ p)
  | .bit n, .int v => decide (1 ≤ n ∧ n ≤ 64 ∧ 0 ≤ v ∧ v < 2 ^ n)
  | .enum n, .int v => decide (1 ≤ n ∧ n ≤ 65535 ∧ 0 ≤ v ∧ v ≤ n)
  | .set n, .int v => decide (1 ≤ n ∧ n ≤ 64 ∧ 0 ≤ v ∧ v < 2 ^ n)
  | .varchar m, .bytes b => decide (m ≤ 65535 ∧ b.length ≤ m)
  | .char m, .bytes b => decide (m ≤ 1020 ∧ b.length ≤ m)
  | .blob m, .bytes b => decide (m < 2 ^ 32 ∧ b.length ≤ m)
  | .json, .bytes b => decide (b.length < 2 ^ 32)
  | .geometry, .bytes b => decide (b.length < 2 ^ 32)
  | _, _ => false

/-- one serializer call: `typeSerializersMap[typ].serialize(ctx, typ, value, ns)`. -/
def encode (t : ColType) (c : Cell) : Except Err Bytes :=
  if !inDomain t c then .error .range
  else
  match t, c with
  | .int w _, .int v => .ok (encInt w v)
  | .float32, .int v => .ok (leBytes 4 v.toNat)
  | .float64, .int v => .ok (leBytes 8 v.toNat)
  | .year, .int v => .ok (encYear v)
  | .date, .date y m d => .ok (encDate y m d)
  | .time, .time us => .ok (encTime us)
  | .datetime fsp, .datetime y mo d h mi s us => .ok (encDatetime fsp y mo d h mi s us)
  | .timestamp fsp, .timestamp secs us => .ok (encTimestamp fsp secs us)
  | .decimal p s, .decimal neg u => encDecimal p s neg u
  | .bit n, .int v => .ok (encBit n v.toNat)
  | .enum n, .int v => .ok (encEnum n v.toNat)
  | .set n, .int v => .ok (encSet n v.toNat)
  | .varchar m, .bytes b => .ok (encVar m b)
  | .char m, .bytes b => .ok (encVar m b)
  | .blob m, .bytes b => .ok (encBlob m b)
  | .json, .bytes b => .ok (leBytes 4 (b.length % 2 ^ 32) ++ b)
  | .geometry, .bytes b => .ok (leBytes 4 (b.length % 2 ^ 32) ++ b)
  | _, _ => .error .mismatch

/-! ## binary JSON: the key-entry section of an object (`encodeJsonObject`, first loop) -/

/-- `appendForEncoding`: 2 (small) or 4 (large) little-endian bytes. -/
def appendForEncoding (value : Nat) (large : Bool) : Bytes :=
  if large then leBytes 4 (value % 2 ^ 32) else leBytes 2 (value % 2 ^ 32)

/-- `calculateInitialObjectKeysOffset`. -/
def initialObjectKeysOffset (n : Nat) (large : Bool) : Nat :=
  if large then 4 + 4 + n * 6 + n * 5 else 2 + 2 + n * 4 + n * 3

/-- one key entry: key offset, then the key length as `byte(len), byte(len>>8)` (the high byte was
`byte(len<<8)` = 0 before /repo 22b8e06). -/
def jsonKeyEntry (off len : Nat) (large : Bool) : Bytes :=
  appendForEncoding off large ++ [byteOf len, byteOf (len >>> 8)]

/-- the key-entries section for the (already sorted) keys, starting at offset `off`. -/
def jsonKeyEntries (large : Bool) : Nat → List Bytes → Bytes
  | _, [] => []
  | off, k :: ks => jsonKeyEntry off k.length large ++ jsonKeyEntries large (off + k.length) ks

/-- what a replica reads from a key entry (`readOffsetOrSize(data, pos, large)` then a 16-bit length). -/
def readKeyEntry (large : Bool) (bs : Bytes) : Option ((Nat × Nat) × Bytes) :=
  match readLE (if large then 4 else 2) bs with
  | none => none
  | some (off, r) =>
    match readLE 2 r with
    | none => none
    | some (len, r2) => some ((off, len), r2)

/-! ## NULL bitmap (`mysql.NewServerBitmap` + `Set`: bit i of the row is bit `i % 8` of byte `i / 8`) -/

def packByte : List Bool → Nat
  | [] => 0
  | b :: r => (if b then 1 else 0) + 2 * packByte r

def packBits (fl : List Bool) : Bytes :=
  if _h : fl.length = 0 then [] else byteOf (packByte (fl.take 8)) :: packBits (fl.drop 8)
termination_by fl.length
decreasing_by simp [List.length_drop]; omega

def unpackByte : Nat → Nat → List Bool
  | 0, _ => []
  | k+1, b => decide (b % 2 = 1) :: unpackByte k (b / 2)

def unpackBits (n : Nat) (bs : Bytes) : Option (List Bool) :=
  if _h : n = 0 then some [] else
  match bs with
  | [] => none
  | b :: r =>
    match unpackBits (n - 8) r with
    | some l => some (unpackByte (min n 8) b.toNat ++ l)
    | none => none
termination_by n
decreasing_by omega

/-! ## row image (`serializeRowToBinlogBytes`) -/

/-- concatenation of the serialized non-NULL cells and the NULL flags, in column order; the first
serializer error aborts the row. -/
def encodeRow : List (ColType × Option Cell) → Except Err (Bytes × List Bool)
  | [] => .ok ([], [])
  | (_, none) :: rest =>
    match encodeRow rest with
    | .ok (d, fl) => .ok (d, true :: fl)
    | .error e => .error e
  | (t, some c) :: rest =>
    match encode t c with
    | .error e => .error e
    | .ok b =>
      match encodeRow rest with
      | .ok (d, fl) => .ok (b ++ d, false :: fl)
      | .error e => .error e

/-! ## decoder (replica side, from the MySQL format description) -/

/-- sign extension of a `w`-byte little-endian integer. -/
def signExtend (w : Nat) (signed : Bool) (v : Nat) : Int :=
  if signed = true ∧ v ≥ 2 ^ (8 * w - 1) then (v : Int) - (2 : Int) ^ (8 * w) else (v : Int)

def decIntLE (w : Nat) (signed : Bool) (bs : Bytes) : Option (Cell × Bytes) :=
  match readLE w bs with
  | some (v, r) => some (.int (signExtend w signed v), r)
  | none => none

/-- fractional part: `(fsp+1)/2` big-endian bytes holding the fraction in units of
`10^-(2*((fsp+1)/2))` seconds; result in microseconds. -/
def fracBytes (fsp : Nat) : Nat := (fsp + 1) / 2

def fracToMicros (fsp : Nat) (f : Nat) : Nat := f * 10 ^ (6 - 2 * fracBytes fsp)

/-- TIME2 (`my_time_packed_from_binary` + `TIME_from_longlong_time_packed`): `3 + k` bytes
big-endian, offset `0x800000 << 8k`; the magnitude splits into hms bit fields and fraction. -/
def decTime2 (fsp : Nat) (bs : Bytes) : Option (Cell × Bytes) :=
  let k := fracBytes fsp
  match readBE (3 + k) bs with
  | none => none
  | some (v, r) =>
    let ofs : Int := (0x800000 * 256 ^ k : Nat)
    let sv : Int := (v : Int) - ofs
    let a := sv.natAbs
    let hms := a / 256 ^ k
    let frac := a % 256 ^ k
    let hour := (hms >>> 12) % 1024
    let minute := (hms >>> 6) % 64
    let second := hms % 64
    let mag : Int := (((hour * 3600 + minute * 60 + second) * 1000000 + fracToMicros fsp frac : Nat) : Int)
    some (.time (if sv < 0 then -mag else mag), r)

/-- DATETIME2 (`my_datetime_packed_from_binary`): 5 bytes big-endian + fraction. -/
def decDateTime2 (fsp : Nat) (bs : Bytes) : Option (Cell × Bytes) :=
  match readBE 5 bs with
  | none => none
  | some (v, r) =>
    match readBE (fracBytes fsp) r with
    | none => none
    | some (f, r2) =>
      let ymdhms := v - 0x8000000000
      let ymd := ymdhms >>> 17
      let ym := ymd >>> 5
      let hms := ymdhms % 2 ^ 17
      some (.datetime (ym / 13) (ym % 13) (ymd % 32) (hms >>> 12) ((hms >>> 6) % 64) (hms % 64)
              (fracToMicros fsp f), r2)

/-- TIMESTAMP2 (`my_timestamp_from_binary`): 4 bytes big-endian seconds + fraction. -/
def decTimestamp2 (fsp : Nat) (bs : Bytes) : Option (Cell × Bytes) :=
  match readBE 4 bs with
  | none => none
  | some (v, r) =>
    match readBE (fracBytes fsp) r with
    | none => none
    | some (f, r2) => some (.timestamp v (fracToMicros fsp f), r2)

/-- `dig2bytes` of decimal.c. -/
def dig2bytes (n : Nat) : Nat := (n * 4 + 8) / 9   -- 0,1,1,2,2,3,3,4,4,4 for 0..9

/-- read digit groups: `sizes` are digit counts (≤ 9); each group is `dig2bytes size` bytes big-endian. -/
def readGroups : List Nat → Bytes → Nat → Option (Nat × Bytes)
  | [], bs, acc => some (acc, bs)
  | sz :: rest, bs, acc =>
    match readBE (dig2bytes sz) bs with
    | none => none
    | some (v, r) => readGroups rest r (acc * 10 ^ sz + v)

/-- group sizes of NEWDECIMAL(p,s): leftover integer digits, full integer groups, full fraction
groups, leftover fraction digits. -/
def decimalGroups (p s : Nat) : List Nat :=
  let intg := p - s
  [intg % 9] ++ List.replicate (intg / 9) 9 ++ List.replicate (s / 9) 9 ++ [s % 9]

def decimalLen (p s : Nat) : Nat := ((decimalGroups p s).map dig2bytes).sum

/-- NEWDECIMAL (`bin2decimal`): the first bit is the inverted sign; a negative value has every
byte inverted. -/
def decNewDecimal (p s : Nat) (bs : Bytes) : Option (Cell × Bytes) :=
  match takeN (decimalLen p s) bs with
  | none => none
  | some ([], _) => none
  | some (b :: t, r) =>
    let neg := decide (b.toNat < 128)
    let buf := (b ^^^ 0x80) :: t
    let buf := if neg then xorAll 0xff buf else buf
    match readGroups (decimalGroups p s) buf 0 with
    | some (u, _) => some (.decimal neg u, r)
    | none => none

def decLenPrefixed (lenBytes : Nat) (bs : Bytes) : Option (Cell × Bytes) :=
  match readLE lenBytes bs with
  | none => none
  | some (l, r) =>
    match takeN l r with
    | some (b, r2) => some (.bytes b, r2)
    | none => none

/-- decode one cell given the TableMap's type byte + metadata (and the replica's own knowledge of
signedness). -/
def decodeCell (signed : Bool) (tc md : Nat) (bs : Bytes) : Option (Cell × Bytes) :=
  if tc = tTiny then decIntLE 1 signed bs
  else if tc = tShort then decIntLE 2 signed bs
  else if tc = tInt24 then decIntLE 3 signed bs
  else if tc = tLong then decIntLE 4 signed bs
  else if tc = tLongLong then decIntLE 8 signed bs
  else if tc = tFloat then decIntLE 4 false bs
  else if tc = tDouble then decIntLE 8 false bs
  else if tc = tYear then
    match bs with
    | [] => none
    | b :: r => some (.int (if b.toNat = 0 then 0 else 1900 + b.toNat), r)
  else if tc = tDate then
    match readLE 3 bs with
    | none => none
    | some (v, r) => some (.date (v / 512) (v / 32 % 16) (v % 32), r)
  else if tc = tTime2 then decTime2 md bs
  else if tc = tDateTime2 then decDateTime2 md bs
  else if tc = tTimestamp2 then decTimestamp2 md bs
  else if tc = tNewDecimal then decNewDecimal (md >>> 8) (md &&& 0xff) bs
  else if tc = tBit then
    let nbits := (md >>> 8) * 8 + (md &&& 0xff)
    match readBE ((nbits + 7) / 8) bs with
    | none => none
    | some (v, r) => some (.int v, r)
  else if tc = tString then
    let rt := md >>> 8
    if rt = tEnum ∨ rt = tSet then
      match readLE (md &&& 0xff) bs with
      | none => none
      | some (v, r) => some (.int v, r)
    else
      let mx := (((md >>> 4) &&& 0x300) ^^^ 0x300) + (md &&& 0xff)
      decLenPrefixed (if mx > 255 then 2 else 1) bs
  else if tc = tVarchar then decLenPrefixed (if md > 255 then 2 else 1) bs
  else if tc = tBlob ∨ tc = tJSON ∨ tc = tGeometry then
    if 1 ≤ md ∧ md ≤ 4 then decLenPrefixed md bs else none
  else none

/-- decode a row image: per column (signed, type byte, metadata) and the NULL flags. -/
def decodeRow : List (Bool × Nat × Nat) → List Bool → Bytes → Option (List (Option Cell) × Bytes)
  | [], _, bs => some ([], bs)
  | _ :: _, [], _ => none
  | _ :: cols, true :: fl, bs =>
    match decodeRow cols fl bs with
    | some (cs, r) => some (none :: cs, r)
    | none => none
  | (sg, tc, md) :: cols, false :: fl, bs =>
    match decodeCell sg tc md bs with
    | none => none
    | some (c, r) =>
      match decodeRow cols fl r with
      | some (cs, r2) => some (some c :: cs, r2)
      | none => none

def colDesc (t : ColType) : Bool × Nat × Nat := (signedOf t, (colMeta t).1, (colMeta t).2)

end DoltVerif.Binlog
