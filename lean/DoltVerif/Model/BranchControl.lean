/-
Model of dolt's branch-control matching (C38).

Transliteration of go/libraries/doltcore/branch_control
  expr_parser.go       FoldExpression, ParseExpression, Match, MatchExpression.Matches / IsAtEnd
  expr_parser_node.go  MatchNode.Add / Remove / Match / parseExpression, processMatch
  access.go            Access.Insert / Delete / Match(IgnoringRow)
  namespace.go         Namespace.CanCreate
and of go/libraries/doltcore/sqle/dtables/branch_namespace_control.go  insert / delete (the only
writers of the Namespace slices).

Strings are lists of runes as produced by Go's `for _, r := range s` (the UTF-8 decoder is Go's,
not modelled; invalid bytes arrive as U+FFFD).  The collation sorters (`Collation.Sorter()`) and
`unicode.ToLower` are parameters.  Not modelled: the 65535-byte truncation paths (the drivers
reject longer inputs), sync.Pool reuse, the binlog, flatbuffer (de)serialisation.
Core-only (no Mathlib) so the driver links.
-/
namespace DoltVerif.BranchControl

abbrev Rune := Nat

def singleMatch : Int := -1
def anyMatch : Int := -2
def columnMarker : Int := -3
def bs : Rune := 0x5c
def pct : Rune := 0x25
def und : Rune := 0x5f
/-- `utf8.RuneError` -/
def runeError : Rune := 0xFFFD

/-! ### FoldExpression -/

/-- loop state of one pass: `skipNext`, `considerNext` (never both) -/
inductive St where
  | normal | skip | consider
  deriving DecidableEq, Repr

/-- one pass of the `for _, r := range str` loop of `FoldExpression` (plus the trailing
`if considerNext { append '%' }`) -/
def foldGo : St → List Rune → List Rune
  | .consider, [] => [pct]
  | _, [] => []
  | .skip, r :: t => r :: foldGo .normal t
  | .consider, r :: t =>
    if r = bs then pct :: r :: foldGo .skip t
    else if r = und then r :: pct :: foldGo .normal t
    else if r = pct then r :: foldGo .normal t
    else pct :: r :: foldGo .normal t
  | .normal, r :: t =>
    if r = bs then r :: foldGo .skip t
    else if r = pct then foldGo .consider t
    else r :: foldGo .normal t

def foldPass (s : List Rune) : List Rune := foldGo .normal s

/-- number of unescaped `_` (scanner state: escaped or not) -/
def undCount : Bool → List Rune → Nat
  | _, [] => 0
  | true, _ :: t => undCount false t
  | false, r :: t =>
    if r = bs then undCount true t else if r = und then 1 + undCount false t else undCount false t

/-- the potential that every changing pass strictly decreases: each unescaped `%` weighs
1 + (number of unescaped `_` to its right) -/
def potential : Bool → List Rune → Nat
  | _, [] => 0
  | true, _ :: t => potential false t
  | false, r :: t =>
    if r = bs then potential true t
    else if r = pct then (1 + undCount false t) + potential false t
    else potential false t

/-- the `for true { … if str == newStr { break } }` loop, with fuel -/
def foldLoop : Nat → List Rune → List Rune
  | 0, s => s
  | n+1, s => let s' := foldPass s; if s' = s then s else foldLoop n s'

/-- `FoldExpression`.  Fuel = potential + 1; `C38.fold_terminates` proves a fixpoint is always
reached within it. -/
def fold (s : List Rune) : List Rune := foldLoop (potential false s + 1) s

/-! ### ParseExpression -/

def parseGo (so : Rune → Int) : Bool → List Rune → List Int
  | _, [] => []
  | true, r :: t => so r :: parseGo so false t
  | false, r :: t =>
    if r = bs then parseGo so true t
    else if r = pct then anyMatch :: parseGo so false t
    else if r = und then singleMatch :: parseGo so false t
    else so r :: parseGo so false t

/-- `ParseExpression` (for strings of at most 65535 bytes) -/
def parse (so : Rune → Int) (s : List Rune) : List Int := parseGo so false s

def utf8Len (r : Rune) : Nat :=
  if r < 0x80 then 1 else if r < 0x800 then 2
  else if 0xD800 ≤ r ∧ r ≤ 0xDFFF then 3   -- encoded as U+FFFD
  else if r < 0x10000 then 3 else if r ≤ 0x10FFFF then 4 else 3

/-- `len(string(runes))` -/
def byteLen (s : List Rune) : Nat := (s.map utf8Len).foldl (· + ·) 0

/-! ### MatchExpression.Matches / Match (the flat matcher used by Namespace) -/

/-- `Matches`: the successor expressions (`next`, then `extra` when valid); `[]` = not matched -/
def matchesStep (p : List Int) (c : Int) : List (List Int) :=
  match p with
  | [] => []
  | x :: q =>
    if x = singleMatch then (if c < singleMatch then [] else [q])
    else if x = anyMatch then
      match q with
      | y :: q' => if y = c then [p, q'] else [p]
      | [] => [p]
    else if c = x then [q] else []

def isAtEnd (p : List Int) : Bool := p == [] || p == [anyMatch]

def stepAll (states : List (Nat × List Int)) (c : Int) : List (Nat × List Int) :=
  states.flatMap (fun st => (matchesStep st.2 c).map (fun q => (st.1, q)))

/-- the final `validMatches` loop: collection indexes of finished expressions, an index is skipped
when equal to the previously appended one -/
def notLast (acc : List Nat) (j : Nat) : Bool :=
  match acc with
  | [] => true
  | last :: _ => j != last

def collect : List (Nat × List Int) → List Nat → List Nat
  | [], acc => acc.reverse
  | st :: rest, acc =>
    if isAtEnd st.2 && notLast acc st.1 then collect rest (st.1 :: acc)
    else collect rest acc

/-- `Match(matchExprCollection, str, collation)`; note the first rune is taken with
`utf8.DecodeRuneInString`, which yields `RuneError` (size 0) on the empty string. -/
def matchFlat (so : Rune → Int) (exprs : List (Nat × List Int)) (str : List Rune) : List Nat :=
  let r := match str with | [] => runeError | r :: _ => r
  let rest := str.drop 1
  let subset := stepAll exprs (so r)
  if subset.isEmpty then [] else
  collect (rest.foldl (fun st r => stepAll st (so r)) subset) []

/-! ### MatchNode (radix trie over the four concatenated columns) -/

structure Data where
  perms : Nat
  row : Nat
  deriving DecidableEq, Repr

inductive Node where
  | mk (so : List Int) (children : List (Int × Node)) (data : Option Data)

def Node.so : Node → List Int | .mk s _ _ => s
def Node.children : Node → List (Int × Node) | .mk _ c _ => c
def Node.data : Node → Option Data | .mk _ _ d => d

def lookupChild (ch : List (Int × Node)) (k : Int) : Option Node :=
  match ch with
  | [] => none
  | (k', n) :: t => if k' = k then some n else lookupChild t k

def replaceChild (ch : List (Int × Node)) (k : Int) (n : Node) : List (Int × Node) :=
  match ch with
  | [] => []
  | (k', n') :: t => if k' = k then (k', n) :: t else (k', n') :: replaceChild t k n

def eraseChild (ch : List (Int × Node)) (k : Int) : List (Int × Node) :=
  match ch with
  | [] => []
  | (k', n') :: t => if k' = k then t else (k', n') :: eraseChild t k

/-- `MatchNode.parseExpression`: the four columns, each preceded by a `columnMarker`;
sorters = [ai_ci, ai_ci, bin, ai_ci] -/
def parse4 (ai bin : Rune → Int) (db br us ho : List Rune) : List Int :=
  columnMarker :: parse ai db ++ columnMarker :: parse ai br ++ columnMarker :: parse bin us ++
    columnMarker :: parse ai ho

/-- `MatchNode.Add`, the loop as a recursion on the remaining expression sort orders.  The node is
`Node.mk (pre ++ rem) children data`; `rem` = `remainingRootSortOrders`, `key` = `allSortOrders[i:]`. -/
def addGo (pre rem : List Int) (children : List (Int × Node)) (data : Option Data)
    (key : List Int) (d : Data) : Node :=
  match key with
  | [] => .mk (pre ++ rem) children data          -- loop body not entered
  | k :: key' =>
    match rem with
    | [] => .mk (pre ++ rem) children data        -- Go: index out of range (unreachable: rem is never empty)
    | r :: rem' =>
      if r = k then
        match rem', key' with
        | _ :: _, _ :: _ => addGo (pre ++ [r]) rem' children data key' d
        | r2 :: _, [] => .mk (pre ++ [r]) [(r2, .mk rem' children data)] (some d)
        | [], k2 :: _ =>
          match lookupChild children k2 with
          | some (.mk cso cch cdata) => .mk (pre ++ [r]) (replaceChild children k2 (addGo [] cso cch cdata key' d)) data
          | none => .mk (pre ++ [r]) (children ++ [(k2, .mk key' [] (some d))]) data
        | [], [] => .mk (pre ++ [r]) children (some d)
      else
        .mk pre [(r, .mk rem children data), (k, .mk key [] (some d))] none

def Node.add (n : Node) (key : List Int) (d : Data) : Node :=
  addGo [] n.so n.children n.data key d

/-- result of `Remove` below one node: nothing matched / the node was rewritten / the node must be
deleted from its parent.  `idx` = `removedIndex` (`none` = MaxUint32). -/
inductive RemRes where
  | noop
  | replaced (n : Node) (idx : Option Nat)
  | deleted (idx : Option Nat)

/-- `MatchNode.Remove`. `isTop` = `rootParent == nil`. -/
def removeGo (isTop : Bool) (pre rem : List Int) (children : List (Int × Node)) (data : Option Data)
    (key : List Int) : RemRes :=
  match key with
  | [] => .noop
  | k :: key' =>
    match rem with
    | [] => .noop
    | r :: rem' =>
      if r = k then
        match rem', key' with
        | _ :: _, _ :: _ => removeGo isTop (pre ++ [r]) rem' children data key'
        | _ :: _, [] => .noop
        | [], k2 :: _ =>
          match lookupChild children k2 with
          | none => .noop
          | some (.mk cso cch cdata) =>
            match removeGo false [] cso cch cdata key' with
            | .noop => .noop
            | .replaced c' idx => .replaced (.mk (pre ++ [r]) (replaceChild children k2 c') data) idx
            | .deleted idx =>
              match eraseChild children k2, data with
              | [(_, .mk s2 c2 d2)], none => .replaced (.mk (pre ++ [r] ++ s2) c2 d2) idx
              | ch', _ => .replaced (.mk (pre ++ [r]) ch' data) idx
        | [], [] =>
          let idx := data.map (·.row)
          match children with
          | [(_, .mk s2 c2 d2)] => .replaced (.mk (pre ++ [r] ++ s2) c2 d2) idx
          | [] => if isTop then .replaced (.mk [columnMarker] [] none) idx else .deleted idx
          | _ => .replaced (.mk (pre ++ [r]) children none) idx
      else .noop

/-- `(newRoot, removedIndex, success)` -/
def Node.remove (n : Node) (key : List Int) : Node × Option Nat × Bool :=
  match removeGo true [] n.so n.children n.data key with
  | .noop => (n, none, false)
  | .replaced n' idx => (n', idx, true)
  | .deleted idx => (n, idx, true)   -- unreachable for isTop = true

structure Counted where
  so : List Int
  children : List (Int × Node)
  data : Option Data
  length : Nat

def processMatch (node : Counted) (c : Int) : List Counted :=
  match node.so with
  | [] => []     -- Go: index out of range; callers never pass an exhausted node
  | x :: q =>
    if x = singleMatch then
      (if c < singleMatch then [] else [{ node with so := q, length := node.length + 1 }])
    else if x = anyMatch then
      (match q with
        | y :: q' => if y = c then [{ node with so := q', length := node.length + 2 }] else []
        | [] =>
          match lookupChild node.children c with
          | some (.mk cso cch cdata) => [{ so := cso.drop 1, children := cch, data := cdata, length := node.length + 2 }]
          | none => [])
      ++ (if c ≠ columnMarker then [node] else [])
    else if c = x then [{ node with so := q, length := node.length + 1 }] else []

def childStep (node : Counted) (k : Int) (c : Int) : List Counted :=
  match lookupChild node.children k with
  | some (.mk cso cch cdata) => processMatch { so := cso, children := cch, data := cdata, length := node.length } c
  | none => []

def stepTrie (states : List Counted) (c : Int) : List Counted :=
  states.flatMap fun node =>
    if node.so.isEmpty then childStep node singleMatch c ++ childStep node anyMatch c ++ childStep node c c
    else processMatch node c

def finish (states : List Counted) : List (Data × Nat) :=
  states.filterMap fun n =>
    match n.data with
    | none => none
    | some d =>
      if n.so.isEmpty then some (d, n.length)
      else if n.so == [anyMatch] then some (d, n.length + 1)
      else none

/-- `MatchNode.Match` on already concatenated sort orders -/
def Node.matchTokens (root : Node) (tokens : List Int) : List (Data × Nat) :=
  finish (tokens.foldl stepTrie [{ so := root.so, children := root.children, data := root.data, length := 0 }])

/-! ### Access -/

def permAdmin : Nat := 1
def permWrite : Nat := 2
def permMerge : Nat := 4
def permRead : Nat := 8

structure Access where
  root : Node
  nrows : Nat
  freeRows : List Nat   -- top of the stack first

def Access.init : Access := { root := .mk [columnMarker] [] none, nrows := 0, freeRows := [] }

/-- folded, lower-cased columns as `Access.Insert` / `Delete` compute them (user is case-sensitive) -/
def normCols (lower : Rune → Rune) (db br us ho : List Rune) : List Rune × List Rune × List Rune × List Rune :=
  ((fold db).map lower, (fold br).map lower, fold us, (fold ho).map lower)

def Access.insert (ai bin : Rune → Int) (lower : Rune → Rune) (a : Access) (db br us ho : List Rune) (perms : Nat) : Access :=
  let (d, b, u, h) := normCols lower db br us ho
  let (idx, free', n') := match a.freeRows with
    | i :: rest => (i, rest, a.nrows)
    | [] => (a.nrows, [], a.nrows + 1)
  { root := a.root.add (parse4 ai bin d b u h) { perms := perms, row := idx }, nrows := n', freeRows := free' }

def Access.delete (ai bin : Rune → Int) (lower : Rune → Rune) (a : Access) (db br us ho : List Rune) : Access :=
  let (d, b, u, h) := normCols lower db br us ho
  let (root', idx, _) := a.root.remove (parse4 ai bin d b u h)
  { root := root', nrows := a.nrows, freeRows := match idx with | some i => i :: a.freeRows | none => a.freeRows }

def orPerms (a b : Nat) : Nat := a ||| b

/-- the closure Admin ⊃ Write ⊃ Merge ⊃ Read -/
def closePerms (p : Nat) : Nat :=
  if p &&& permAdmin = permAdmin then p ||| permWrite ||| permMerge ||| permRead
  else if p &&& permWrite = permWrite then p ||| permMerge ||| permRead
  else if p &&& permMerge = permMerge then p ||| permRead
  else p

/-- the `for _, result := range results` loop of `MatchIgnoringRow` -/
def longestLoop (ignore : Option Nat) : List (Data × Nat) → Nat → Nat → Nat × Nat
  | [], len, perms => (len, perms)
  | (d, l) :: rest, len, perms =>
    if ignore = some d.row then longestLoop ignore rest len perms
    else if l > len then longestLoop ignore rest l d.perms
    else if l = len then longestLoop ignore rest len (perms ||| d.perms)
    else longestLoop ignore rest len perms

/-- `Access.MatchIgnoringRow`: (len(results) > 0, permissions) -/
def Access.matchIgnoring (ai bin : Rune → Int) (a : Access) (db br us ho : List Rune) (ignore : Option Nat) : Bool × Nat :=
  let results := a.root.matchTokens (parse4 ai bin db br us ho)
  (!results.isEmpty, closePerms (longestLoop ignore results 0 0).2)

def Access.match (ai bin : Rune → Int) (a : Access) (db br us ho : List Rune) : Bool × Nat :=
  a.matchIgnoring ai bin db br us ho none

/-! ### Namespace -/

structure NsRow where
  db : List Rune
  br : List Rune
  us : List Rune
  ho : List Rune
  deriving DecidableEq, Repr

abbrev Namespace := List NsRow   -- `Values`; the four MatchExpression slices are `parse` of these, index = position

inductive NsErr where | dup | tooLong
  deriving DecidableEq, Repr

/-- dtables `BranchNamespaceControlTable.Insert` (no session ⇒ no permission check) + `insert` -/
def Namespace.insert (lower : Rune → Rune) (ns : Namespace) (db br us ho : List Rune) : Except NsErr Namespace :=
  let (d, b, u, h) := normCols lower db br us ho
  if byteLen d > 65535 || byteLen b > 65535 || byteLen u > 65535 || byteLen h > 65535 then .error .tooLong
  else
    let row : NsRow := { db := d, br := b, us := u, ho := h }
    if ns.contains row then .error .dup else .ok (ns ++ [row])

/-- swap the row at `i` with the last one, then drop the last -/
def swapRemove (ns : List NsRow) (i : Nat) : List NsRow :=
  match ns.getLast? with
  | none => ns
  | some last => if i + 1 = ns.length then ns.dropLast else (ns.set i last).dropLast

/-- dtables `Delete` + `delete` -/
def Namespace.delete (lower : Rune → Rune) (ns : Namespace) (db br us ho : List Rune) : Namespace :=
  let (d, b, u, h) := normCols lower db br us ho
  let row : NsRow := { db := d, br := b, us := u, ho := h }
  match ns.findIdx? (· == row) with
  | none => ns
  | some i => swapRemove ns i

def indexed (xs : List (List Int)) : List (Nat × List Int) := xs.zipIdx.map (fun pi => (pi.2, pi.1))

/-- `filterBranches` etc.: the expressions at the given collection indexes, in that order -/
def filterExprs (exprs : List (Nat × List Int)) (idxs : List Nat) : List (Nat × List Int) :=
  idxs.filterMap (fun i => exprs[i]?)

/-- the "longest branch expression(s)" loop of `CanCreate` (byte length of the stored string) -/
def longestBranches (ns : Namespace) : List Nat → Int → List Nat → List Nat
  | [], _, acc => acc
  | m :: rest, longest, acc =>
    match ns[m]? with
    | none => longestBranches ns rest longest acc     -- Go: index out of range (unreachable)
    | some v =>
      let l : Int := byteLen v.br
      let (longest', acc') := if l > longest then (l, []) else (longest, acc)
      if l ≥ longest' then longestBranches ns rest longest' (acc' ++ [m])
      else longestBranches ns rest longest' acc'

/-- `Namespace.CanCreate` -/
def Namespace.canCreate (ai bin : Rune → Int) (ns : Namespace) (db br us ho : List Rune) : Bool :=
  let dbs := indexed (ns.map (fun v => parse ai v.db))
  let brs := indexed (ns.map (fun v => parse ai v.br))
  let uss := indexed (ns.map (fun v => parse bin v.us))
  let hos := indexed (ns.map (fun v => parse ai v.ho))
  let f1 := matchFlat ai dbs db
  if f1.isEmpty then true else
  let f2 := matchFlat ai (filterExprs brs f1) br
  if f2.isEmpty then true else
  let f3 := longestBranches ns f2 (-1) []
  let f4 := matchFlat bin (filterExprs uss f3) us
  let f5 := matchFlat ai (filterExprs hos f4) ho
  !f5.isEmpty

end DoltVerif.BranchControl
