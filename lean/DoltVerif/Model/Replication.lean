/-
Model of dolt's replication paths (C45), message level.

(A) cluster standby replication — go/libraries/doltcore/sqle/cluster/commithook.go, controller.go
    The unit of replication is the database's noms ROOT hash (all branch heads and working sets at
    once).  `commithook.Execute` (after every commit) records `nextHead := db.NomsRoot()` under
    `h.mu` and signals the replicate thread; `attemptReplicate` copies `toPush := h.nextHead` under
    the lock, releases it, PullChunks + `Commit(toPush, curRoot)` on the standby, re-locks, and only
    on success (and only while still primary) sets `lastPushedHead := toPush` and releases the
    waiters registered BEFORE the attempt began (ProgressNotifier).  A graceful transition to
    standby sets the provider read-only, waits until every hook `isCaughtUp` (`nextHead ==
    lastPushedHead ≠ 0`), then `setRole` (which zeroes both and cancels a running attempt).

(B) push-on-write to a remote + read replica — sqle/commit_hooks.go (PushOnWriteHook.Execute →
    pushDataset: PullChunks then a FORCED SetHead of that one branch), doltdb/hooksdatabase.go
    (hooks run right after the commit), dsess/transactions.go doCommit (the per-branch TxLock is held
    across commit + hooks), sqle/read_replica_database.go (PullFromRemote:
    fetch the remote's heads and set the local branches to them).

Roots / commits are natural numbers handed out by a counter (`fresh`), 0 = the empty hash.
Not modelled (stated in checks/C45.json): timeouts and back-off, gRPC/TLS/JWT, process
supervision, the circuit breaker for ack waits, DROP DATABASE / users / branch-control replication.
Core-only.
-/
namespace DoltVerif.Replication

/-! ### (A) cluster commit hook -/

inductive Role where
  | primary | standby
  deriving DecidableEq, Repr

structure CState where
  /-- ghost: every root the primary's store ever had, newest first -/
  hist : List Nat
  proot : Nat
  /-- the standby's store root, and (ghost) every root it ever showed, newest first -/
  sroot : Nat
  shist : List Nat
  role : Role
  /-- provider read-only flag set at the start of a graceful transition -/
  readOnly : Bool
  nextHead : Nat
  lastPushed : Nat
  /-- `toPush` of the attempt the replicate thread is running -/
  inflight : Option Nat
  fresh : Nat
  /-- ProgressNotifier: roots of commits waiting for replication (registered, not yet in an attempt) -/
  waiters : List Nat
  /-- waiters captured by the running attempt (`BeginAttempt`) -/
  attemptWaiters : List Nat
  /-- ghost: commits whose replication wait returned nil (acknowledged with replication) -/
  acked : List Nat
  deriving Repr

inductive CStep where
  | write            -- a commit lands in the primary's store (new root)
  | exec             -- that commit's hook.Execute runs
  | init             -- replicate thread: primaryNeedsInit → nextHead := current root
  | begin            -- replicate thread: attemptReplicate starts (toPush := nextHead)
  | finishOk         -- standby committed toPush, primary learned it
  | finishFail       -- attempt failed before the standby's root moved
  | finishLostAck    -- standby committed toPush, primary saw an error
  | beginGraceful    -- dolt_assume_cluster_role('standby', …): provider read-only
  | completeGraceful -- all hooks caught up → setRole(standby)
  | standbyRestart   -- the standby process restarts (its store is durable)
  deriving DecidableEq, Repr

def caughtUp (s : CState) : Bool :=
  s.role != .primary || (s.nextHead != 0 && s.nextHead == s.lastPushed)

/-- one step; `none` = the step is not enabled / is rejected (state unchanged by the caller). -/
def cstep (s : CState) : CStep → Option CState
  | .write =>
    -- writes are accepted only by a primary whose provider is not read-only
    if s.role == .primary && !s.readOnly then
      some { s with proot := s.fresh, hist := s.fresh :: s.hist, fresh := s.fresh + 1 }
    else none
  | .exec =>
    if s.role != .primary then some s   -- "not role primary; not replicating the commit"
    else
      let s1 := if s.proot != s.nextHead then { s with nextHead := s.proot } else s
      if !caughtUp s1 then some { s1 with waiters := s1.proot :: s1.waiters } else some s1
  | .init =>
    if s.role == .primary && s.nextHead == 0 then some { s with nextHead := s.proot } else none
  | .begin =>
    if s.inflight.isNone && s.role == .primary && s.nextHead != 0 && s.nextHead != s.lastPushed then
      some { s with inflight := some s.nextHead, attemptWaiters := s.waiters, waiters := [] }
    else none
  | .finishOk =>
    match s.inflight with
    | none => none
    | some r =>
      let s1 := { s with inflight := none, sroot := r, shist := r :: s.shist }
      if s.role == .primary then
        some { s1 with lastPushed := r, acked := s.attemptWaiters ++ s.acked, attemptWaiters := [] }
      else some { s1 with attemptWaiters := [] }
  | .finishFail =>
    match s.inflight with
    | none => none
    | some _ => some { s with inflight := none, waiters := s.attemptWaiters ++ s.waiters, attemptWaiters := [] }
  | .finishLostAck =>
    match s.inflight with
    | none => none
    | some r => some { s with inflight := none, sroot := r, shist := r :: s.shist,
                              waiters := s.attemptWaiters ++ s.waiters, attemptWaiters := [] }
  | .beginGraceful =>
    if s.role == .primary then some { s with readOnly := true } else none
  | .completeGraceful =>
    -- waitForHooksToReplicate saw every hook caught up; setRole zeroes the heads and cancels the
    -- running attempt (its push can no longer land: epoch/role interceptors on the standby)
    if s.role == .primary && s.readOnly && caughtUp s then
      some { s with role := .standby, nextHead := 0, lastPushed := 0, inflight := none,
                    waiters := [], attemptWaiters := [] }
    else none
  | .standbyRestart =>
    -- a running attempt fails; the standby's root is durable
    match s.inflight with
    | none => some s
    | some _ => some { s with inflight := none, waiters := s.attemptWaiters ++ s.waiters, attemptWaiters := [] }

def crun (s : CState) : List CStep → CState
  | [] => s
  | a :: as => crun ((cstep s a).getD s) as

def cinit : CState :=
  { hist := [1], proot := 1, sroot := 0, shist := [], role := .primary, readOnly := false,
    nextHead := 0, lastPushed := 0, inflight := none, fresh := 2, waiters := [], attemptWaiters := [], acked := [] }

/-! ### (B) push-on-write and read replica -/

abbrev Branch := Nat

structure PState where
  /-- primary branch heads and (ghost) every head each branch ever had -/
  phead : List (Branch × Nat)
  phist : List (Branch × Nat)
  /-- the remote's heads and (ghost) every head it ever showed -/
  rhead : List (Branch × Nat)
  rhist : List (Branch × Nat)
  /-- the read replica's heads and (ghost) history -/
  qhead : List (Branch × Nat)
  qhist : List (Branch × Nat)
  /-- hook executions started by a commit and not finished: branch ↦ head to push.  At most one
  per branch: dsess.DoltTransaction.doCommit holds the per-branch TxLock across the commit AND its
  hooks, so a second commit on the branch cannot land before the first one's hook returned. -/
  jobs : List (Branch × Nat)
  /-- (ghost) branches whose most recent hook execution failed (remote unreachable) -/
  stale : List Branch
  warnings : Nat
  fresh : Nat
  deriving Repr

def setB (m : List (Branch × Nat)) (b : Branch) (v : Nat) : List (Branch × Nat) :=
  (b, v) :: m.filter (fun p => p.1 != b)

def delB (m : List (Branch × Nat)) (b : Branch) : List (Branch × Nat) := m.filter (fun p => p.1 != b)

inductive PStep where
  | commit (b : Branch)                -- commit on branch b lands (under the branch's TxLock); its hook is pending
  | hook (b : Branch) (ok : Bool)      -- b's pending hook runs pushDataset (ok / remote unreachable), lock released
  | pull                               -- replica: PullFromRemote (all heads)
  deriving DecidableEq, Repr

def pstep (s : PState) : PStep → Option PState
  | .commit b =>
    if (s.jobs.lookup b).isSome then none   -- the branch's TxLock is held
    else some { s with phead := setB s.phead b s.fresh, phist := (b, s.fresh) :: s.phist,
                       jobs := setB s.jobs b s.fresh, fresh := s.fresh + 1 }
  | .hook b ok =>
    match s.jobs.lookup b with
    | none => none
    | some h =>
      let s1 := { s with jobs := delB s.jobs b }
      if ok then some { s1 with rhead := setB s1.rhead b h, rhist := (b, h) :: s1.rhist,
                                stale := s1.stale.filter (· != b) }
      else some { s1 with warnings := s1.warnings + 1, stale := b :: s1.stale }
  | .pull =>
    some { s with qhead := s.rhead, qhist := s.rhead ++ s.qhist }

def prun (s : PState) : List PStep → PState
  | [] => s
  | a :: as => prun ((pstep s a).getD s) as

def pinit : PState :=
  { phead := [], phist := [], rhead := [], rhist := [], qhead := [], qhist := [], jobs := [], stale := [],
    warnings := 0, fresh := 1 }

end DoltVerif.Replication
