/-
`tree.ApplyMutations` + `chunker.advanceTo / processPrefix / finalizeCursor / Done`
(go/store/prolly/tree/mutator.go, chunker.go) as an abstract algorithm.  Core-only.

Per level, the old nodes are *regions*.  The chunker of that level walks the regions left to
right.  A region is *dirty* when something below/inside it changed.  While the in-progress chunk
is empty (the last `append` returned `split = true` exactly at an old node end — "resync") a
clean region is not visited at all: its node is reused and its parent item is copied
(`advanceTo` step (4): `cur.parent.advance`, `parent.advanceTo`).  Otherwise the region's
(possibly edited) items are appended one by one (`processPrefix`, the lock-step loop of
`advanceTo`, `finalizeCursor`).  The parent level sees, per child slot, either the old item or
the summaries of the chunks emitted while that child was consumed.
-/
import DoltVerif.Model.Chunker
import DoltVerif.Spec.SortedDict
namespace DoltVerif.Prolly
open DoltVerif.SortedDict (Edits applyEdits)

structure Region (α : Type) where
  old : List α
  new : List α
  dirty : Bool

inductive Out (α : Type) where
  | reused (c : List α)
  | fresh (cs : List (List α))

variable {σ α κ ν : Type}

def Out.chunks : Out α → List (List α)
  | .reused c => [c]
  | .fresh cs => cs

def Out.isFresh : Out α → Bool
  | .reused _ => false
  | .fresh _ => true

/-- one level of the incremental chunker; the output is aligned with the regions -/
def LevelCfg.incr (L : LevelCfg σ α) : St σ α → List (Region α) → List (Out α)
  | _, [] => []
  | st, r :: rs =>
    if st.cur.isEmpty && !r.dirty then .reused r.old :: L.incr st rs
    else
      let f := L.feed st r.new
      match rs with
      | [] => [.fresh (f.1 ++ f.2.flush)]
      | _ :: _ => .fresh f.1 :: L.incr f.2 rs

def LevelCfg.incrOk (L : LevelCfg σ α) : St σ α → List (Region α) → Bool
  | _, [] => true
  | st, r :: rs =>
    if st.cur.isEmpty && !r.dirty then L.incrOk st rs
    else L.feedOk st r.new && L.incrOk (L.feed st r.new).2 rs

/-! ### level 0: edits → regions -/

/-- a no-op mutation (`ApplyMutations` skips it without moving the chunker): same key bytes and
same value, or a delete of an absent key -/
def isNoop [BEq κ] [BEq ν] (cmp : κ → κ → Ordering) (leaf : List (κ × ν)) (e : κ × Option ν) : Bool :=
  match leaf.find? (fun kv => cmp e.1 kv.1 == .eq), e.2 with
  | none, none => true
  | some kv, some v => kv.1 == e.1 && kv.2 == v
  | _, _ => false

/-- the last pair of a leaf is still its last pair after the edits (same bytes) -/
def lastKeptLeaf [BEq κ] [BEq ν] (old new : List (κ × ν)) : Bool :=
  match old.getLast?, new.getLast? with
  | some a, some b => a.1 == b.1 && a.2 == b.2
  | none, none => true
  | _, _ => false

/-- regions of the leaf level: a leaf receives the edits whose key is ≤ its last key (the last
leaf also those beyond) — `newCursorAtKey`/`Seek` + `keepInBounds`.  A leaf must be re-fed
(`dirty`) when it holds the first edit (the chunker is created there and `processPrefix` runs), a
non-no-op edit, or when the previous leaf's last pair was not kept (`prevKept = false`): the
chunker only skips ahead right after appending an OLD item that is the last of its node
(`split && tc.cur.atNodeEnd()` in `advanceTo`/`finalizeCursor`); after a delete/update of a node's
last pair the cursor already stands on the next node's first item, which `advanceTo` appends
unconditionally. -/
def leafRegions [BEq κ] [BEq ν] [Inhabited κ] (cmp : κ → κ → Ordering) :
    List (NodeH κ ν 0) → Edits κ ν → Bool → Bool → List (Region (κ × ν))
  | [], _, _, _ => []
  | [l], es, seen, prevKept =>
    [⟨l, applyEdits cmp l es, (!seen && !es.isEmpty) || es.any (fun e => !isNoop cmp l e) || !prevKept⟩]
  | l :: l' :: ls, es, seen, prevKept =>
    let mine := es.takeWhile (fun e => cmp e.1 (lastKey 0 l) != .gt)
    let rest := es.dropWhile (fun e => cmp e.1 (lastKey 0 l) != .gt)
    let new := applyEdits cmp l mine
    ⟨l, new, (!seen && !mine.isEmpty) || mine.any (fun e => !isNoop cmp l e) || !prevKept⟩
      :: leafRegions cmp (l' :: ls) rest (seen || !mine.isEmpty) (lastKeptLeaf l new)

/-! ### level n+1: regions from the outputs of level n -/

def slotItems [Inhabited κ] (n : Nat) (p : ItemH κ ν (n+1) × Out (ItemH κ ν n)) : List (ItemH κ ν (n+1)) :=
  match p.2 with
  | .reused _ => [p.1]
  | .fresh cs => cs.map (summary n)

def lastReused : List (Out α) → Bool
  | [] => true
  | [o] => !o.isFresh
  | _ :: o :: os => lastReused (o :: os)

/-- the regions of level `n+1`: per old node, the child slots; the node must be re-fed when one of
its children was re-chunked or when the previous node's last slot was not an old item (same
resync rule as at the leaves) -/
def regionsUp [Inhabited κ] (n : Nat) :
    List (NodeH κ ν (n+1)) → List (Out (ItemH κ ν n)) → Bool → List (Region (ItemH κ ν (n+1)))
  | [], _, _ => []
  | nd :: rest, outs, prevKept =>
    let mine := outs.take nd.length
    ⟨nd, (nd.zip mine).flatMap (slotItems n), mine.any Out.isFresh || !prevKept⟩
      :: regionsUp n rest (outs.drop nd.length) (lastReused mine)

def children (n : Nat) (nds : List (NodeH κ ν (n+1))) : List (NodeH κ ν n) :=
  nds.flatMap (fun nd => nd.map childOf)

/-- the regions the level-`n` chunker walks, given the old nodes of level `n` -/
def regionsAt [BEq κ] [BEq ν] [Inhabited κ] (C : Cfg σ κ ν) (cmp : κ → κ → Ordering) :
    (n : Nat) → List (NodeH κ ν n) → Edits κ ν → List (Region (ItemH κ ν n))
  | 0, leaves, es => leafRegions cmp leaves es false true
  | n+1, nds, es =>
    regionsUp n nds ((C n).incr (C n).fresh (regionsAt C cmp n (children n nds) es)) true

def levelsOk [BEq κ] [BEq ν] [Inhabited κ] (C : Cfg σ κ ν) (cmp : κ → κ → Ordering) :
    (n : Nat) → List (NodeH κ ν n) → Edits κ ν → Bool
  | 0, leaves, es => (C 0).incrOk (C 0).fresh (leafRegions cmp leaves es false true)
  | n+1, nds, es =>
    levelsOk C cmp n (children n nds) es &&
      (C (n+1)).incrOk (C (n+1)).fresh (regionsAt C cmp (n+1) nds es)

/-- `ApplyMutations(root, edits)`; `edits` sorted by key, at most one per key -/
def applyMutations [BEq κ] [BEq ν] [Inhabited κ] (C : Cfg σ κ ν) (cmp : κ → κ → Ordering)
    (t : Tree κ ν) (es : Edits κ ν) : Except BuildErr (Tree κ ν) :=
  if es.isEmpty then .ok t
  else if !levelsOk C cmp t.height [t.root] es then .error .panic
  else
    let outs := (C t.height).incr (C t.height).fresh (regionsAt C cmp t.height [t.root] es)
    let chunks := outs.flatMap Out.chunks
    rootOf C (t.flatten.length + es.length + 2) t.height chunks

end DoltVerif.Prolly
