/-
ManStore — model of the NBS commit protocol (go/store/nbs/store.go, table_set.go, mem_table.go,
file_manifest.go) at the granularity of the regions the code protects with a lock:

* any number of `NomsBlockStore` handles (`Sys.hs : Nat → Handle`, one per handle or process) on one
  directory (`Disk`: the manifest file + the table files present);
* per handle: cached `upstream` manifest contents, opened upstream tables, novel tables (flushed
  memtables not yet named by a manifest), the memtable, the has-cache, and a commit parked inside
  `manifest.Update`;
* atomic steps (`Op`): open, put (`addChunk`, which may flush), the part of `commit` that runs before
  `manifest.Update` (`cstart`), one `manifest.Update` + what follows it (`cresume`; whole, under the
  LOCK file — C05 proves the steps inside it behave as the `Disk.update` function used here), rebase,
  `WriteTableFile`, `AddTableFilesToManifest`, close.

Core Lean only (the driver links against this file).

Abstractions (stated in checks/C02.json, checks/C07.json):
* a chunk address is a `Nat` (0 = the empty hash); a table file is identified with the list of chunk
  addresses it holds (content addressing; `tableWriter.finish` names a table by hashing exactly that);
* the manifest lock `generateLockHash(root, specs, appendix, nil)` is modelled by its SHA-512 preimage
  `(root, canonical spec set)`: equal preimages ⇔ equal locks is the collision-freedom assumption;
* no appendix, no GC generation change, no conjoin (C05 models those), has-cache never evicts.
-/
namespace DoltVerif.ManStore

abbrev Addr := Nat
abbrev Table := List Addr

/-- what the getAddrs callback reports and how large a chunk is: fixed per address -/
structure Env where
  refs : Addr → List Addr
  size : Addr → Nat

/-! ### canonical spec sets (tableSet.toSpecs sorts by name; only set equality matters here) -/

def tableLt : Table → Table → Bool
  | [], [] => false
  | [], _ :: _ => true
  | _ :: _, [] => false
  | a :: as, b :: bs => a < b || (a == b && tableLt as bs)

def insertT (t : Table) : List Table → List Table
  | [] => [t]
  | u :: us => if t == u then u :: us else if tableLt t u then t :: u :: us else u :: insertT t us

def canon (ts : List Table) : List Table := ts.foldr insertT []

abbrev Lock := Option (Addr × List Table)

def mkLock (root : Addr) (specs : List Table) : Lock := some (root, canon specs)

structure Contents where
  root : Addr
  lock : Lock
  specs : List Table
deriving DecidableEq, Repr

/-- `manifestContents{nbfVers: …}`: what a store that has never seen a manifest believes -/
def Contents.initial : Contents := { root := 0, lock := none, specs := [] }

structure Disk where
  manifest : Option Contents
  files : List Table
deriving Repr

def Disk.empty : Disk := { manifest := none, files := [] }

/-- the root a fresh open of the directory reports -/
def Disk.root (d : Disk) : Addr := match d.manifest with | none => 0 | some m => m.root

def Disk.lock (d : Disk) : Lock := match d.manifest with | none => none | some m => m.lock

def Disk.specs (d : Disk) : List Table := match d.manifest with | none => [] | some m => m.specs

/-- chunks reachable through the persisted manifest -/
def Disk.persisted (d : Disk) (a : Addr) : Bool := d.specs.any (·.contains a)

inductive Err | dangling | missingFile | newManifestNonZeroLock | emptyLock | zeroChunks | putFailed | tableNotFound | lockTimeout | noTables
deriving DecidableEq, Repr

inductive UpdRes
  | wrote (c : Contents)      -- lock matched, validate passed, manifest replaced; returns newContents
  | stale (c : Contents)      -- lock did not match; returns what is on disk; nothing changed
  | fail (e : Err)            -- error before the rename; nothing changed
deriving Repr

/-- `fileManifest.Update` (whole, under the LOCK file): `updateWithChecker` with the checker
`checkNewSpecsPresent` (the gcGen comparison is vacuous here: no step of this model changes gcGen). -/
def Disk.update (d : Disk) (lastLock : Lock) (new : Contents) : Disk × UpdRes :=
  if new.lock.isNone then (d, .fail .emptyLock)                        -- writeManifest refuses
  else match d.manifest with
    | none =>
      if lastLock.isSome then (d, .fail .newManifestNonZeroLock)
      else
        -- upstream = manifestContents{} ; lastLock == upstream.lock
        if new.specs.all (fun t => d.files.contains t) then ({ d with manifest := some new }, .wrote new)
        else (d, .fail .missingFile)
    | some up =>
      if lastLock != up.lock then (d, .stale up)
      else if new.specs.all (fun t => up.specs.contains t || d.files.contains t) then
        ({ d with manifest := some new }, .wrote new)
      else (d, .fail .missingFile)

/-! ### one handle -/

structure Mem where
  chunks : List Addr      -- insertion order
  total : Nat
deriving Repr

def Mem.empty : Mem := { chunks := [], total := 0 }

structure Pending where
  cur : Addr
  last : Addr
  new : Contents
deriving Repr

structure Handle where
  opened : Bool
  upstream : Contents
  upTables : List Table
  novel : List Table
  mem : Option Mem
  hasCache : List Addr
  pc : Option Pending
  memMax : Nat
deriving Repr

def Handle.closed : Handle :=
  { opened := false, upstream := .initial, upTables := [], novel := [], mem := none, hasCache := [], pc := none, memMax := 0 }

def Handle.inTables (h : Handle) (a : Addr) : Bool :=
  h.novel.any (·.contains a) || h.upTables.any (·.contains a)

def Handle.inMem (h : Handle) (a : Addr) : Bool :=
  match h.mem with | none => false | some m => m.chunks.contains a

/-- `NomsBlockStore.Has` / `refCheck`: memtable, then novel and upstream tables -/
def Handle.has (h : Handle) (a : Addr) : Bool := h.inMem a || h.inTables a

/-- `tableSet.append`'s check of the memtable's pending refs: has-cache, else `refCheck` -/
def flushOk (env : Env) (h : Handle) (m : Mem) : Bool :=
  m.chunks.all fun c => (env.refs c).all fun r => h.hasCache.contains r || m.chunks.contains r || h.inTables r

def addNovel (t : Table) (novel : List Table) : List Table :=
  if novel.contains t then novel else novel ++ [t]

/-- successful `tableSet.append` + `addPendingRefsToHasCache`: the memtable becomes a novel table
(minus chunks some table already has), every pending ref enters the has-cache -/
def flushed (env : Env) (h : Handle) (m : Mem) (mem' : Option Mem) : Handle :=
  { h with
    novel := addNovel (m.chunks.filter (fun c => !h.inTables c)) h.novel
    hasCache := h.hasCache ++ (m.chunks.flatMap env.refs)
    mem := mem' }

inductive PutRes | ok | err (e : Err)
deriving DecidableEq, Repr

/-- `NomsBlockStore.addChunk` (no GC in progress) -/
def Handle.put (env : Env) (h : Handle) (a : Addr) : Handle × PutRes :=
  let m := h.mem.getD Mem.empty
  if m.chunks.contains a then ({ h with mem := some m }, .ok)                  -- chunkExists
  else if m.total + env.size a ≤ h.memMax then
    ({ h with mem := some { chunks := m.chunks ++ [a], total := m.total + env.size a } }, .ok)
  else
    -- chunkNotAdded: flush the memtable
    if m.chunks.isEmpty then ({ h with mem := some m }, .err .zeroChunks)      -- mt.write refuses 0 chunks
    else if !flushOk env h m then ({ h with mem := none }, .err .dangling)
    else
      let h' := flushed env h m (some Mem.empty)
      if env.size a ≤ h.memMax then
        ({ h' with mem := some { chunks := [a], total := env.size a } }, .ok)
      else (h', .err .putFailed)

/-- `tableSet.rebase(specs)`: keep non-empty novel tables, open the (deduplicated) specs -/
def dedup : List Table → List Table
  | [] => []
  | t :: ts => if (dedup ts).contains t then dedup ts else t :: dedup ts

def Handle.rebaseTo (h : Handle) (c : Contents) : Handle :=
  { h with upstream := c, upTables := (dedup c.specs.reverse).reverse, novel := h.novel.filter (fun t => !t.isEmpty) }

/-- can every spec be opened?  (kept open if already held, else the file must be in the directory) -/
def canOpen (d : Disk) (h : Handle) (specs : List Table) : Bool :=
  specs.all fun t => h.upTables.contains t || d.files.contains t

/-- `NomsBlockStore.rebase` -/
def Handle.rebase (d : Disk) (h : Handle) : Handle × Option Err :=
  match d.manifest with
  | none => (h, none)
  | some m =>
    if m.lock == h.upstream.lock then (h, none)
    else if canOpen d h m.specs then (h.rebaseTo m, none)
    else (h, some .tableNotFound)

/-- `tableSet.toSpecs` -/
def Handle.toSpecs (h : Handle) : List Table :=
  (h.novel.filter (fun t => !t.isEmpty && !h.upTables.contains t)) ++ h.upTables

inductive CRes
  | ok (b : Bool)
  | err (e : Err)
  | parked
deriving DecidableEq, Repr

/-- the memtable flush at the head of `updateManifest`; `none` = ErrDanglingRef -/
def Handle.flushForCommit (env : Env) (h : Handle) : Option Handle :=
  match h.mem with
  | none => some h
  | some m =>
    if m.chunks.isEmpty then some h
    else if flushOk env h m then some (flushed env h m none) else none

/-- `errorIfDangling(current)`: does it reject? -/
def Handle.rootDangling (h : Handle) (cur : Addr) : Bool :=
  cur != 0 && !h.hasCache.contains cur && !h.has cur

/-- `errorIfDangling(current)` on success adds the root to the has-cache -/
def Handle.noteRoot (h : Handle) (cur : Addr) : Handle :=
  if cur != 0 && !h.hasCache.contains cur then { h with hasCache := h.hasCache ++ [cur] } else h

/-- build `newContents` and stop in front of `manifest.Update` -/
def Handle.park (h : Handle) (cur last : Addr) : Handle :=
  { h with pc := some { cur := cur, last := last,
                        new := { root := cur, lock := mkLock cur h.toSpecs, specs := h.toSpecs } } }

/-- `updateManifest` up to (excluding) the call of `manifest.Update` -/
def Handle.prepare (env : Env) (h : Handle) (cur last : Addr) : Handle × CRes :=
  if h.upstream.root != last then (h, .ok false)                     -- errLastRootMismatch
  else
    match h.flushForCommit env with
    | none => ({ h with mem := none }, .err .dangling)
    | some h1 =>
      if h1.rootDangling cur then ({ h1 with mem := none }, .err .dangling)
      else ((h1.noteRoot cur).park cur last, .parked)

/-- `tableSet.flatten` -/
def Handle.flatten (h : Handle) : Handle :=
  { h with upTables := h.upTables ++ h.novel.filter (fun t => !t.isEmpty && !h.upTables.contains t), novel := [] }

/-- `NomsBlockStore.commit` up to the first `manifest.Update` (or to its end if it never gets there) -/
def commitStart (env : Env) (d : Disk) (h : Handle) (cur last : Addr) : Handle × CRes :=
  let anyNovel := h.mem.isSome || !h.novel.isEmpty
  if !anyNovel && cur == last then
    match h.rebase d with
    | (h', none) => (h', .ok true)
    | (h', some e) => (h', .err e)
  else h.prepare env cur last

/-- the parked `manifest.Update`, and the rest of `updateManifest` / the retry loop of `commit`
until it returns or reaches `manifest.Update` again -/
def commitResume (env : Env) (d : Disk) (h : Handle) (p : Pending) : Disk × Handle × CRes :=
  let h0 := { h with pc := none }
  match d.update h.upstream.lock p.new with
  | (d', .fail e) => (d', h0, .err e)
  | (d', .wrote c) => (d', { h0.flatten with upstream := c }, .ok true)
  | (d', .stale up) =>
    -- `if newContents.lock != upstream.lock` is how updateManifest tells failure from success: when the
    -- manifest on disk already carries exactly the lock of newContents (same root, same table set, written
    -- by somebody else) the commit is taken to have succeeded although nothing was written
    if up.lock == p.new.lock then (d', { h0.flatten with upstream := p.new }, .ok true)
    -- handleOptimisticLockFailure
    else if !canOpen d' h0 up.specs then (d', h0, .err .tableNotFound)
    else
      let h1 := h0.rebaseTo up
      if p.last != up.root then (d', h1, .ok false)            -- errOptimisticLockFailedRoot
      else
        -- errOptimisticLockFailedTables: go round the loop in commit()
        let (h2, r) := h1.prepare env p.cur p.last
        (d', h2, r)

/-- `newLocalStore` → `newNomsBlockStore`: fresh state + rebase -/
def openHandle (d : Disk) (memMax : Nat) : Handle × Option Err :=
  let h : Handle := { Handle.closed with opened := true, memMax := memMax }
  h.rebase d

/-- `AddTableFilesToManifest` with the store's own `refCheck` (run without interleaving).
`ts` must have been written to the directory (`WriteTableFile`). -/
def addTables (env : Env) (d : Disk) (h : Handle) (ts : List Table) : Disk × Handle × Option Err :=
  let ts := ts.filter (fun t => !t.isEmpty)
  if ts.isEmpty then (d, h, none)
  else if !(ts.all fun t => h.novel.contains t || h.upTables.contains t || d.files.contains t) then (d, h, some .tableNotFound)
  else
    let srcHas (a : Addr) : Bool := ts.any (·.contains a)
    let refsOk := ts.all fun t => t.all fun c => (env.refs c).all fun r => h.has r || srcHas r
    -- "If we are an uninitialized store, we do not perform this ref check."
    if h.upstream.root != 0 && !refsOk then (d, h, some .dangling)
    else
      -- updateManifestAddFiles
      let contents := d.manifest.getD Contents.initial
      let add := ts.filter (fun t => !contents.specs.contains t)
      if add.isEmpty then
        if contents.lock != h.upstream.lock then
          if canOpen d h contents.specs then (d, h.rebaseTo contents, none) else (d, h, some .tableNotFound)
        else (d, h, none)
      else
        let specs := contents.specs ++ dedup add
        let new : Contents := { root := contents.root, lock := mkLock contents.root specs, specs := specs }
        match d.update contents.lock new with
        | (d', .wrote c) => (d', h.rebaseTo c, none)
        | (d', .stale _) => (d', h, some .missingFile)   -- unreachable without interleaving
        | (d', .fail e) => (d', h, some e)

/-- the table file a conjoin of `ts` writes: the concatenation (a conjoin copies the records and merges the indexes
without dropping duplicates, so its chunk count — and hence its name — differs from a table holding each chunk once) -/
def conjoinedTable (ts : List Table) : Table := ts.flatten

/-- the manifest a conjoin writes on top of `cur`: same root, conjoinees replaced by the conjoined table -/
def conjoinContents (conjoinees : List Table) (c : Table) (cur : Contents) : Contents :=
  { root := cur.root,
    lock := mkLock cur.root (cur.specs.filter (fun t => !conjoinees.contains t) ++ [c]),
    specs := cur.specs.filter (fun t => !conjoinees.contains t) ++ [c] }

/-- `conjoinOperation.updateManifest`: land the conjoin as a pure rewrite of the spec list of the *current* manifest
`cur` (root, and the root in the lock preimage, are `cur`'s): drop the conjoinees, add the conjoined table; CAS on
`cur.lock`; on a lost CAS go round with what `Update` returned.  `fuel` bounds the loop (uninterrupted it runs at most
twice).  Returns the manifest the caller must adopt and whether the conjoin landed (then the cleanup runs). -/
def conjoinLand (d : Disk) (conjoinees : List Table) (c : Table) (cur : Contents) : Nat → Disk × Contents × Bool × Option Err
  | 0 => (d, cur, false, none)
  | fuel + 1 =>
    if conjoinees.all (fun t => cur.specs.contains t) then
      let new := conjoinContents conjoinees c cur
      match d.update cur.lock new with
      | (d', .wrote n) => (d', n, true, none)
      | (d', .stale up) => if up.lock == new.lock then (d', up, true, none) else conjoinLand d' conjoinees c up fuel
      | (d', .fail e) => (d', cur, false, some e)
    else (d, cur, false, none)

/-- `NomsBlockStore.ConjoinTableFiles(nil)` run without interleaving: conjoin every upstream table of the handle's
view, land it, adopt the resulting manifest, unlink the conjoinees (`ConjoinAll`'s cleanup: no manifest LOCK). -/
def conjoinAll (d : Disk) (h : Handle) : Disk × Handle × Option Err :=
  if h.upTables.isEmpty then (d, h, some .noTables)
  -- conjoinTables opens every conjoinee afresh through the persister: a file another handle's conjoin already unlinked
  -- is not found even though this handle still holds it open
  else if !(h.upTables.all fun t => d.files.contains t) then (d, h, some .tableNotFound)
  else
    let c := conjoinedTable h.upTables
    let d0 : Disk := { d with files := if d.files.contains c then d.files else d.files ++ [c] }
    match conjoinLand d0 h.upTables c h.upstream 4 with
    | (d1, _, _, some e) => (d1, h, some e)
    | (d1, m, landed, none) =>
      if !canOpen d1 h m.specs then (d1, h, some .tableNotFound)
      else
        let d2 : Disk := if landed then { d1 with files := d1.files.filter (fun t => !h.upTables.contains t) } else d1
        (d2, h.rebaseTo m, none)

/-! ### the system: any number of handles on one directory -/

structure Sys where
  disk : Disk
  hs : Nat → Handle

def Sys.init : Sys := { disk := .empty, hs := fun _ => .closed }

def Sys.set (s : Sys) (i : Nat) (h : Handle) : Sys := { s with hs := fun j => if j = i then h else s.hs j }

inductive Op
  | openH (i : Nat) (memMax : Nat)
  | closeH (i : Nat)
  | put (i : Nat) (a : Addr)
  | cstart (i : Nat) (cur last : Addr)
  | cresume (i : Nat)
  | ctimeout (i : Nat)      -- the parked Update could not take the LOCK file within lockFileTimeout
  | rebase (i : Nat)
  | writeTable (t : Table)
  | addTables (i : Nat) (ts : List Table)
  | conjoin (i : Nat)       -- ConjoinTableFiles(nil), uninterrupted
deriving Repr

inductive Resp
  | unit
  | put (r : PutRes)
  | commit (r : CRes)
  | err (e : Err)
  | rejected            -- handle closed, or busy (its mutex is held by a parked commit)
deriving DecidableEq, Repr

def Sys.step (env : Env) (s : Sys) : Op → Sys × Resp
  | .openH i mm =>
    if (s.hs i).opened then (s, .rejected)
    else match openHandle s.disk mm with
      | (h, none) => (s.set i h, .unit)
      | (_, some e) => (s, .err e)
  | .closeH i =>
    if !(s.hs i).opened || (s.hs i).pc.isSome then (s, .rejected) else (s.set i .closed, .unit)
  | .put i a =>
    let h := s.hs i
    if !h.opened || h.pc.isSome then (s, .rejected)
    else let (h', r) := h.put env a; (s.set i h', .put r)
  | .cstart i cur last =>
    let h := s.hs i
    if !h.opened || h.pc.isSome then (s, .rejected)
    else let (h', r) := commitStart env s.disk h cur last; (s.set i h', .commit r)
  | .cresume i =>
    let h := s.hs i
    match h.pc with
    | none => (s, .rejected)
    | some p =>
      let (d', h', r) := commitResume env s.disk h p
      ({ disk := d', hs := fun j => if j = i then h' else s.hs j }, .commit r)
  | .ctimeout i =>
    let h := s.hs i
    match h.pc with
    | none => (s, .rejected)
    | some _ => (s.set i { h with pc := none }, .commit (.err .lockTimeout))
  | .rebase i =>
    let h := s.hs i
    if !h.opened || h.pc.isSome then (s, .rejected)
    else match h.rebase s.disk with
      | (h', none) => (s.set i h', .unit)
      | (h', some e) => (s.set i h', .err e)
  | .writeTable t =>
    if t.isEmpty then (s, .rejected)
    else ({ s with disk := { s.disk with files := if s.disk.files.contains t then s.disk.files else s.disk.files ++ [t] } }, .unit)
  | .addTables i ts =>
    let h := s.hs i
    if !h.opened || h.pc.isSome then (s, .rejected)
    else
      let (d', h', e) := addTables env s.disk h ts
      ({ disk := d', hs := fun j => if j = i then h' else s.hs j }, match e with | none => .unit | some e => .err e)

  | .conjoin i =>
    let h := s.hs i
    if !h.opened || h.pc.isSome then (s, .rejected)
    else
      let (d', h', e) := conjoinAll s.disk h
      ({ disk := d', hs := fun j => if j = i then h' else s.hs j }, match e with | none => .unit | some e => .err e)

/-- flushing the memtable writes the new table file before anything can name it: the novel tables handle `i` gained in
this step (`before` = its novel tables before the step) land in the directory.  A table file is written once, at the
flush — if somebody unlinks it later (a conjoin's cleanup of a conjoinee with the same content address) it stays gone. -/
def Sys.land (s : Sys) (i : Nat) (before : List Table) : Sys :=
  let files := (s.hs i).novel.foldl
    (fun fs t => if t.isEmpty || before.contains t || fs.contains t then fs else fs ++ [t]) s.disk.files
  { s with disk := { s.disk with files := files } }

/-- one atomic step followed by landing the stepping handle's new novel table files in the directory
(`fsTablePersister.persistTable` runs inside `tableSet.append`, i.e. inside the step) -/
def Sys.next (env : Env) (s : Sys) (op : Op) : Sys × Resp :=
  let (s', r) := s.step env op
  let i := match op with
    | .openH i _ | .closeH i | .put i _ | .cstart i _ _ | .cresume i | .ctimeout i | .rebase i | .addTables i _ | .conjoin i => some i
    | .writeTable _ => none
  match i with
  | some i => (s'.land i (s.hs i).novel, r)
  | none => (s', r)

def Sys.run (env : Env) (s : Sys) : List Op → Sys
  | [] => s
  | op :: ops => Sys.run env (s.next env op).1 ops

end DoltVerif.ManStore
