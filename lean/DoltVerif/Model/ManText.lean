/-
ManText — the v5 manifest text format (`writeManifest`, `parseManifest` → `parseV5Manifest`, `parseSpecs`,
`formatSpecs` in go/store/nbs/file_manifest.go, manifest.go), over `List Char`.  Core Lean only.

`strings.Join(strs, ":")` / `strings.Split(s, ":")` are transliterated (`join`, `split`); hashes stay in their
32-character base32 text form (`hash.MaybeParse` = length 32 and alphabet check; the byte codec of package hash is not
modelled); the decimal codec of the chunk counts (`strconv.FormatUint` / `ParseUint(·, 10, 32)`) is a parameter.
-/
namespace DoltVerif.ManText

abbrev Str := List Char

def sep : Char := ':'

/-- `strings.Join(fs, ":")` -/
def join : List Str → Str
  | [] => []
  | [f] => f
  | f :: g :: fs => f ++ sep :: join (g :: fs)

/-- `strings.Split(s, ":")` (always at least one field) -/
def split : Str → List Str
  | [] => [[]]
  | c :: cs =>
    if c = sep then [] :: split cs
    else match split cs with
      | f :: fs => (c :: f) :: fs
      | [] => [[c]]

/-- the alphabet of `hash.String()` (base32, lower case, no padding) -/
def isB32 (c : Char) : Bool := ('0' ≤ c && c ≤ '9') || ('a' ≤ c && c ≤ 'v')

/-- `hash.MaybeParse` on the text level -/
def parseHash (s : Str) : Option Str := if s.length = 32 ∧ s.all isB32 then some s else none

/-- decimal codec of a chunk count (parameter: strconv) -/
structure DecCodec where
  enc : Nat → Str
  dec : Str → Option Nat

structure Spec where
  name : Str
  count : Nat
deriving DecidableEq, Repr

structure Man where
  nbfVers : Str
  lock : Str
  root : Str
  gcGen : Str
  specs : List Spec
deriving DecidableEq, Repr

def storageVersion : Str := ['5']
def prefixLen : Nat := 5

/-- the five leading fields, in the order `writeManifest` writes them (tied to Gen.ManifestSteps.writeManifestFields) -/
def headFields (m : Man) : List Str := [storageVersion, m.nbfVers, m.lock, m.root, m.gcGen]

def headFieldNames : List String :=
  ["StorageVersion", "contents.nbfVers", "contents.lock.String()", "contents.root.String()", "contents.gcGen.String()"]

/-- `formatSpecs` -/
def specFields (cd : DecCodec) : List Spec → List Str
  | [] => []
  | s :: ss => s.name :: cd.enc s.count :: specFields cd ss

def zeroHash : Str := List.replicate 32 '0'

inductive Err | emptyNbf | emptyLock | corrupt | unknownVersion | badHash | badCount
deriving DecidableEq, Repr

/-- `writeManifest` -/
def write (cd : DecCodec) (m : Man) : Except Err Str :=
  if m.nbfVers.isEmpty then .error .emptyNbf
  else if m.lock = zeroHash then .error .emptyLock
  else .ok (join (headFields m ++ specFields cd m.specs))

/-- `parseSpecs` -/
def parseSpecs (cd : DecCodec) : List Str → Except Err (List Spec)
  | n :: c :: rest =>
    match parseHash n with
    | none => .error .badHash
    | some n' =>
      match cd.dec c with
      | none => .error .badCount
      | some k =>
        match parseSpecs cd rest with
        | .ok ss => .ok ({ name := n', count := k } :: ss)
        | .error e => .error e
  | _ => .ok []          -- `len(tableInfo)/2` pairs: a trailing odd element is excluded by the length check before

/-- `parseV5Manifest` on the fields after the version: slices[0] nbfVers, [1] lock, [2] root, [3] gcGen, [4:] specs -/
def parseV5 (cd : DecCodec) (slices : List Str) : Except Err Man :=
  if slices.length < prefixLen - 1 ∨ slices.length % 2 ≠ 0 then .error .corrupt
  else match slices with
    | nbf :: l :: r :: g :: rest =>
      match parseSpecs cd rest with
      | .error e => .error e
      | .ok specs =>
        match parseHash l, parseHash g, parseHash r with
        | some l', some g', some r' => .ok { nbfVers := nbf, lock := l', root := r', gcGen := g', specs := specs }
        | _, _, _ => .error .badHash
    | _ => .error .corrupt

/-- `parseManifest`: the version is the text before the first ':' (at most 7 characters), then the v5 body -/
def parse (cd : DecCodec) (text : Str) : Except Err Man :=
  match split text with
  | v :: rest =>
    if rest.isEmpty ∨ v.length ≥ 8 then .error .corrupt
    else if v = storageVersion then parseV5 cd rest
    else .error .unknownVersion
  | [] => .error .corrupt

end DoltVerif.ManText
