/-!
C08 — model of the mark-and-sweep protocol of `ValueStore.GC` / `NomsBlockStore` with concurrent
sessions (abstract algorithm + refinement style; core Lean only).

* `refs : Addr → List Addr` is the reference walker (C09's relation); content addressing makes it a
  fixed function of the address.
* the store is the list of present chunk addresses and the root register;
* a collection cycle is the ordered phase steps of `ValueStore.GC`
  (`begin` = transitionToOldGenGC + BeginGC(keeper) + `newGenRefs.Insert(root)`;
  `markOld` = old-gen `SaveHashes(oldGenRefs)`; `toNewGen` = transitionToNewGenGC (keeper-collected
  addresses join the new-gen roots); `markNew` = new-gen `SaveHashes(newGenRefs)`;
  `drain` = readAndResetNewGenToVisit + SaveHashes; `finalize` = transitionToFinalizingGC +
  SaveHashes(final); `swap` = SwapChunksInStore + EndGC + transitionToNoGC);
* sessions interleave `put`, `read`, `commit`; while a keeper is installed every address a session
  touches is handed to it (`gcAddChunk`): it is added to `newAddrs`, or — in the finalizing phase —
  the call must block (`gcBehavior_Block`): the step is not enabled until the cycle has ended.
* a mark step takes the marked set `M` as an argument and is enabled iff `M` is a closed superset
  of the roots inside the store (the real sweeper computes the least such set; safety holds for
  any).  `swap` keeps `marked ++ E` for any closed `E ⊆ chunks` (default mode: the old generation's
  previous content; full mode: `E = []`).
-/
namespace DoltVerif.Gc

abbrev Addr := Nat

inductive Phase
  | noGC
  | oldGen (marked : Bool)
  | newGen (marked : Bool)
  | finalizing
  deriving DecidableEq, Repr

structure St where
  chunks : List Addr
  root : Addr
  phase : Phase
  newAddrs : List Addr      -- ValueStore.gcNewAddrs
  marked : List Addr        -- everything the sweepers have copied so far
  pendingOld : List Addr    -- oldGenRefs not yet marked
  pendingNew : List Addr    -- newGenRefs not yet marked
  written : List Addr       -- chunks put by sessions since the cycle began
  deriving Repr

inductive Step
  | put (c : Addr)
  | read (a : Addr)
  | commit (r : Addr)
  | begin (old new : List Addr)
  | markOld (M : List Addr)
  | toNewGen
  | markNew (M : List Addr)
  | drain (M : List Addr)
  | finalize (M : List Addr)
  | swap (E : List Addr)
  deriving Repr

def subset (xs ys : List Addr) : Bool := xs.all (ys.contains ·)
def closedIn (refs : Addr → List Addr) (xs : List Addr) : Bool := xs.all fun a => subset (refs a) xs

/-- `M` is an acceptable result of marking from `S` in a store holding `chunks` -/
def okMark (refs : Addr → List Addr) (chunks S M : List Addr) : Bool :=
  subset S M && subset M chunks && closedIn refs M

/-- the keeper (`gcAddChunk`): not installed outside a cycle; collects while not finalizing -/
def keep (s : St) (as : List Addr) : St :=
  match s.phase with
  | .noGC => s
  | _ => { s with newAddrs := as ++ s.newAddrs }

def step (refs : Addr → List Addr) (s : St) : Step → Option St
  | .put c =>
    -- a put whose references are not all present is refused (C07); during finalizing it blocks
    if s.phase = .finalizing then none
    else if !(subset (refs c) s.chunks) then none
    else
      let s1 := keep s (c :: refs c)
      some { s1 with chunks := c :: s1.chunks,
                     written := if s.phase = .noGC then s1.written else c :: s1.written }
  | .read a =>
    if s.phase = .finalizing then none
    else if !(s.chunks.contains a) then none
    else some (keep s [a])
  | .commit r =>
    if s.phase = .finalizing then none
    else if !(s.chunks.contains r) then none
    else some { keep s [r] with root := r }
  | .begin old new =>
    if s.phase = .noGC && subset old s.chunks && subset new s.chunks then
      some { s with phase := .oldGen false, newAddrs := [], marked := [], pendingOld := old,
                    pendingNew := s.root :: new, written := [] }
    else none
  | .markOld M =>
    if s.phase = .oldGen false && okMark refs s.chunks s.pendingOld M then
      some { s with phase := .oldGen true, marked := M ++ s.marked, pendingOld := [] }
    else none
  | .toNewGen =>
    if s.phase = .oldGen true then
      some { s with phase := .newGen false, pendingNew := s.newAddrs ++ s.pendingNew, newAddrs := [] }
    else none
  | .markNew M =>
    if s.phase = .newGen false && okMark refs s.chunks s.pendingNew M then
      some { s with phase := .newGen true, marked := M ++ s.marked, pendingNew := [] }
    else none
  | .drain M =>
    if s.phase = .newGen true && okMark refs s.chunks s.newAddrs M then
      some { s with marked := M ++ s.marked, newAddrs := [] }
    else none
  | .finalize M =>
    if s.phase = .newGen true && okMark refs s.chunks s.newAddrs M then
      some { s with phase := .finalizing, marked := M ++ s.marked, newAddrs := [] }
    else none
  | .swap E =>
    if s.phase = .finalizing && subset E s.chunks && closedIn refs E then
      some { s with phase := .noGC, chunks := s.marked ++ E, marked := [], newAddrs := [] }
    else none

def run (refs : Addr → List Addr) : St → List Step → Option St
  | s, [] => some s
  | s, t :: ts => match step refs s t with
    | some s' => run refs s' ts
    | none => none

/-- reachability through the walker -/
inductive Reach (refs : Addr → List Addr) : Addr → Addr → Prop
  | refl (a) : Reach refs a a
  | step {a b c} : b ∈ refs a → Reach refs b c → Reach refs a c

/-- naive closure used by the driver to propose `M` (validated by `okMark`) -/
def closure (refs : Addr → List Addr) : Nat → List Addr → List Addr
  | 0, S => S
  | n + 1, S =>
    let S0 := S.eraseDups
    let S' := (S0 ++ S0.flatMap refs).eraseDups
    if S'.length = S0.length then S0 else closure refs n S'

end DoltVerif.Gc
