/-
C36 — the literal layer of `dolt dump` and of the SQL tokenizer that reads the dump back.

Transliterations (core Lean only):
* `quote`        = `sqlfmt.quoteAndEscapeString` = vitess `sqltypes.encodeBytesSQL` driven by `SQLEncodeMap`;
* `lexBody/lexString` = vitess `Tokenizer.scanString` driven by `SQLDecodeMap` (doubled delimiter,
  backslash escapes, unknown escape `\x ↦ x`, EOF inside the literal / inside an escape is an
  error, adjacent literals are concatenated after blanks);
* `hexEncode`    = `sqlfmt.hexEncodeBytes`; `scanHexNum` = the `0x` branch of `Tokenizer.scanNumber`;
  `hexNumValue` = planbuilder's conversion of a `HexNum` token (lower-case, strip `0x`, pad to even
  length, decode);
* `quoteIdent`   = `MySqlSchemaFormatter.QuoteIdentifier`; `lexIdent` = `scanLiteralIdentifier`;
* `fmtRow`/`parseRow` = `SqlRowAsTupleString` over the `Cell` universe and the corresponding reader.
-/
namespace DoltVerif.SqlEscape

abbrev Bytes := List UInt8

-- ---------------------------------------------------------------- escape tables

/-- `encodeRef` / `SQLEncodeMap` (`none` = `DontEscape`) -/
def encodeChar (b : UInt8) : Option UInt8 :=
  if b = 0 then some 48        -- \0
  else if b = 39 then some 39  -- \'
  else if b = 34 then some 34  -- \"
  else if b = 8 then some 98   -- \b
  else if b = 10 then some 110 -- \n
  else if b = 13 then some 114 -- \r
  else if b = 9 then some 116  -- \t
  else if b = 26 then some 90  -- \Z
  else if b = 92 then some 92  -- \\
  else none

/-- `SQLDecodeMap` (`none` = `DontEscape`): built in `init` as the inverse of `SQLEncodeMap` -/
def decodeChar (b : UInt8) : Option UInt8 :=
  if b = 48 then some 0
  else if b = 39 then some 39
  else if b = 34 then some 34
  else if b = 98 then some 8
  else if b = 110 then some 10
  else if b = 114 then some 13
  else if b = 116 then some 9
  else if b = 90 then some 26
  else if b = 92 then some 92
  else none

/-- the (source byte, escape letter) pairs, for the Tie -/
def encodePairs : List (Nat × Nat) :=
  (List.range 256).filterMap (fun i => (encodeChar (UInt8.ofNat i)).map (fun e => (i, e.toNat)))

-- ---------------------------------------------------------------- writer

def quoteBody : Bytes → Bytes
  | [] => []
  | b :: bs =>
    match encodeChar b with
    | none => b :: quoteBody bs
    | some e => 92 :: e :: quoteBody bs

/-- `quoteAndEscapeString` -/
def quote (s : Bytes) : Bytes := 39 :: (quoteBody s ++ [39])

-- ---------------------------------------------------------------- reader

/-- the escape step of `scanString`: `\x` ↦ decoded byte, or `x` itself when the map says DontEscape -/
def unescape (e : UInt8) : UInt8 :=
  match decodeChar e with
  | some d => d
  | none => e

/-- where `scanString` stands inside a literal -/
inductive LexSt where
  | normal       -- reading ordinary bytes
  | esc          -- the previous byte was a backslash
  | delim        -- the previous byte was the delimiter: doubled delimiter or end of literal
deriving DecidableEq, Repr

/-- `scanString` for one literal with delimiter `d`, positioned after the opening delimiter.
`none` = LEX_ERROR (unterminated literal or EOF right after a backslash). -/
def lexGo (d : UInt8) : LexSt → Bytes → Bytes → Option (Bytes × Bytes)
  | .normal, [], _ => none
  | .normal, c :: rest, acc =>
    if c = 92 then lexGo d .esc rest acc
    else if c = d then lexGo d .delim rest acc
    else lexGo d .normal rest (acc ++ [c])
  | .esc, [], _ => none
  | .esc, e :: rest, acc => lexGo d .normal rest (acc ++ [unescape e])
  | .delim, [], acc => some (acc, [])
  | .delim, c :: rest, acc => if c = d then lexGo d .normal rest (acc ++ [d]) else some (acc, c :: rest)

def lexBody (d : UInt8) (input acc : Bytes) : Option (Bytes × Bytes) := lexGo d .normal input acc

def isBlank (b : UInt8) : Bool := b = 32 || b = 10 || b = 13 || b = 9

def dropBlanks : Bytes → Bytes
  | [] => []
  | b :: bs => if isBlank b then dropBlanks bs else b :: bs

def isStrQuote (b : UInt8) : Bool := b = 39 || b = 34

/-- The test that decides whether another literal follows is written
`contains(tkn.stringLiteralQuotes, tkn.lastChar) == tkn.lastChar` where `contains` answers 0 for
"not found": a NUL byte therefore passes the test and is used as the delimiter of a further
"literal" (a quirk of the code that exists; confirmed on the real tokenizer: `'r'\0` is a LEX_ERROR). -/
def isConcatQuote (b : UInt8) : Bool := isStrQuote b || b = 0

/-- `scanString(q, STRING)` positioned after the opening delimiter `q`, including the concatenation
of adjacent literals.  The result's rest is positioned after the blanks the tokenizer skipped.
`fuel` bounds the number of adjacent literals (the input length always suffices). -/
def lexLit : Nat → UInt8 → Bytes → Option (Bytes × Bytes)
  | 0, _, _ => none
  | fuel + 1, q, rest =>
    match lexBody q rest [] with
    | none => none
    | some (s, rest1) =>
      match dropBlanks rest1 with
      | [] => some (s, [])
      | q2 :: rest3 =>
        if isConcatQuote q2 then
          match lexLit fuel q2 rest3 with
          | none => none
          | some (s2, r) => some (s ++ s2, r)
        else some (s, q2 :: rest3)

/-- `Scan` on a string-literal quote -/
def lexString : Bytes → Option (Bytes × Bytes)
  | [] => none
  | q :: rest => if isStrQuote q then lexLit (rest.length + 1) q rest else none

-- ---------------------------------------------------------------- hex literals

def hexDigitChar (n : Nat) : UInt8 := if n < 10 then UInt8.ofNat (48 + n) else UInt8.ofNat (87 + n)

def hexBody : Bytes → Bytes
  | [] => []
  | b :: bs => hexDigitChar (b.toNat / 16) :: hexDigitChar (b.toNat % 16) :: hexBody bs

/-- `hexEncodeBytes` : `"0x" + hex.EncodeToString(bytes)` (a bare `0x` for the empty value) -/
def hexEncode (b : Bytes) : Bytes := 48 :: 120 :: hexBody b

/-- `digitVal` -/
def digitVal (c : UInt8) : Nat :=
  if 48 ≤ c.toNat ∧ c.toNat ≤ 57 then c.toNat - 48
  else if 97 ≤ c.toNat ∧ c.toNat ≤ 102 then c.toNat - 97 + 10
  else if 65 ≤ c.toNat ∧ c.toNat ≤ 70 then c.toNat - 65 + 10
  else 16

def isLetter (c : UInt8) : Bool :=
  (97 ≤ c.toNat && c.toNat ≤ 122) || (65 ≤ c.toNat && c.toNat ≤ 90) || c = 95

/-- `scanMantissa(16)` -/
def scanMantissa16 : Bytes → Bytes → Bytes × Bytes
  | [], acc => (acc, [])
  | c :: rest, acc => if digitVal c < 16 then scanMantissa16 rest (acc ++ [c]) else (acc, c :: rest)

/-- the `0x` branch of `scanNumber`: the digits after `0x` and the rest; `none` = not this
branch or LEX_ERROR ("a letter cannot immediately follow a number") -/
def scanHexNum : Bytes → Option (Bytes × Bytes)
  | 48 :: x :: rest =>
    if x = 120 || x = 88 then
      let (ds, rest') := scanMantissa16 rest []
      match rest' with
      | [] => some (ds, [])
      | c :: _ => if isLetter c then none else some (ds, rest')
    else none
  | _ => none

def decodeHexPairs : Bytes → Option Bytes
  | [] => some []
  | [_] => none
  | a :: b :: rest =>
    if digitVal a < 16 ∧ digitVal b < 16 then
      (decodeHexPairs rest).map (fun t => UInt8.ofNat (digitVal a * 16 + digitVal b) :: t)
    else none

/-- planbuilder `HexNum`: pad to even length, `hex.DecodeString` (case-insensitive) -/
def hexNumValue (digits : Bytes) : Option Bytes :=
  decodeHexPairs (if digits.length % 2 = 1 then 48 :: digits else digits)

def readHex (input : Bytes) : Option (Bytes × Bytes) :=
  match scanHexNum input with
  | none => none
  | some (ds, rest) => (hexNumValue ds).map (fun v => (v, rest))

-- ---------------------------------------------------------------- identifiers

def identBody : Bytes → Bytes
  | [] => []
  | b :: bs => if b = 96 then 96 :: 96 :: identBody bs else b :: identBody bs

/-- `QuoteIdentifier` -/
def quoteIdent (s : Bytes) : Bytes := 96 :: (identBody s ++ [96])

/-- `scanLiteralIdentifier` with the backtick as starting character, positioned after it;
the flag is the Go code's `identifierQuoteSeen` -/
def lexIdentGo : Bool → Bytes → Bytes → Option (Bytes × Bytes)
  | false, [], _ => none
  | false, c :: rest, acc => if c = 96 then lexIdentGo true rest acc else lexIdentGo false rest (acc ++ [c])
  | true, [], acc => some (acc, [])
  | true, c :: rest, acc => if c = 96 then lexIdentGo false rest (acc ++ [96]) else some (acc, c :: rest)

def lexIdentBody (input acc : Bytes) : Option (Bytes × Bytes) := lexIdentGo false input acc

def lexIdent : Bytes → Option (Bytes × Bytes)
  | 96 :: rest => lexIdentBody rest []
  | _ => none

-- ---------------------------------------------------------------- rows

inductive Cell where
  | null
  | int (i : Int)
  | str (s : Bytes)     -- CHAR/VARCHAR/TEXT/… : quoted + escaped
  | bin (b : Bytes)     -- BINARY/VARBINARY : 0x…
deriving DecidableEq, Repr

def natDigits : Nat → Bytes
  | n => if n < 10 then [UInt8.ofNat (48 + n)] else natDigits (n / 10) ++ [UInt8.ofNat (48 + n % 10)]
decreasing_by omega

def intText (i : Int) : Bytes :=
  match i with
  | .ofNat n => natDigits n
  | .negSucc n => 45 :: natDigits (n + 1)

def nullText : Bytes := [78, 85, 76, 76]

def fmtCell : Cell → Bytes
  | .null => nullText
  | .int i => intText i
  | .str s => quote s
  | .bin b => hexEncode b

def joinComma : List Bytes → Bytes
  | [] => []
  | [x] => x
  | x :: y :: rest => x ++ 44 :: joinComma (y :: rest)

/-- `SqlRowAsTupleString`: `(v1,v2,…)` -/
def fmtRow (r : List Cell) : Bytes := 40 :: (joinComma (r.map fmtCell) ++ [41])

def isDigit (c : UInt8) : Bool := 48 ≤ c.toNat && c.toNat ≤ 57

def scanDigits : Bytes → Nat → Nat × Bytes
  | [], acc => (acc, [])
  | c :: rest, acc => if isDigit c then scanDigits rest (acc * 10 + (c.toNat - 48)) else (acc, c :: rest)

/-- one value of a tuple, as the dump writes them: `NULL`, `[-]digits`, `'…'`, `0x…` -/
def parseCell : Bytes → Option (Cell × Bytes)
  | [] => none
  | c :: rest =>
    if c = 78 then
      match rest with
      | 85 :: 76 :: 76 :: r => some (.null, r)
      | _ => none
    else if c = 45 then
      match rest with
      | d :: _ => if isDigit d then some (.int (-(Int.ofNat (scanDigits rest 0).1)), (scanDigits rest 0).2) else none
      | [] => none
    else if c = 39 then (lexString (c :: rest)).map (fun p => (.str p.1, p.2))
    else if c = 48 && rest.head? = some 120 then (readHex (c :: rest)).map (fun p => (.bin p.1, p.2))
    else if isDigit c then some (.int (Int.ofNat (scanDigits (c :: rest) 0).1), (scanDigits (c :: rest) 0).2)
    else none

def parseCells : Nat → Bytes → Option (List Cell × Bytes)
  | 0, _ => none
  | fuel + 1, input =>
    match parseCell input with
    | none => none
    | some (c, rest) =>
      match rest with
      | [] => none
      | d :: rest' =>
        if d = 44 then (parseCells fuel rest').map (fun p => (c :: p.1, p.2))
        else if d = 41 then some ([c], rest')
        else none

def parseRow (input : Bytes) : Option (List Cell × Bytes) :=
  match input with
  | [] => none
  | c :: rest =>
    if c = 40 then
      (match rest with
       | [] => none
       | d :: rest' => if d = 41 then some ([], rest') else parseCells (rest.length + 1) rest)
    else none

end DoltVerif.SqlEscape
