/-
Model of dolt's chunk transfer (C35): push / fetch / pull / clone.

Anchors (the model follows what these do, at the level of the chunk graph):
  go/store/datas/pull/puller.go               NewPuller (sanity checks, ErrDBUpToDate), Puller.Pull
  go/store/datas/pull/pull_chunk_tracker.go   seen-set, HasMany against the sink, absent batches
  go/store/datas/pull/pull_table_file_writer.go  table files are *uploaded* one by one
                                              (WriteTableFile) and only when all uploads succeeded
                                              added to the sink in ONE AddTableFilesToManifest call
  go/store/nbs/store.go                       addTableFilesToManifest: reference check of every added
                                              chunk, skipped when the sink's root is still empty
  go/libraries/doltcore/env/actions/remotes.go Push: CanFastForward pre-check, PullChunks, then
                                              SetHead… (force) or FastForward… (fast-forward only)
  go/store/datas/database_common.go           doSetHead (readHead must find the new head),
                                              doFastForward (read head, ancestor check, then a
                                              compare-and-swap that re-validates the head read)
  go/store/datas/pull/clone.go                clone: copy every table file, add them, set the root

Style: abstract algorithm + refinement.  A chunk is (payload id, outgoing addresses, parent
commits); a store is a finite map address → chunk (association list, first binding wins).
Content addressing is a *hypothesis* of the theorems (`Agree`), never an axiom.
Concurrency inside one Pull (tracker / fetcher / writer goroutines) is collapsed to the
deterministic breadth-first rounds the tracker's batching realises; the set of chunks fetched does
not depend on that order.  Concurrency *between* transfers is kept: a transfer is a small
program whose atomic steps (one per destination API call) interleave freely (`System`).
Core-only (no Mathlib) so the driver links.
-/
namespace DoltVerif.Puller

abbrev Addr := Nat
abbrev Name := Nat

structure Chunk where
  data : Nat
  refs : List Addr
  parents : List Addr
  deriving DecidableEq, Repr, Inhabited

/-- association list, first binding wins (`List.lookup`). -/
abbrev Store := List (Addr × Chunk)

def get (s : Store) (a : Addr) : Option Chunk := s.lookup a
def has (s : Store) (a : Addr) : Bool := (get s a).isSome

inductive Err where
  | notFound        -- NewPuller: a target is not in the source ("not found")
  | missingChunk    -- Pull: the source did not deliver a requested chunk ("failed to get all chunks.")
  | fuel            -- never returned for fuel ≥ |src|+1 (see Props)
  | refCheck        -- AddTableFilesToManifest: a reference of an added chunk is absent
  | headNotFound    -- doSetHead/doFastForward: new head address not in the store
  | cantFF          -- actions.ErrCantFF (pre-check)
  | mergeNeeded     -- datas.ErrMergeNeeded
  | interrupted     -- injected failure / cancelled transfer
  deriving DecidableEq, Repr

/-! ### Puller.Pull -/

/-- `GetManyCompressed` on the source for one batch; a missing chunk aborts the pull. -/
def fetchAll (src : Store) : List Addr → Option (List (Addr × Chunk))
  | [] => some []
  | a :: as =>
    match get src a, fetchAll src as with
    | some c, some r => some ((a, c) :: r)
    | _, _ => none

/-- the addresses `tracker.Seen` lets through: references of the fetched chunks not seen before,
each once. -/
def nextFrontier (cs : List (Addr × Chunk)) (seen : List Addr) : List Addr :=
  ((cs.flatMap (fun p => p.2.refs)).filter (fun r => !seen.contains r)).eraseDups

/-- rounds of: HasMany(frontier) against the sink → fetch the absent ones from the source →
walk their addresses → new frontier.  `acc` = chunks handed to the table-file writer so far. -/
def pullLoop (src dst : Store) : Nat → List Addr → List Addr → List (Addr × Chunk) →
    Except Err (List (Addr × Chunk))
  | 0, _, _, _ => .error .fuel
  | fuel+1, frontier, seen, acc =>
    let absent := frontier.filter (fun a => !has dst a)
    if absent.isEmpty then .ok acc else
    match fetchAll src absent with
    | none => .error .missingChunk
    | some cs =>
      let next := nextFrontier cs seen
      pullLoop src dst fuel next (seen ++ next) (acc ++ cs)

/-- `NewPuller` + `Pull`: the list of chunks written to table files (in fetch order);
`[]` = ErrDBUpToDate (mapped to success by `pullHash`). -/
def pull (src dst : Store) (targets : List Addr) : Except Err (List (Addr × Chunk)) :=
  let ts := targets.eraseDups
  if ts.any (fun t => !has src t) then .error .notFound
  else if ts.all (fun t => has dst t) then .ok []
  else pullLoop src dst (src.length + 1) ts ts []

/-- cut the fetched chunks into table files of (at most) `n` chunks (`TargetFileSize`). -/
def cutFiles (n : Nat) : Nat → List (Addr × Chunk) → List Store
  | 0, _ => []
  | _, [] => []
  | fuel+1, cs => cs.take (n+1) :: cutFiles n fuel (cs.drop (n+1))

def tableFiles (n : Nat) (cs : List (Addr × Chunk)) : List Store := cutFiles n cs.length cs

/-! ### The destination and its atomic operations -/

structure Dest where
  chunks : Store
  refs : List (Name × Addr)
  /-- manifest root non-empty (the store has been committed to at least once) -/
  rootSet : Bool
  /-- table files written with WriteTableFile but not (yet) named by the manifest: invisible -/
  pending : List Store
  deriving Repr

def setRef (refs : List (Name × Addr)) (n : Name) (h : Addr) : List (Name × Addr) :=
  (n, h) :: refs.filter (fun p => p.1 != n)

def head (d : Dest) (n : Name) : Option Addr := d.refs.lookup n

/-- `WriteTableFile`: nothing visible changes. -/
def writeFile (d : Dest) (f : Store) : Dest := { d with pending := f :: d.pending }

/-- `refCheckAllSources`: every address of every added chunk is in the store or in the added files. -/
def refCheck (cur : Store) (added : Store) : Bool :=
  added.all (fun p => p.2.refs.all (fun r => has (cur ++ added) r))

/-- `AddTableFilesToManifest` (one call with all files). -/
def addFiles (d : Dest) (fs : List Store) : Except Err Dest :=
  let added := fs.flatten
  if d.rootSet && !refCheck d.chunks added then .error .refCheck
  else .ok { d with chunks := d.chunks ++ added }

/-- `doSetHead`: `readHead` must find the address; then the dataset map is rewritten. -/
def setHead (d : Dest) (n : Name) (t : Addr) : Except Err Dest :=
  if !has d.chunks t then .error .headNotFound
  else .ok { d with refs := setRef d.refs n t, rootSet := true }

/-- ancestor test by walking parents (what `FindCommonAncestor … == current head` decides);
fuel-bounded depth-first search. -/
def isAnc (s : Store) : Nat → Addr → Addr → Bool
  | 0, h, t => h == t
  | fuel+1, h, t =>
    h == t || (match get s t with
      | some c => c.parents.any (fun p => isAnc s fuel h p)
      | none => false)

/-- first half of `doFastForward`: read the new head, read the current head, ancestor check.
Returns the head it read (the CAS below re-validates it). -/
def ffCheck (d : Dest) (n : Name) (t : Addr) : Except Err (Option Addr) :=
  if !has d.chunks t then .error .headNotFound
  else match head d n with
    | none => .ok none
    | some h => if isAnc d.chunks (d.chunks.length + 1) h t then .ok (some h) else .error .mergeNeeded

/-- second half of `doFastForward`: inside `update` — `curr != currentHeadAddr → ErrMergeNeeded`,
`curr == new → ErrAlreadyCommitted` (mapped to success), otherwise write. -/
def ffCas (d : Dest) (n : Name) (h0 : Option Addr) (t : Addr) : Except Err Dest :=
  if head d n != h0 then .error .mergeNeeded
  else if h0 == some t then .ok d
  else .ok { d with refs := setRef d.refs n t, rootSet := true }

/-! ### A transfer as a program of atomic steps -/

inductive Phase where
  | init
  | prechecked
  | planned (files : List Store) (uploaded : Nat)
  | added (rest : List (Name × Addr))
  | checked (h0 : Option Addr) (rest : List (Name × Addr))
  | done
  | failed (e : Err)
  deriving Repr

/-- one transfer: push of one branch (one update) or fetch of several (several updates). -/
structure Xfer where
  src : Store
  updates : List (Name × Addr)
  force : Bool
  /-- chunks per table file minus one -/
  fileSz : Nat
  phase : Phase
  deriving Repr

def Xfer.targets (x : Xfer) : List Addr := x.updates.map (·.2)

/-- `CanFastForward` of actions.Push (a pre-check only; evaluated on source ∪ destination). -/
def preCheck (d : Dest) (x : Xfer) : Bool :=
  x.updates.all (fun u =>
    match head d u.1 with
    | none => true
    | some h => isAnc (x.src ++ d.chunks) (x.src.length + d.chunks.length + 1) h u.2)

/-- the next atomic step of transfer `x` against destination `d`; `fail = true` interrupts it
(the transfer stops for good, the destination keeps whatever it has). -/
def xstep (d : Dest) (x : Xfer) (fail : Bool) : Dest × Xfer :=
  if fail then
    match x.phase with
    | .done => (d, x)
    | .failed _ => (d, x)
    | _ => (d, { x with phase := .failed .interrupted })
  else
    match x.phase with
    | .init =>
      if x.force then (d, { x with phase := .prechecked })
      else if preCheck d x then (d, { x with phase := .prechecked })
      else (d, { x with phase := .failed .cantFF })
    | .prechecked =>
      match pull x.src d.chunks x.targets with
      | .error e => (d, { x with phase := .failed e })
      | .ok [] => (d, { x with phase := .added x.updates })
      | .ok (c :: cs) => (d, { x with phase := .planned (tableFiles x.fileSz (c :: cs)) 0 })
    | .planned fs k =>
      match fs[k]? with
      | some f => (writeFile d f, { x with phase := .planned fs (k+1) })
      | none =>
        match addFiles d fs with
        | .error e => (d, { x with phase := .failed e })
        | .ok d' => (d', { x with phase := .added x.updates })
    | .added [] => (d, { x with phase := .done })
    | .added ((n, t) :: rest) =>
      if x.force then
        match setHead d n t with
        | .error e => (d, { x with phase := .failed e })
        | .ok d' => (d', { x with phase := .added rest })
      else
        match ffCheck d n t with
        | .error e => (d, { x with phase := .failed e })
        | .ok h0 => (d, { x with phase := .checked h0 ((n, t) :: rest) })
    | .checked _ [] => (d, { x with phase := .done })
    | .checked h0 ((n, t) :: rest) =>
      match ffCas d n h0 t with
      | .error e => (d, { x with phase := .failed e })
      | .ok d' => (d', { x with phase := .added rest })
    | .done => (d, x)
    | .failed _ => (d, x)

structure System where
  dest : Dest
  xfers : List Xfer
  deriving Repr

/-- transfer `i` takes its next step (interrupted when `fail`). -/
def sysStep (s : System) (i : Nat) (fail : Bool) : System :=
  match s.xfers[i]? with
  | none => s
  | some x =>
    let (d', x') := xstep s.dest x fail
    { dest := d', xfers := s.xfers.set i x' }

def run (s : System) : List (Nat × Bool) → System
  | [] => s
  | (i, f) :: rest => run (sysStep s i f) rest

/-! ### clone -/

/-- `pull.Clone`: copy all table files of the source (WriteTableFile each), add them in one
AddTableFilesToManifest, then set the destination root to the source's root: the destination's
refs become the source's.  `steps` = how many of these |files|+2 atomic steps ran before the
clone stopped (all of them = success, flagged `true`). -/
def cloneRun (srcChunks : Store) (srcRefs : List (Name × Addr)) (fileSz : Nat) (d : Dest)
    (steps : Nat) : Except Err (Dest × Bool) :=
  let fs := tableFiles fileSz srcChunks
  if steps ≤ fs.length then .ok ({ d with pending := (fs.take steps).reverse ++ d.pending }, false)
  else
    let d1 : Dest := { d with pending := fs.reverse ++ d.pending }
    match addFiles d1 fs with
    | .error e => .error e
    | .ok d2 =>
      if steps = fs.length + 1 then .ok (d2, false)
      else .ok ({ d2 with refs := srcRefs, rootSet := true }, true)

end DoltVerif.Puller
