import DoltVerif.Model.Ignore
/-
Table RENAME in the staging / clean machine of C46.  Core-only.

dolt has no rename record: `diff.GetTableDeltas(staged, working)` (matchTableDeltas) first pairs
tables by *name*; a table that is only in the staged root and a table that is only in the working
root are then paired into one *rename* delta when their schemas overlap (a shared column tag with
the same column name).  The model gives every table an identity `tid` standing for its column
tags (a renamed table keeps them; a table created under another name gets other ones) and assumes
identities are unique inside a root.

`MoveTablesBetweenRoots(tbls, working, staged)` then works delta by delta:
  * drop delta (only in staged, no partner): staged entry removed iff its name is in `tbls`;
  * every other delta (add, modification, rename) is applied iff its *to*-name is in `tbls`:
    a rename first renames the staged entry, then the working table is put under the new name.
So for a rename old -> new only the *new* name decides: with `new` in `tbls` the staged root loses
`old` and gains `new`; otherwise nothing happens -- `old` being in `tbls` has no effect because
the delta is not a drop.  `StageTables` filters `tbls` through dolt_ignore first, hence:
a tracked table renamed to an ignored name is not staged at all (the staged root keeps the old
name), a tracked table with an ignored name renamed to a not-ignored name is staged.

`CleanUntracked` does not look at deltas: "untracked" = name in the working root and not in the
staged root.  A tracked table that was renamed in the working set is therefore untracked under
its new name and `dolt clean` removes it (see `Props/C46.lean`, `clean_removes_renamed`).
-/
namespace DoltVerif.Ignore

structure TEntry where
  name : Str
  tid : Nat
  content : Nat
  deriving DecidableEq, Repr

abbrev TRoot := List TEntry

def TRoot.get? (r : TRoot) (n : Str) : Option (Nat × Nat) :=
  match r with
  | [] => none
  | e :: r => if e.name == n then some (e.tid, e.content) else TRoot.get? r n

def TRoot.has (r : TRoot) (n : Str) : Bool := (r.get? n).isSome

def TRoot.names (r : TRoot) : List Str := r.map (·.name)

/-- forget the identities -/
def TRoot.plain (r : TRoot) : Root := r.map (fun e => ⟨e.name, e.content⟩)

/-- the rename partner of a staged-only table: the working-only table with the same identity -/
def renamedTo (st w : TRoot) (old : Str) : Option Str :=
  match st.get? old with
  | none => none
  | some (tid, _) =>
    if w.has old then none
    else ((w.filter (fun e => !st.has e.name)).find? (fun e => e.tid == tid)).map (·.name)

/-- the staged entry of name `n` after `MoveTablesBetweenRoots(tbls, working, staged)` -/
def stagedAfter (tbls : List Str) (st w : TRoot) (n : Str) : Option (Nat × Nat) :=
  if tbls.contains n && w.has n then w.get? n          -- add, modification, rename target
  else if st.has n && !w.has n then
    match renamedTo st w n with
    | some new => if tbls.contains new then none else st.get? n   -- renamed away: only `new` decides
    | none => if tbls.contains n then none else st.get? n         -- dropped
  else st.get? n

def unionNamesT (a b : TRoot) : List Str :=
  a.names ++ (b.names.filter (fun n => !a.names.contains n))

/-- `MoveTablesBetweenRoots(tbls, working, staged)` with rename deltas -/
def moveTablesR (tbls : List Str) (w st : TRoot) : TRoot :=
  (unionNamesT st w).filterMap (fun n => (stagedAfter tbls st w n).map (fun p => ⟨n, p.1, p.2⟩))

def validateTablesT (tbls : List Str) (staged working : TRoot) : Except Err Unit :=
  match tbls.find? (fun n => !(staged.has n || working.has n)) with
  | some n => .error (.notFound n)
  | none => .ok ()

/-- `StageTables` on roots with identities -/
def stageTablesR (force : Bool) (ps : List Pat) (tbls : List Str) (staged working : TRoot) :
    Except Err TRoot := do
  let tbls ← if force then pure tbls else filterForStaging ps tbls
  validateTablesT tbls staged working
  pure (moveTablesR tbls working staged)

/-- `StageAllTables` = add -A / staging half of commit -A, with renames -/
def stageAllR (force : Bool) (ps : List Pat) (staged working : TRoot) : Except Err TRoot :=
  stageTablesR force ps (unionNamesT staged working) staged working

/-- `CleanUntracked` is blind to identities: it is `clean` on the names -/
def cleanR (respect : Bool) (ps : List Pat) (nonlocal names : List Str) (staged working : TRoot) :
    Except Err TRoot :=
  match clean respect ps nonlocal names staged.plain working.plain with
  | .ok w' => .ok (working.filter (fun e => w'.has e.name))
  | .error e => .error e

end DoltVerif.Ignore
