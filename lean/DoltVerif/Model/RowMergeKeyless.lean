import DoltVerif.Model.RowMerge
/-
Keyless tables (C27): storage is a map  hashId(row) ↦ (cardinality, row)
(go/store/val/keyless_tuple.go, sqle/writer/prolly_index_writer_keyless.go).  The hash is a
parameter assumed injective, so the model keys the map by the row itself; the order of the map
(hash order) is not observable through the statements of the generated family except through
*which* copies a `… LIMIT n` statement picks when it matches several distinct rows — the model
marks those steps `det = false`.
-/
namespace DoltVerif.RowMerge.Keyless
open DoltVerif.RowMerge

/-- (row, cardinality); invariant: distinct rows, cardinalities > 0 -/
abbrev KRows := List (Row × Nat)

def card : KRows → Row → Nat
  | [], _ => 0
  | (r', c) :: rest, r => if r' = r then c else card rest r

/-- set the cardinality of `r` (0 removes the entry); the entry moves to the front — the order of
the map is the hash order, which the model does not represent -/
def setCard (r : Row) (c : Nat) (t : KRows) : KRows :=
  (if c = 0 then [] else [(r, c)]) ++ t.filter (fun e => e.1 != r)

/-- `prollyKeylessWriter.Insert`: Get, cardinality + 1, Put -/
def insert (t : KRows) (r : Row) : KRows := setCard r (card t r + 1) t

/-- `prollyKeylessWriter.Delete`: absent → no-op; cardinality − 1; Put if > 0 else Delete -/
def delete (t : KRows) (r : Row) : KRows :=
  match card t r with
  | 0 => t
  | n + 1 => setCard r n t

/-- `prollyKeylessWriter.Update` = Delete old, Insert new -/
def update (t : KRows) (old new : Row) : KRows := insert (delete t old) new

def deleteN (t : KRows) (r : Row) : Nat → KRows
  | 0 => t
  | n + 1 => deleteN (delete t r) r n

def updateN (t : KRows) (old new : Row) : Nat → KRows
  | 0 => t
  | n + 1 => updateN (update t old new) old new n

/-- the scan: every row repeated `cardinality` times (keyless_iter.go) -/
def scan : KRows → List Row
  | [] => []
  | (r, c) :: rest => List.replicate c r ++ scan rest

/-! canonical output order (any total order on rows will do) -/

def valLe : Val → Val → Bool
  | none, _ => true
  | some _, none => false
  | some (.int a), some (.int b) => a ≤ b
  | some (.int _), some (.str _) => true
  | some (.str _), some (.int _) => false
  | some (.str a), some (.str b) => a ≤ b

def rowLe : Row → Row → Bool
  | [], _ => true
  | _ :: _, [] => false
  | a :: as, b :: bs => if a = b then rowLe as bs else valLe a b

def insertSorted {α} (le : α → α → Bool) (x : α) : List α → List α
  | [] => [x]
  | y :: ys => if le x y then x :: y :: ys else y :: insertSorted le x ys

def sortBy {α} (le : α → α → Bool) (xs : List α) : List α := xs.foldr (insertSorted le) []

def canon (t : KRows) : KRows := sortBy (fun a b => rowLe a.1 b.1) t

/-! DML statements of the generated family -/

inductive KOp
  | insert (r : Row)
  /-- DELETE … WHERE col <=> v [LIMIT lim]   (lim = 0: no limit) -/
  | delete (lim : Nat) (col : Nat) (v : Val)
  /-- UPDATE … SET scol = sv WHERE col <=> v [LIMIT lim] -/
  | update (lim : Nat) (col : Nat) (v : Val) (scol : Nat) (sv : Val)

def rowMatches (col : Nat) (v : Val) (r : Row) : Bool := r[col]? == some v

def setCol (r : Row) (col : Nat) (v : Val) : Row := r.set col v

def total (t : KRows) (p : Row → Bool) : Nat :=
  (t.filter (fun e => p e.1)).foldl (fun acc e => acc + e.2) 0

/-- remove up to `n` matching copies, first entries first; returns the table and the count removed -/
def deleteLim (p : Row → Bool) : KRows → Nat → KRows × Nat
  | [], _ => ([], 0)
  | (r, c) :: rest, n =>
    if p r then
      let k := min c n
      let (rest', m) := deleteLim p rest (n - k)
      (if c - k = 0 then rest' else (r, c - k) :: rest', k + m)
    else
      let (rest', m) := deleteLim p rest n
      ((r, c) :: rest', m)

/-- result of one statement: table, rows affected, and whether the outcome is independent of
the scan order (true unless a LIMIT cuts into several distinct matching rows) -/
structure StepOut where
  rows : KRows
  affected : Nat
  det : Bool

def stepOp (t : KRows) : KOp → StepOut
  | .insert r => ⟨insert t r, 1, true⟩
  | .delete lim col v =>
    let p := rowMatches col v
    let tot := total t p
    let n := if lim = 0 then tot else min lim tot
    let distinct := (t.filter (fun e => p e.1)).length
    let (t', k) := deleteLim p t n
    ⟨t', k, n = tot || distinct ≤ 1⟩
  | .update lim col v scol sv =>
    -- LIMIT counts *matched* rows (also those the SET leaves unchanged); only changed copies are
    -- "affected" and move to their image
    let p := rowMatches col v
    let tot := total t p
    let n := if lim = 0 then tot else min lim tot
    let matched := t.filter (fun e => p e.1)
    let distinct := matched.length
    let rec go : KRows → Nat → KRows → KRows × Nat
      | [], _, acc => (acc, 0)
      | (r, c) :: rest, n, acc =>
        let k := min c n
        let changes := setCol r scol sv != r
        let acc' := if changes then updateN acc r (setCol r scol sv) k else acc
        let (a, m) := go rest (n - k) acc'
        (a, (if changes then k else 0) + m)
    let (t', k) := go matched n t
    ⟨t', k, n = tot || distinct ≤ 1⟩

def runOps (t : KRows) (ops : List KOp) : KRows × List Nat :=
  ops.foldl (fun (st : KRows × List Nat) op =>
    let o := stepOp st.1 op
    (o.rows, st.2 ++ [o.affected, if o.det then 1 else 0])) (t, [])

/-! keyless three-way merge: the row path of computeProllyTreePatches with `keyless = true`
(TryMerge returns "conflict" at once; convergent edits are conflicts too) -/

structure KConf where
  row : Row
  base : Nat
  ours : Nat
  theirs : Nat
deriving DecidableEq, Repr

structure KMerged where
  rows : KRows
  conflicts : List KConf
  stats : Stats

def canonConf (cs : List KConf) : List KConf := sortBy (fun a b => rowLe a.row b.row) cs

def allRows (a b c : KRows) : List Row := ((a ++ b ++ c).map (·.1)).eraseDups

/-- outcome for one row identity with cardinalities (base, left, right) -/
def mergeCard (b l r : Nat) : Nat × Bool × Op :=
  if l = b then
    (if r = b then (l, false, .none)
     else if b = 0 then (r, false, .rightAdd)
     else if r = 0 then (0, false, .rightDelete)
     else (r, false, .rightModify))
  else if r = b then (l, false, .none)
  else (l, true, .divergentModifyConflict)   -- any change on both sides, equal or not

def mergeKeyless (base left right : KRows) : KMerged :=
  let step := fun (row : Row) (acc : KMerged) =>
    let b := card base row
    let l := card left row
    let r := card right row
    let (c, conf, op) := mergeCard b l r
    { rows := if c = 0 then acc.rows else (row, c) :: acc.rows
      conflicts := if conf then ⟨row, b, l, r⟩ :: acc.conflicts else acc.conflicts
      stats := statOf op acc.stats }
  let m := (allRows base left right).foldr step ⟨[], [], {}⟩
  { m with stats := { m.stats with dataConflicts := m.conflicts.length } }

/-- dolt_conflicts_resolve on a keyless table: ours keeps the table, theirs installs their
cardinality for every conflicted row -/
def resolve (ours : Bool) (right : KRows) (m : KMerged) : KRows :=
  if ours then m.rows
  else m.conflicts.foldl (fun t c => setCard c.row (card right c.row) t) m.rows

end DoltVerif.RowMerge.Keyless
