import DoltVerif.Model.VcsOpsDb
/-
VcsOps, part 3: the read side — AS OF, `dolt_diff()`, `dolt_patch()`, `dolt_diff_<t>`,
`dolt_history_<t>` — over the database machine.
-/
namespace DoltVerif.VcsOps

/-- a revision a read can name: a commit spec, or the WORKING / STAGED roots of the current branch -/
inductive Rev where
  | commit (r : Ref)
  | working
  | staged
  deriving DecidableEq, Repr

def Db.rootAt (d : Db) : Rev → Option Root
  | .commit r => (d.resolve r).map d.rootOf
  | .working => some d.ws.working
  | .staged => some d.ws.staged

/-- `SELECT * FROM t AS OF rev` (also `db/rev`.t): the table exactly as stored in that root -/
def Db.asOf (d : Db) (rev : Rev) (t : String) : Option Table :=
  match d.rootAt rev with
  | some r => get r t
  | none => none

/-- `dolt_diff(a, b, t)`; `none` = an error (unresolvable revision, or the table is in neither) -/
def Db.diffFn (d : Db) (a b : Rev) (t : String) : Option (List DiffRow) :=
  match d.rootAt a, d.rootAt b with
  | some ra, some rb =>
    match get ra t, get rb t with
    | none, none => none
    | f, to => some (diffTables f to)
  | _, _ => none

/-- `dolt_patch(a, b)` -/
def Db.patchFn (d : Db) (a b : Rev) : Option (List Stmt) :=
  match d.rootAt a, d.rootAt b with
  | some ra, some rb => some (patch ra rb)
  | _, _ => none

/-! ### the commit walk of `doltdb.CommitItrForRoots` (depth first, last parent first) -/

def Db.parentsOf (d : Db) (i : Nat) : List Nat :=
  match d.commit? i with
  | some c => c.parents
  | none => []

def Db.walkAux (d : Db) : Nat → Nat → List Nat → List Nat → List Nat → List Nat
  | 0, _, _, _, acc => acc.reverse
  | fuel + 1, curr, stack, added, acc =>
    let ps := d.parentsOf curr
    let (stack1, added1) := ps.foldl (fun (sa : List Nat × List Nat) h =>
      if sa.2.contains h then sa else (sa.1 ++ [h], h :: sa.2)) (stack, added)
    match stack1.getLast? with
    | none => acc.reverse
    | some nxt => d.walkAux fuel nxt stack1.dropLast added1 (nxt :: acc)

/-- the order in which `CommitItrForRoots(head)` yields commits -/
def Db.walk (d : Db) (head : Nat) : List Nat :=
  d.walkAux (d.commits.length + 1) head [] [head] [head]

/-! ### `dolt_diff_<t>` (unfiltered scan) -/

structure DiffTableRow where
  toCommit : Option Nat       -- `none` = WORKING
  fromCommit : Nat
  row : DiffRow               -- from / to cells laid out by the *current working* schema
  deriving DecidableEq, Repr

/-- the rows one partition contributes: diff of the stored tables, both sides converted to the
target (current working) column list -/
def diffPartitionRows (target : List Col) (f t : Option Table) : List DiffRow :=
  (diffTables f t).map (fun r =>
    { r with
      «from» := match r.from, f with | some fr, some ft => some (projRow ft.cols target fr) | x, _ => x
      to := match r.to, t with | some tr, some tt => some (projRow tt.cols target tr) | x, _ => x })

/-- `DiffPartitions.Next` over the commit walk: each visited commit is diffed against the child that
registered itself last in `cmHashToTblInfo`; the scan ends at the first partition whose `to` side has
no table (a table dropped and possibly re-created later is a different table). -/
def Db.diffTableAux (d : Db) (t : String) (target : List Col) :
    List Nat → List (Nat × Option Nat × Option Table) → List DiffTableRow → List DiffTableRow
  | [], _, acc => acc
  | cm :: rest, info, acc =>
    let tbl := get (d.rootOf cm) t
    let toInfo := match info.find? (fun e => e.1 = cm) with
      | some e => e.2
      | none => (none, none)
    let ps := d.parentsOf cm
    let info1 := ps.foldl (fun (m : List (Nat × Option Nat × Option Table)) h =>
      (h, some cm, tbl) :: m.filter (fun e => e.1 ≠ h)) info
    if tbl ≠ toInfo.2 then
      if toInfo.2.isNone then acc      -- not diffable: stop
      else d.diffTableAux t target rest info1
        (acc ++ (diffPartitionRows target tbl toInfo.2).map (fun r => ⟨toInfo.1, cm, r⟩))
    else d.diffTableAux t target rest info1 acc

def Db.diffTable (d : Db) (t : String) : Option (List DiffTableRow) :=
  match get d.ws.working t with
  | none => none
  | some wt =>
    let h := d.headId
    some (d.diffTableAux t wt.cols (d.walk h) [(h, none, some wt)] [])

/-! ### `dolt_history_<t>` filtered to one commit -/

/-- rows of `dolt_history_<t> WHERE commit_hash = c`: the table as of `c`, laid out by the current
working schema of `t`; empty when `c` does not have the table; an error when the current working
root does not have it. -/
def Db.history (d : Db) (t : String) (c : Nat) : Option (List (Int × Row)) :=
  match get d.ws.working t with
  | none => none
  | some wt =>
    match get (d.rootOf c) t with
    | none => some []
    | some ct => some (projRows ct.cols wt.cols ct.rows)

end DoltVerif.VcsOps
