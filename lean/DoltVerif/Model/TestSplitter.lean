/-
The deterministic test splitter injected into dolt through `tree.defaultSplitterFactory`
(harness/internal/px/splitter.go implements the same rule in Go) and the byte-tuple
instantiation of the chunker used by the drivers.  Core-only.

Rule (same control flow as `keySplitter.Append`):
  size += len(key)+len(value)
  if size < minSz  → return (flag unchanged)
  if size > maxSz  → crossed := true
  else             → crossed := (Σ key bytes + level·k) mod m = 0
-/
import DoltVerif.Model.Chunker
namespace DoltVerif.Prolly.Test

structure Params where
  minSz : Nat
  maxSz : Nat
  modulus : Nat
  k : Nat
  cap : Nat
  deriving Repr

abbrev Bytes := List UInt8

def byteSum (bs : Bytes) : Nat := bs.foldl (fun a b => a + b.toNat) 0

/-- splitter state = (`size`, `crossedBoundary`) -/
def splitter {α : Type} (p : Params) (level : Nat) (key : α → Bytes) (weight : α → Nat) : Splitter (Nat × Bool) α where
  init := (0, false)
  step := fun s x =>
    let size := s.1 + weight x
    if size < p.minSz then ((size, s.2), s.2)
    else if size > p.maxSz then ((size, true), true)
    else
      let c := (byteSum (key x) + level * p.k) % p.modulus == 0
      ((size, c), c)

/-- address width (`hash.ByteLen`): the value of an internal item -/
def addrLen : Nat := 20

/-- values: the model of C12 only needs their length and identity -/
def cfg {ν : Type} (p : Params) (vlen : ν → Nat) : Cfg (Nat × Bool) Bytes ν
  | 0 => { sp := splitter p 0 (fun (kv : Bytes × ν) => kv.1) (fun kv => kv.1.length + vlen kv.2),
           weight := fun kv => kv.1.length + vlen kv.2, cap := p.cap, leaf := true }
  | n+1 => { sp := splitter p (n+1) (keyOf (n+1)) (fun it => (keyOf (n+1) it).length + addrLen),
             weight := fun it => (keyOf (n+1) it).length + addrLen, cap := p.cap, leaf := false }



/-- lexicographic order on byte strings (`bytes.Compare`) -/
def cmpBytes : Bytes → Bytes → Ordering
  | [], [] => .eq
  | [], _ :: _ => .lt
  | _ :: _, [] => .gt
  | a :: as, b :: bs => if a < b then .lt else if b < a then .gt else cmpBytes as bs

def u32le (bs : Bytes) : Nat :=
  match bs with
  | a :: b :: c :: d :: _ => a.toNat + 256 * (b.toNat + 256 * (c.toNat + 256 * d.toNat))
  | _ => 0

/-- comparator of the harness' key descriptor `(Uint32 NOT NULL, ByteString NOT NULL)`:
tuple bytes = u32 little-endian ++ string ++ [0] ++ offset(2) ++ count(2) -/
def cmpKey (a b : Bytes) : Ordering :=
  match compare (u32le a) (u32le b) with
  | .lt => .lt
  | .gt => .gt
  | .eq => cmpBytes ((a.drop 4).take (a.length - 9)) ((b.drop 4).take (b.length - 9))



/-- field comparison of the harness' key descriptor against a bound value (raw field bytes):
field 0 = Uint32 little-endian, field 1 = ByteString (NUL-terminated in the tuple and in the bound) -/
def fieldCmp (i : Nat) (t : Bytes) (v : Bytes) : Ordering :=
  if i == 0 then compare (u32le t) (u32le v)
  else cmpBytes ((t.drop 4).take (t.length - 9)) (v.take (v.length - 1))

end DoltVerif.Prolly.Test
