import DoltVerif.Model.JournalRec
/-
L2 journal, part 3: the journal writer of `journal_writer.go` as a state machine over
`getBytes` / `flush` / `writeCompressedChunk` / `commitRootHashUnlocked` / `commitRootHash` /
`flushIndexRecord`, emitting the file operations (`WriteAt`, `Sync`), the acknowledgements
(`commitRootHash` returning nil) and the out-of-band index records it hands to the index writer.
-/
namespace DoltVerif.Journal

inductive Ev where
  | write (off : Nat) (bytes : Bytes)   -- journal.WriteAt(buf, off)
  | sync                                -- journal.Sync()
  | ack (root : Bytes)                  -- commitRootHash returned nil
  | idxLookup (a16 : Bytes) (off len : Nat)            -- writeIndexLookup
  | idxMeta (start stop crc : Nat) (root : Bytes)      -- writeJournalIndexMeta
  | fail                                -- getBytes: requested bytes exceed capacity
  deriving Repr, DecidableEq

structure WState where
  cap : Nat                 -- cap(wr.buf) = journalWriterBuffSize at open
  maxNovel : Nat
  threshold : Nat           -- journalMaybeSyncThreshold
  buf : Bytes := []
  off : Nat := 0            -- wr.off
  unsyncd : Nat := 0
  indexed : Nat := 0
  novel : List Bytes := []  -- keys of ranges.novel
  currentRoot : Option Bytes := none
  clock : Nat := 0          -- next value of journalRecordTimestampGenerator
  batchCrc : UInt32 := 0
  log : List Rec := []      -- ghost: every record appended so far (buffered or written)
  deriving Repr

inductive Op where
  | chunk (addr payload : Bytes)
  | commit (root : Bytes)
  | bump (n : Nat)          -- test hook: wr.unsyncd += n
  deriving Repr

def WState.offset (s : WState) : Nat := s.off + s.buf.length

/-- `flush`: one `WriteAt(wr.buf, wr.off)` (no syscall for an empty buffer) -/
def flush (s : WState) : WState × List Ev :=
  if s.buf = [] then (s, [])
  else ({ s with off := s.off + s.buf.length, buf := [] }, [.write s.off s.buf])

/-- `getBytes(n)`: error beyond capacity, flush when the remaining capacity is too small -/
def getBytes (s : WState) (n : Nat) : Option (WState × List Ev) :=
  if n > s.cap then none
  else if n > s.cap - s.buf.length then some (flush s)
  else some (s, [])

def insertNovel (a : Bytes) (xs : List Bytes) : List Bytes := if a ∈ xs then xs else a :: xs

/-- append a root hash record to the buffer (`writeRootHashRecord` into the bytes from `getBytes`) -/
def pushRoot (s1 : WState) (root : Bytes) : WState :=
  { s1 with buf := s1.buf ++ encodeRoot root s1.clock, currentRoot := some root,
            clock := s1.clock + 1, log := s1.log ++ [Rec.root root s1.clock] }

/-- append a chunk record to the buffer and account for it -/
def pushChunk (s1 : WState) (addr payload : Bytes) : WState :=
  { s1 with unsyncd := s1.unsyncd + chunkRecSz payload.length, buf := s1.buf ++ encodeChunk addr payload,
            novel := insertNovel addr s1.novel,
            batchCrc := crcUpdate s1.batchCrc (addr.take 16),
            log := s1.log ++ [Rec.chunk addr payload] }

/-- `commitRootHashUnlocked(root)` without the acknowledgement -/
def commitUnlocked (s : WState) (root : Bytes) : WState × List Ev × Bool :=
  match getBytes s rootRecSz with
  | none => (s, [.fail], false)
  | some (s1, e1) =>
    let (s3, e3) := flush (pushRoot s1 root)
    let s4 := { s3 with unsyncd := 0 }
    if s4.novel.length > s4.maxNovel then
      let o := s4.offset - rootRecSz
      ({ s4 with batchCrc := 0, novel := [], indexed := o },
        e1 ++ e3 ++ [.sync, .idxMeta s4.indexed o s4.batchCrc.toNat root], true)
    else (s4, e1 ++ e3 ++ [.sync], true)

def step (s : WState) : Op → WState × List Ev
  | .bump n => ({ s with unsyncd := s.unsyncd + n }, [])
  | .commit root =>
    let (s', evs, ok) := commitUnlocked s root
    (s', if ok then evs ++ [.ack root] else evs)
  | .chunk addr payload =>
    let recordLen := chunkRecSz payload.length
    let rngOff := s.offset + chunkPayloadOff
    match getBytes s recordLen with
    | none => (s, [.fail])
    | some (s1, e1) =>
      let s2 := pushChunk s1 addr payload
      let e2 := e1 ++ [.idxLookup (addr.take 16) rngOff payload.length]
      match s2.currentRoot with
      | some r =>
        if s2.unsyncd > s2.threshold then
          let (s3, e3, _) := commitUnlocked s2 r
          (s3, e2 ++ e3)
        else (s2, e2)
      | none => (s2, e2)

def run (s : WState) : List Op → WState × List Ev
  | [] => (s, [])
  | op :: ops =>
    let (s1, e1) := step s op
    let (s2, e2) := run s1 ops
    (s2, e1 ++ e2)

/-! ### what the events do to the file -/

structure Disk where
  file : Bytes
  durable : Nat
  deriving Repr

/-- `pwrite` / `fsync` -/
def Disk.apply (d : Disk) : Ev → Disk
  | .write off bs => { d with file := d.file.take off ++ bs ++ d.file.drop (off + bs.length) }
  | .sync => { d with durable := d.file.length }
  | _ => d

def diskAfter (d : Disk) (evs : List Ev) : Disk := evs.foldl Disk.apply d

end DoltVerif.Journal
