import DoltVerif.Model.JsonDocIndexed
/-
Model of dolt's stored JSON documents (C17), part 3: the three-way JSON merge.

Transliteration of
  go/store/prolly/tree/json_diff.go                newInMemoryJsonDiffer / InMemoryJsonDiffer / InMemoryJsonArrayDiffer
  go/libraries/doltcore/merge/three_way_json_differ.go  ThreeWayJsonDiffer.Next
  go/libraries/doltcore/merge/merge_prolly_rows.go      MergeJSON
  go/store/prolly/tree/json_location.go            IsJsonKeyPrefix / JsonKeysModifySameArray / jsonPathFromKey
(the differ over two *indexed* documents, indexed_json_diff.go, is not modelled: the harness drives
the merge with an in-memory base and compares the indexed variant against the oracle only).
Core-only.
-/
namespace DoltVerif.JsonDoc

structure Diff where
  key : List Elem
  from? : Option JsonVal
  to? : Option JsonVal

/-- the byte form of a location key: state byte, then 0xFF key… / 0xFE varint… per element -/
def encodeKey (es : List Elem) : Bytes :=
  0 :: es.flatMap (fun e => (if e.isArr then 0xFE else 0xFF) :: e.key)

inductive Kind where | obj | arr | str | num | bool | null
  deriving DecidableEq

def kindOf : JsonVal → Kind
  | .obj _ => .obj
  | .arr _ => .arr
  | .lit (0x22 :: _) => .str
  | .lit (0x74 :: _) => .bool
  | .lit (0x66 :: _) => .bool
  | .lit (0x6e :: _) => .null
  | .lit _ => .num

mutual
def jsonEq : JsonVal → JsonVal → Bool
  | .lit a, .lit b => a == b
  | .arr xs, .arr ys => jsonEqL xs ys
  | .obj xs, .obj ys => jsonEqO xs ys
  | _, _ => false
def jsonEqL : List JsonVal → List JsonVal → Bool
  | [], [] => true
  | a :: s, b :: t => jsonEq a b && jsonEqL s t
  | _, _ => false
def jsonEqO : List (Bytes × JsonVal) → List (Bytes × JsonVal) → Bool
  | [], [] => true
  | (k, a) :: s, (l, b) :: t => rawKey k == rawKey l && jsonEq a b && jsonEqO s t
  | _, _ => false
end

mutual
/-- `newInMemoryJsonDiffer`, run to completion -/
def diffVal : Nat → List Elem → JsonVal → JsonVal → List Diff
  | 0, _, _, _ => []
  | f+1, key, a, b =>
    if kindOf a ≠ kindOf b then [{ key := key, from? := some a, to? := some b }]
    else match a, b with
      | .obj xs, .obj ys => diffObj f key xs ys
      | .arr xs, .arr ys => diffArr f key 0 xs ys
      | _, _ => if jsonEq a b then [] else [{ key := key, from? := some a, to? := some b }]
/-- `InMemoryJsonDiffer.Next` over the two key-sorted member lists -/
def diffObj : Nat → List Elem → List (Bytes × JsonVal) → List (Bytes × JsonVal) → List Diff
  | 0, _, _, _ => []
  | _, _, [], [] => []
  | f+1, key, [], (k, v) :: t => { key := key ++ [objElem (rawKey k)], from? := none, to? := some v } :: diffObj f key [] t
  | f+1, key, (k, v) :: s, [] => { key := key ++ [objElem (rawKey k)], from? := some v, to? := none } :: diffObj f key s []
  | f+1, key, (k, v) :: s, (l, w) :: t =>
    match bytesCmp (rawKey k) (rawKey l) with
    | .gt => { key := key ++ [objElem (rawKey l)], from? := none, to? := some w } :: diffObj f key ((k, v) :: s) t
    | .lt => { key := key ++ [objElem (rawKey k)], from? := some v, to? := none } :: diffObj f key s ((l, w) :: t)
    | .eq => diffVal f (key ++ [objElem (rawKey k)]) v w ++ diffObj f key s t
/-- `InMemoryJsonArrayDiffer.Next` -/
def diffArr : Nat → List Elem → Nat → List JsonVal → List JsonVal → List Diff
  | 0, _, _, _, _ => []
  | _, _, _, [], [] => []
  | f+1, key, i, [], w :: t => { key := key ++ [arrElem i], from? := none, to? := some w } :: diffArr f key (i+1) [] t
  | f+1, key, i, v :: s, [] => { key := key ++ [arrElem i], from? := some v, to? := none } :: diffArr f key (i+1) s []
  | f+1, key, i, v :: s, w :: t => diffVal f (key ++ [arrElem i]) v w ++ diffArr f key (i+1) s t
end

/-- `IsJsonKeyPrefix(path, prefix)` -/
def isKeyPrefix (path pre : Bytes) : Bool :=
  pre.isPrefixOf path && (match path.drop pre.length with | c :: _ => c == 0xFE || c == 0xFF | [] => false)

/-- `JsonKeysModifySameArray` -/
def modifySameArray : Bytes → Bytes → Bool
  | a :: s, b :: t => if a = b then (if a = 0xFE then true else modifySameArray s t) else false
  | _, _ => false

inductive MergeStep where
  | setRight (key : List Elem) (v : JsonVal)
  | remove (key : List Elem)

/-- `ThreeWayJsonDiffer.Next` run to completion: the operations `MergeJSON` applies to the left
document, or `none` on a conflict.  `mergeVal` is `MergeJSON` itself (for a divergent modify). -/
def threeWay (mergeVal : JsonVal → JsonVal → JsonVal → Option JsonVal) :
    Nat → List Diff → List Diff → Option (List MergeStep)
  | 0, _, _ => some []
  | _, _, [] => some []
  | f+1, [], r :: rs =>
    (threeWay mergeVal f [] rs).map (fun t => (match r.to? with | some v => .setRight r.key v | none => .remove r.key) :: t)
  | f+1, l :: ls, r :: rs =>
    let lk := encodeKey l.key
    let rk := encodeKey r.key
    match bytesCmp lk rk with
    | .gt =>
      if modifySameArray lk rk then none
      else if isKeyPrefix lk rk then none
      else (threeWay mergeVal f (l :: ls) rs).map
        (fun t => (match r.to? with | some v => .setRight r.key v | none => .remove r.key) :: t)
    | .lt =>
      if modifySameArray lk rk then none
      else if isKeyPrefix rk lk then none
      else threeWay mergeVal f ls (r :: rs)
    | .eq =>
      match l.from?, l.to?, r.to? with
      | none, some lv, some rv =>
        if jsonEq lv rv then (threeWay mergeVal f ls rs).map (fun t => .setRight r.key rv :: t) else none
      | none, _, _ => none        -- unreachable: an added diff has a To on both sides
      | some _, none, none => (threeWay mergeVal f ls rs).map (fun t => .remove r.key :: t)
      | some _, none, some _ => none
      | some _, some _, none => none
      | some b, some lv, some rv =>
        match mergeVal b lv rv with
        | none => none
        | some _ => (threeWay mergeVal f ls rs).map (fun t => .setRight r.key rv :: t)

def keyToLoc (es : List Elem) : Loc := { st := .startOfValue, elems := es }

/-- apply the steps to the stored text of the left document (`SetWithKey` / `RemoveWithKey`) -/
def applySteps : List MergeStep → Bytes → Except IErr Bytes
  | [], doc => .ok doc
  | .setRight k v :: t, doc =>
    match iSet doc (keyToLoc k) (serialize v) with
    | .ok (d, _) => applySteps t d
    | .error e => .error e
  | .remove k :: t, doc =>
    match iRemove doc (keyToLoc k) with
    | .ok (d, _) => applySteps t d
    | .error e => .error e

inductive MergeRes where
  | merged (doc : Bytes)
  | conflict
  | error (e : IErr)

/-- the decision part of `MergeJSON` on values (used recursively for divergent modifies) -/
def mergeDecide : Nat → JsonVal → JsonVal → JsonVal → Option (List MergeStep ⊕ JsonVal)
  | 0, _, _, _ => none
  | f+1, b, l, r =>
    if kindOf b ≠ .obj ∨ kindOf l ≠ .obj ∨ kindOf r ≠ .obj then
      if jsonEq l r then some (.inr l) else none
    else
      let fuel := (serialize b).length + (serialize l).length + (serialize r).length + 8
      let ld := diffVal fuel [] b l
      let rd := diffVal fuel [] b r
      (threeWay (fun b' l' r' => (mergeDecide f b' l' r').map (fun _ => l')) (ld.length + rd.length + 2) ld rd).map .inl

/-- `MergeJSON(base, left, right)` -/
def merge3 (b l r : JsonVal) : MergeRes :=
  match mergeDecide 64 b l r with
  | none => .conflict
  | some (.inr v) => .merged (serialize v)
  | some (.inl steps) =>
    match applySteps steps (serialize l) with
    | .ok d => .merged d
    | .error e => .error e

end DoltVerif.JsonDoc
