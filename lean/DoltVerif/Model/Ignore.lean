/-
Model of dolt's `dolt_ignore` machinery (C46).  Core-only (the driver links it).

Transliteration of
  go/libraries/doltcore/doltdb/table_name_patterns.go   compilePattern / MatchTablePattern /
                                                         getMoreSpecificPatterns / normalizePattern
  go/libraries/doltcore/doltdb/ignore.go                resolveConflictingPatterns /
                                                         IsTableNameIgnored / isDoltRebaseTable /
                                                         ExcludeIgnoredTables
  go/libraries/doltcore/doltdb/root_val.go              FilterIgnoredTables
  go/libraries/doltcore/env/actions/staged.go           StageTables / StageAllTables /
                                                         StageModifiedAndDeletedTables
  go/libraries/doltcore/env/actions/reset.go            CleanUntracked

Strings are `List Char` (Go `regexp` works on code points; strings that are not valid UTF-8 are
outside the model).  The Go code compiles a pattern to a regular expression; the model is the
equivalent direct matcher for the regular expressions that the string rewriting in
`compilePattern` / `getMoreSpecificPatterns` produces:

  compilePattern:            `?` -> `.`        `*`,`%` -> `.*`      everything else literal
  getMoreSpecificPatterns:   `?` -> `[^\*%]`   `*`,`%` -> `.*`      everything else literal

Each `strings.Replace` runs over the whole string, so the order of the calls matters: a later
replacement also rewrites the text an earlier one inserted.  `getMoreSpecificPatterns` rewrites the
wildcards first and the `?` last (since fix 4a3abdc; before it the `?` was rewritten first and the
class ended up as `[^.*.*]`, letting a `?` absorb a `%` -- the D1 finding).  `Tie/Ignore.lean`
re-derives both classes from the string literals and the order of the calls as regenerated from
the Go source.  Go's `.` does not match `\n` (no `s` flag); a negated class does.
-/
namespace DoltVerif.Ignore

abbrev Str := List Char

/-- `*` and `%` both become `.*` -/
def isStar (c : Char) : Bool := c == '*' || c == '%'

/-- Go regexp `.` without the `s` flag: any code point except newline -/
def dotOk (c : Char) : Bool := c != '\n'

/-- the class `[^\*%]` that `getMoreSpecificPatterns` uses for `?`: anything but `*` and `%` -/
def qOk (c : Char) : Bool := c != '*' && c != '%'

/-- `.*` followed by the continuation `k`: some (possibly empty) run of non-newline characters is
consumed, then `k` must accept the rest. -/
def starLoop (k : Str → Bool) : Str → Bool
  | [] => k []
  | c :: cs => k (c :: cs) || (dotOk c && starLoop k cs)

/-- what a non-wildcard pattern character `p` accepts: `?` accepts the class `q`, anything else
is a literal -/
def charOk (q : Char → Bool) (p c : Char) : Bool := if p == '?' then q c else c == p

/-- Direct matcher for the anchored regular expression built from a pattern; `q` is the class a
`?` stands for. -/
def matchWith (q : Char → Bool) : Str → Str → Bool
  | [], s => s.isEmpty
  | p :: ps, s =>
    if isStar p then starLoop (matchWith q ps) s
    else
      match s with
      | [] => false
      | c :: cs => charOk q p c && matchWith q ps cs

/-- `MatchTablePattern pattern table` -/
def matchesName (pat name : Str) : Bool := matchWith dotOk pat name

/-- `getMoreSpecificPatterns(less).MatchString(cand)` -/
def moreSpecific (less cand : Str) : Bool := matchWith qOk less cand

/-! ### the string rewriting itself (used by `Tie/Ignore.lean` to re-derive the classes) -/

/-- `strings.Replace(s, old, new, -1)` for non-empty `old` (leftmost, non-overlapping); `skip`
counts the characters of a matched `old` still to be dropped. -/
def replaceGo (old new : Str) : Nat → Str → Str
  | _, [] => []
  | skip + 1, _ :: s => replaceGo old new skip s
  | 0, c :: s =>
    if old.isPrefixOf (c :: s) && !old.isEmpty then new ++ replaceGo old new (old.length - 1) s
    else c :: replaceGo old new 0 s

def replaceAll (old new : Str) (s : Str) : Str := replaceGo old new 0 s

/-- members of a regex character class body: `\x` stands for `x` -/
def classMembers : Str → Str
  | [] => []
  | '\\' :: c :: rest => c :: classMembers rest
  | c :: rest => c :: classMembers rest

/-- the regex atoms the rewriting produces for `?`: `.` or a negated class `[^...]` -/
def atomClass (re : Str) (c : Char) : Option Bool :=
  match re with
  | ['.'] => some (dotOk c)
  | '[' :: '^' :: rest =>
    match rest.reverse with
    | ']' :: setRev => some (!(classMembers setRev.reverse).contains c)
    | _ => none
  | _ => none

/-- apply a sequence of `(old, new)` replacements in order -/
def applyReplacements (rs : List (String × String)) (s : Str) : Str :=
  rs.foldl (fun acc r => replaceAll r.1.toList r.2.toList acc) s

/-! ### normalizePattern -/

def starToPct (p : Str) : Str := p.map (fun c => if c == '*' then '%' else c)

/-- fixpoint of `strings.Replace(p, "%%", "%", -1)`: every run of `%` becomes one `%` -/
def collapse : Str → Str
  | [] => []
  | c :: rest => if c == '%' && rest.head? == some '%' then collapse rest else c :: collapse rest

def normalize (p : Str) : Str := collapse (starToPct p)

/-! ### resolveConflictingPatterns / IsTableNameIgnored -/

inductive Decision where
  | ignore | dontIgnore | conflict
  deriving DecidableEq, Repr

structure Pat where
  pat : Str
  ign : Bool
  deriving DecidableEq, Repr

/-- the key set of a Go `map[string]struct{}` filled from a slice -/
def dedup : List Str → List Str
  | [] => []
  | x :: xs => if xs.contains x then dedup xs else x :: dedup xs

/-- `resolveConflictingPatterns`.  The Go code keeps the removed patterns in maps keyed by the
pattern string and compares `len(map)` with `len(slice)`: `dedup` + `length`.  The first loop
returns `IgnorePatternConflict` as soon as a pair with equal normal forms is met; no other return
can precede it, so "some pair has equal normal forms" is exact. -/
def resolve (ts fs : List Str) : Decision :=
  if ts.any (fun t => fs.any (fun f => normalize t == normalize f)) then .conflict
  else
    let rt := dedup (ts.filter (fun t => fs.any (fun f => moreSpecific t f)))
    let rf := dedup (fs.filter (fun f => ts.any (fun t => moreSpecific f t)))
    if rt.length == ts.length then .dontIgnore
    else if rf.length == fs.length then .ignore
    else .conflict

/-- simple case folding on the letters that matter for `strings.EqualFold(name, "dolt_rebase")`:
ASCII letters, U+017F (long s, folds to `s`) and U+212A (Kelvin sign, folds to `k`). -/
def foldChar (c : Char) : Char :=
  if 'A' ≤ c ∧ c ≤ 'Z' then Char.ofNat (c.toNat + 32)
  else if c == Char.ofNat 0x17F then 's'
  else if c == Char.ofNat 0x212A then 'k'
  else c

def rebaseTableName : Str := "dolt_rebase".toList

def isRebaseTable (name : Str) : Bool := name.map foldChar == rebaseTableName

def trueMatches (ps : List Pat) (name : Str) : List Str :=
  (ps.filter (fun p => p.ign && matchesName p.pat name)).map (·.pat)

def falseMatches (ps : List Pat) (name : Str) : List Str :=
  (ps.filter (fun p => !p.ign && matchesName p.pat name)).map (·.pat)

/-- `IgnorePatterns.IsTableNameIgnored` (default schema) -/
def decideName (ps : List Pat) (name : Str) : Decision :=
  if isRebaseTable name then .ignore
  else
    let ts := trueMatches ps name
    let fs := falseMatches ps name
    if ts.isEmpty then .dontIgnore
    else if fs.isEmpty then .ignore
    else resolve ts fs

/-! ### roots, staging, clean

A root is an association list table name -> content id (the harness maps table hashes to small
numbers).  In this file a delta is per name; table renames (which dolt detects by overlapping
column tags) are modelled in `Model/IgnoreRename.lean` on roots that also carry an identity. -/

structure Entry where
  name : Str
  content : Nat
  deriving DecidableEq, Repr

abbrev Root := List Entry

def Root.get? (r : Root) (n : Str) : Option Nat :=
  match r with
  | [] => none
  | e :: r => if e.name == n then some e.content else Root.get? r n

def Root.has (r : Root) (n : Str) : Bool := (r.get? n).isSome

def Root.names (r : Root) : List Str := r.map (·.name)

def Root.remove (r : Root) (n : Str) : Root := r.filter (fun e => !(e.name == n))

def Root.put (r : Root) (n : Str) (c : Nat) : Root := ⟨n, c⟩ :: r.remove n

/-- `UnionTableNames(staged, working)` -/
def unionNames (a b : Root) : List Str :=
  a.names ++ (b.names.filter (fun n => !a.names.contains n))

inductive Err where
  | conflict (table : Str)   -- DoltIgnoreConflictError for this table
  | notFound (table : Str)
  | nothingToCommit
  deriving DecidableEq, Repr

/-- `FilterIgnoredTables` as used by `StageTables`: the first table with conflicting patterns is
reported; otherwise the names decided `DontIgnore`. -/
def filterForStaging (ps : List Pat) (tbls : List Str) : Except Err (List Str) :=
  match tbls.find? (fun n => decideName ps n == .conflict) with
  | some n => .error (.conflict n)
  | none => .ok (tbls.filter (fun n => decideName ps n == .dontIgnore))

/-- `MoveTablesBetweenRoots(tbls, working, staged)` without renames: every named table takes its
working value (put when present in working, removed when absent). -/
def moveTables (tbls : List Str) (working staged : Root) : Root :=
  tbls.foldl (fun st n => match working.get? n with
    | some c => st.put n c
    | none => st.remove n) staged

/-- `ValidateTables`: every table must exist in staged or working -/
def validateTables (tbls : List Str) (staged working : Root) : Except Err Unit :=
  match tbls.find? (fun n => !(staged.has n || working.has n)) with
  | some n => .error (.notFound n)
  | none => .ok ()

/-- `StageTables(roots, tbls, filterIgnoredTables = !force)`; returns the new staged root -/
def stageTables (force : Bool) (ps : List Pat) (tbls : List Str) (staged working : Root) :
    Except Err Root := do
  let tbls ← if force then pure tbls else filterForStaging ps tbls
  validateTables tbls staged working
  pure (moveTables tbls working staged)

/-- `StageAllTables` = `dolt add -A [--force]`, also the staging half of `dolt commit -A` -/
def stageAll (force : Bool) (ps : List Pat) (staged working : Root) : Except Err Root :=
  stageTables force ps (unionNames staged working) staged working

/-- `StageModifiedAndDeletedTables` = staging half of `dolt commit -a`: every table of the staged
root whose working value differs (no ignore filter). -/
def stageModified (staged working : Root) : Root :=
  moveTables ((staged.filter (fun e => working.get? e.name != some e.content)).map (·.name))
    working staged

/-- two roots hold the same tables -/
def Root.sameAs (a b : Root) : Bool :=
  a.names.all (fun n => a.get? n == b.get? n) && b.names.all (fun n => a.get? n == b.get? n)

/-- `dolt commit -A`: stage all (respecting dolt_ignore), then HEAD := staged; an unchanged staged
root is "nothing to commit" and leaves the roots as they were.  Returns (head, staged). -/
def commitAll (ps : List Pat) (head staged working : Root) : Except Err (Root × Root) := do
  let st ← stageAll false ps staged working
  if st.sameAs head then .error .nothingToCommit else pure (st, st)

/-- `CleanUntracked(roots, tables, dryrun = false, force = false, respectIgnoreRules)`; `nonlocal`
are the `dolt_nonlocal_tables` patterns.  Returns the new working root. -/
def clean (respect : Bool) (ps : List Pat) (nonlocal : List Str) (names : List Str)
    (staged working : Root) : Except Err Root := do
  let cands ←
    if names.isEmpty then do
      let all := working.names
      let cs ←
        if respect then
          match all.find? (fun n => decideName ps n == .conflict) with
          | some n => .error (.conflict n)
          | none => pure (all.filter (fun n => decideName ps n != .ignore))
        else pure all
      pure (cs.filter (fun n => !nonlocal.any (fun p => matchesName p n)))
    else
      match names.find? (fun n => !working.has n) with
      | some n => .error (.notFound n)
      | none => pure names
  let untracked := cands.filter (fun n => !staged.has n)
  pure (working.filter (fun e => !untracked.contains e.name))

/-! ### histories: a working set edited freely, with staging / commit / clean steps in between -/

structure State where
  head : Root
  staged : Root
  working : Root
  pats : List Pat     -- rows of the working set's dolt_ignore

inductive Op where
  | edit (working : Root) (pats : List Pat)   -- any SQL that changes tables / dolt_ignore rows
  | addAll                                     -- CALL dolt_add('-A')
  | addNames (names : List Str)                -- CALL dolt_add(t1, ...)
  | commitAll                                  -- CALL dolt_commit('-A', ...)
  | commitModified                             -- CALL dolt_commit('-a', ...)
  | clean (respect : Bool) (names : List Str)  -- CALL dolt_clean([-x], [t1, ...])

/-- does the step consult dolt_ignore to decide what to stage -/
def Op.stages : Op → Bool
  | .addAll | .addNames _ | .commitAll => true
  | _ => false

/-- one step; a failing step leaves the state unchanged -/
def step (s : State) : Op → State
  | .edit w ps => { s with working := w, pats := ps }
  | .addAll =>
    match stageAll false s.pats s.staged s.working with
    | .ok st => { s with staged := st }
    | .error _ => s
  | .addNames ns =>
    match stageTables false s.pats ns s.staged s.working with
    | .ok st => { s with staged := st }
    | .error _ => s
  | .commitAll =>
    match commitAll s.pats s.head s.staged s.working with
    | .ok (h, st) => { s with head := h, staged := st }
    | .error _ => s
  | .commitModified =>
    let st := stageModified s.staged s.working
    if st.sameAs s.head then s else { s with head := st, staged := st }
  | .clean respect names =>
    match clean respect s.pats [] names s.staged s.working with
    | .ok w => { s with working := w }
    | .error _ => s

def run (s : State) (ops : List Op) : State := ops.foldl step s

end DoltVerif.Ignore
