/-
`prolly.MutableMap` (go/store/prolly/tuple_mutable_map.go, tree/mutable_map.go, skip/list.go):
pending edits in a skip list with checkpoint/revert, flush at `maxPending`, stash.  Core-only.

The skip list never updates in place: every `Put` appends a node (an overwrite too), and the
checkpoint is a position in that append-only log.  The model keeps exactly that log.
-/
import DoltVerif.Model.Mutate
import DoltVerif.Model.Cursor
namespace DoltVerif.Prolly
open DoltVerif.SortedDict (Edits)

variable {σ κ ν β : Type}

/-- `skip.List`: `log` = `nodes[1:]` in creation order, `cp` = `checkpoint - 1` -/
structure EditLog (κ ν : Type) where
  log : List (κ × Option ν) := []
  cp : Nat := 0

namespace EditLog

/-- the list's content: key-sorted, last write per key (what `IterAtStart` walks) -/
def insertSorted (cmp : κ → κ → Ordering) : List (κ × Option ν) → κ × Option ν → List (κ × Option ν)
  | [], e => [e]
  | x :: xs, e =>
    match cmp e.1 x.1 with
    | .lt => e :: x :: xs
    | .eq => e :: xs
    | .gt => x :: insertSorted cmp xs e

def view (cmp : κ → κ → Ordering) (l : EditLog κ ν) : Edits κ ν :=
  l.log.foldl (insertSorted cmp) []

/-- `List.Count()` -/
def count (cmp : κ → κ → Ordering) (l : EditLog κ ν) : Nat := (l.view cmp).length

def put (l : EditLog κ ν) (k : κ) (v : Option ν) : EditLog κ ν := { l with log := l.log ++ [(k, v)] }

/-- `List.Get` -/
def get (cmp : κ → κ → Ordering) (l : EditLog κ ν) (k : κ) : Option (κ × Option ν) :=
  (l.view cmp).find? (fun e => cmp k e.1 == .eq)

/-- `Checkpoint()`: `checkpoint = nextNodeId()` -/
def checkpoint (l : EditLog κ ν) : EditLog κ ν := { l with cp := l.log.length }

/-- `HasCheckpoint()`: `checkpoint > 1` -/
def hasCheckpoint (l : EditLog κ ν) : Bool := l.cp > 0

/-- `Revert()`: keep `nodes[1:cp]`, re-put them, keep the checkpoint -/
def revert (l : EditLog κ ν) : EditLog κ ν := { log := l.log.take l.cp, cp := l.cp }

/-- `Truncate()` -/
def truncate (_ : EditLog κ ν) : EditLog κ ν := { log := [], cp := 0 }

end EditLog

/-- `GenericMutableMap`: `tuples = {Static, Edits}`, `stash`, `maxPending`.
`aliased`: after `Revert` with a stash, `mut.tuples = *mut.stash` makes the live edit list and
the stashed one the same `*skip.List`; further puts are then visible through the stash. -/
structure MutMap (κ ν : Type) where
  tree : Tree κ ν
  edits : EditLog κ ν := {}
  stash : Option (Tree κ ν × EditLog κ ν) := none
  aliased : Bool := false
  maxPending : Nat

inductive MMErr where
  | build (e : BuildErr)
  deriving Repr

namespace MutMap
variable [BEq κ] [BEq ν] [Inhabited κ]

/-- `ApplyMutationsWithSerializer`: the pending edits applied to the static tree -/
def materialize (C : Cfg σ κ ν) (cmp : κ → κ → Ordering) (m : MutMap κ ν) : Except BuildErr (Tree κ ν) :=
  applyMutations C cmp m.tree (m.edits.view cmp)

/-- `flushPending(deep = false)` -/
def flush (C : Cfg σ κ ν) (cmp : κ → κ → Ordering) (m : MutMap κ ν) : Except BuildErr (MutMap κ ν) := do
  let stash := if m.edits.hasCheckpoint then some (m.tree, m.edits.revert) else m.stash
  let aliased := if m.edits.hasCheckpoint then false else m.aliased
  let t ← m.materialize C cmp
  -- `Edits.Truncate()` empties the live list; if it is the stashed list too, that one as well
  let stash := if aliased then stash.map (fun s => (s.1, s.2.truncate)) else stash
  pure { m with tree := t, edits := m.edits.truncate, stash := stash, aliased := aliased }

/-- `Put`: insert, then flush when `Edits.Count() > maxPending` -/
def put (C : Cfg σ κ ν) (cmp : κ → κ → Ordering) (m : MutMap κ ν) (k : κ) (v : ν) : Except BuildErr (MutMap κ ν) :=
  let stash := if m.aliased then m.stash.map (fun s => (s.1, s.2.put k (some v))) else m.stash
  let m' := { m with edits := m.edits.put k (some v), stash := stash }
  if m'.edits.count cmp > m'.maxPending then m'.flush C cmp else .ok m'

/-- `Delete`: a `nil` value in the edit list; never flushes -/
def delete (m : MutMap κ ν) (k : κ) : MutMap κ ν :=
  let stash := if m.aliased then m.stash.map (fun s => (s.1, s.2.put k none)) else m.stash
  { m with edits := m.edits.put k none, stash := stash }

/-- `Checkpoint` -/
def checkpoint (m : MutMap κ ν) : MutMap κ ν :=
  { m with stash := none, aliased := false, edits := m.edits.checkpoint }

/-- `Revert` -/
def revert (m : MutMap κ ν) : MutMap κ ν :=
  match m.stash with
  | some s => { m with tree := s.1, edits := s.2, aliased := true }
  | none => { m with edits := m.edits.revert }

/-- `MutableMap.Get` / `Has`: the edit list first, then the tree -/
def get (cmp : κ → κ → Ordering) (m : MutMap κ ν) (k : κ) : Option (κ × ν) :=
  match m.edits.get cmp k with
  | some (k', some v) => some (k', v)
  | some (_, none) => none
  | none => m.tree.get cmp k

/-- `mutableMapIter.Next` loop: merge the pending edits with the tree items, edits win, deletes drop -/
def mergeIter (cmp : κ → κ → Ordering) : List (κ × Option ν) → List (κ × ν) → List (κ × ν)
  | [], ps => ps
  | (k, some v) :: ms, [] => (k, v) :: mergeIter cmp ms []
  | (_, none) :: ms, [] => mergeIter cmp ms []
  | (ek, ev) :: ms, (pk, pv) :: ps =>
    match cmp pk ek with
    | .lt => (pk, pv) :: mergeIter cmp ((ek, ev) :: ms) ps
    | .gt => (match ev with | some v => [(ek, v)] | none => []) ++ mergeIter cmp ms ((pk, pv) :: ps)
    | .eq => (match ev with | some v => [(ek, v)] | none => []) ++ mergeIter cmp ms ps
termination_by ms ps => ms.length + ps.length

/-- `MutableMap.IterRange(rng)`: `treeIterFromRange` merged with `memIterFromRange`, then `filteredIter` -/
def iterRange (cmp : κ → κ → Ordering) (fcmp : FieldCmp κ β) (m : MutMap κ ν) (r : List (RangeField β)) :
    Option (List (κ × ν)) :=
  match seekPath (rangeStartSearch fcmp r) m.tree.height m.tree.root,
      seekPath (rangeStopSearch fcmp r) m.tree.height m.tree.root with
  | some lo, some hi =>
    match m.tree.iterPaths lo hi with
    | none => none
    | some items =>
      let mem := ((m.edits.view cmp).dropWhile (fun e => !aboveStart fcmp e.1 0 r)).takeWhile
        (fun e => belowStop fcmp e.1 0 r)
      some ((mergeIter cmp mem items).filter (fun kv => rangeMatches fcmp kv.1 0 r))
  | _, _ => none

end MutMap

end DoltVerif.Prolly

namespace DoltVerif.Prolly
open DoltVerif.SortedDict (MOp applyEdits)
variable {σ κ ν : Type} [BEq κ] [BEq ν] [Inhabited κ]

/-- one public operation of `prolly.MutableMap` -/
def MutMap.step (C : Cfg σ κ ν) (cmp : κ → κ → Ordering) (m : MutMap κ ν) : MOp κ ν → Except BuildErr (MutMap κ ν)
  | .put k v => m.put C cmp k v
  | .del k => .ok (m.delete k)
  | .checkpoint => .ok m.checkpoint
  | .revert => .ok m.revert

def MutMap.run (C : Cfg σ κ ν) (cmp : κ → κ → Ordering) (m : MutMap κ ν) : List (MOp κ ν) → Except BuildErr (MutMap κ ν)
  | [] => .ok m
  | o :: os => match m.step C cmp o with
    | .ok m' => m'.run C cmp os
    | .error e => .error e

/-- the entries a mutable map presents: its static tree overlaid with its pending edits -/
def MutMap.content (cmp : κ → κ → Ordering) (m : MutMap κ ν) : List (κ × ν) :=
  applyEdits cmp m.tree.flatten (m.edits.view cmp)

end DoltVerif.Prolly
