/-
Model of dolt's stored JSON documents (C17), part 1: values, serialisation, parsing and the
in-memory reference semantics.

Transliteration of go-mysql-server sql/types/json_value.go
  walkPathAndUpdate / updateObject / updateArray / updateObjectTreatAsArray / parseIndex
  (the MySQL-semantics mutations SET / INSERT / REPLACE / REMOVE / ARRAY_APPEND / ARRAY_INSERT)
and of the storage text format `MarshallJsonValue` (Go encoding/json, compact, keys in byte order,
HTML escaping off).

Values: scalars are kept as their serialised text (`lit`): number formatting and string escaping are
Go's and are not modelled.  Object keys are kept as the escaped text between the quotes; `rawKey`
undoes Go's escapes (the set Go emits).  Paths arrive as legs (the harness builds the path text from
the legs, in the canonical syntax on which go-mysql-server's and dolt's path lexers agree).
Core-only (no Mathlib) so the driver links.
-/
namespace DoltVerif.JsonDoc

abbrev Bytes := List UInt8

inductive JsonVal where
  | lit (s : Bytes)
  | arr (xs : List JsonVal)
  | obj (kvs : List (Bytes × JsonVal))

instance : Inhabited JsonVal := ⟨.lit []⟩

def nullLit : JsonVal := .lit [0x6e, 0x75, 0x6c, 0x6c]

/-! ### byte strings -/

def bytesCmp : Bytes → Bytes → Ordering
  | [], [] => .eq
  | [], _ :: _ => .lt
  | _ :: _, [] => .gt
  | a :: s, b :: t => if a < b then .lt else if b < a then .gt else bytesCmp s t

def hexVal (c : UInt8) : Option Nat :=
  if 0x30 ≤ c ∧ c ≤ 0x39 then some (c.toNat - 0x30)
  else if 0x61 ≤ c ∧ c ≤ 0x66 then some (c.toNat - 0x61 + 10)
  else if 0x41 ≤ c ∧ c ≤ 0x46 then some (c.toNat - 0x41 + 10)
  else none

/-- undo the escapes Go's encoding/json emits inside a string (`none`: an escape outside that set) -/
def unescapeGo : Bytes → Option Bytes
  | [] => some []
  | 0x5c :: 0x22 :: t => (unescapeGo t).map (0x22 :: ·)
  | 0x5c :: 0x5c :: t => (unescapeGo t).map (0x5c :: ·)
  | 0x5c :: 0x2f :: t => (unescapeGo t).map (0x2f :: ·)
  | 0x5c :: 0x6e :: t => (unescapeGo t).map (0x0a :: ·)
  | 0x5c :: 0x72 :: t => (unescapeGo t).map (0x0d :: ·)
  | 0x5c :: 0x74 :: t => (unescapeGo t).map (0x09 :: ·)
  | 0x5c :: 0x62 :: t => (unescapeGo t).map (0x08 :: ·)
  | 0x5c :: 0x66 :: t => (unescapeGo t).map (0x0c :: ·)
  | 0x5c :: 0x75 :: a :: b :: c :: d :: t =>
    match hexVal a, hexVal b, hexVal c, hexVal d with
    | some a, some b, some c, some d =>
      let cp := a * 4096 + b * 256 + c * 16 + d
      if cp < 0x80 then (unescapeGo t).map (UInt8.ofNat cp :: ·)
      else if cp < 0x800 then
        (unescapeGo t).map (fun r => UInt8.ofNat (0xC0 + cp / 64) :: UInt8.ofNat (0x80 + cp % 64) :: r)
      else if 0xD800 ≤ cp ∧ cp ≤ 0xDFFF then none
      else (unescapeGo t).map (fun r =>
        UInt8.ofNat (0xE0 + cp / 4096) :: UInt8.ofNat (0x80 + cp / 64 % 64) :: UInt8.ofNat (0x80 + cp % 64) :: r)
    | _, _, _, _ => none
  | 0x5c :: _ => none
  | c :: t => (unescapeGo t).map (c :: ·)

def hexDigitLower (n : Nat) : UInt8 := if n < 10 then UInt8.ofNat (0x30 + n) else UInt8.ofNat (0x61 + n - 10)

/-- Go's encoding/json string escaping with HTML escaping off (valid UTF-8 assumed; U+2028/9 escaped) -/
def escapeGo : Bytes → Bytes
  | [] => []
  | 0xE2 :: 0x80 :: 0xA8 :: t => [0x5c, 0x75, 0x32, 0x30, 0x32, 0x38] ++ escapeGo t
  | 0xE2 :: 0x80 :: 0xA9 :: t => [0x5c, 0x75, 0x32, 0x30, 0x32, 0x39] ++ escapeGo t
  | c :: t =>
    (if c = 0x22 then [0x5c, 0x22]
     else if c = 0x5c then [0x5c, 0x5c]
     else if c = 0x0a then [0x5c, 0x6e]
     else if c = 0x0d then [0x5c, 0x72]
     else if c = 0x09 then [0x5c, 0x74]
     else if c = 0x08 then [0x5c, 0x62]
     else if c = 0x0c then [0x5c, 0x66]
     else if c < 0x20 ∨ c = 0x7f then [0x5c, 0x75, 0x30, 0x30, hexDigitLower (c.toNat / 16), hexDigitLower (c.toNat % 16)]
     else [c]) ++ escapeGo t

/-- the Go string a stored key denotes (keys with escapes outside Go's set keep their text) -/
def rawKey (k : Bytes) : Bytes := (unescapeGo k).getD k

/-! ### serialisation (the stored text) -/

mutual
def serialize : JsonVal → Bytes
  | .lit s => s
  | .arr xs => 0x5b :: serArr xs ++ [0x5d]
  | .obj kvs => 0x7b :: serObj kvs ++ [0x7d]
def serArr : List JsonVal → Bytes
  | [] => []
  | [x] => serialize x
  | x :: y :: t => serialize x ++ 0x2c :: serArr (y :: t)
def serObj : List (Bytes × JsonVal) → Bytes
  | [] => []
  | [(k, v)] => 0x22 :: k ++ 0x22 :: 0x3a :: serialize v
  | (k, v) :: kv :: t => 0x22 :: k ++ 0x22 :: 0x3a :: serialize v ++ 0x2c :: serObj (kv :: t)
end

/-! ### parsing the stored text (compact JSON as Go writes it; white space is skipped) -/

def isWs (c : UInt8) : Bool := c = 0x20 || c = 0x0a || c = 0x0d || c = 0x09

def skipWs (b : Bytes) : Bytes := b.dropWhile isWs

/-- the body of a string up to its closing quote (an escape takes two bytes), and what follows it -/
def strBody : Bytes → Option (Bytes × Bytes)
  | [] => none
  | 0x22 :: t => some ([], t)
  | 0x5c :: c :: t => (strBody t).map (fun br => (0x5c :: c :: br.1, br.2))
  | c :: t => if c = 0x5c then none else (strBody t).map (fun br => (c :: br.1, br.2))

def isDelim (c : UInt8) : Bool := c = 0x2c || c = 0x5d || c = 0x7d || isWs c

def slice (buf : ByteArray) (a b : Nat) : Bytes := (buf.extract a b).toList

mutual
def parseVal : Nat → Bytes → Option (JsonVal × Bytes)
  | 0, _ => none
  | f+1, b0 =>
    match skipWs b0 with
    | [] => none
    | 0x22 :: t =>
      match strBody t with
      | some (body, r) => some (.lit (0x22 :: body ++ [0x22]), r)
      | none => none
    | 0x5b :: t =>
      match skipWs t with
      | 0x5d :: r => some (.arr [], r)
      | t' => match parseElems f t' with
        | some (xs, r) => some (.arr xs, r)
        | none => none
    | 0x7b :: t =>
      match skipWs t with
      | 0x7d :: r => some (.obj [], r)
      | t' => match parseMembers f t' with
        | some (kvs, r) => some (.obj kvs, r)
        | none => none
    | c :: t =>
      if isDelim c then none
      else some (.lit (c :: t.takeWhile (fun x => !isDelim x)), t.dropWhile (fun x => !isDelim x))
def parseElems : Nat → Bytes → Option (List JsonVal × Bytes)
  | 0, _ => none
  | f+1, b =>
    match parseVal f b with
    | none => none
    | some (v, r0) =>
      match skipWs r0 with
      | 0x2c :: r =>
        match parseElems f r with
        | some (xs, r') => some (v :: xs, r')
        | none => none
      | 0x5d :: r => some ([v], r)
      | _ => none
def parseMembers : Nat → Bytes → Option (List (Bytes × JsonVal) × Bytes)
  | 0, _ => none
  | f+1, b =>
    match skipWs b with
    | 0x22 :: t =>
      match strBody t with
      | none => none
      | some (k, r1) =>
        match skipWs r1 with
        | 0x3a :: r2 =>
          match parseVal f r2 with
          | none => none
          | some (v, r3) =>
            match skipWs r3 with
            | 0x2c :: r =>
              match parseMembers f r with
              | some (kvs, r') => some ((k, v) :: kvs, r')
              | none => none
            | 0x7d :: r => some ([(k, v)], r)
            | _ => none
        | _ => none
    | _ => none
end

def parse (b : Bytes) : Option JsonVal :=
  match parseVal (b.length + 2) b with
  | some (v, r) => if skipWs r = [] then some v else none
  | none => none

/-! ### the reference: go-mysql-server's in-memory mutations -/

inductive IdxSpec where
  | nat (n : Nat)
  | last
  | lastMinus (n : Nat)
  deriving DecidableEq, Repr

inductive Leg where
  | key (k : Bytes)          -- the Go string the path names (after the lexer's unescape)
  | idx (i : IdxSpec)
  deriving DecidableEq, Repr

inductive Mode where
  | set | insert | replace | remove | arrayAppend | arrayInsert
  deriving DecidableEq, Repr

inductive Err where
  | runtime        -- "Runtime error when processing json path"
  | notArrayCell   -- "A path expression is not a path to a cell in an array"
  | rootPath       -- "$" not allowed (Remove, ArrayInsert)
  deriving DecidableEq, Repr

/-- Go map read `doc[name]` -/
def objGet : List (Bytes × JsonVal) → Bytes → Option JsonVal
  | [], _ => none
  | (k, v) :: t, K => if rawKey k = K then some v else objGet t K

/-- Go map write `doc[name] = val`; the association list stays sorted by the Go strings (the order
`MarshallJsonValue` writes).  A new key is stored as Go would escape it. -/
def objSet : List (Bytes × JsonVal) → Bytes → JsonVal → List (Bytes × JsonVal)
  | [], K, v => [(escapeGo K, v)]
  | (k, w) :: t, K, v =>
    match bytesCmp (rawKey k) K with
    | .eq => (k, v) :: t
    | .gt => (escapeGo K, v) :: (k, w) :: t
    | .lt => (k, w) :: objSet t K v

def objDel : List (Bytes × JsonVal) → Bytes → List (Bytes × JsonVal)
  | [], _ => []
  | (k, w) :: t, K => if rawKey k = K then t else (k, w) :: objDel t K

structure IdxRes where
  index : Int
  underflow : Bool := false
  overflow : Bool := false

/-- `parseIndex(indexStr, lastIndex)` on an already lexed index -/
def parseIndex (s : IdxSpec) (lastIndex : Int) : IdxRes :=
  match s with
  | .last => { index := if lastIndex < 0 then 0 else lastIndex }
  | .lastMinus n =>
    let r := lastIndex - n
    if r < 0 then { index := 0, underflow := true } else { index := r }
  | .nat n => if (n : Int) > lastIndex then { index := lastIndex, overflow := true } else { index := n }

def insertAt (xs : List JsonVal) (i : Nat) (v : JsonVal) : List JsonVal := xs.take i ++ v :: xs.drop i

/-- `walkPathAndUpdate` / `updateObject` / `updateArray` / `updateObjectTreatAsArray` -/
def walk : List Leg → JsonVal → JsonVal → Mode → Except Err (JsonVal × Bool)
  | [], doc, v, mode =>
    match mode with
    | .set | .replace => .ok (v, true)
    | .insert => .ok (doc, false)
    | .arrayAppend =>
      match doc with
      | .arr xs => .ok (.arr (xs ++ [v]), true)
      | _ => .ok (.arr [doc, v], true)
    | .arrayInsert | .remove => .error .runtime
  | .key K :: rest, doc, v, mode =>
    match doc with
    | .obj kvs =>
      match rest with
      | [] =>
        if mode = .arrayAppend then
          match objGet kvs K with
          | none => .ok (doc, false)
          | some cur =>
            match cur with
            | .arr xs => .ok (.obj (objSet kvs K (.arr (xs ++ [v]))), true)
            | _ => .ok (.obj (objSet kvs K (.arr [cur, v])), true)
        else if mode = .arrayInsert then .error .notArrayCell
        else
          let destructive := (objGet kvs K).isSome
          if mode = .set || (!destructive && mode = .insert) || (destructive && mode = .replace) then
            .ok (.obj (objSet kvs K v), true)
          else if destructive && mode = .remove then .ok (.obj (objDel kvs K), true)
          else .ok (doc, false)
      | _ :: _ =>
        match walk rest ((objGet kvs K).getD nullLit) v mode with
        | .error e => .error e
        | .ok (newObj, changed) => if changed then .ok (.obj (objSet kvs K newObj), true) else .ok (doc, false)
    | _ => if mode = .arrayInsert then .error .notArrayCell else .ok (doc, false)
  | .idx spec :: rest, doc, v, mode =>
    match doc with
    | .arr xs =>
      let r := parseIndex spec ((xs.length : Int) - 1)
      if r.underflow && mode != .set then .ok (doc, false)
      else if (xs.length : Int) > r.index && !r.overflow then
        let i := r.index.toNat
        if rest.isEmpty && mode != .arrayAppend then
          if mode = .set || mode = .replace then .ok (.arr (xs.set i v), true)
          else if mode = .remove then .ok (.arr (xs.eraseIdx i), true)
          else if mode = .arrayInsert then .ok (.arr (insertAt xs i v), true)
          else .ok (doc, false)
        else
          match walk rest (xs.getD i nullLit) v mode with
          | .error e => .error e
          | .ok (nv, changed) => if changed then .ok (.arr (xs.set i nv), true) else .ok (doc, false)
      else if mode = .set || mode = .insert || mode = .arrayInsert then .ok (.arr (xs ++ [v]), true)
      else .ok (doc, false)
    | _ =>
      let r := parseIndex spec 0
      if r.underflow then
        if mode = .set || mode = .insert then .ok (.arr [v, doc], true) else .ok (doc, false)
      else if r.overflow then
        if mode = .set || mode = .insert then .ok (.arr [doc, v], true) else .ok (doc, false)
      else if mode = .set || mode = .replace then .ok (v, true)
      else if mode = .arrayAppend then .ok (.arr [doc, v], true)
      else .ok (doc, false)

/-- `JSONDocument.{Set,Insert,Replace,Remove,ArrayAppend,ArrayInsert}` on lexed legs -/
def refOp (mode : Mode) (legs : List Leg) (doc v : JsonVal) : Except Err (JsonVal × Bool) :=
  if legs.isEmpty && (mode = .remove || mode = .arrayInsert) then .error .rootPath
  else walk legs doc v mode

/-- plain path lookup (object member, in-range array cell; anything else finds nothing) -/
def refLookup : List Leg → JsonVal → Option JsonVal
  | [], doc => some doc
  | .key K :: rest, .obj kvs => match objGet kvs K with | some v => refLookup rest v | none => none
  | .idx spec :: rest, .arr xs =>
    let r := parseIndex spec ((xs.length : Int) - 1)
    if r.underflow || r.overflow || (xs.length : Int) ≤ r.index then none
    else match xs[r.index.toNat]? with | some v => refLookup rest v | none => none
  | _, _ => none

end DoltVerif.JsonDoc
