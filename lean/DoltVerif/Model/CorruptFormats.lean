import DoltVerif.Model.CorruptBytes
/-
C10 — panic-faithful transliterations of the other storage-file parsers
  go/store/nbs/file_manifest.go      parseManifest, parseV4Manifest, parseV5Manifest
  go/store/nbs/manifest.go           parseSpecs          go/store/hash/hash.go  MaybeParse / Parse
  go/store/nbs/journal_record.go     validateJournalRecord, readJournalRecord, processJournalRecordsReader
  go/store/nbs/journal_index_record.go processIndexRecords, readIndexLookup, readIndexMeta
  go/store/nbs/archive_reader.go     buildArchiveFooter (+ loadFooter's size arithmetic)
-/
namespace DoltVerif.Corrupt

/-! ## manifest -/
namespace Manifest

def colon : UInt8 := 0x3a

/-- `strings.Split(s, ":")` -/
def splitColon : Bytes → List Bytes
  | [] => [[]]
  | c :: rest =>
    match splitColon rest with
    | [] => [[c]]            -- unreachable: splitColon never returns []
    | hd :: tl => if c == colon then [] :: hd :: tl else (c :: hd) :: tl

/-- value of a character of dolt's base32 alphabet `0123456789abcdefghijklmnopqrstuv` -/
def b32val (c : UInt8) : Option Nat :=
  if 0x30 ≤ c ∧ c ≤ 0x39 then some (c.toNat - 0x30)
  else if 0x61 ≤ c ∧ c ≤ 0x76 then some (c.toNat - 0x61 + 10)
  else none

def hashStringLen : Nat := 32

/-- `hash.MaybeParse`: the regexp `^([0-9a-v]{32})$` then base32 decoding (20 bytes). -/
def maybeParseHash (s : Bytes) : Option Bytes :=
  if s.length ≠ hashStringLen then none else
  match s.mapM b32val with
  | none => none
  | some vs => some (natBE 20 (vs.foldl (fun acc v => acc * 32 + v) 0))

/-- `hash.Parse`: panics (d.PanicIfError) when the string is not a well-formed hash.  (No longer
called by the manifest parsers since the root-hash repair; kept for the record.) -/
def parseHash (s : Bytes) : R Bytes :=
  match maybeParseHash s with
  | some h => .ok h
  | none => panic

def digit (c : UInt8) : Option Nat := if 0x30 ≤ c ∧ c ≤ 0x39 then some (c.toNat - 0x30) else none

/-- `strconv.ParseUint(s, 10, 32)` -/
def parseUint32 (s : Bytes) : Option Nat :=
  if s.isEmpty then none else
  match s.mapM digit with
  | none => none
  | some ds =>
    let v := ds.foldl (fun acc d => acc * 10 + d) 0
    if v < two32 then some v else none

def parseSpecs : List Bytes → R (List (Bytes × Nat))
  | name :: cnt :: rest => do
    let some h := maybeParseHash name | throw .badHash
    let some c := parseUint32 cnt | throw .badCount
    let tl ← parseSpecs rest
    return (h, c) :: tl
  | _ => pure []              -- `len(tableInfo)/2` specs: a trailing odd element is ignored

structure Contents where
  vers : Nat
  nbf : Bytes
  lock : Bytes
  root : Bytes
  gcGen : Bytes
  specs : List (Bytes × Nat)
  deriving Repr

def prefixLen : Nat := 5

/-- Go `slices[i:]` / `slices[i]` on a `[]string` -/
def strsFrom (xs : List Bytes) (i : Nat) : R (List Bytes) := if i ≤ xs.length then .ok (xs.drop i) else panic
def strAt (xs : List Bytes) (i : Nat) : R Bytes := match xs[i]? with | some x => .ok x | none => panic

def parseV5 (m : Bytes) : R Contents := do
  let slices := splitColon m
  if slices.length < prefixLen - 1 ∨ slices.length % 2 ≠ 0 then throw .corruptManifest
  let specs ← parseSpecs (← strsFrom slices (prefixLen - 1))
  let some lock := maybeParseHash (← strAt slices 1) | throw .badHash
  let some gc := maybeParseHash (← strAt slices 3) | throw .badHash
  let some root := maybeParseHash (← strAt slices 2) | throw .badHash   -- (repaired: was hash.Parse, which panics)
  let nbf ← strAt slices 0
  return { vers := 5, nbf := nbf, lock := lock, root := root, gcGen := gc, specs := specs }

def parseV4 (m : Bytes) : R Contents := do
  let slices := splitColon m
  if slices.length < 3 ∨ slices.length % 2 = 0 then throw .corruptManifest
  let specs ← parseSpecs (← strsFrom slices 3)
  let some lock := maybeParseHash (← strAt slices 1) | throw .badHash
  let some root := maybeParseHash (← strAt slices 2) | throw .badHash   -- (repaired: was hash.Parse, which panics)
  let nbf ← strAt slices 0
  return { vers := 4, nbf := nbf, lock := lock, root := root, gcGen := List.replicate 20 0, specs := specs }

/-- the version-prefix loop of `parseManifest`: at most 8 one-byte reads up to the first ':' -/
def versionLoop : Nat → Bytes → Bytes → R (Bytes × Bytes)
  | 0, _, _ => .error .corruptManifest                    -- chars >= 8
  | _ + 1, [], _ => .error .eof                           -- r.Read at end of file
  | fuel + 1, c :: rest, acc => if c == colon then .ok (acc.reverse, rest) else versionLoop fuel rest (c :: acc)

def parseManifest (b : Bytes) : R Contents := do
  let (version, rest) ← versionLoop 8 b []
  if version == [0x34] then parseV4 rest
  else if version == [0x35] then parseV5 rest
  else throw .unknownVersion

end Manifest

/-! ## journal records -/
namespace Journal

def lenSz : Nat := 4
def tagSz : Nat := 1
def kindSz : Nat := 1
def addrSz : Nat := 20
def checksumSz : Nat := 4
def timestampSz : Nat := 8
def kindTag : Nat := 1
def addrTag : Nat := 2
def payloadTag : Nat := 3
def timestampTag : Nat := 4

/-- `validateJournalRecord(buf)`; `extra = cap(buf) - len(buf)`.  `true` = valid. -/
def validate (buf : Bytes) (extra : Nat) : R Bool :=
  if buf.length < lenSz + checksumSz then .ok false
  else
    match be32 buf with
    | .error e => .error e
    | .ok off0 =>
      if off0 > buf.length then .ok false                  -- int(off) > len(buf)
      else
        let off := sub32 off0 checksumSz                   -- uint32 `off -= journalRecChecksumSz`
        if ¬ (off ≤ buf.length + extra) then panic          -- buf[:off]   (bounded by cap(buf))
        else
          match goSliceFrom buf 0 buf.length off with       -- buf[off:]   (bounded by len(buf))
          | .error e => .error e
          | .ok tail =>
            match be32 tail with
            | .error e => .error e
            | .ok chk => .ok (crc32c (buf.take off) == chk)

structure Rec where
  length : Nat
  kind : Nat
  addr : Bytes
  payload : Bytes
  deriving Repr

/-- the field loop of `readJournalRecord` (`buf` = remaining bytes, `extra` = cap - len, constant
while the slice only advances from the front). -/
def readLoop : Nat → Bytes → Nat → Rec → R Rec
  | 0, _, _, r => .ok r
  | fuel + 1, buf, extra, r =>
    if buf.length > checksumSz then
      match buf with
      | [] => panic
      | tag :: b1 =>                                       -- tag := buf[0]; buf = buf[1:]
        if tag.toNat == kindTag then
          match b1 with
          | [] => panic                                    -- buf[0]
          | k :: b2 => readLoop fuel b2 extra { r with kind := k.toNat }
        else if tag.toNat == addrTag then
          if b1.length < addrSz then panic                 -- buf = buf[journalRecAddrSz:]
          else readLoop fuel (b1.drop addrSz) extra { r with addr := b1.take addrSz }
        else if tag.toNat == timestampTag then
          if b1.length < timestampSz then panic            -- readUint64(buf); buf = buf[8:]
          else readLoop fuel (b1.drop timestampSz) extra r
        else if tag.toNat == payloadTag then
          let sz := b1.length - checksumSz
          readLoop fuel (b1.drop sz) extra { r with payload := b1.take sz }
        else .error .unknownTag
    else if checksumSz ≤ buf.length + extra then .ok r     -- readUint32(buf[:journalRecChecksumSz])
    else panic

/-- `readJournalRecord(buf)` -/
def read (buf : Bytes) (extra : Nat) : R Rec := do
  let l ← be32 buf                                         -- readUint32(buf)
  let rest ← goSliceFrom buf 0 buf.length lenSz            -- buf = buf[journalRecLenSz:]
  readLoop (buf.length + 1) rest extra { length := l, kind := 0, addr := List.replicate 20 0, payload := [] }

/-- `processJournalRecordsReader` over a journal no longer than the bufio buffer (`buffSize`, so the
whole file is buffered by the first fill and `Peek` returns `b.buf[off:off+l]`):
(records handed to the callback with their offsets, terminal status). -/
def scanLoop (data : Bytes) (buffSize : Nat) : Nat → Nat → List (Nat × Rec) → List (Nat × Rec) × Option ParseError
  | 0, _, acc => (acc.reverse, none)
  | fuel + 1, off, acc =>
    let rem := data.drop off
    if rem.length < 4 then (acc.reverse, none) else
    let l := beNat (rem.take 4)
    if l == 0 then (acc.reverse, none)
    else if l > buffSize then (acc.reverse, none)
    else if rem.length < l then (acc.reverse, none)
    else
      let buf := rem.take l
      let extra := (max buffSize 16) - off - l
      match validate buf extra with
      | .error e => (acc.reverse, some e)
      | .ok false => (acc.reverse, none)
      | .ok true =>
        match read buf extra with
        | .error e => (acc.reverse, some e)
        | .ok r => scanLoop data buffSize fuel (off + l) ((off, r) :: acc)

def scan (data : Bytes) (buffSize : Nat) : List (Nat × Rec) × Option ParseError :=
  scanLoop data buffSize (data.length + 1) 0 []

end Journal

/-! ## journal index records -/
namespace JIndex

def lookupSz : Nat := 16 + 8 + 4
def lookupMetaSz : Nat := 8 + 8 + 4 + 20

structure Lookup where
  addr16 : Bytes
  offset : Nat
  length : Nat
  deriving Repr

structure Batch where
  start : Nat
  stop : Nat
  checksum : Nat
  computed : UInt32
  latest : Bytes
  lookups : List Lookup
  deriving Repr

/-- `readIndexLookup` after `io.ReadFull` filled the three fixed arrays (28 bytes available) -/
def readLookup (r1 : Bytes) : R Lookup := do
  let a ← goSlice r1 0 0 16
  let off ← be64 (← goSlice r1 0 16 24)
  let len ← be32 (← goSlice r1 0 24 28)
  return { addr16 := a, offset := off, length := len }

/-- `readIndexMeta` after `io.ReadFull` filled the four fixed arrays (40 bytes available) -/
def readMeta (r1 : Bytes) (crc : UInt32) (batch : List Lookup) : R Batch := do
  let st ← be64 (← goSlice r1 0 0 8)
  let en ← be64 (← goSlice r1 0 8 16)
  let ck ← be32 (← goSlice r1 0 16 20)
  let root ← goSlice r1 0 20 40
  return { start := st, stop := en, checksum := ck, computed := crc, latest := root, lookups := batch.reverse }

/-- `processIndexRecords(rd, sz, cb)` with a callback that accepts every batch.
Returns (batches, off, malformed?).  All reads are `io.ReadFull` on a stream into fixed-size
arrays: a short read is the benign end of a crash-truncated index, and only then are the arrays
decoded (`readLookup` / `readMeta` are written with the checked slice primitives so that the
no-panic theorem is a statement about the length guards, not a consequence of the types). -/
def loop : Nat → Bytes → Nat → Nat → Nat → UInt32 → List Lookup → List Batch → R (List Batch × Nat × Bool)
  | 0, _, _, off, _, _, _, acc => .ok (acc.reverse, off, false)
  | fuel + 1, rest, sz, off, batchOff, crc, batch, acc =>
    if off < sz then
      match rest with
      | [] => .ok (acc.reverse, off, false)                               -- ReadByte: io.EOF
      | tag :: r1 =>
        if tag == 0 then
          if r1.length < lookupSz then .ok (acc.reverse, off, false)      -- ErrUnexpectedEOF / EOF
          else
            match readLookup r1 with
            | .error e => .error e
            | .ok l =>
              loop fuel (r1.drop lookupSz) sz off (batchOff + 1 + lookupSz)
                ((l.addr16.foldl crcByte (crc ^^^ 0xFFFFFFFF)) ^^^ 0xFFFFFFFF) (l :: batch) acc
        else if tag == 1 then
          if r1.length < lookupMetaSz then .ok (acc.reverse, off, false)
          else
            match readMeta r1 crc batch with
            | .error e => .error e
            | .ok b => loop fuel (r1.drop lookupMetaSz) sz (off + (batchOff + 1) + lookupMetaSz) 0 0 [] (b :: acc)
        else .ok (acc.reverse, off, true)                                 -- ErrMalformedIndex
    else .ok (acc.reverse, off, false)

def process (data : Bytes) : R (List Batch × Nat × Bool) :=
  loop (data.length + 1) data data.length 0 0 0 [] []

end JIndex

/-! ## archive footer -/
namespace Archive

def footerSize : Nat := 8 + 4 + 4 + 4 + 64 * 3 + 1 + 7
def indexLenOffset : Nat := 0
def byteSpanOffset : Nat := 8
def chunkCountOffset : Nat := 12
def metaLenOffset : Nat := 16
def dataChkSumOffset : Nat := 20
def indexChkSumOffset : Nat := 84
def metaChkSumOffset : Nat := 148
def versionOffset : Nat := 212
def sigOffset : Nat := 213
def signature : Bytes := [0x44, 0x4f, 0x4c, 0x54, 0x41, 0x52, 0x43]
def versionMax : Nat := 3
def versionGiantIndex : Nat := 3

structure Footer where
  indexSize : Nat
  byteSpanCount : Nat
  chunkCount : Nat
  metadataSize : Nat
  formatVersion : Nat
  deriving Repr, DecidableEq

/-- `sha512Sum(buf[a:a+64])`: the slice → array conversion panics when the slice is shorter than 64 -/
def sum64 (buf : Bytes) (a : Nat) : R Unit := do
  let s ← goSlice buf 0 a (a + 64)
  if s.length < 64 then panic else pure ()

/-- `buildArchiveFooter(name, fileSize, buf)` -/
def buildFooter (buf : Bytes) : R Footer := do
  let v ← goIndex buf versionOffset
  let sig ← goSliceFrom buf 0 buf.length sigOffset
  if sig ≠ signature then throw .badSignature
  if v.toNat > versionMax then throw .badVersion
  let indexSize ←
    if v.toNat < versionGiantIndex then do
      let s ← goSlice buf 0 4 (4 + 4)
      be32 s
    else do
      let s ← goSlice buf 0 indexLenOffset (indexLenOffset + 8)
      be64 s
  let spans ← be32 (← goSlice buf 0 byteSpanOffset (byteSpanOffset + 4))
  let chunks ← be32 (← goSlice buf 0 chunkCountOffset (chunkCountOffset + 4))
  let metaSz ← be32 (← goSlice buf 0 metaLenOffset (metaLenOffset + 4))
  sum64 buf dataChkSumOffset
  sum64 buf indexChkSumOffset
  sum64 buf metaChkSumOffset
  return { indexSize := indexSize, byteSpanCount := spans, chunkCount := chunks, metadataSize := metaSz, formatVersion := v.toNat }

/-- `loadFooter(reader, name, fileSize)` on a file: the section reader sits at
`int64(fileSize - archiveFooterSize)` (uint64 subtraction), negative for a short file. -/
def loadFooter (file : Bytes) : R Footer :=
  if file.length < footerSize then .error .seek
  else buildFooter (file.drop (file.length - footerSize))

end Archive

end DoltVerif.Corrupt
