import DoltVerif.Model.Txn
/-
Declared constraints of a child table `c(pk, c0, c1, c2)` referencing a parent table `p(pk, v)` (C24) —
core Lean only.  Constraint kinds: PRIMARY KEY (by construction of `Root`), NOT NULL, CHECK (col >= k,
NULL passes), UNIQUE over a column list (rows with a NULL in the list never collide), FOREIGN KEY
(child column → parent primary key, NULL passes, ON DELETE RESTRICT).

Anchors: the SQL writer path rejects a statement that would violate a constraint
(`writer/prolly_table_writer.go`, `prolly_index_writer.go: ValidateKeyViolations`, go-mysql-server's
CHECK / NOT NULL / foreign-key editors).  Merge-time detection (`uniqValidator`, `nullValidator`,
`checkValidator`, `AddForeignKeyViolations`) is compared behaviourally only (see design/C24.md).
-/
namespace DoltVerif.TxnCons
open DoltVerif.Txn

structure Schema where
  notNull : List Nat := []
  checks : List (Nat × Int) := []      -- CHECK (col >= k)
  uniques : List (List Nat) := []
  fks : List Nat := []                  -- child columns referencing p(pk)
  deriving Repr

def cellAt (r : Row) (c : Nat) : Cell := match r[c]? with | some x => x | none => none

def notNullOk (sc : Schema) (r : Row) : Bool := sc.notNull.all (fun c => (cellAt r c).isSome)

def checkOk (sc : Schema) (r : Row) : Bool :=
  sc.checks.all (fun (c, k) => match cellAt r c with | some (.int i) => decide (k ≤ i) | _ => true)

def fkOk (sc : Schema) (p : Root) (r : Row) : Bool :=
  sc.fks.all (fun c => match cellAt r c with | some (.int i) => (get p i).isSome | some (.str _) => false | none => true)

/-- two rows collide on a unique key: all key cells non-NULL and equal -/
def clash (sc : Schema) (r r' : Row) : Bool :=
  sc.uniques.any (fun u => u.all (fun c => (cellAt r c).isSome && cellAt r c == cellAt r' c))

def clashesAny (sc : Schema) (c : Root) (k : Key) (r : Row) : Bool :=
  (dump c).any (fun (k', r') => k' != k && (clash sc r r' || clash sc r' r))

/-- some child row references parent key `k` -/
def referenced (sc : Schema) (c : Root) (k : Key) : Bool :=
  (dump c).any (fun (_, r) => sc.fks.any (fun col => cellAt r col == some (.int k)))

structure Db where
  p : Root
  c : Root

inductive COp where
  | cins (k : Key) (r : Row) | cupd (k : Key) (col : Nat) (v : Cell) | cdel (k : Key)
  | pins (k : Key) (r : Row) | pdel (k : Key)
  deriving Repr

inductive CRes where | ok | dupKey | notNull | check | fk
  deriving DecidableEq, Repr

/-- validation of one new child row version, in the order the engine reports errors -/
def validate (sc : Schema) (db : Db) (k : Key) (r : Row) : CRes :=
  if !notNullOk sc r then .notNull
  else if !checkOk sc r then .check
  else if !fkOk sc db.p r then .fk
  else if clashesAny sc db.c k r then .dupKey
  else .ok

def applyCOp (sc : Schema) (db : Db) : COp → Db × CRes
  | .cins k r =>
    match get db.c k with
    | some _ => (db, .dupKey)
    | none => match validate sc db k r with
      | .ok => ({ db with c := put k r db.c }, .ok)
      | e => (db, e)
  | .cupd k col v =>
    match get db.c k with
    | none => (db, .ok)
    | some r => match validate sc db k (setCol r col v) with
      | .ok => ({ db with c := put k (setCol r col v) db.c }, .ok)
      | e => (db, e)
  | .cdel k => ({ db with c := del k db.c }, .ok)
  | .pins k r =>
    match get db.p k with
    | some _ => (db, .dupKey)
    | none => ({ db with p := put k r db.p }, .ok)
  | .pdel k => if referenced sc db.c k then (db, .fk) else ({ db with p := del k db.p }, .ok)

def runCOps (sc : Schema) (db : Db) : List COp → Db
  | [] => db
  | op :: rest => runCOps sc (applyCOp sc db op).1 rest

/-- decidable whole-database evaluation (driver / oracle mirror) -/
def holdsB (sc : Schema) (db : Db) : Bool :=
  (dump db.c).all (fun (k, r) => notNullOk sc r && checkOk sc r && fkOk sc db.p r && !clashesAny sc db.c k r)

/-! ### merge-time validation (transaction merges and branch merges)

`merge/merge_prolly_rows.go`: while the three-way diff of a table is applied, `nullValidator`,
`checkValidator` and `uniqValidator` look at every diff that changes OUR row (`RightAdd`,
`RightModify`, `DivergentModifyResolved`): the new row version is checked for NULL in a NOT NULL
column, evaluated against the CHECK constraints and looked up in the unique indexes — a collision
records BOTH rows.  After all tables are merged `AddForeignKeyViolations(merged, ancestor)` walks
the ancestor→merged diff of every foreign key: deleted parent rows are looked up in the child's index
(`parentFkConstraintViolations`), added/modified child rows are looked up in the parent
(`childFkConstraintViolations`).  Everything found is recorded as a constraint-violation artifact of
the row; `validateWorkingSetForCommit` rejects the commit when there are artifacts and
`dolt_force_transaction_commit` is off.  Abstract-algorithm model over plain roots: the detection is
driven by the diffs only, never by a scan of the merged table. -/

/-- keys bound differently in two roots -/
def changedKeys (a m : Root) : List Key :=
  ((keys a ++ keys m).eraseDups).filter (fun k => !(get a k == get m k))

/-- null/check/unique validators on one diffed row of the merged child table -/
def rowViolates (sc : Schema) (m : Root) (k : Key) : Bool :=
  match get m k with
  | none => false
  | some r => !(notNullOk sc r && checkOk sc r) || clashesAny sc m k r

/-- `k` is the other row of a unique collision found while validating a diffed row -/
def uniqPartner (sc : Schema) (m : Root) (diffs : List Key) (k : Key) : Bool :=
  match get m k with
  | none => false
  | some r => diffs.any (fun k' => k' != k && match get m k' with
      | some r' => clash sc r r' || clash sc r' r
      | none => false)

/-- a child row references a parent key that the ancestor→merged diff deleted -/
def refsDeletedParent (sc : Schema) (deleted : List Key) (r : Row) : Bool :=
  sc.fks.any (fun col => deleted.any (fun j => cellAt r col == some (.int j)))

/-- the child keys that get a constraint-violation artifact: `S` = ancestor, `E` = ours, `M` = merged -/
def recordedViolations (sc : Schema) (pS cS cE pM cM : Root) : List Key :=
  let rowDiffs := changedKeys cE cM
  let childDiffs := changedKeys cS cM
  let parentDeleted := (changedKeys pS pM).filter (fun j => (get pM j).isNone)
  ((keys cM).eraseDups).filter (fun k =>
    (decide (k ∈ rowDiffs) && rowViolates sc cM k)
    || uniqPartner sc cM rowDiffs k
    || (decide (k ∈ childDiffs) && match get cM k with | some r => !fkOk sc pM r | none => false)
    || (match get cM k with | some r => refsDeletedParent sc parentDeleted r | none => false))

/-- full evaluation of one child row of a database (what the property demands of committed data) -/
def violatesB (sc : Schema) (p c : Root) (k : Key) : Bool :=
  match get c k with
  | none => false
  | some r => !(notNullOk sc r && checkOk sc r && fkOk sc p r) || clashesAny sc c k r

/-- `validateWorkingSetForCommit` after a merge: artifacts ⇒ rejected unless forced -/
def commitMerged (sc : Schema) (pS cS cE pM cM : Root) (force : Bool) : Option Db :=
  if (recordedViolations sc pS cS cE pM cM).isEmpty || force then some ⟨pM, cM⟩ else none

end DoltVerif.TxnCons
