/-
Model of dolt's AUTO_INCREMENT sequence tracker (C28).  Core-only.

Transliteration of go/libraries/doltcore/sqle/dsess/sequence_tracker.go (`SequenceTracker.Next`,
`Set`, `deepSet`, `validateBounds`) instantiated with `doltdb.AutoIncrementState` (a uint64:
`Next`, `GreaterThan`, `Merge` in go/libraries/doltcore/doltdb/table.go).

One tracker state per table name, shared by every session and every branch of the database: the
next value to hand out, `cur`.  An atomic step is the region `Next`/`Set` run under the per-table
mutex (`a.mm.Lock(relationName)` ... deferred release; `Tie/AutoInc.lean`), so a schedule of
concurrent sessions on any branches is a *sequence* of steps on `cur`; which session or branch a
step comes from does not enter the state.  A transaction rollback is not a step: nothing in the
tracker is undone.
-/
namespace DoltVerif.AutoInc

def maxU64 : Nat := 18446744073709551615

/-- `AutoIncrementState.Next` as used by `Next(nil)`: at MaxUint64 the state does not move (and the
`ok = false` result is ignored by the caller). -/
def nextNil (cur : Nat) : Nat × Nat :=
  if cur == maxU64 then (maxU64, cur) else (cur, cur + 1)

/-- `validateBounds(val, checkIncrement = false)`: the value fits the column type (`tmax` = largest
value of the column's integer type) -/
def inBounds (tmax v : Nat) : Bool := v ≤ tmax

/-- `Next(insertVal)` with an explicit value `v`: returns `v`; the sequence moves to `v+1` when
`v >= cur`, `v` is in bounds and `v+1` exists and is in bounds; to `v` itself when `v` is the last
value of the type; not at all when `v < cur` or `v` is out of bounds. -/
def nextGiven (tmax cur v : Nat) : Nat × Nat :=
  if cur > v then (v, cur)
  else if !inBounds tmax v then (v, cur)
  else if v != maxU64 && inBounds tmax (v + 1) then (v, v + 1)
  else (v, v)

/-- `Set` (ALTER TABLE ... AUTO_INCREMENT = v, also table edits that carry a sequence value):
raising is immediate when in bounds; otherwise `deepSet`: if the table accepts the value
(`TrySetSequenceState`), the tracker becomes the maximum of `v` and the value stored on every
other branch (`branchMax`), when in bounds. -/
def setSeq (tmax cur v branchMax : Nat) (accepts : Bool) : Nat :=
  if v > cur then (if inBounds tmax v then v else cur)
  else if !accepts then cur
  else
    let m := if v > branchMax then v else branchMax
    if inBounds tmax m then m else cur

inductive Op where
  | gen                                   -- INSERT with NULL/0/absent id
  | explicit (v : Nat)                    -- INSERT with an explicit id
  | set (v branchMax : Nat) (accepts : Bool)
  deriving Repr

/-- one atomic step: new tracker value and, for inserts, the id handed out (`true` = generated) -/
def step (tmax cur : Nat) : Op → Nat × Option (Nat × Bool)
  | .gen => let r := nextNil cur; (r.2, some (r.1, true))
  | .explicit v => let r := nextGiven tmax cur v; (r.2, some (r.1, false))
  | .set v bm acc => (setSeq tmax cur v bm acc, none)

/-- final tracker value of a schedule -/
def finalCur (tmax : Nat) : Nat → List Op → Nat
  | cur, [] => cur
  | cur, op :: ops => finalCur tmax (step tmax cur op).1 ops

/-- generated ids of a schedule, in linearization order -/
def gens (tmax : Nat) : Nat → List Op → List Nat
  | _, [] => []
  | cur, op :: ops =>
    match (step tmax cur op).2 with
    | some (v, true) => v :: gens tmax (step tmax cur op).1 ops
    | _ => gens tmax (step tmax cur op).1 ops

/-- no step of the schedule lowers the tracker (only a lowering `Set` can) -/
def NoLowering (tmax : Nat) : Nat → List Op → Prop
  | _, [] => True
  | cur, op :: ops => cur ≤ (step tmax cur op).1 ∧ NoLowering tmax (step tmax cur op).1 ops

end DoltVerif.AutoInc
