/-
Prolly tree as data (shared by C11–C14).  Core-only.

A prolly tree has uniform depth: every node stores its level, leaves are level 0 and an internal
node of level n+1 holds, per child, the child's last key, the child's subtree count and the
child's address (`tree.Node`: keys, values = addresses, subtree counts).  Addresses are modelled
as structural identity (the child itself) — content addressing, hash collisions not exhibited.
The depth is carried in the type: `NodeH κ ν n` is a node of level `n`, `ItemH κ ν n` one of its
items.  Recursion over trees is plain recursion on `n`.
-/
namespace DoltVerif.Prolly

/-- an item of a level-`n` node: a key/value pair at level 0, `(lastKey, subtreeCount, child)` above -/
def ItemH (κ ν : Type) : Nat → Type
  | 0 => κ × ν
  | n+1 => κ × Nat × List (ItemH κ ν n)

/-- a node (chunk) of level `n` = the list of its items -/
abbrev NodeH (κ ν : Type) (n : Nat) : Type := List (ItemH κ ν n)

/-- a tree: its root node together with the root's level (`Node.Level()`) -/
structure Tree (κ ν : Type) where
  height : Nat
  root : NodeH κ ν height

variable {κ ν : Type}

def mkInner {n : Nat} (k : κ) (cnt : Nat) (child : NodeH κ ν n) : ItemH κ ν (n+1) := (k, cnt, child)

/-- `Node.GetKey(i)` of an item -/
def keyOf : (n : Nat) → ItemH κ ν n → κ
  | 0, (k, _) => k
  | _+1, (k, _, _) => k

/-- `cursor.currentSubtreeSize`: 1 at a leaf, the stored subtree count above -/
def countOf : (n : Nat) → ItemH κ ν n → Nat
  | 0, _ => 1
  | _+1, (_, c, _) => c

def childOf {n : Nat} (it : ItemH κ ν (n+1)) : NodeH κ ν n := it.2.2

/-- `Node.TreeCount()` as written by the serializer: number of keys at a leaf, sum of the subtree counts above -/
def treeCount (n : Nat) (nd : NodeH κ ν n) : Nat := (nd.map (countOf n)).sum

/-- `getLastKey`; the nil key for an empty node (only the empty root is empty) -/
def lastKey [Inhabited κ] (n : Nat) (nd : NodeH κ ν n) : κ :=
  match nd.getLast? with
  | some it => keyOf n it
  | none => default

/-- `writeNewNode` → `novelNode{lastKey, treeCount, addr}`: the item a finished chunk contributes to its parent -/
def summary [Inhabited κ] (n : Nat) (nd : NodeH κ ν n) : ItemH κ ν (n+1) :=
  (lastKey n nd, treeCount n nd, nd)

/-- all key/value pairs below a node, in order -/
def flatten : (n : Nat) → NodeH κ ν n → List (κ × ν)
  | 0, nd => nd
  | n+1, nd => nd.flatMap (fun it => flatten n (childOf it))

def Tree.flatten (t : Tree κ ν) : List (κ × ν) := Prolly.flatten t.height t.root

/-- the nodes of level `n` below a list of level-`n+d` nodes, left to right -/
def descend : (d : Nat) → (n : Nat) → List (NodeH κ ν (n+d)) → List (NodeH κ ν n)
  | 0, _, nds => nds
  | d+1, n, nds => descend d n (nds.flatMap (fun nd => nd.map (fun it => childOf (n := n+d) it)))

/-- node shape for the wire: per level (root level first … leaf level last) the item counts of the nodes, left to right -/
def shapeAux : (n : Nat) → List (NodeH κ ν n) → List (List Nat)
  | 0, nds => [nds.map List.length]
  | n+1, nds => nds.map List.length :: shapeAux n (nds.flatMap (fun nd => nd.map childOf))

def Tree.shape (t : Tree κ ν) : List (List Nat) := shapeAux t.height [t.root]

/-- stored subtree counts per level (root level first, leaves excluded) -/
def countsAux : (n : Nat) → List (NodeH κ ν n) → List (List Nat)
  | 0, _ => []
  | n+1, nds => (nds.flatMap (fun nd => nd.map (countOf (n+1)))) :: countsAux n (nds.flatMap (fun nd => nd.map childOf))

def Tree.counts (t : Tree κ ν) : List (List Nat) := countsAux t.height [t.root]

/-- stored keys per level (root level first) -/
def keysAux : (n : Nat) → List (NodeH κ ν n) → List (List κ)
  | 0, nds => [nds.flatMap (fun nd => nd.map (keyOf 0))]
  | n+1, nds => (nds.flatMap (fun nd => nd.map (keyOf (n+1)))) :: keysAux n (nds.flatMap (fun nd => nd.map childOf))

end DoltVerif.Prolly
