/-
ManFs — protocol model for C05 (the manifest is replaced atomically and never names a missing table
file): a crash-aware directory and the actors that touch it, at the granularity of single file-system
operations.

Directory model (`Fs`): `vis` is what processes see; `dur` is what the last directory fsync made durable;
`pend` the directory operations (rename of a temp manifest over `manifest`, a table file renamed into
place, unlinks) performed since.  File *content* durability is a flag on the manifest content (`MFile`):
a temp manifest is created empty/partial, written, and `Sync`ed before it is renamed.  Table files are
written to a temp name, `Sync`ed and renamed (`fsTablePersister.writeAndProtect`); the model lands them in
one step with durable content (their *directory entry* is still pending).  A crash keeps a prefix
(`crashPrefix`) — or, in the unordered variant, any subsequence (`crashSubset`) — of `pend` and tears
unsynced content.

Actors (any number, `Sys.actors : Nat → Actor`):
* writer — one `fileManifest.Update` / `UpdateGCGen`: LOCK, temp file, `writeManifest`, `Sync`, read+parse the
  manifest, lock compare, `validate` (gcGen, `checkNewSpecsPresent`), `Rename`, `SyncDirectoryHandle`, unlock;
  every failure path removes the temp file and unlocks.  `new` and `lastLock` are arbitrary (commit, conjoin,
  `AddTableFiles`, GC swap are all this actor with different `new`).
* grace pruner — `pruneDirAsOf` → `unlinkUnderManifestLock` → `unlinkCandidates`: snapshot of candidates,
  LOCK, manifest read under the lock, keep = handle's upstream refs ∪ specs of the locked manifest, unlink of
  candidates outside keep, unlock.  Quiescence / mtime re-checks can only make it stop early (`pAbort`).
* cleaner — an unlink that does *not* take the LOCK: conjoin's cleanup func and the legacy
  `PruneTableFiles` (they consult only this process' `protected` set).
* land — any process renames a complete table file into the directory (no lock).
* crash.
Core Lean only.
-/
namespace DoltVerif.ManFs

abbrev Name := Nat

structure Man where
  lock : Nat
  root : Nat
  gcGen : Nat
  specs : List Name
deriving DecidableEq, Repr

/-- content of a manifest(-to-be) file -/
inductive MFile
  | partialW                               -- created / partially written / torn by a crash
  | complete (m : Man) (synced : Bool)
deriving DecidableEq, Repr

inductive DirOp
  | renameMan (f : MFile)       -- rename(temp, "manifest")
  | addTable (n : Name)         -- rename(temp table, n)
  | unlinkTable (n : Name)
deriving DecidableEq, Repr

structure Dir where
  manifest : Option MFile
  tables : List Name
deriving DecidableEq, Repr

def Dir.empty : Dir := { manifest := none, tables := [] }

def Dir.apply (d : Dir) : DirOp → Dir
  | .renameMan f => { d with manifest := some f }
  | .addTable n => { d with tables := if d.tables.contains n then d.tables else d.tables ++ [n] }
  | .unlinkTable n => { d with tables := d.tables.filter (· != n) }

def Dir.replay (d : Dir) (ops : List DirOp) : Dir := ops.foldl Dir.apply d

/-- a crash tears content that was never fsynced -/
def Dir.tear (d : Dir) : Dir :=
  match d.manifest with
  | some (.complete _ false) => { d with manifest := some .partialW }
  | _ => d

structure Fs where
  vis : Dir
  dur : Dir
  pend : List DirOp
deriving Repr

def Fs.empty : Fs := { vis := .empty, dur := .empty, pend := [] }

def Fs.op (fs : Fs) (o : DirOp) : Fs := { fs with vis := fs.vis.apply o, pend := fs.pend ++ [o] }

/-- `file.SyncDirectoryHandle(dir)` -/
def Fs.syncDir (fs : Fs) : Fs := { vis := fs.vis, dur := fs.vis, pend := [] }

/-- ordered-metadata crash model: a prefix of the pending directory operations survives -/
def Fs.crashPrefix (fs : Fs) (k : Nat) : Dir := (fs.dur.replay (fs.pend.take k)).tear

def maskOps : List DirOp → List Bool → List DirOp
  | o :: os, b :: bs => if b then o :: maskOps os bs else maskOps os bs
  | _, _ => []

/-- unordered crash model: any subsequence of the pending directory operations survives -/
def Fs.crashSubset (fs : Fs) (mask : List Bool) : Dir := (fs.dur.replay (maskOps fs.pend mask)).tear

/-- the table files a directory's manifest names (nothing if there is no complete manifest) -/
def Dir.specs (d : Dir) : List Name :=
  match d.manifest with
  | some (.complete m _) => m.specs
  | _ => []

/-! ### actors -/

inductive WPc
  | idle          -- before tryFileLock
  | locked        -- LOCK held
  | tempCreated   -- NewFile
  | written       -- writeManifest
  | synced        -- temp.Sync (+ Close); the write hook runs here
  | read          -- openIfExists + parseManifest
  | compared      -- lastLock == upstream.lock
  | validated     -- validate passed
  | renamed       -- file.Rename
  | dirSynced     -- file.SyncDirectoryHandle
deriving DecidableEq, Repr

/-- the source event each program counter value stands *after* (tied to `Gen.ManifestSteps`) -/
def WPc.label : WPc → String
  | .idle => "-"
  | .locked => "call:tryFileLock"
  | .tempCreated => "call:tempfiles.MovableTempFileProvider.NewFile"
  | .written => "call:writeManifest"
  | .synced => "call:temp.Sync"
  | .read => "call:parseManifest"
  | .compared => "if:lastLock != upstream.lock"
  | .validated => "call:validate"
  | .renamed => "call:file.Rename"
  | .dirSynced => "call:file.SyncDirectoryHandle"

/-- the writer's program, in order -/
def writerProgram : List WPc :=
  [.locked, .tempCreated, .written, .synced, .read, .compared, .validated, .renamed, .dirSynced]

structure Writer where
  lastLock : Nat
  new : Man
  gc : Bool               -- UpdateGCGen's checker (gcGen may change) instead of Update's
  pc : WPc
  tmp : Option MFile      -- content of this Update's temp file, if it exists
  seen : Option Man       -- the manifest parsed under the LOCK (none = no manifest file)
  journal : Bool := false -- `journalManifest.Update`: the process took the LOCK when it opened the store and keeps it for
                          -- its lifetime (no tryFileLock / Unlock per update) and the checker has no checkNewSpecsPresent
deriving DecidableEq, Repr

inductive PPc
  | idle
  | snapped      -- os.ReadDir snapshot taken, quiescence test passed
  | locked       -- lock(ctx): LOCK held
  | keeping      -- manifest read under the lock, keep set built
deriving DecidableEq, Repr

def PPc.label : PPc → String
  | .idle => "-"
  | .snapped => "call:os.ReadDir"
  | .locked => "call:lock"
  | .keeping => "call:unlinkCandidates"

def prunerProgram : List PPc := [.snapped, .locked, .keeping]

structure Pruner where
  upstream : List Name    -- what this store handle had rebased to (`nbs.upstreamReferences()`)
  cands : List Name
  keep : List Name
  pc : PPc
deriving DecidableEq, Repr

inductive Actor
  | none
  | writer (w : Writer)
  | pruner (p : Pruner)
  | cleaner (names : List Name)
deriving DecidableEq, Repr

structure Sys where
  fs : Fs
  lock : Option Nat
  actors : Nat → Actor

def Sys.init : Sys := { fs := .empty, lock := none, actors := fun _ => .none }

def Sys.setActor (s : Sys) (a : Nat) (x : Actor) : Sys :=
  { s with actors := fun b => if b = a then x else s.actors b }

def Sys.release (s : Sys) (a : Nat) : Sys :=
  { s with lock := if s.lock = some a then none else s.lock }

/-- leave: the failure paths (`defer file.Remove(temp)`, deferred `Unlock`) and normal termination -/
def Sys.leave (s : Sys) (a : Nat) : Sys := (s.release a).setActor a .none

/-- a journal-manifest update ends without touching the LOCK (it is released by `jRelease` when the store is closed) -/
def Sys.leaveW (s : Sys) (a : Nat) (w : Writer) : Sys := if w.journal then s.setActor a .none else s.leave a

inductive Step
  | land (n : Name)
  | spawnWriter (a : Nat) (lastLock : Nat) (new : Man) (gc : Bool)
  | spawnPruner (a : Nat) (upstream : List Name)
  | spawnCleaner (a : Nat) (names : List Name)
  | w (a : Nat)                    -- the (file-manifest) writer's next program step
  | jw (a : Nat)                   -- the journal-manifest writer's next program step
  | wFail (a : Nat)                -- I/O error, hook error or LOCK timeout at the current point
  | p (a : Nat)                    -- the pruner's next program step
  | pUnlink (a : Nat) (n : Name)
  | pAbort (a : Nat)
  | cUnlink (a : Nat) (n : Name)
  | retire (a : Nat)
  | crash (k : Nat)
  | spawnJournalWriter (a : Nat) (lastLock : Nat) (new : Man) (gc : Bool)   -- an Update of the process that owns the LOCK
  | jAcquire (a : Nat)             -- `newJournalLock`: a journaling store takes the LOCK when it is opened …
  | jRelease (a : Nat)             -- … and releases it when it is closed
deriving Repr

def seenLock (seen : Option Man) : Nat := match seen with | none => 0 | some m => m.lock
def seenSpecs (seen : Option Man) : List Name := match seen with | none => [] | some m => m.specs
def seenGc (seen : Option Man) : Nat := match seen with | none => 0 | some m => m.gcGen

/-- `checkNewSpecsPresent`: every spec the manifest read under the lock does not carry must be in the directory -/
def specsPresent (d : Dir) (seen : Option Man) (new : Man) : Bool :=
  new.specs.all fun t => (seenSpecs seen).contains t || d.tables.contains t

def Sys.wStep (s : Sys) (a : Nat) (w : Writer) : Sys :=
  match w.pc with
  | .idle =>
    if (if w.journal then s.lock = some a else s.lock = none) then
      { s with lock := some a }.setActor a (.writer { w with pc := .locked })
    else s
  | .locked => s.setActor a (.writer { w with pc := .tempCreated, tmp := some .partialW })
  | .tempCreated =>
    if w.new.lock = 0 then s.leaveW a w          -- writeManifest: "Lock hash cannot be empty"
    else s.setActor a (.writer { w with pc := .written, tmp := some (.complete w.new false) })
  | .written => s.setActor a (.writer { w with pc := .synced, tmp := some (.complete w.new true) })
  | .synced =>
    match s.fs.vis.manifest with
    | none => s.setActor a (.writer { w with pc := .read, seen := none })
    | some (.complete m _) => s.setActor a (.writer { w with pc := .read, seen := some m })
    | some .partialW => s.leaveW a w               -- parse error
  | .read =>
    if w.lastLock ≠ seenLock w.seen then s.leaveW a w                           -- stale: returns upstream
    else s.setActor a (.writer { w with pc := .compared })
  | .compared =>
    if (w.gc || w.new.gcGen == seenGc w.seen) && (w.journal || specsPresent s.fs.vis w.seen w.new) then
      s.setActor a (.writer { w with pc := .validated })
    else s.leaveW a w
  | .validated =>
    match w.tmp with
    | some f => { s with fs := s.fs.op (.renameMan f) }.setActor a (.writer { w with pc := .renamed, tmp := none })
    | none => s.leaveW a w
  | .renamed => { s with fs := s.fs.syncDir }.setActor a (.writer { w with pc := .dirSynced })
  | .dirSynced => s.leaveW a w

def Sys.pStep (s : Sys) (a : Nat) (p : Pruner) : Sys :=
  match p.pc with
  | .idle => s.setActor a (.pruner { p with pc := .snapped, cands := s.fs.vis.tables })
  | .snapped =>
    if s.lock = none then { s with lock := some a }.setActor a (.pruner { p with pc := .locked }) else s
  | .locked =>
    match s.fs.vis.manifest with
    | none => s.setActor a (.pruner { p with pc := .keeping, keep := p.upstream })
    | some (.complete m _) => s.setActor a (.pruner { p with pc := .keeping, keep := p.upstream ++ m.specs })
    | some .partialW => s.leave a
  | .keeping => s.leave a

def Sys.step (s : Sys) : Step → Sys
  | .land n => { s with fs := s.fs.op (.addTable n) }
  | .spawnWriter a l new gc =>
    match s.actors a with
    | .none => s.setActor a (.writer { lastLock := l, new := new, gc := gc, pc := .idle, tmp := none, seen := none })
    | _ => s
  | .spawnPruner a up =>
    match s.actors a with
    | .none => s.setActor a (.pruner { upstream := up, cands := [], keep := [], pc := .idle })
    | _ => s
  | .spawnCleaner a names =>
    match s.actors a with
    | .none => s.setActor a (.cleaner names)
    | _ => s
  | .w a =>
    match s.actors a with
    | .writer w => if w.journal then s else s.wStep a w
    | _ => s
  | .jw a =>
    match s.actors a with
    | .writer w => if w.journal then s.wStep a w else s
    | _ => s
  | .wFail a =>
    match s.actors a with
    | .writer w => if w.pc = .renamed ∨ w.pc = .dirSynced then s else s.leaveW a w   -- after the rename errors are fatal, not modelled
    | _ => s
  | .p a =>
    match s.actors a with
    | .pruner p => s.pStep a p
    | _ => s
  | .pUnlink a n =>
    match s.actors a with
    | .pruner p =>
      if p.pc = .keeping ∧ p.cands.contains n ∧ !p.keep.contains n then { s with fs := s.fs.op (.unlinkTable n) } else s
    | _ => s
  | .pAbort a =>
    match s.actors a with
    | .pruner _ => s.leave a
    | _ => s
  | .cUnlink a n =>
    match s.actors a with
    | .cleaner names => if names.contains n then { s with fs := s.fs.op (.unlinkTable n) } else s
    | _ => s
  | .retire a =>
    match s.actors a with
    | .cleaner _ => s.setActor a .none
    | _ => s
  | .spawnJournalWriter a l new gc =>
    match s.actors a with
    | .none => s.setActor a (.writer { lastLock := l, new := new, gc := gc, pc := .idle, tmp := none, seen := none, journal := true })
    | _ => s
  | .jAcquire a => if s.lock = none then { s with lock := some a } else s
  | .jRelease a =>
    match s.actors a with
    | .none => s.release a
    | _ => s
  | .crash k =>
    { fs := { vis := s.fs.crashPrefix k, dur := s.fs.crashPrefix k, pend := [] }, lock := none, actors := fun _ => .none }

def Sys.run (s : Sys) : List Step → Sys
  | [] => s
  | st :: sts => Sys.run (s.step st) sts

end DoltVerif.ManFs
