/-
Model of Go's lexical `path/filepath.Clean` on Unix (C39).

Transliteration of `internal/filepathlite.Clean` (Go 1.26; `volumeNameLen = 0`, `Separator = '/'`,
`postClean` is a no-op and `FromSlash` the identity on Unix):

    rooted := path[0] == '/'
    out := lazybuf; r, dotdot := 0, 0
    if rooted { out.append('/'); r, dotdot = 1, 1 }
    for r < n { switch {
      case path[r] == '/':                                   r++
      case path[r] == '.' && (r+1 == n || path[r+1] == '/'):  r++
      case path[r] == '.' && path[r+1] == '.' && (r+2 == n || path[r+2] == '/'):
          r += 2
          switch { case out.w > dotdot: out.w--; for out.w > dotdot && out[out.w] != '/' { out.w-- }
                   case !rooted: if out.w > 0 { out.append('/') }; out.append("..") ; dotdot = out.w }
      default: if rooted && out.w != 1 || !rooted && out.w != 0 { out.append('/') }
               for ; r < n && path[r] != '/'; r++ { out.append(path[r]) } } }
    if out.w == 0 { out.append('.') }

The model keeps the write buffer as the list of the `out.w` bytes written so far (the lazybuf is
only an allocation optimisation) and the unread input `path[r:]` as a list.  Core-only.
-/
namespace DoltVerif.PathClean

abbrev Bytes := List UInt8

def slash : UInt8 := 0x2f
def dot : UInt8 := 0x2e

/-- `out.w--; for out.w > dotdot && !IsPathSeparator(out.index(out.w)) { out.w-- }`.
`w` is the current `out.w`; the result is the new `out.w`.  `out.index(i)` is byte `i` of the
bytes written so far. -/
def backW (out : Bytes) (dotdot : Nat) : Nat → Nat
  | 0 => 0
  | w+1 => if w > dotdot && out.getD w 0 != slash then backW out dotdot w else w

/-- the `..` backtrack: truncate the buffer to the new `out.w` -/
def back (out : Bytes) (dotdot : Nat) : Bytes := out.take (backW out dotdot out.length)

/-- `for ; r < n && !IsPathSeparator(path[r]); r++ { out.append(path[r]) }` : (copied, unread) -/
def copyElem : Bytes → Bytes × Bytes
  | [] => ([], [])
  | c :: rest => if c == slash then ([], c :: rest) else
      let (e, r) := copyElem rest
      (c :: e, r)

theorem copyElem_length_le (s : Bytes) : (copyElem s).2.length ≤ s.length := by
  induction s with
  | nil => simp [copyElem]
  | cons c rest ih =>
    unfold copyElem
    split
    · simp
    · simp only [List.length_cons]; omega

/-- the main `for r < n` loop; `rest = path[r:]`. Returns the final buffer. -/
def loop (rooted : Bool) (rest : Bytes) (out : Bytes) (dotdot : Nat) : Bytes :=
  match rest with
  | [] => out
  | c :: t =>
    if c == slash then loop rooted t out dotdot
    else if c == dot && (t.isEmpty || t.head? == some slash) then loop rooted t out dotdot
    else if c == dot && t.head? == some dot && (t.tail.isEmpty || t.tail.head? == some slash) then
      if out.length > dotdot then loop rooted t.tail (back out dotdot) dotdot
      else if !rooted then
        let out' := (if out.length > 0 then out ++ [slash] else out) ++ [dot, dot]
        loop rooted t.tail out' out'.length
      else loop rooted t.tail out dotdot
    else
      let out1 := if (rooted && out.length != 1) || (!rooted && out.length != 0) then out ++ [slash] else out
      let er := copyElem t
      loop rooted er.2 (out1 ++ c :: er.1) dotdot
termination_by rest.length
decreasing_by
  all_goals simp_wf
  all_goals first
    | omega
    | (have := copyElem_length_le t; omega)
    | (cases t <;> simp <;> omega)

/-- `filepath.Clean` (Unix). -/
def clean (path : Bytes) : Bytes :=
  match path with
  | [] => [dot]
  | c :: t =>
    let out := if c == slash then loop true t [slash] 1 else loop false (c :: t) [] 0
    if out.isEmpty then [dot] else out

/-- split on '/' (like `strings.Split(s, "/")`) -/
def splitSlash : Bytes → List Bytes
  | [] => [[]]
  | c :: rest =>
    if c == slash then [] :: splitSlash rest
    else match splitSlash rest with
      | [] => [[c]]    -- unreachable: splitSlash never returns []
      | h :: tl => (c :: h) :: tl

/-- `strings.Join(comps, "/")` -/
def joinSlash : List Bytes → Bytes
  | [] => []
  | [c] => c
  | c :: rest => c ++ slash :: joinSlash rest

def dotdot : Bytes := [dot, dot]

end DoltVerif.PathClean
