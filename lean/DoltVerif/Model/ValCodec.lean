/-
ValCodec — model of `go/store/val` field codecs, tuple layout and tuple comparison (C15).

Style: transliteration.  Every `read*/write*/compare*` function of codec.go, `NewTuple`,
`trimNullSuffix`, `Tuple.GetField/Count`, `makeFixedAccess`, `TupleDesc.GetField`,
`DefaultTupleComparator.Compare` and `compare` has a definition here with the same branches.
Go panics are mapped to `Except.error` with a small closed class (`Err`).

Conventions
* bytes are `List UInt8`; a field is `Option Bytes` (`none` = Go `nil` = SQL NULL; `some []` is
  the non-nil empty slice, which Go treats as non-NULL in `trimNullSuffix`/`isNull` but which
  reads back as NULL — see `Props/C15.lean`, `canonical_needs_nonempty`).
* little endian is `leBytes`/`leNat` (the arithmetic definition of `binary.LittleEndian`).
* floats are carried as bit patterns; `f32Key/f64Key` define IEEE order on the bits.
* `time.Date(y, m, d)` is modelled by `civilDays` (absolute day number, month normalisation
  as in Go), which is all that `compareDate` observes.
Core Lean only (this file is linked into the model driver).
-/
namespace DoltVerif.ValCodec

abbrev Bytes := List UInt8

inductive Err
  | size            -- expectSize panic
  | unknownEnc      -- panic("unknown encoding")
  | needsValueStore -- adaptive encodings: comparison goes through the ValueStore (C16)
  | decimalSpecial  -- panic("unable to read decimal value")
  | yearRange       -- panic("year is outside of allowed range")
  | slice           -- Go slice-bounds / index panic
  | malformed       -- panic("malformed tuple") / offsets region larger than the tuple
  | fieldRange      -- panic("tuple field out of range")
  | tooManyFields   -- panic("tuple field maxIdx exceeds maximum")
  | dataTooLarge    -- panic("tuple data size exceeds maximum") (or the wrapped-uint16 slice panic)
  | fieldTooLong    -- a single field ≥ 64 KiB: outside the model (ByteSize truncation)
  | nullInNonNull   -- panic("cannot write NULL to non-NULL field")
  | domain          -- value outside the encoding's domain (driver only)
  deriving DecidableEq, Repr

def Err.name : Err → String
  | .size => "size" | .unknownEnc => "unknown-enc" | .needsValueStore => "needs-vs"
  | .decimalSpecial => "decimal-special" | .yearRange => "year-range" | .slice => "slice"
  | .malformed => "malformed" | .fieldRange => "field-range" | .tooManyFields => "too-many-fields"
  | .dataTooLarge => "data-too-large" | .fieldTooLong => "field-too-long"
  | .nullInNonNull => "null-in-nonnull" | .domain => "domain"

/-! ## little endian / big endian -/

/-- `n` little-endian bytes of `v` (truncating). -/
def leBytes : Nat → Nat → Bytes
  | 0, _ => []
  | n + 1, v => UInt8.ofNat (v % 256) :: leBytes n (v / 256)

def leNat : Bytes → Nat
  | [] => 0
  | b :: bs => b.toNat + 256 * leNat bs

/-- big-endian value of a byte string (`big.Int.SetBytes`). -/
def beNat (bs : Bytes) : Nat := bs.foldl (fun acc b => acc * 256 + b.toNat) 0

/-- `n` big-endian bytes of `v` (`big.Int.FillBytes` into a buffer of `n` bytes). -/
def beBytes (n v : Nat) : Bytes := (leBytes n v).reverse

/-! ## encodings -/

inductive Enc
  | int8 | uint8 | int16 | uint16 | int32 | uint32 | int64 | uint64 | float32 | float64
  | bit64 | hash128 | year | date | time | datetime | enum | set
  | bytesAddr | commitAddr | stringAddr | jsonAddr | cell | geomAddr | extendedAddr
  | string | bytes | decimal | json | geometry | extended
  | stringAdaptive | bytesAdaptive | extendedAdaptive | geomAdaptive | jsonAdaptive
  deriving DecidableEq, Repr

def Enc.all : List Enc :=
  [.int8, .uint8, .int16, .uint16, .int32, .uint32, .int64, .uint64, .float32, .float64,
   .bit64, .hash128, .year, .date, .time, .datetime, .enum, .set,
   .bytesAddr, .commitAddr, .stringAddr, .jsonAddr, .cell, .geomAddr, .extendedAddr,
   .string, .bytes, .decimal, .json, .geometry, .extended,
   .stringAdaptive, .bytesAdaptive, .extendedAdaptive, .geomAdaptive, .jsonAdaptive]

/-- the `serial.Encoding*` byte of each encoding -/
def Enc.code : Enc → Nat
  | .int8 => 1 | .uint8 => 2 | .int16 => 3 | .uint16 => 4 | .int32 => 7 | .uint32 => 8
  | .int64 => 9 | .uint64 => 10 | .float32 => 11 | .float64 => 12 | .bit64 => 13
  | .hash128 => 14 | .year => 15 | .date => 16 | .time => 17 | .datetime => 18 | .enum => 19
  | .set => 20 | .bytesAddr => 21 | .commitAddr => 22 | .stringAddr => 23 | .jsonAddr => 24
  | .cell => 25 | .geomAddr => 26 | .extendedAddr => 27
  | .string => 128 | .bytes => 129 | .decimal => 130 | .json => 131 | .geometry => 133
  | .extended => 134 | .stringAdaptive => 135 | .bytesAdaptive => 136
  | .extendedAdaptive => 137 | .geomAdaptive => 138 | .jsonAdaptive => 139

def Enc.ofCode (c : Nat) : Option Enc := Enc.all.find? (fun e => e.code == c)

/-- Go constant names (`val.<Name>Enc`), used by the Tie against the translated switch tables -/
def Enc.goName : Enc → String
  | .int8 => "Int8Enc" | .uint8 => "Uint8Enc" | .int16 => "Int16Enc" | .uint16 => "Uint16Enc"
  | .int32 => "Int32Enc" | .uint32 => "Uint32Enc" | .int64 => "Int64Enc" | .uint64 => "Uint64Enc"
  | .float32 => "Float32Enc" | .float64 => "Float64Enc" | .bit64 => "Bit64Enc"
  | .hash128 => "Hash128Enc" | .year => "YearEnc" | .date => "DateEnc" | .time => "TimeEnc"
  | .datetime => "DatetimeEnc" | .enum => "EnumEnc" | .set => "SetEnc"
  | .bytesAddr => "BytesAddrEnc" | .commitAddr => "CommitAddrEnc" | .stringAddr => "StringAddrEnc"
  | .jsonAddr => "JSONAddrEnc" | .cell => "CellEnc" | .geomAddr => "GeomAddrEnc"
  | .extendedAddr => "ExtendedAddrEnc" | .string => "StringEnc" | .bytes => "ByteStringEnc"
  | .decimal => "DecimalEnc" | .json => "JSONEnc" | .geometry => "GeometryEnc"
  | .extended => "ExtendedEnc" | .stringAdaptive => "StringAdaptiveEnc"
  | .bytesAdaptive => "BytesAdaptiveEnc" | .extendedAdaptive => "ExtendedAdaptiveEnc"
  | .geomAdaptive => "GeomAdaptiveEnc" | .jsonAdaptive => "JsonAdaptiveEnc"

/-- `sizeFromType`: byte size of the fixed-width encodings -/
def Enc.fixedSize : Enc → Option Nat
  | .int8 => some 1 | .uint8 => some 1 | .int16 => some 2 | .uint16 => some 2
  | .int32 => some 4 | .uint32 => some 4 | .int64 => some 8 | .uint64 => some 8
  | .float32 => some 4 | .float64 => some 8 | .bit64 => some 8 | .hash128 => some 16
  | .year => some 1 | .date => some 4 | .time => some 8 | .datetime => some 8
  | .enum => some 2 | .set => some 8
  | .bytesAddr => some 20 | .commitAddr => some 20 | .stringAddr => some 20
  | .jsonAddr => some 20 | .geomAddr => some 20 | .extendedAddr => some 20
  | _ => none   -- NB: CellEnc (17 bytes) is *not* in sizeFromType

/-! ## three-way comparison, exactly the shape of every `compareX` in codec.go -/

def cmp3 {α : Type} [LT α] [DecidableEq α] [DecidableLT α] (l r : α) : Ordering :=
  if l = r then .eq else if l < r then .lt else .gt

/-- `bytes.Compare` -/
def bytesCompare : Bytes → Bytes → Ordering
  | [], [] => .eq
  | [], _ :: _ => .lt
  | _ :: _, [] => .gt
  | a :: as, b :: bs => if a < b then .lt else if b < a then .gt else bytesCompare as bs

/-! ## fixed-width integer codecs -/

def expectSize (n : Nat) (b : Bytes) : Except Err Unit :=
  if b.length = n then .ok () else .error .size

def readU8 (b : Bytes) : Except Err UInt8 := do expectSize 1 b; pure (UInt8.ofNat (leNat b))
def readU16 (b : Bytes) : Except Err UInt16 := do expectSize 2 b; pure (UInt16.ofNat (leNat b))
def readU32 (b : Bytes) : Except Err UInt32 := do expectSize 4 b; pure (UInt32.ofNat (leNat b))
def readU64 (b : Bytes) : Except Err UInt64 := do expectSize 8 b; pure (UInt64.ofNat (leNat b))
def readI8 (b : Bytes) : Except Err Int8 := do pure (← readU8 b).toInt8
def readI16 (b : Bytes) : Except Err Int16 := do pure (← readU16 b).toInt16
def readI32 (b : Bytes) : Except Err Int32 := do pure (← readU32 b).toInt32
def readI64 (b : Bytes) : Except Err Int64 := do pure (← readU64 b).toInt64

def writeU8 (v : UInt8) : Bytes := leBytes 1 v.toNat
def writeU16 (v : UInt16) : Bytes := leBytes 2 v.toNat
def writeU32 (v : UInt32) : Bytes := leBytes 4 v.toNat
def writeU64 (v : UInt64) : Bytes := leBytes 8 v.toNat
def writeI8 (v : Int8) : Bytes := writeU8 v.toUInt8
def writeI16 (v : Int16) : Bytes := writeU16 v.toUInt16
def writeI32 (v : Int32) : Bytes := writeU32 v.toUInt32
def writeI64 (v : Int64) : Bytes := writeU64 v.toUInt64

/-- `readBool`: `val[0] == 1` -/
def readBool (b : Bytes) : Except Err Bool := do pure ((← readU8 b) == 1)
def writeBool (v : Bool) : Bytes := [if v then 1 else 0]

/-! ## floats as bit patterns -/

def f32IsNaN (b : UInt32) : Bool := (b &&& 0x7f800000) == 0x7f800000 && (b &&& 0x007fffff) != 0
def f64IsNaN (b : UInt64) : Bool :=
  (b &&& 0x7ff0000000000000) == 0x7ff0000000000000 && (b &&& 0x000fffffffffffff) != 0

/-- order key of a non-NaN float: sign-magnitude read as an integer (−0 and +0 both map to 0) -/
def f32Key (b : UInt32) : Int :=
  if b &&& 0x80000000 != 0 then -((b &&& 0x7fffffff).toNat : Int) else (b.toNat : Int)
def f64Key (b : UInt64) : Int :=
  if b &&& 0x8000000000000000 != 0 then -((b &&& 0x7fffffffffffffff).toNat : Int) else (b.toNat : Int)

/-- `compareFloat32` on bit patterns: `l == r → 0`, `l < r → -1`, else `1` with IEEE `==`/`<`
(both false whenever a NaN is involved). -/
def compareF32 (l r : UInt32) : Ordering :=
  if f32IsNaN l || f32IsNaN r then .gt
  else if f32Key l = f32Key r then .eq else if f32Key l < f32Key r then .lt else .gt
def compareF64 (l r : UInt64) : Ordering :=
  if f64IsNaN l || f64IsNaN r then .gt
  else if f64Key l = f64Key r then .eq else if f64Key l < f64Key r then .lt else .gt

/-! ## year -/

def minYear : Int := 1901
def maxYear : Int := 2155
def zeroToken : UInt8 := 255

def readYear (b : Bytes) : Except Err Int16 := do
  let v ← readU8 b
  if v == zeroToken then pure 0 else pure (Int16.ofNat v.toNat + 1901)

def writeYear (v : Int16) : Except Err Bytes :=
  if v == 0 then .ok (writeU8 zeroToken)
  else if v.toInt < minYear || v.toInt > maxYear then .error .yearRange
  else .ok (writeU8 (v - 1901).toUInt16.toUInt8)

/-! ## date: packed y/m/d and `time.Date` -/

def yearShift : Nat := 16
def monthShift : Nat := 8
def monthMask : Nat := 255 <<< 8
def dayMask : Nat := 255

def isLeap (y : Int) : Bool := y % 4 == 0 && (y % 100 != 0 || y % 400 == 0)

/-- days from 0001-01-01 to `y`-01-01 (proleptic Gregorian; negative before) -/
def daysBeforeYear (y : Int) : Int := 365 * (y - 1) + (y - 1) / 4 - (y - 1) / 100 + (y - 1) / 400

def daysBeforeMonth : Int → Int
  | 0 => 0 | 1 => 31 | 2 => 59 | 3 => 90 | 4 => 120 | 5 => 151 | 6 => 181 | 7 => 212
  | 8 => 243 | 9 => 273 | 10 => 304 | _ => 334

/-- absolute day number of `time.Date(y, Month(m), d, 0,0,0,0, UTC)`: month is normalised into
the year (`m-1` divided by 12, floor), the day is added linearly. -/
def civilDays (y : Int) (m d : Nat) : Int :=
  let m0 : Int := (m : Int) - 1
  let y' := y + m0 / 12
  let mi := m0 % 12
  daysBeforeYear y' + daysBeforeMonth mi + (if isLeap y' && decide (mi ≥ 2) then 1 else 0) + ((d : Int) - 1)

/-- the three components `readDate` extracts -/
def dateParts (t : UInt32) : Nat × Nat × Nat :=
  (t.toNat >>> yearShift, (t.toNat &&& monthMask) >>> monthShift, t.toNat &&& dayMask)

def dateDays (t : UInt32) : Int :=
  let (y, m, d) := dateParts t
  civilDays y m d

/-- SQL DATE values: the zero date or a civil date -/
inductive DateVal
  | zero
  | ymd (y m d : Nat)
  deriving DecidableEq, Repr

/-- `writeDate`: `ZeroTime → 0`, else `uint32(y<<16) + uint32(m<<8) + uint32(d)` (wrapping) -/
def writeDate : DateVal → Bytes
  | .zero => writeU32 0
  | .ymd y m d => writeU32 (UInt32.ofNat (y <<< yearShift) + UInt32.ofNat (m <<< monthShift) + UInt32.ofNat d)

/-- what `readDate` yields, as a date value: `time.Date(0,0,0)` *is* `types.ZeroTime` -/
def readDate (b : Bytes) : Except Err DateVal := do
  let t ← readU32 b
  let (y, m, d) := dateParts t
  if y = 0 ∧ m = 0 ∧ d = 0 then pure .zero else pure (.ymd y m d)

/-! ## strings / byte strings / raw fixed -/

def writeByteString (v : Bytes) : Bytes := v ++ [0]
/-- `val[:len(val)-1]`; an empty input is a slice-bounds panic -/
def readByteString (b : Bytes) : Except Err Bytes :=
  if b.length = 0 then .error .slice else .ok (b.take (b.length - 1))

def readRaw (n : Nat) (b : Bytes) : Except Err Bytes := do expectSize n b; pure b

/-! ## decimal -/

inductive DecForm | finite | infinite | nan deriving DecidableEq, Repr

/-- `apd.Decimal`: form, sign flag, coefficient magnitude, exponent -/
structure Dec where
  form : DecForm
  neg : Bool
  coeff : Nat
  exp : Int32
  deriving DecidableEq, Repr

def decimalNaN : Nat := 0xc000
def decimalPosInf : Nat := 0xd000
def decimalNegInf : Nat := 0xf000

/-- `Decimal.Sign` -/
def Dec.sign (d : Dec) : Int :=
  if d.form = .finite ∧ d.coeff = 0 then 0 else if d.neg then -1 else 1

/-- number of 64-bit words of the magnitude (`len(Coeff.Bits())` on a 64-bit platform) -/
def wordsOf (c : Nat) : Nat := (Nat.log2 c + 64) / 64 * (if c = 0 then 0 else 1)

def sizeOfDecimal (d : Dec) : Nat :=
  if d.form = .nan ∨ d.form = .infinite then 4 else 4 + 1 + wordsOf d.coeff * 8

def writeDecimal (d : Dec) : Bytes :=
  match d.form with
  | .nan => leBytes 4 decimalNaN
  | .infinite => if d.neg then leBytes 4 decimalNegInf else leBytes 4 decimalPosInf
  | .finite => writeI32 d.exp ++ writeI8 (Int8.ofInt d.sign) ++ beBytes (wordsOf d.coeff * 8) d.coeff

def readDecimal (b : Bytes) : Except Err Dec :=
  if b.length = 4 then do
    let v ← readI32 b
    if v.toInt = decimalNaN then pure ⟨.nan, false, 0, 0⟩
    else if v.toInt = decimalPosInf then pure ⟨.infinite, false, 0, 0⟩
    else if v.toInt = decimalNegInf then pure ⟨.infinite, true, 0, 0⟩
    else .error .decimalSpecial
  else if b.length < 5 then .error .slice
  else do
    let e ← readI32 (b.take 4)
    let s ← readI8 ((b.drop 4).take 1)
    pure ⟨.finite, decide (s < 0), beNat (b.drop 5), e⟩

/-- `apd.NumDigits` (1 for zero) -/
def numDigitsAux : Nat → Nat → Nat
  | 0, _ => 1
  | fuel + 1, c => if c < 10 then 1 else 1 + numDigitsAux fuel (c / 10)
def numDigits (c : Nat) : Nat := numDigitsAux c c

def Ordering.neg : Ordering → Ordering
  | .lt => .gt | .eq => .eq | .gt => .lt

/-- `(*Decimal).Cmp` -/
def Dec.cmp (d x : Dec) : Ordering :=
  let ds := d.sign
  let xs := x.sign
  if ds < xs then .lt else if ds > xs then .gt else if ds = 0 ∧ xs = 0 then .eq
  else
    let gtO : Ordering := if ds = -1 then .lt else .gt
    let ltO : Ordering := if ds = -1 then .gt else .lt
    if d.form = .infinite then (if x.form = .infinite then .eq else gtO)
    else if x.form = .infinite then ltO
    else if d.exp = x.exp then
      let c := cmp3 d.coeff x.coeff
      if ds < 0 then Ordering.neg c else c
    else
      let dn : Int := (numDigits d.coeff : Int) + d.exp.toInt
      let xn : Int := (numDigits x.coeff : Int) + x.exp.toInt
      if dn < xn then ltO else if dn > xn then gtO
      else
        let c :=
          if d.exp < x.exp then cmp3 d.coeff (x.coeff * 10 ^ (x.exp.toInt - d.exp.toInt).toNat)
          else cmp3 (d.coeff * 10 ^ (d.exp.toInt - x.exp.toInt).toNat) x.coeff
        if ds < 0 then Ordering.neg c else c

/-- `compareDecimal` -/
def compareDecimal (l r : Dec) : Ordering :=
  if (l.form = .nan ∧ r.form = .nan) ∨ (l.form = .infinite ∧ r.form = .infinite ∧ l.neg = r.neg) then .eq
  else if l.form = .nan then .gt
  else if r.form = .nan then .lt
  else l.cmp r

/-! ## `compare` (tuple_compare.go): NULL first, then the per-encoding switch -/

/-- the switch of `compare`, for two non-nil fields -/
def compareEnc (e : Enc) (l r : Bytes) : Except Err Ordering :=
  match e with
  | .int8 => do pure (cmp3 (← readI8 l) (← readI8 r))
  | .uint8 => do pure (cmp3 (← readU8 l) (← readU8 r))
  | .int16 => do pure (cmp3 (← readI16 l) (← readI16 r))
  | .uint16 => do pure (cmp3 (← readU16 l) (← readU16 r))
  | .int32 => do pure (cmp3 (← readI32 l) (← readI32 r))
  | .uint32 => do pure (cmp3 (← readU32 l) (← readU32 r))
  | .int64 => do pure (cmp3 (← readI64 l) (← readI64 r))
  | .uint64 => do pure (cmp3 (← readU64 l) (← readU64 r))
  | .float32 => do pure (compareF32 (← readU32 l) (← readU32 r))
  | .float64 => do pure (compareF64 (← readU64 l) (← readU64 r))
  | .bit64 => do pure (cmp3 (← readU64 l) (← readU64 r))
  | .decimal => do pure (compareDecimal (← readDecimal l) (← readDecimal r))
  | .year => do pure (cmp3 (← readYear l) (← readYear r))
  | .date => do pure (cmp3 (dateDays (← readU32 l)) (dateDays (← readU32 r)))
  | .time => do pure (cmp3 (← readI64 l) (← readI64 r))
  | .datetime => do pure (cmp3 (← readI64 l) (← readI64 r))
  | .enum => do pure (cmp3 (← readU16 l) (← readU16 r))
  | .set => do pure (cmp3 (← readU64 l) (← readU64 r))
  | .string => do pure (bytesCompare (← readByteString l) (← readByteString r))
  | .bytes => do pure (bytesCompare (← readByteString l) (← readByteString r))
  | .hash128 => do pure (bytesCompare (← readRaw 16 l) (← readRaw 16 r))
  | .geomAddr | .bytesAddr | .commitAddr | .jsonAddr | .stringAddr =>
      do pure (bytesCompare (← readRaw 20 l) (← readRaw 20 r))
  | .cell => do pure (bytesCompare (← readRaw 17 l) (← readRaw 17 r))
  | .bytesAdaptive | .stringAdaptive | .geomAdaptive | .jsonAdaptive => .error .needsValueStore
  | .json | .geometry | .extended | .extendedAddr | .extendedAdaptive => .error .unknownEnc

/-- which comparer each case of the Go switch calls (tied to the translated switch) -/
def Enc.comparer : Enc → String
  | .int8 => "compareInt8" | .uint8 => "compareUint8" | .int16 => "compareInt16"
  | .uint16 => "compareUint16" | .int32 => "compareInt32" | .uint32 => "compareUint32"
  | .int64 => "compareInt64" | .uint64 => "compareUint64" | .float32 => "compareFloat32"
  | .float64 => "compareFloat64" | .bit64 => "compareBit64" | .decimal => "compareDecimal"
  | .year => "compareYear" | .date => "compareDate" | .time => "compareTime"
  | .datetime => "compareDatetime" | .enum => "compareEnum" | .set => "compareSet"
  | .string => "compareString" | .bytes => "compareByteString" | .hash128 => "compareHash128"
  | .geomAddr | .bytesAddr | .commitAddr | .jsonAddr | .stringAddr => "compareAddr"
  | .cell => "compareCell"
  | .bytesAdaptive | .stringAdaptive | .geomAdaptive | .jsonAdaptive => "vs.CompareAdaptive"
  | .json | .geometry | .extended | .extendedAddr | .extendedAdaptive => "panic"

abbrev Field := Option Bytes

/-- `compare`: NULLs first.  `bytes.Equal(nil, []byte{})` is true, hence the `isEmpty` tests. -/
def compareField (e : Enc) : Field → Field → Except Err Ordering
  | none, none => .ok .eq
  | none, some r => .ok (if r.isEmpty then .eq else .lt)
  | some l, none => .ok (if l.isEmpty then .eq else .gt)
  | some l, some r => compareEnc e l r

/-! ## tuples -/

def maxTupleFields : Nat := 4096
def countSize : Nat := 2
/-- `math.MaxUint16 - countSize - hash.ByteLen - nodeCountSize - treeLevelSize` -/
def maxTupleDataSize : Nat := 65535 - 2 - 20 - 8 - 1

def fieldBytes : Field → Bytes
  | none => []
  | some b => b

def fieldLen (f : Field) : Nat := (fieldBytes f).length

/-- `trimNullSuffix`: drop trailing `nil`s (a non-nil empty slice is *not* dropped) -/
def trimNullSuffix : List Field → List Field
  | [] => []
  | v :: vs =>
    match trimNullSuffix vs, v with
    | [], none => []
    | t, v => v :: t

def dataOf (vs : List Field) : Bytes := (vs.map fieldBytes).flatten
def dataSize (vs : List Field) : Nat := (vs.map fieldLen).sum

/-- offsets of the fields after the first one, `pos` = offset of the head of the list -/
def offsAux : Nat → List Field → Bytes
  | _, [] => []
  | pos, f :: rest => leBytes 2 pos ++ offsAux (pos + fieldLen f) rest

def offsetBytes : List Field → Bytes
  | [] => []
  | f :: rest => offsAux (fieldLen f) rest

/-- `NewTuple`.  For fields shorter than 64 KiB the Go code panics exactly when one of the three
size conditions below holds (the `ByteSize` arithmetic is `uint16` and wraps: a wrapped total
passes the explicit check and then fails a slice-bounds check). -/
def newTuple (values : List Field) : Except Err Bytes :=
  let vs := trimNullSuffix values
  if vs.any (fun f => decide (fieldLen f ≥ 65536)) then .error .fieldTooLong
  else if vs.length > maxTupleFields then .error .tooManyFields
  else if dataSize vs > maxTupleDataSize then .error .dataTooLarge
  else if dataSize vs + 2 * vs.length > 65535 then .error .slice
  else .ok (dataOf vs ++ offsetBytes vs ++ leBytes 2 vs.length)

/-- `Tuple.Count` -/
def tupleCount (t : Bytes) : Except Err Nat :=
  if t.length < 2 then .error .malformed else .ok (leNat (t.drop (t.length - 2)))

/-- read the little-endian uint16 at `pos` with the bounds check of `GetField` -/
def offsetAt (t : Bytes) (pos : Nat) : Except Err Nat :=
  if pos ≥ t.length ∨ pos + 1 ≥ t.length then .error .fieldRange
  else .ok (leNat ((t.drop pos).take 2))

/-- Go `tup[start:stop]` (cap = len for tuples made by `NewTuple`) -/
def sliceOf (t : Bytes) (start stop : Nat) : Except Err Bytes :=
  if start > stop ∨ stop > t.length then .error .slice else .ok ((t.drop start).take (stop - start))

/-- `Tuple.GetField` (`stop` is read before `start`, as in the Go code) -/
def getField (t : Bytes) (i : Nat) : Except Err Field :=
  match tupleCount t with
  | .error e => .error e
  | .ok cnt =>
    if i ≥ cnt then .ok none
    else if 2 * cnt > t.length then .error .malformed   -- Go: negative `split`, unchecked pointer arithmetic
    else
      let split := t.length - 2 * cnt
      match (if i < cnt - 1 then offsetAt t (split + i * 2) else .ok (split % 65536)) with
      | .error e => .error e
      | .ok stop =>
        match (if i > 0 then offsetAt t (split + (i - 1) * 2) else .ok 0) with
        | .error e => .error e
        | .ok start =>
          if start = stop then .ok none
          else match sliceOf t start stop with
            | .error e => .error e
            | .ok b => .ok (some b)

structure TType where
  enc : Enc
  nullable : Bool
  deriving DecidableEq, Repr

/-- `makeFixedAccess`: cumulative end offsets of the leading NOT NULL fixed-width fields -/
def fixedAccessAux : Nat → List TType → List Nat
  | _, [] => []
  | off, t :: ts =>
    if t.nullable then []
    else match t.enc.fixedSize with
      | none => []
      | some sz => (off + sz) :: fixedAccessAux (off + sz) ts

def makeFixedAccess (ts : List TType) : List Nat := fixedAccessAux 0 ts

/-- `TupleDesc.GetField` -/
def descGetField (ts : List TType) (t : Bytes) (i : Nat) : Except Err Field :=
  let fast := makeFixedAccess ts
  if i < fast.length then do
    let cnt ← tupleCount t
    if i ≥ cnt then return none
    let start := if i ≠ 0 then fast.getD (i - 1) 0 else 0
    let stop := fast.getD i 0
    return some (← sliceOf t start stop)
  else getField t i

/-- the first loop of `DefaultTupleComparator.Compare` (raw slices `left[start:stop]`) -/
def compareFast : List TType → List Nat → Nat → Bytes → Bytes → Except Err Ordering
  | t :: ts, stop :: fs, start, l, r =>
    match sliceOf l start stop with
    | .error e => .error e
    | .ok lf =>
      match sliceOf r start stop with
      | .error e => .error e
      | .ok rf =>
        match compareField t.enc (some lf) (some rf) with
        | .ok .eq => compareFast ts fs stop l r
        | other => other
  | _, _, _, _, _ => .ok .eq

/-- the second loop: fields `j ≥ off` through `GetField` -/
def compareRest : List TType → Nat → Bytes → Bytes → Except Err Ordering
  | [], _, _, _ => .ok .eq
  | t :: ts, j, l, r =>
    match getField l j with
    | .error e => .error e
    | .ok lf =>
      match getField r j with
      | .error e => .error e
      | .ok rf =>
        match compareField t.enc lf rf with
        | .ok .eq => compareRest ts (j + 1) l r
        | other => other

/-- `DefaultTupleComparator.Compare` -/
def compareTuples (ts : List TType) (l r : Bytes) : Except Err Ordering :=
  let fast := makeFixedAccess ts
  match compareFast ts fast 0 l r with
  | .ok .eq => compareRest (ts.drop fast.length) fast.length l r
  | other => other

/-! ## TupleBuilder (field vector level; the byte buffer the fields alias is abstracted) -/

structure Builder where
  types : List TType
  fields : List Field

def Builder.new (ts : List TType) : Builder := ⟨ts, ts.map (fun _ => none)⟩

/-- any `PutX(i, v)`: field `i` now holds the encoding of `v` -/
def Builder.put (b : Builder) (i : Nat) (bytes : Bytes) : Builder :=
  { b with fields := b.fields.set i (some bytes) }

/-- `BuildPermissive` (no adaptive fields): `NewTuple(fields[:count]...)` -/
def Builder.buildPermissive (b : Builder) : Except Err Bytes := newTuple (b.fields.take b.types.length)

def nullCheck : List TType → List Field → Bool
  | t :: ts, f :: fs => (t.nullable || f.isSome) && nullCheck ts fs
  | _, _ => true

/-- `Build`: panics on a NULL in a NOT NULL field, then `BuildPermissive` -/
def Builder.build (b : Builder) : Except Err Bytes :=
  if nullCheck b.types b.fields then b.buildPermissive else .error .nullInNonNull

end DoltVerif.ValCodec
