import DoltVerif.Model.NbsFiles
/-!
Whole table files over *abstract* compression and checksum (C06): `tableWriter.addChunk/finish`,
`tableReader.get` (ReadAt → `NewCompressedChunk` CRC check → `ToChunk`), `iterateAllChunks`.
snappy and CRC-32C are parameters (`Codec`); theorems take `dec (cmp d) = d` as a hypothesis.
Core Lean only.
-/
namespace DoltVerif.NbsFiles

abbrev Bytes := List UInt8

/-- snappy encode/decode and CRC-32C (as a `uint32` value) -/
structure Codec where
  cmp : Bytes → Bytes
  dec : Bytes → Option Bytes
  crc : Bytes → Nat

structure Chunk where
  a : Addr
  data : Bytes
deriving DecidableEq, Repr

/-- a chunk record: compressed data followed by its big-endian CRC (`addChunk`) -/
def record (c : Codec) (d : Bytes) : Bytes := c.cmp d ++ beBytes checksumSize (c.crc (c.cmp d))

/-- what the index keeps of a chunk -/
def recOf (c : Codec) (ch : Chunk) : Rec := ⟨ch.a, (record c ch.data).length⟩

def totalUnc (chunks : List Chunk) : Nat := (chunks.map (·.data.length)).foldl (· + ·) 0

/-- `tableWriter`: `addChunk` for every chunk in order, then `finish` (index + footer).
`none` = `addChunk` panics ("NBS blocks cannot be zero length"). -/
def writeTable (c : Codec) (chunks : List Chunk) : Option Bytes :=
  if chunks.any (·.data.isEmpty) then none else
  some (chunks.flatMap (fun ch => record c ch.data) ++ writeIndex (chunks.map (recOf c)) (totalUnc chunks))

inductive ReadErr where
  | panic       -- a slice expression out of range
  | shortRead   -- ReadAt could not fill the buffer
  | checksum    -- "checksum error"
  | noData      -- "failed to get data"
  | decode      -- snappy.Decode failed
deriving DecidableEq, Repr

/-- `tableReader.get` once `lookup` has produced `(offset, length)` -/
def readRecord (c : Codec) (file : Bytes) (off len : Nat) : Except ReadErr Bytes :=
  if file.length < off + len then .error .shortRead
  else if len < checksumSize then .error .panic
  else
    let buff := (file.drop off).take len
    let data := buff.take (len - checksumSize)
    if beVal (buff.drop (len - checksumSize)) ≠ c.crc data then .error .checksum
    else if data.isEmpty then .error .noData
    else match c.dec data with
      | none => .error .decode
      | some d => .ok d

/-- `tableReader.get` -/
def tableGet (c : Codec) (file : Bytes) (ix : Idx) (a : Addr) : Except ReadErr (Option Bytes) :=
  match lookup ix a with
  | none => .error .panic
  | some none => .ok none
  | some (some (off, len)) =>
    match readRecord c file off len with
    | .ok d => .ok (some d)
    | .error e => .error e

/-- one step of `iterateAllChunks`: index row `k` → (address from prefix+suffix, decoded bytes) -/
def tableRow (c : Codec) (file : Bytes) (ix : Idx) (k : Nat) : Except ReadErr (Addr × Bytes) :=
  match ix.pfx[k]?, rowSuf ix k, ix.ord[k]? with
  | some p, some s, some o =>
    match indexEntry ix o with
    | none => .error .panic
    | some (off, len) =>
      match readRecord c file off len with
      | .ok d => .ok (⟨p, s⟩, d)
      | .error e => .error e
  | _, _, _ => .error .panic

/-- `iterateAllChunks` (the Go code visits rows in offset order; the set of results is the same) -/
def tableIterate (c : Codec) (file : Bytes) (ix : Idx) : Except ReadErr (List (Addr × Bytes)) :=
  (List.range ix.count).mapM (tableRow c file ix)

/-! ## Batched reads: `getMany` / `getManyCompressed` -/

/-- `ExtractChunkFromRead` → `NewCompressedChunk`: the record at `(off, len)` with its CRC verified,
still compressed -/
def readCompressed (c : Codec) (file : Bytes) (off len : Nat) : Except ReadErr Bytes :=
  if file.length < off + len then .error .shortRead
  else if len < checksumSize then .error .panic
  else
    let buff := (file.drop off).take len
    let data := buff.take (len - checksumSize)
    if beVal (buff.drop (len - checksumSize)) ≠ c.crc data then .error .checksum else .ok data

/-- `readAtOffsets`: the same record, then `ToChunk` (snappy decode; no empty-data test on this path) -/
def readDecoded (c : Codec) (file : Bytes) (off len : Nat) : Except ReadErr Bytes :=
  match readCompressed c file off len with
  | .error e => .error e
  | .ok z => match c.dec z with
    | none => .error .decode
    | some d => .ok d

/-- `tableReader.getMany`: `findOffsets`, then every located record read and decoded; delivers
(requested address, bytes) -/
def tableGetMany (c : Codec) (file : Bytes) (ix : Idx) (reqs : List GetRec) :
    Except ReadErr (List GetRec × List (Addr × Bytes) × Bool) :=
  match findOffsets ix reqs with
  | none => .error .panic
  | some (out, recs, rem) =>
    match recs.mapM (fun r => (readDecoded c file r.off r.len).map (fun d => (r.a, d))) with
    | .ok l => .ok (out, l, rem)
    | .error e => .error e

/-- `tableReader.getManyCompressed`: the same records, delivered still compressed -/
def tableGetManyCompressed (c : Codec) (file : Bytes) (ix : Idx) (reqs : List GetRec) :
    Except ReadErr (List GetRec × List (Addr × Bytes) × Bool) :=
  match findOffsets ix reqs with
  | none => .error .panic
  | some (out, recs, rem) =>
    match recs.mapM (fun r => (readCompressed c file r.off r.len).map (fun z => (r.a, z))) with
    | .ok l => .ok (out, l, rem)
    | .error e => .error e

/-! ## Whole archive files over abstract compression -/

/-- the CRC / decode half of `tableReader.get` on a buffer already in memory
(`NewCompressedChunk` + `ToChunk`; used by archives for snappy spans) -/
def decodeRecord (c : Codec) (buff : Bytes) : Except ReadErr Bytes :=
  if buff.length < checksumSize then .error .panic
  else
    let data := buff.take (buff.length - checksumSize)
    if beVal (buff.drop (buff.length - checksumSize)) ≠ c.crc data then .error .checksum
    else match c.dec data with   -- ToChunk does not test for empty data on this path
      | none => .error .decode
      | some d => .ok d

/-- zstd with dictionaries, as parameters: chunk payloads (`CompressDict` / `DecompressDict` with the
raw dictionary) and the dictionary span itself (`Compress` / `NewDecompBundle`) -/
structure ZCodec where
  zcmp : Bytes → Bytes → Bytes
  zdec : Bytes → Bytes → Option Bytes
  dcmp : Bytes → Bytes
  ddec : Bytes → Option Bytes

/-- a chunk handed to the archive writer: `dict = none` → snappy record span (`stageSnappyChunk`),
`dict = some k` → zstd payload compressed with the `k`-th dictionary (`stageZStdChunk`) -/
structure AItem where
  a : Addr
  dict : Option Nat
  data : Bytes
deriving DecidableEq, Repr

inductive ArcWErr where
  | duplicateChunk (pos : Nat)     -- ErrDuplicateChunkWritten
  | invalidDictionaryRange (pos : Nat)
  | emptySpan                      -- "empty compressed byte span"
deriving DecidableEq, Repr

/-- the payload span of an item -/
def itemPayload (c : Codec) (z : ZCodec) (dicts : List Bytes) (it : AItem) : Option Bytes :=
  match it.dict with
  | none => some (record c it.data)
  | some k => (dicts[k]?).map (fun r => z.zcmp r it.data)

/-- stage every item in order: `seenChunks` check first, then the dictionary range check
(`stageZStdChunk`), span ids: dictionaries 1..D, item `i` → D+i+1 -/
def stageAll (nd : Nat) : Nat → List Addr → List AItem → Except ArcWErr (List (Addr × Nat × Nat))
  | _, _, [] => .ok []
  | i, seen, it :: rest =>
    if it.a ∈ seen then .error (.duplicateChunk i)
    else match it.dict with
      | some k => if k < nd then (stageAll nd (i + 1) (it.a :: seen) rest).map ((it.a, k + 1, nd + i + 1) :: ·)
                  else .error (.invalidDictionaryRange i)
      | none => (stageAll nd (i + 1) (it.a :: seen) rest).map ((it.a, 0, nd + i + 1) :: ·)

/-- `archiveWriter`: dictionary spans, one data span per chunk, index, metadata, footer -/
def arcWrite (c : Codec) (z : ZCodec) (dicts : List Bytes) (items : List AItem) (metadata : Bytes) :
    Except ArcWErr Bytes := do
  let staged ← stageAll dicts.length 0 [] items
  let spans := dicts.map z.dcmp ++ items.filterMap (itemPayload c z dicts)
  if spans.any (·.isEmpty) then .error .emptySpan else
  let ar := arcBuild (spans.map (·.length)) staged
  let ib := arcSerializeIndex ar
  .ok (spans.flatten ++ ib ++ metadata ++ arcSerializeFooter ib.length spans.length staged.length metadata.length)

/-- `readByteSpan(getByteSpanByID(id))` -/
def spanBytes (file : Bytes) (ar : Arc) (id : Nat) : Option Bytes :=
  let (off, len) := spanOf ar id
  if off + len ≤ file.length then some ((file.drop off).take len) else none

/-- `archiveReader.get`: `findIndex` → chunk ref → spans → decompress -/
def arcGet (c : Codec) (z : ZCodec) (file : Bytes) (ar : Arc) (a : Addr) : Except ReadErr (Option Bytes) :=
  match findIndex ar a with
  | none => .error .panic
  | some none => .ok none
  | some (some i) =>
    match ar.refs[i]? with
    | none => .error .panic
    | some (dictId, dataId) =>
      match spanBytes file ar dataId with
      | none => .error .shortRead
      | some data =>
        if dictId = 0 then
          match decodeRecord c data with
          | .ok d => .ok (some d)
          | .error e => .error e
        else
          match spanBytes file ar dictId with
          | none => .error .shortRead
          | some ds =>
            match z.ddec ds with
            | none => .error .decode
            | some raw =>
              match z.zdec raw data with
              | none => .error .decode
              | some d => .ok (some d)

end DoltVerif.NbsFiles
