/-
C26 — executor kernels dolt adds under go-mysql-server's plans, over integer cells with NULL.

Transliterations (core Lean only):
* `toField/toProlly`  = `doltIndex.prollyRangesFromSqlRanges` (sqle/index/dolt_index.go): per column
  `rangeCutIsBinding`, `getRangeCutValue`, `TypeAsLowerBound/UpperBound`, `BoundsAreEqual`,
  the contiguity loop (`nilBound`, `foundDiscontinuity`); `pruneEmptyRanges` = `rangeNonEmpty`;
* `aboveStart`, `belowStop`, `matches`, `keyRangeLookup`, `incrementTuple` = store/prolly/tuple_range.go;
* `iterRange` = `prolly.Map.IterRange`: key-range path or tree path (two `sort.Search`es = first index
  where the predicate flips, on a sorted index) + `filteredIter` unless contiguous and precise;
* `lookupJoin` = kvexec lookup join: per left row a point/prefix range on the right index;
* `mergeJoin` = kvexec `mergeJoinKvIter` (compare / fillMatchBuf / match stages, look-ahead buffer
  re-used for equal left keys), inner join;
* `countFast` = kvexec count(*) fast path (`Map.Count`).
The relational-algebra reference (`filterRows`, `nlj`) is the meaning of the plan node they replace.
-/
namespace DoltVerif.Query

/-- a cell: NULL or an integer (binary-ordered; NULL sorts first: `CompareValues` with a nil field) -/
abbrev Cell := Option Int
abbrev Tuple := List Cell

def clt : Cell → Cell → Bool
  | none, none => false
  | none, some _ => true
  | some _, none => false
  | some a, some b => a < b

/-- `order.CompareValues` : -1 / 0 / +1 -/
def ccmp (a b : Cell) : Int := if clt a b then -1 else if clt b a then 1 else 0

/-- lexicographic order of key tuples (`desc.Compare`); a missing field reads as NULL -/
def tle : Tuple → Tuple → Bool
  | [], _ => true
  | a :: as, [] => a == none && tle as []
  | a :: as, b :: bs => clt a b || (a == b && tle as bs)

def tlt (a b : Tuple) : Bool := !tle b a

-- ---------------------------------------------------------------- prolly.Range

structure Bound where
  value : Cell
  binding : Bool
  inclusive : Bool
deriving DecidableEq, Repr, Inhabited

structure RangeField where
  lo : Bound
  hi : Bound
  boundsAreEqual : Bool
deriving DecidableEq, Repr, Inhabited

structure PRange where
  fields : List RangeField
  /-- `Range.Tup`: the upper-bound values, NULL where the column has no binding upper bound -/
  tup : Tuple
  skipMatch : Bool
  isContiguous : Bool
deriving DecidableEq, Repr, Inhabited

def headCell : Tuple → Cell
  | [] => none
  | v :: _ => v

/-- `Range.aboveStart` -/
def aboveStart : List RangeField → Tuple → Bool
  | [], _ => true
  | f :: fs, t =>
    if !f.lo.binding then true else
    let c := ccmp (headCell t) f.lo.value
    if c < 0 then false
    else if f.boundsAreEqual && c == 0 then aboveStart fs t.tail
    else c > 0 || f.lo.inclusive

/-- `Range.belowStop` -/
def belowStop : List RangeField → Tuple → Bool
  | [], _ => true
  | f :: fs, t =>
    if !f.hi.binding then true else
    let c := ccmp (headCell t) f.hi.value
    if c > 0 then false
    else if f.boundsAreEqual && c == 0 then belowStop fs t.tail
    else c < 0 || f.hi.inclusive

/-- `Range.Matches` -/
def rmatches : List RangeField → Tuple → Bool
  | [], _ => true
  | f :: fs, t =>
    let v := headCell t
    if f.boundsAreEqual then
      if ccmp v f.lo.value == 0 then rmatches fs t.tail else false
    else
      if f.lo.binding && (ccmp v f.lo.value < 0 || (ccmp v f.lo.value == 0 && !f.lo.inclusive)) then false
      else if f.hi.binding && (ccmp v f.hi.value > 0 || (ccmp v f.hi.value == 0 && !f.hi.inclusive)) then false
      else rmatches fs t.tail

-- ---------------------------------------------------------------- SQL ranges (go-mysql-server)

/-- `sql.MySQLRangeCut` -/
inductive Cut where
  | belowNull
  | aboveNull
  | below (k : Int)
  | above (k : Int)
  | aboveAll
deriving DecidableEq, Repr, Inhabited

/-- one `RangeColumnExpr` -/
structure ColExpr where
  lo : Cut
  hi : Cut
deriving DecidableEq, Repr, Inhabited

/-- is the value above the cut?  (the meaning of a cut in go-mysql-server) -/
def aboveCut : Cut → Cell → Bool
  | .belowNull, _ => true
  | .aboveNull, v => v.isSome
  | .below k, v => match v with | none => false | some x => k ≤ x
  | .above k, v => match v with | none => false | some x => k < x
  | .aboveAll, _ => false

/-- the meaning of a column expression: between its two cuts -/
def member (e : ColExpr) (v : Cell) : Bool := aboveCut e.lo v && !aboveCut e.hi v

def memberAll : List ColExpr → Tuple → Bool
  | [], _ => true
  | e :: es, t => member e (headCell t) && memberAll es t.tail

/-- position of a cut on the line NULL < … -1 < 0 < 1 … (for `IsEmpty`): (class, key, side) -/
def cutPos : Cut → Int × Int × Int
  | .belowNull => (0, 0, 0)
  | .aboveNull => (0, 0, 1)
  | .below k => (1, k, 0)
  | .above k => (1, k, 1)
  | .aboveAll => (2, 0, 0)

def cutLt (a b : Cut) : Bool :=
  let (a1, a2, a3) := cutPos a
  let (b1, b2, b3) := cutPos b
  decide (a1 < b1 ∨ (a1 = b1 ∧ (a2 < b2 ∨ (a2 = b2 ∧ a3 < b3))))

/-- `!colExpr.IsEmpty()` (`pruneEmptyRanges` drops a range with an empty column) -/
def colNonEmpty (e : ColExpr) : Bool := cutLt e.lo e.hi

def rangeNonEmpty (r : List ColExpr) : Bool := r.all colNonEmpty

/-- `rangeCutIsBinding` -/
def cutIsBinding : Cut → Bool
  | .below _ | .above _ | .aboveNull => true
  | .belowNull | .aboveAll => false

/-- `getRangeCutValue` (integers convert to themselves) -/
def cutValue : Cut → Cell
  | .below k | .above k => some k
  | _ => none

/-- `TypeAsLowerBound() == Closed` -/
def lowerClosed : Cut → Bool
  | .below _ | .belowNull => true
  | _ => false

/-- `TypeAsUpperBound() == Closed` -/
def upperClosed : Cut → Bool
  | .above _ | .aboveNull => true
  | _ => false

/-- one iteration of the three loops of `prollyRangesFromSqlRanges` for column `e` -/
def toField (e : ColExpr) : RangeField :=
  let lo : Bound := if cutIsBinding e.lo then ⟨cutValue e.lo, true, lowerClosed e.lo⟩ else ⟨none, false, false⟩
  let hi : Bound := if cutIsBinding e.hi then ⟨cutValue e.hi, true, upperClosed e.hi⟩ else ⟨none, false, false⟩
  { lo := lo, hi := hi
    boundsAreEqual := (ccmp hi.value lo.value == 0) && hi.binding && lo.binding }

/-- the contiguity loop: (foundDiscontinuity, isContiguous) -/
def contigLoop : List RangeField → Bool → Bool → Bool
  | [], _, isC => isC
  | f :: fs, found, isC =>
    let nilBound := f.lo.value == none && f.hi.value == none
    let isC' := if found || nilBound then false else isC
    contigLoop fs (found || !f.boundsAreEqual || nilBound) isC'

/-- `prollyRangesFromSqlRanges` for one (already pruned) range; integer columns ⇒ `SkipRangeMatchCallback` -/
def toProlly (r : List ColExpr) : PRange :=
  let fields := r.map toField
  { fields := fields, tup := fields.map (·.hi.value), skipMatch := true, isContiguous := contigLoop fields false true }

-- ---------------------------------------------------------------- iteration

def findFirst {α : Type} (p : α → Bool) : List α → Nat
  | [] => 0
  | a :: as => if p a then 0 else findFirst p as + 1

/-- the half-open slice between two cursors (empty when stop ≤ start) -/
def slice {α : Type} (l : List α) (start stop : Nat) : List α := (l.take stop).drop start

/-- `Range.KeyRangeLookup`: index of the last exactly-bound field, when the range is an exact
prefix followed by unconstrained nullable fields.  `nullable` = `Desc.Types[i].Nullable`. -/
def keyRangeN (fields : List RangeField) (nullable : List Bool) : Option Nat :=
  let rec go : List RangeField → Nat → Option (Option Nat)   -- none = "return false"; some n
    | [], i => some (if i == 0 then none else some (i - 1))
    | f :: fs, i =>
      if f.lo.value == none then
        if f.hi.value != none then none
        else
          -- n = i - 1; the remaining fields (this one included) must be unconstrained
          if (f :: fs).all (fun g => g.lo.value == none && g.hi.value == none) then
            some (if i == 0 then none else some (i - 1))
          else none
      else if !f.boundsAreEqual then none
      else go fs (i + 1)
  match go fields 0 with
  | some (some n) => if (nullable.drop (n + 1)).all id then some n else none
  | _ => none

/-- `IncrementTuple`: copy the first `n` fields, add one to field `n` (width given by `maxInt`),
the remaining fields NULL; `none` when the increment overflows (the code then falls back). -/
def incrementTuple (maxInt : Int) (t : Tuple) (n : Nat) : Option Tuple :=
  match t[n]? with
  | some (some v) => if v ≥ maxInt then none else some (t.take n ++ [some (v + 1)])
  | _ => none

/-- tree path of `IterRange`: `treeIterFromRange` (two searches) -/
def treePartition (idx : List Tuple) (fields : List RangeField) : List Tuple :=
  slice idx (findFirst (aboveStart fields) idx) (findFirst (fun t => !belowStop fields t) idx)

/-- key-range path of `IterRange`: `IterKeyRange [Tup, stop)` -/
def keyPartition (idx : List Tuple) (tup stop : Tuple) : List Tuple :=
  slice idx (findFirst (fun t => tle tup t) idx) (findFirst (fun t => tle stop t) idx)

/-- the stop key when `KeyRangeLookup` succeeds -/
def keyRangeStop (maxInt : Int) (nullable : List Bool) (r : PRange) : Option Tuple :=
  (keyRangeN r.fields nullable).bind (fun n => incrementTuple maxInt r.tup n)

/-- `filteredIter` is added unless the range is contiguous and its types are precise -/
def postFilter (r : PRange) (phys : List Tuple) : List Tuple :=
  if !r.skipMatch || !r.isContiguous then phys.filter (rmatches r.fields) else phys

/-- `prolly.Map.IterRange` over the sorted key list of an index -/
def iterRange (maxInt : Int) (nullable : List Bool) (idx : List Tuple) (r : PRange) : List Tuple :=
  match keyRangeStop maxInt nullable r with
  | some stop => postFilter r (keyPartition idx r.tup stop)
  | none => postFilter r (treePartition idx r.fields)

/-- the index range scan of one SQL range (pruned when empty) -/
def rangeScan (maxInt : Int) (nullable : List Bool) (idx : List Tuple) (r : List ColExpr) : List Tuple :=
  if rangeNonEmpty r then iterRange maxInt nullable idx (toProlly r) else []

-- ---------------------------------------------------------------- filter grammar → ranges (one column)

inductive Atom where
  | lt (k : Int) | le (k : Int) | eq (k : Int) | ge (k : Int) | gt (k : Int)
  | isNull | isNotNull
deriving DecidableEq, Repr

/-- SQL three-valued truth of an atom on a cell: `none` = NULL/unknown -/
def evalAtom : Atom → Cell → Option Bool
  | .isNull, v => some v.isNone
  | .isNotNull, v => some v.isSome
  | _, none => none
  | .lt k, some x => some (x < k)
  | .le k, some x => some (x ≤ k)
  | .eq k, some x => some (x = k)
  | .ge k, some x => some (x ≥ k)
  | .gt k, some x => some (x > k)

/-- the range column expression go-mysql-server builds for an atom -/
def atomRange : Atom → ColExpr
  | .lt k => ⟨.aboveNull, .below k⟩
  | .le k => ⟨.aboveNull, .above k⟩
  | .eq k => ⟨.below k, .above k⟩
  | .ge k => ⟨.below k, .aboveAll⟩
  | .gt k => ⟨.above k, .aboveAll⟩
  | .isNull => ⟨.belowNull, .aboveNull⟩
  | .isNotNull => ⟨.aboveNull, .aboveAll⟩

def cutMax (a b : Cut) : Cut := if cutLt a b then b else a
def cutMin (a b : Cut) : Cut := if cutLt a b then a else b
/-- `TryIntersect` (AND of two conditions on the same column) -/
def intersect (a b : ColExpr) : ColExpr := ⟨cutMax a.lo b.lo, cutMin a.hi b.hi⟩

/-- a conjunction of atoms on the indexed column -/
def conjRange : List Atom → ColExpr
  | [] => ⟨.belowNull, .aboveAll⟩
  | a :: as => intersect (atomRange a) (conjRange as)

def evalConj (as : List Atom) (v : Cell) : Bool := as.all (fun a => evalAtom a v == some true)

/-- DNF: OR of conjunctions (IN lists are ORs of `eq`) -/
def evalDnf (d : List (List Atom)) (v : Cell) : Bool := d.any (fun c => evalConj c v)

-- ---------------------------------------------------------------- reference relational algebra

def filterRows {α : Type} (p : α → Bool) (rows : List α) : List α := rows.filter p

/-- nested-loop inner join -/
def nlj {α β : Type} (on : α → β → Bool) (l : List α) (r : List β) : List (α × β) :=
  l.flatMap (fun a => (r.filter (on a)).map (fun b => (a, b)))

/-- SQL equality of join keys: NULL never rmatches -/
def keyEq (a b : Cell) : Bool :=
  match a, b with
  | some x, some y => x == y
  | _, _ => false

-- ---------------------------------------------------------------- lookup join

/-- kvexec lookup join on one key column: for each left row whose key is not NULL, a point range
`[key, key]` on the right index (first field of the right index key = the join column). -/
def lookupJoin (maxInt : Int) (nullable : List Bool) (lkey : Tuple → Cell) (left : List Tuple) (rightIdx : List Tuple) :
    List (Tuple × Tuple) :=
  left.flatMap (fun l =>
    match lkey l with
    | none => []
    | some k => (rangeScan maxInt nullable rightIdx [⟨.below k, .above k⟩]).map (fun r => (l, r)))

-- ---------------------------------------------------------------- merge join

/-- `fillMatchBuf`: the following right rows whose key compares equal to `k`, and the rest -/
def fillBuf (rk : Tuple → Cell) (k : Cell) : List Tuple → List Tuple × List Tuple
  | [] => ([], [])
  | r :: rs => if ccmp k (rk r) == 0 then let (b, rest) := fillBuf rk k rs; (r :: b, rest) else ([], r :: rs)

/-- The merge-join state machine (inner join) on one key column per side.  `lrCmp`/`llCmp` are
plain tuple-field comparisons (`ccmp`: NULL compares *equal* to NULL); `ok` = the join filters
evaluated on the candidate row (SQL `=`: NULL never rmatches).  One iteration of the `compare`
loop per call; in the `match` stage the look-ahead buffer is emitted before the current right row
and re-used while the next left key compares equal. -/
def mergeJoinFuel (lk rk : Tuple → Cell) (ok : Tuple → Tuple → Bool) :
    Nat → List Tuple → List Tuple → List (Tuple × Tuple)
  | 0, _, _ => []
  | _, [], _ => []
  | _, _, [] => []
  | fuel + 1, l :: ls, r :: rs =>
    let c := ccmp (lk l) (rk r)
    if c < 0 then mergeJoinFuel lk rk ok fuel ls (r :: rs)
    else if c > 0 then mergeJoinFuel lk rk ok fuel (l :: ls) rs
    else
      let fb := fillBuf rk (lk l) rs
      let same := ls.takeWhile (fun l' => ccmp (lk l) (lk l') == 0)
      let lsRest := ls.dropWhile (fun l' => ccmp (lk l) (lk l') == 0)
      (l :: same).flatMap (fun a => ((fb.1 ++ [r]).filter (ok a)).map (fun b => (a, b)))
        ++ mergeJoinFuel lk rk ok fuel lsRest fb.2

def mergeJoin (lk rk : Tuple → Cell) (ok : Tuple → Tuple → Bool) (left right : List Tuple) : List (Tuple × Tuple) :=
  mergeJoinFuel lk rk ok (left.length + right.length + 1) left right

-- ---------------------------------------------------------------- count(*) fast path

/-- `DoltTable.RowCount` (`Map.Count()` of the primary index) — what a bare `count(*)` over a table uses -/
def countFast (rows : List Tuple) : Nat := rows.length

/-- kvexec `countAggKvIter.Next`: one pass over the source (table or index, **no filter** — the builder
requires `srcFilter == nil`), skipping NULLs of the counted column only when the schema says the
column is nullable; `count(<literal>)` has `nullable = false`. -/
def countAgg (nullable : Bool) (col : Tuple → Cell) (rows : List Tuple) : Nat :=
  (rows.filter (fun r => !(nullable && (col r).isNone))).length

end DoltVerif.Query
