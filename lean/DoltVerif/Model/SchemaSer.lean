/-
C37 — model of `schema/encoding/serialization.go` (SerializeSchema / DeserializeSchema) and of
`schema/tag.go` (AutoGenerateTag) + `doltdb.GenerateTagsForNewColumns`.  Core Lean only.

Style: transliteration of the data path.  The flatbuffer message is modelled as the record of its
declared fields (`serial/schema.fbs`): a field that the Go code does not write is *absent* and
reads back as the flatbuffer default (`none` for strings/tables, `false`, `0`, `[]`).  The byte
layout of flatbuffers itself is not modelled (trusted library, exercised by the harness).

The SQL type of a column is the pair the serializer stores: the type string produced by
`sqlTypeString` and the storage encoding; `typeinfoFromSqlType ∘ sqlTypeString = id` is an
assumption on the parameter (compared by correspondence in the `schemas` harness).
-/
namespace DoltVerif.SchemaSer

-- ---------------------------------------------------------------- schema side

structure TypeInfo where
  sqlType : String
  enc : Nat
deriving DecidableEq, Repr, Inhabited

/-- `schema.Column`.  `notNull` = "Constraints contains NotNullConstraint"; `Kind` is a function
of `TypeInfo` (`sqlType.NomsKind()`) and therefore not a separate attribute. -/
structure Column where
  name : String
  tag : Nat
  typ : TypeInfo
  isPartOfPK : Bool
  default : String
  generated : String
  onUpdate : String
  virtual : Bool
  autoIncrement : Bool
  comment : String
  notNull : Bool
  hidden : Bool
  systemHidden : Bool
deriving DecidableEq, Repr, Inhabited

structure FullText where
  configTable : String
  positionTable : String
  docCountTable : String
  globalCountTable : String
  rowCountTable : String
  keyType : Nat
  keyName : String
  keyPositions : List Nat
deriving DecidableEq, Repr, Inhabited

def FullText.empty : FullText := ⟨"", "", "", "", "", 0, "", []⟩

/-- `schema.Index` as far as (de)serialization sees it: name, `IndexedColumnTags`, prefix lengths
and `IndexProperties`.  `vecL2` = "VectorProperties.DistanceType is DistanceL2Squared" (the only
distance type that exists). -/
structure Index where
  name : String
  comment : String
  predicate : String
  tags : List Nat
  prefixLengths : List Nat
  unique : Bool
  spatial : Bool
  fullText : Bool
  vector : Bool
  userDefined : Bool
  ft : FullText
  vecL2 : Bool
deriving DecidableEq, Repr, Inhabited

structure Check where
  name : String
  expr : String
  enforced : Bool
  notValid : Bool
deriving DecidableEq, Repr, Inhabited

structure Schema where
  cols : List Column
  pkOrdinals : List Nat
  indexes : List Index
  checks : List Check
  collation : Nat
  comment : String
  targetRowSize : Nat
deriving DecidableEq, Repr, Inhabited

-- ---------------------------------------------------------------- flatbuffer side (schema.fbs)

structure FbColumn where
  name : String
  sqlType : Option String := none
  defaultValue : Option String := none
  comment : Option String := none
  displayOrder : Int := 0
  tag : Nat := 0
  encoding : Nat := 0
  primaryKey : Bool := false
  nullable : Bool := false
  autoIncrement : Bool := false
  hidden : Bool := false
  generated : Bool := false
  virtual : Bool := false
  onUpdateValue : Option String := none
  usesAdaptiveEncoding : Bool := false
  hiddenSystem : Bool := false
  adaptiveEncodingBreakingChange : Bool := false
deriving DecidableEq, Repr, Inhabited

structure FbFulltext where
  configTable : String
  positionTable : String
  docCountTable : String
  globalCountTable : String
  rowCountTable : String
  keyType : Nat
  keyName : String
  keyPositions : List Nat
deriving DecidableEq, Repr, Inhabited

structure FbIndex where
  name : Option String := none
  comment : Option String := none
  indexColumns : List Nat := []
  keyColumns : List Nat := []
  valueColumns : List Nat := []
  primaryKey : Bool := false
  uniqueKey : Bool := false
  systemDefined : Bool := false
  prefixLengths : List Nat := []
  spatialKey : Bool := false
  fulltextKey : Bool := false
  fulltextInfo : Option FbFulltext := none
  vectorKey : Bool := false
  /-- `VectorInfo.distance_type` when the table is present -/
  vectorInfo : Option Nat := none
  predicate : Option String := none
deriving DecidableEq, Repr, Inhabited

structure FbCheck where
  name : String
  expression : String
  enforced : Bool
  isNotValid : Bool
deriving DecidableEq, Repr, Inhabited

structure FbTable where
  columns : List FbColumn
  clusteredIndex : FbIndex
  secondaryIndexes : List FbIndex
  checks : List FbCheck
  collation : Nat
  hasFeaturesAfterTryAccessors : Bool
  comment : Option String
  /-- absent ⇒ the declared default 2048 -/
  targetRowSize : Option Nat
deriving DecidableEq, Repr, Inhabited

-- ---------------------------------------------------------------- constants (tied to the source)

def keylessIdCol : String := "keyless_hash_id"
def keylessCardCol : String := "keyless_cardinality"
def defaultTargetRowSize : Nat := 2048
def distanceL2Squared : Nat := 1
/-- the adaptive encodings for which `usesAdaptiveEncoding` answers true are a parameter: the
encoding numbers live in `val`; the model only needs the predicate. -/
abbrev AdaptivePred := Nat → Bool

def u16 (n : Nat) : Nat := n % 65536

-- ---------------------------------------------------------------- serialize

/-- `col.IsNullable()` -/
def Column.isNullable (c : Column) : Bool := !c.isPartOfPK && !c.autoIncrement && !c.notNull

def serColumn (adaptive : AdaptivePred) (i : Nat) (c : Column) : FbColumn :=
  { name := c.name
    sqlType := some c.typ.sqlType
    defaultValue := some (if c.default != "" then c.default else c.generated)
    comment := some c.comment
    displayOrder := Int.ofNat i
    tag := c.tag
    encoding := c.typ.enc
    primaryKey := c.isPartOfPK
    autoIncrement := c.autoIncrement
    nullable := c.isNullable
    generated := c.generated != ""
    virtual := c.virtual
    onUpdateValue := if c.onUpdate != "" then some c.onUpdate else none
    usesAdaptiveEncoding := adaptive c.typ.enc
    adaptiveEncodingBreakingChange := adaptive c.typ.enc
    hidden := c.hidden
    hiddenSystem := c.systemHidden }

def hiddenIdCol (idTag : Nat) (hashEnc : Nat) : FbColumn :=
  { name := keylessIdCol, displayOrder := -1, tag := idTag, encoding := hashEnc, generated := true, hidden := true }

def hiddenCardCol (cardTag : Nat) (u64Enc : Nat) : FbColumn :=
  { name := keylessCardCol, displayOrder := -1, tag := cardTag, encoding := u64Enc, generated := true, hidden := true }

/-- reserved tags / encodings of the two hidden keyless columns (values irrelevant to the
round trip; supplied by the driver from the real constants) -/
structure KeylessConsts where
  idTag : Nat
  cardTag : Nat
  hashEnc : Nat
  u64Enc : Nat
deriving Repr, Inhabited

/-- `schema.IsKeyless` -/
def Schema.isKeyless (s : Schema) : Bool := !(s.cols.any (·.isPartOfPK)) && !s.cols.isEmpty

def mapIdxFrom {α β : Type} (f : Nat → α → β) : Nat → List α → List β
  | _, [] => []
  | i, a :: as => f i a :: mapIdxFrom f (i + 1) as

def serColumns (adaptive : AdaptivePred) (k : KeylessConsts) (s : Schema) : List FbColumn :=
  mapIdxFrom (serColumn adaptive) 0 s.cols ++
    (if s.isKeyless then [hiddenIdCol k.idTag k.hashEnc, hiddenCardCol k.cardTag k.u64Enc] else [])

/-- `sch.GetAllCols().TagToIdx[tag]` — a Go map lookup: a missing key yields 0. -/
def tagToIdx (cols : List Column) (tag : Nat) : Nat :=
  match cols.findIdx? (·.tag == tag) with
  | some i => i
  | none => 0

def serClustered (s : Schema) : FbIndex :=
  let n := s.cols.length
  let ko := if s.isKeyless then [u16 n] else s.pkOrdinals.map u16
  let nonPk := (s.cols.filter (!·.isPartOfPK)).map (fun c => u16 (tagToIdx s.cols c.tag))
  let vo := if s.isKeyless then u16 (n + 1) :: nonPk else nonPk
  { indexColumns := ko, keyColumns := ko, valueColumns := vo, primaryKey := true, uniqueKey := true,
    spatialKey := false, systemDefined := false }

def serFulltext (f : FullText) : FbFulltext :=
  ⟨f.configTable, f.positionTable, f.docCountTable, f.globalCountTable, f.rowCountTable,
    f.keyType % 256, f.keyName, f.keyPositions.map u16⟩

/-- tags of the primary key in pk order (`ixc.pks`) -/
def pkTags (s : Schema) : List Nat :=
  if s.isKeyless then [] else s.pkOrdinals.filterMap (fun j => (s.cols[j]?).map (·.tag))

/-- `combineAllTags(tags, pks)` : the index tags followed by the pk tags not yet present -/
def combineAllTags (tags pks : List Nat) : List Nat :=
  pks.foldl (fun acc t => if acc.contains t then acc else acc ++ [t]) tags

def serIndex (s : Schema) (ix : Index) : FbIndex :=
  { name := some ix.name
    comment := some ix.comment
    indexColumns := ix.tags.map (fun t => u16 (tagToIdx s.cols t))
    keyColumns := (combineAllTags ix.tags (pkTags s)).map (fun t => u16 (tagToIdx s.cols t))
    primaryKey := false
    uniqueKey := ix.unique
    systemDefined := !ix.userDefined
    prefixLengths := ix.prefixLengths.map u16
    spatialKey := ix.spatial
    fulltextKey := ix.fullText
    fulltextInfo := if ix.fullText then some (serFulltext ix.ft) else none
    vectorKey := ix.vector
    vectorInfo := if ix.vector then some (if ix.vecL2 then distanceL2Squared else 0) else none
    predicate := if ix.predicate != "" then some ix.predicate else none }

def serCheck (c : Check) : FbCheck := ⟨c.name, c.expr, c.enforced, c.notValid⟩

def serialize (adaptive : AdaptivePred) (k : KeylessConsts) (s : Schema) : FbTable :=
  { columns := serColumns adaptive k s
    clusteredIndex := serClustered s
    secondaryIndexes := s.indexes.map (serIndex s)
    checks := s.checks.map serCheck
    collation := s.collation
    comment := if s.comment != "" then some s.comment else none
    targetRowSize := if s.targetRowSize != defaultTargetRowSize then some (u16 s.targetRowSize) else none
    hasFeaturesAfterTryAccessors :=
      s.cols.any (·.onUpdate != "") || s.comment != "" || s.targetRowSize != defaultTargetRowSize }

-- ---------------------------------------------------------------- deserialize

inductive DeErr where
  | columnIndex        -- TryColumns: position outside the columns vector
  | pkOrdinals         -- ErrInvalidPkOrdinals
  | distanceType       -- unknown distance type in vector index info
  | tagsDoNotExist     -- AddIndexByColTags: tags do not exist on this table
deriving DecidableEq, Repr

deriving instance DecidableEq for Except

def optStr : Option String → String
  | some s => s
  | none => ""

/-- `keylessSerialSchema` -/
def keylessSerial (cols : List FbColumn) : Bool :=
  let n := cols.length
  if n < 2 then false else
  match cols[n - 2]?, cols[n - 1]? with
  | some id, some card =>
    (id.generated && id.hidden && id.name == keylessIdCol) &&
    (card.generated && card.hidden && card.name == keylessCardCol)
  | _, _ => false

def deColumn (c : FbColumn) : Column :=
  { name := c.name
    tag := c.tag
    typ := ⟨optStr c.sqlType, c.encoding⟩
    isPartOfPK := c.primaryKey
    default := match c.defaultValue with
      | some d => if c.generated then "" else d
      | none => ""
    generated := match c.defaultValue with
      | some d => if c.generated then d else ""
      | none => ""
    onUpdate := optStr c.onUpdateValue
    virtual := c.virtual
    autoIncrement := c.autoIncrement
    comment := optStr c.comment
    notNull := !c.nullable || c.primaryKey
    hidden := c.hidden
    systemHidden := c.hiddenSystem }

def deColumns (t : FbTable) : List Column :=
  let n := if keylessSerial t.columns then t.columns.length - 2 else t.columns.length
  (t.columns.take n).map deColumn

def deFulltext : Option FbFulltext → FullText
  | none => FullText.empty
  | some f => ⟨f.configTable, f.positionTable, f.docCountTable, f.globalCountTable, f.rowCountTable,
      f.keyType, f.keyName, f.keyPositions⟩

def mapE {α β ε : Type} (f : α → Except ε β) : List α → Except ε (List β)
  | [] => .ok []
  | a :: as =>
    match f a with
    | .error e => .error e
    | .ok b =>
      match mapE f as with
      | .error e => .error e
      | .ok bs => .ok (b :: bs)

/-- `tags[j] = columns[index_columns[j]].Tag()` (`TryColumns` fails outside the vector) -/
def tagAt (t : FbTable) (pos : Nat) : Except DeErr Nat :=
  match t.columns[pos]? with
  | some c => .ok c.tag
  | none => .error DeErr.columnIndex

/-- `deserializeVectorInfo` -/
def deVector : Option Nat → Except DeErr Bool
  | none => .ok false
  | some d => if d == distanceL2Squared then .ok true else .error DeErr.distanceType

def deIndex (t : FbTable) (userTags : List Nat) (ix : FbIndex) : Except DeErr Index :=
  match deVector ix.vectorInfo with
  | .error e => .error e
  | .ok vecL2 =>
    match mapE (tagAt t) ix.indexColumns with
    | .error e => .error e
    | .ok tags =>
      if !(tags.all (userTags.contains ·)) then .error DeErr.tagsDoNotExist else
      .ok { name := optStr ix.name
            comment := optStr ix.comment
            predicate := optStr ix.predicate
            tags := tags
            prefixLengths := ix.prefixLengths
            unique := ix.uniqueKey
            spatial := ix.spatialKey
            fullText := ix.fulltextKey
            vector := ix.vectorKey
            userDefined := !ix.systemDefined
            ft := deFulltext ix.fulltextInfo
            vecL2 := vecL2 }

def deCheck (c : FbCheck) : Check := ⟨c.name, c.expression, c.enforced, c.isNotValid⟩

/-- `deserializeClusteredIndex` + `SetPkOrdinals` -/
def dePkOrdinals (t : FbTable) (npk : Nat) : Except DeErr (List Nat) :=
  if npk == 0 then .ok [] else
  if keylessSerial t.columns then .error DeErr.pkOrdinals else
  if t.clusteredIndex.keyColumns.length != npk then .error DeErr.pkOrdinals else .ok t.clusteredIndex.keyColumns

/-- an absent `target_row_size` reads as the default declared in schema.fbs -/
def deTargetRowSize : Option Nat → Nat
  | some n => n
  | none => defaultTargetRowSize

def deserialize (t : FbTable) : Except DeErr Schema :=
  let cols := deColumns t
  match dePkOrdinals t (cols.filter (·.isPartOfPK)).length with
  | .error e => .error e
  | .ok pkOrd =>
    match mapE (deIndex t (cols.map (·.tag))) t.secondaryIndexes with
    | .error e => .error e
    | .ok idx =>
      .ok { cols := cols
            pkOrdinals := pkOrd
            indexes := idx
            checks := t.checks.map deCheck
            collation := t.collation
            comment := optStr t.comment
            targetRowSize := deTargetRowSize t.targetRowSize }

-- ---------------------------------------------------------------- attribute ↔ field table

/-- One row per schema attribute the property names: the token that feeds the write
(`writes` of Gen/SchemaFields), the flatbuffer field that carries it, and the sink that receives
it on the way back (`reads`). -/
structure AttrRow where
  attr : String
  wfn : String
  src : String
  table : String
  field : String
  rfn : String
  sink : String
deriving DecidableEq, Repr

def attrTable : List AttrRow := [
  ⟨"column.name", "serializeSchemaColumns", "col.Name", "Column", "Name", "deserializeColumns", "Column.Name"⟩,
  ⟨"column.tag", "serializeSchemaColumns", "col.Tag", "Column", "Tag", "deserializeColumns", "Column.Tag"⟩,
  ⟨"column.type", "serializeSchemaColumns", "col.TypeInfo", "Column", "SqlType", "deserializeColumns", "Column.TypeInfo"⟩,
  ⟨"column.type.encoding", "serializeSchemaColumns", "col.TypeInfo.Encoding", "Column", "Encoding", "deserializeColumns", "Column.TypeInfo"⟩,
  ⟨"column.kind", "serializeSchemaColumns", "col.TypeInfo", "Column", "SqlType", "deserializeColumns", "Column.Kind"⟩,
  ⟨"column.isPartOfPK", "serializeSchemaColumns", "col.IsPartOfPK", "Column", "PrimaryKey", "deserializeColumns", "Column.IsPartOfPK"⟩,
  ⟨"column.default", "serializeSchemaColumns", "col.Default", "Column", "DefaultValue", "deserializeColumns", "Column.Default"⟩,
  ⟨"column.generated", "serializeSchemaColumns", "col.Generated", "Column", "DefaultValue", "deserializeColumns", "Column.Generated"⟩,
  ⟨"column.generated.flag", "serializeSchemaColumns", "col.Generated", "Column", "Generated", "deserializeColumns", "Column.Generated"⟩,
  ⟨"column.onUpdate", "serializeSchemaColumns", "col.OnUpdate", "Column", "OnUpdateValue", "deserializeColumns", "Column.OnUpdate"⟩,
  ⟨"column.virtual", "serializeSchemaColumns", "col.Virtual", "Column", "Virtual", "deserializeColumns", "Column.Virtual"⟩,
  ⟨"column.autoIncrement", "serializeSchemaColumns", "col.AutoIncrement", "Column", "AutoIncrement", "deserializeColumns", "Column.AutoIncrement"⟩,
  ⟨"column.comment", "serializeSchemaColumns", "col.Comment", "Column", "Comment", "deserializeColumns", "Column.Comment"⟩,
  ⟨"column.constraints", "serializeSchemaColumns", "col.IsNullable", "Column", "Nullable", "deserializeColumns", "Column.Constraints"⟩,
  ⟨"column.hidden", "serializeSchemaColumns", "col.Hidden", "Column", "Hidden", "deserializeColumns", "Column.Hidden"⟩,
  ⟨"column.systemHidden", "serializeSchemaColumns", "col.SystemHidden", "Column", "HiddenSystem", "deserializeColumns", "Column.SystemHidden"⟩,
  ⟨"columns.order", "serializeSchemaAsFlatbuffer", "sch.GetAllCols().GetColumns", "TableSchema", "Columns", "deserializeSchemaFromFlatbuffer", "NewColCollection.0"⟩,
  ⟨"pk.order", "serializeClusteredIndex", "sch.GetPkOrdinals", "Index", "KeyColumns", "deserializeSchemaFromFlatbuffer", "Schema.SetPkOrdinals"⟩,
  ⟨"table.collation", "serializeSchemaAsFlatbuffer", "sch.GetCollation", "TableSchema", "Collation", "deserializeSchemaFromFlatbuffer", "Schema.SetCollation"⟩,
  ⟨"table.comment", "serializeSchemaAsFlatbuffer", "sch.GetComment", "TableSchema", "Comment", "deserializeSchemaFromFlatbuffer", "Schema.SetComment"⟩,
  ⟨"table.targetRowSize", "serializeSchemaAsFlatbuffer", "sch.GetTargetRowSize", "TableSchema", "TargetRowSize", "deserializeSchemaFromFlatbuffer", "Schema.SetTargetRowSize"⟩,
  ⟨"index.name", "serializeSecondaryIndexes", "idx.Name", "Index", "Name", "deserializeSecondaryIndexes", "AddIndexByColTags.0"⟩,
  ⟨"index.columns", "serializeSecondaryIndexes", "idx.IndexedColumnTags", "Index", "IndexColumns", "deserializeSecondaryIndexes", "AddIndexByColTags.1"⟩,
  ⟨"index.prefixLengths", "serializeSecondaryIndexes", "idx.PrefixLengths", "Index", "PrefixLengths", "deserializeSecondaryIndexes", "AddIndexByColTags.2"⟩,
  ⟨"index.unique", "serializeSecondaryIndexes", "idx.IsUnique", "Index", "UniqueKey", "deserializeSecondaryIndexes", "IndexProperties.IsUnique"⟩,
  ⟨"index.spatial", "serializeSecondaryIndexes", "idx.IsSpatial", "Index", "SpatialKey", "deserializeSecondaryIndexes", "IndexProperties.IsSpatial"⟩,
  ⟨"index.fulltext", "serializeSecondaryIndexes", "idx.IsFullText", "Index", "FulltextKey", "deserializeSecondaryIndexes", "IndexProperties.IsFullText"⟩,
  ⟨"index.vector", "serializeSecondaryIndexes", "if:idx.IsVector", "Index", "VectorKey", "deserializeSecondaryIndexes", "IndexProperties.IsVector"⟩,
  ⟨"index.userDefined", "serializeSecondaryIndexes", "idx.IsUserDefined", "Index", "SystemDefined", "deserializeSecondaryIndexes", "IndexProperties.IsUserDefined"⟩,
  ⟨"index.comment", "serializeSecondaryIndexes", "idx.Comment", "Index", "Comment", "deserializeSecondaryIndexes", "IndexProperties.Comment"⟩,
  ⟨"index.predicate", "serializeSecondaryIndexes", "idx.Predicate", "Index", "Predicate", "deserializeSecondaryIndexes", "IndexProperties.Predicate"⟩,
  ⟨"index.fulltextInfo", "serializeSecondaryIndexes", "call:serializeFullTextInfo", "Index", "FulltextInfo", "deserializeSecondaryIndexes", "IndexProperties.FullTextProperties"⟩,
  ⟨"index.vectorInfo", "serializeSecondaryIndexes", "call:serializeVectorInfo", "Index", "VectorInfo", "deserializeSecondaryIndexes", "IndexProperties.VectorProperties"⟩,
  ⟨"index.props", "serializeSecondaryIndexes", "idx.IsUnique", "Index", "UniqueKey", "deserializeSecondaryIndexes", "AddIndexByColTags.3"⟩,
  ⟨"fulltext.configTable", "serializeFullTextInfo", "props.ConfigTable", "FulltextInfo", "ConfigTable", "deserializeFullTextInfo", "FullTextProperties.ConfigTable"⟩,
  ⟨"fulltext.positionTable", "serializeFullTextInfo", "props.PositionTable", "FulltextInfo", "PositionTable", "deserializeFullTextInfo", "FullTextProperties.PositionTable"⟩,
  ⟨"fulltext.docCountTable", "serializeFullTextInfo", "props.DocCountTable", "FulltextInfo", "DocCountTable", "deserializeFullTextInfo", "FullTextProperties.DocCountTable"⟩,
  ⟨"fulltext.globalCountTable", "serializeFullTextInfo", "props.GlobalCountTable", "FulltextInfo", "GlobalCountTable", "deserializeFullTextInfo", "FullTextProperties.GlobalCountTable"⟩,
  ⟨"fulltext.rowCountTable", "serializeFullTextInfo", "props.RowCountTable", "FulltextInfo", "RowCountTable", "deserializeFullTextInfo", "FullTextProperties.RowCountTable"⟩,
  ⟨"fulltext.keyType", "serializeFullTextInfo", "props.KeyType", "FulltextInfo", "KeyType", "deserializeFullTextInfo", "FullTextProperties.KeyType"⟩,
  ⟨"fulltext.keyName", "serializeFullTextInfo", "props.KeyName", "FulltextInfo", "KeyName", "deserializeFullTextInfo", "FullTextProperties.KeyName"⟩,
  ⟨"fulltext.keyPositions", "serializeFullTextInfo", "idx.FullTextProperties().KeyPositions", "FulltextInfo", "KeyPositions", "deserializeFullTextInfo", "FullTextProperties.KeyPositions"⟩,
  ⟨"vector.distanceType", "serializeVectorInfo", "if:props.DistanceType", "VectorInfo", "DistanceType", "deserializeVectorInfo", "VectorProperties.DistanceType"⟩,
  ⟨"check.name", "serializeChecks", "checks.Name", "CheckConstraint", "Name", "deserializeChecks", "AddCheck.0"⟩,
  ⟨"check.expression", "serializeChecks", "checks.Expression", "CheckConstraint", "Expression", "deserializeChecks", "AddCheck.1"⟩,
  ⟨"check.enforced", "serializeChecks", "checks.Enforced", "CheckConstraint", "Enforced", "deserializeChecks", "AddCheck.2"⟩,
  ⟨"check.isNotValid", "serializeChecks", "checks.IsNotValid", "CheckConstraint", "IsNotValid", "deserializeChecks", "AddCheck.3"⟩ ]

/-- is the row witnessed by the regenerated write and read tables? (`if:`-prefixed read deps count:
a value reconstructed from a branch on the field still depends on the field) -/
def rowCovered (writes : List (String × String × String × List String))
    (reads : List (String × String × List String)) (r : AttrRow) : Bool :=
  writes.any (fun w => w.1 == r.wfn && w.2.1 == r.table && w.2.2.1 == r.field && w.2.2.2.contains r.src) &&
  reads.any (fun d => d.1 == r.rfn && d.2.1 == r.sink &&
    (d.2.2.contains (r.table ++ "." ++ r.field) || d.2.2.contains ("if:" ++ r.table ++ "." ++ r.field)))

/-- the Go-side attribute universe each sink family must exhaust -/
def sinksWithPrefix (pre : String) : List String :=
  (attrTable.map (·.sink)).filter (fun s => s.startsWith pre) |>.eraseDups

-- ---------------------------------------------------------------- tags (schema/tag.go)

def reservedTagMin : Nat := 2 ^ 50
def maxTagInit : Nat := 128 * 128
def maxTagFactor : Nat := 128
def two64 : Nat := 2 ^ 64

/-- the first loop of `AutoGenerateTag` (uint64 arithmetic, overflow test included; the `panic`
branch is `none`).  `fuel` bounds the iteration count; 10 is always enough (`maxTag_fuel`). -/
def maxTagLoop : Nat → Nat → Nat → Option Nat
  | 0, _, m => some m
  | fuel + 1, size, m =>
    if m / 2 < size then
      if m ≥ reservedTagMin - 1 then none
      else if (m * maxTagFactor) % two64 < m then some (reservedTagMin - 1)
      else maxTagLoop fuel size ((m * maxTagFactor) % two64)
    else some m

def maxTagVal (size : Nat) : Option Nat := maxTagLoop 10 size maxTagInit

/-- The collision loop: draw `stream 0, stream 1, …` (already reduced into `[0, max)` by
`Int63n`) until a tag not in `existing` appears.  The Go loop has no bound; the model is given
explicit fuel and answers `none` when it runs out (`autoGenerateTag_terminates` shows when that
cannot happen). -/
def firstFree (existing : List Nat) (stream : Nat → Nat) : Nat → Nat → Option Nat
  | 0, _ => none
  | fuel + 1, i => if existing.contains (stream i) then firstFree existing stream fuel (i + 1) else some (stream i)

/-- `deterministicRandomTagGenerator`'s seed input: kinds of the existing columns, the new kind,
then the two simplified names. -/
def lower (b : UInt8) : UInt8 := if 65 ≤ b.toNat ∧ b.toNat ≤ 90 then b + 32 else b
def isAlnum (b : UInt8) : Bool :=
  (48 ≤ b.toNat && b.toNat ≤ 57) || (65 ≤ b.toNat && b.toNat ≤ 90) || (97 ≤ b.toNat && b.toNat ≤ 122)
/-- `simpleString` on bytes: drop every byte that is not `[a-zA-Z0-9]`, lower-case the rest.
(On valid UTF-8 the regex works on runes, but every non-ASCII rune consists of bytes ≥ 0x80, all of
which are dropped either way.) -/
def simpleString (s : List UInt8) : List UInt8 := (s.filter isAlnum).map lower

def seedBytes (table col : List UInt8) (kinds : List Nat) (kind : Nat) : List UInt8 :=
  kinds.map (fun k => UInt8.ofNat k) ++ [UInt8.ofNat kind] ++ simpleString table ++ simpleString col

/-- `Rand`: the external generator, a parameter: seed bytes ↦ max ↦ the stream of `Int63n(max)` draws. -/
abbrev Rand := List UInt8 → Nat → Nat → Nat

/-- `existing` = the key set of the `TagMapping` map as a duplicate-free list (any order). -/
def autoGenerateTag (rand : Rand) (fuel : Nat) (existing : List Nat) (table : List UInt8) (kinds : List Nat)
    (col : List UInt8) (kind : Nat) : Option Nat :=
  match maxTagVal existing.length with
  | none => none
  | some m => firstFree existing (rand (seedBytes table col kinds kind) m) fuel 0

/-- The loop of `GenerateTagsForNewColumns` over the new columns that did not inherit a tag:
`reuse[i] = some t` for a column that re-uses the tag of an equally named existing column. -/
def generateTags (rand : Rand) (fuel : Nat) (table : List UInt8) :
    List Nat → List Nat → List (List UInt8 × Nat × Option Nat) → Option (List Nat)
  | _, _, [] => some []
  | existing, kinds, (col, kind, reuse) :: rest =>
    match reuse with
    | some t => (generateTags rand fuel table existing kinds rest).map (t :: ·)
    | none =>
      match autoGenerateTag rand fuel existing table kinds col kind with
      | none => none
      | some t => (generateTags rand fuel table (t :: existing) (kinds ++ [kind]) rest).map (t :: ·)

end DoltVerif.SchemaSer
