/-
Dropped-database manager model (family Undrop: C47).  Core Lean only.

Transliterates go/libraries/doltcore/sqle/dropped_databases.go (`DropDatabase`, `UndropDatabase`,
`validateUndropDatabase`, `hasCaseInsensitiveMatch`, `hasCaseInsensitivePath`,
`prepareToMoveDroppedDatabase`, `initializeDeletedDatabaseDirectory`, `ListDroppedDatabases`,
`PurgeAllDroppedDatabases`) and the provider steps around them
(`DoltDatabaseProvider.DropDatabase / UndropDatabase / CreateCollatedDatabase`: case-insensitive
map key, exact-case on-disk check, unregister *before* the move, register *after* it) over a
directory-tree model of `filesys.Filesys`: a file system is the list of its stored paths (relative
to the data directory) with `Exists`, `MkDirs`, `MoveDir` (= rename of a path prefix), `Iter`
(non-recursive, `os.ReadDir` order = ascending names) and `Delete(force)`.

A database's content is whatever files lie under its directory; the model stores a marker file
`<db>/.dolt/m` with an incarnation number; names are byte lists so that "the same files" is observable.
`time.Now().UnixMilli()` (the `.backup.<ms>` suffix) is an input.
-/
namespace DoltVerif.Undrop

/-- a file or database name: its bytes (so that everything below is evaluable by the kernel) -/
abbrev Name := List Nat
abbrev Path := List Name

def bytes (s : String) : Name := s.toList.map Char.toNat

inductive Entry where
  | dir
  | file (content : Nat)
deriving Repr, DecidableEq

/-- every stored path with its kind; the data directory `[]` itself is implicit -/
abbrev FS := List (Path × Entry)

inductive Err where
  | dbExists            -- sql.ErrDatabaseExists / "can't create database"
  | dbNotFound          -- sql.ErrDatabaseNotFound
  | notUndroppable      -- "no database named '%s' found to undrop"
  | nameTaken           -- "another database already exists with the same case-insensitive name"
  | holdingNotDir       -- "%s exists, but is not a directory"
  | backupCollision     -- "unable to move existing dropped database out of the way"
  | notUnderHolding     -- purge's sanity check
  | moveFailed          -- rename failed (source missing / destination exists / no parent)
  | notADatabase        -- registerNewDatabase failed: no .dolt directory at the restored location
deriving Repr, DecidableEq

/-- `droppedDatabaseDirectoryName` (tied to the source by `Tie.Undrop.holdingName`) -/
def holding : Name :=
  [46, 100, 111, 108, 116, 95, 100, 114, 111, 112, 112, 101, 100, 95, 100, 97, 116, 97, 98, 97, 115, 101, 115]
/-- `dbfactory.DoltDir` = ".dolt" -/
def doltDir : Name := [46, 100, 111, 108, 116]
/-- the model's marker file "m" -/
def markerName : Name := [109]
/-- ".backup." -/
def backupInfix : Name := [46, 98, 97, 99, 107, 117, 112, 46]
/-- `fmt.Sprintf("%s.backup.%d", targetPath, ms)` on the last path component -/
def backupName (base : Name) (ms : Nat) : Name := base ++ backupInfix ++ (Nat.toDigits 10 ms).map Char.toNat

/-- byte-wise lexicographic order (`os.ReadDir` sorts by file name) -/
def nameLt : Name → Name → Bool
  | [], [] => false
  | [], _ :: _ => true
  | _ :: _, [] => false
  | a :: as, b :: bs => a < b || (a == b && nameLt as bs)

def lowerByte (c : Nat) : Nat := if 65 ≤ c ∧ c ≤ 90 then c + 32 else c

/-- `Exists`: something is stored at or beneath the path (directories may be implicit) -/
def pathExists (fs : FS) (p : Path) : Bool := p == [] || fs.any (fun e => p.isPrefixOf e.1)
/-- `Exists`'s second result: the path is a directory (stored as one, or has something beneath it) -/
def isDirAt (fs : FS) (p : Path) : Bool :=
  p == [] || fs.any (fun e => p.isPrefixOf e.1 && (e.1 != p || e.2 == .dir))

/-- `MkDirs`: create the directory and every missing ancestor (`os.MkdirAll`); no-op if present -/
def mkDirs (fs : FS) (p : Path) : FS :=
  (List.range p.length).foldl (fun acc i =>
    let q := p.take (i + 1)
    if pathExists acc q then acc else acc ++ [(q, .dir)]) fs

/-- `MoveDir` = `os.Rename`: the prefix `src` of every stored path becomes `dst` -/
def moveDir (fs : FS) (src dst : Path) : Except Err FS :=
  if !pathExists fs src || src == [] then .error .moveFailed
  else if pathExists fs dst then .error .moveFailed
  else if !isDirAt fs dst.dropLast then .error .moveFailed
  else .ok (fs.map (fun e => if src.isPrefixOf e.1 then (dst ++ e.1.drop src.length, e.2) else e))

def insertSorted (s : Name) : List Name → List Name
  | [] => [s]
  | x :: xs => if nameLt s x then s :: x :: xs else if s = x then x :: xs else x :: insertSorted s xs

/-- `Iter(dir, recursive = false)`: the names directly under `dir`, ascending -/
def children (fs : FS) (d : Path) : List Name :=
  fs.foldl (fun acc e =>
    if d.isPrefixOf e.1 then
      match (e.1.drop d.length).head? with
      | some n => insertSorted n acc
      | none => acc
    else acc) []

/-- `Delete(path, force = true)` -/
def deleteAll (fs : FS) (p : Path) : FS := fs.filter (fun e => !p.isPrefixOf e.1)

/-- `strings.EqualFold` on the ASCII names the model is driven with -/
def eqFold (a b : Name) : Bool := a.map lowerByte == b.map lowerByte

structure St where
  fs : FS
  /-- `p.databases` / `p.dbLocations`: registered name (exact case) and directory; `[]` = the data
  directory itself (root database) -/
  live : List (Name × Path)
deriving Repr

def findLive (live : List (Name × Path)) (name : Name) : Option (Name × Path) :=
  live.find? (fun d => eqFold d.1 name)

/-- `CREATE DATABASE name` with incarnation marker `c` -/
def createDb (st : St) (name : Name) (c : Nat) : St × Except Err Unit :=
  if (findLive st.live name).isSome then (st, .error .dbExists)
  else if pathExists st.fs [name] then (st, .error .dbExists)
  else
    let fs := st.fs ++ [([name], .dir), ([name, doltDir], .dir), ([name, doltDir, markerName], .file c)]
    ({ fs := fs, live := st.live ++ [(name, [name])] }, .ok ())

/-- `initializeDeletedDatabaseDirectory` -/
def initHolding (fs : FS) : Except Err FS :=
  if pathExists fs [holding] && !isDirAt fs [holding] then .error .holdingNotDir
  else if pathExists fs [holding] then .ok fs
  else .ok (mkDirs fs [holding])

/-- `prepareToMoveDroppedDatabase`: an existing dropped copy at the target is renamed to
`<target>.backup.<ms>`; nothing is deleted -/
def prepareToMove (fs : FS) (target : Path) (ms : Nat) : Except Err FS :=
  if !pathExists fs target then .ok fs
  else
    match target.getLast? with
    | none => .error .backupCollision
    | some base =>
      let newPath := target.dropLast ++ [backupName base ms]
      if pathExists fs newPath then .error .backupCollision
      else match moveDir fs target newPath with
        | .ok fs' => .ok fs'
        | .error _ => .error .backupCollision

/-- `droppedDatabaseManager.DropDatabase(name, dropDbLoc)` -/
def managerDrop (fs : FS) (name : Name) (loc : Path) (ms : Nat) : Except Err FS :=
  let isRoot := loc == []
  if isRoot && !pathExists fs [doltDir] then .error .dbNotFound
  else
    let dropLoc := if isRoot then [doltDir] else loc
    match initHolding fs with
    | .error e => .error e
    | .ok fs1 =>
      match dropLoc.getLast? with
      | none => .error .dbNotFound
      | some file =>
        let fs2 := if isRoot then mkDirs fs1 [holding, name] else fs1
        let dest := if isRoot then [holding, name, file] else [holding, file]
        match prepareToMove fs2 dest ms with
        | .error e => .error e
        | .ok fs3 => moveDir fs3 dropLoc dest

/-- `DoltDatabaseProvider.DropDatabase`: the database is removed from the provider's map first;
a failure of the move is returned but the database stays unregistered -/
def dropDb (st : St) (name : Name) (ms : Nat) : St × Except Err Unit :=
  match findLive st.live name with
  | none => (st, .error .dbNotFound)
  | some d =>
    let live' := st.live.filter (fun x => !eqFold x.1 name)
    match managerDrop st.fs name d.2 ms with
    | .ok fs' => ({ fs := fs', live := live' }, .ok ())
    | .error e => ({ fs := st.fs, live := live' }, .error e)

/-- `hasCaseInsensitiveMatch`: the candidate called exactly `name` if there is one, otherwise the
first candidate (in `Iter` order) equal under case folding -/
def firstFoldMatch (cands : List Name) (name : Name) : Option Name :=
  match cands.find? (fun s => s == name) with
  | some s => some s
  | none => cands.find? (fun s => eqFold name s)

/-- `validateUndropDatabase` (+ the `MkDirs` of `ListDroppedDatabases`): source, destination, exact name -/
def validateUndrop (fs : FS) (name : Name) : Except Err (FS × Path × Path × Name) :=
  match initHolding fs with
  | .error e => .error e
  | .ok fs1 =>
    match firstFoldMatch (children fs1 [holding]) name with
    | none => .error .notUndroppable
    | some exact =>
      -- hasCaseInsensitivePath: any entry of the data directory whose name folds to `exact`
      if (children fs1 []).any (fun n => eqFold n exact) then .error .nameTaken
      else .ok (fs1, [holding, exact], [exact], exact)

/-- `DoltDatabaseProvider.UndropDatabase`: validate, move, then register -/
def undropDb (st : St) (name : Name) : St × Except Err Unit :=
  match validateUndrop st.fs name with
  | .error e => (st, .error e)     -- (the holding directory may have been created: invisible to SQL)
  | .ok (fs1, src, dst, exact) =>
    match moveDir fs1 src dst with
    | .error e => ({ st with fs := fs1 }, .error e)
    | .ok fs2 =>
      if !isDirAt fs2 [exact, doltDir] then ({ st with fs := fs2 }, .error .notADatabase)
      else ({ fs := fs2, live := st.live ++ [(exact, [exact])] }, .ok ())

/-- `PurgeAllDroppedDatabases`: delete every entry directly under the holding directory -/
def purge (st : St) : St × Except Err Unit :=
  if !pathExists st.fs [holding] then (st, .ok ())
  else
    let fs' := (children st.fs [holding]).foldl (fun acc n => deleteAll acc [holding, n]) st.fs
    ({ st with fs := fs' }, .ok ())

/-- the files of the database directory `p`, relative to it, in stored order -/
def subtree (fs : FS) (p : Path) : List (Path × Entry) :=
  (fs.filter (fun e => p.isPrefixOf e.1 && e.1 != p)).map (fun e => (e.1.drop p.length, e.2))

end DoltVerif.Undrop
