import DoltVerif.Model.PathClean
/-
Model of dolt's remote-server URL sealer and HTTP file-handler path logic (C39).

Transliteration of
  go/libraries/doltcore/remotesrv/sealer.go  singleSymmetricKeySealer.Seal / Unseal
  go/libraries/doltcore/remotesrv/http.go    filehandler.ServeHTTP (GET and POST/PUT path logic),
                                             validateFileName
  go/store/hash/hash.go                      MaybeParse (pattern ^([0-9a-v]{32})$)

External algorithms are parameters (`Params`): the AEAD (AES-256-GCM in Go), the two `net/url`
functions the sealer calls (`URL.String` of `{Path: EscapedPath, RawQuery}` and `url.Parse` +
`EscapedPath` of the result) and the base64 codec.  `strconv.ParseInt/FormatInt` (base 10, 64 bit)
and `base64.RawURLEncoding` are also given concretely (used by the driver).
A URL as seen by `Unseal` is `(u.Path, u.Query())`: the decoded path and the decoded query as an
ordered key/value list (`Has` = some pair has the key, `Get` = value of the first such pair).
Core-only.
-/
namespace DoltVerif.Sealer
open DoltVerif.PathClean (slash dot clean)

abbrev Bytes := List UInt8

/-- ASCII string literal → bytes (kernel-reducible, unlike `String.toUTF8`) -/
def str (s : String) : Bytes := s.toList.map (fun c => UInt8.ofNat c.toNat)

-- ------------------------------------------------------------------ parameters

structure Aead where
  /-- `aesgcm.Seal(nil, nonce, plaintext, aad)` : key nonce aad msg -/
  sealA : Bytes → Bytes → Bytes → Bytes → Bytes
  /-- `aesgcm.Open(nil, nonce, ciphertext, aad)` : key nonce aad ct -/
  openA : Bytes → Bytes → Bytes → Bytes → Option Bytes

/-- what `Unseal` reads from `url.Parse(plaintext)`: `.Path`, `.EscapedPath()`, `.RawQuery` -/
structure Parsed where
  path : Bytes
  escPath : Bytes
  rawQuery : Bytes
  deriving DecidableEq, Repr

structure UrlLib where
  /-- `(&url.URL{Path: ep, RawQuery: rq}).String()` -/
  render : Bytes → Bytes → Bytes
  /-- `url.Parse` -/
  parse : Bytes → Option Parsed

structure B64 where
  enc : Bytes → Bytes
  dec : Bytes → Option Bytes

structure Params where
  aead : Aead
  url : UrlLib
  b64 : B64

-- ------------------------------------------------------------------ strconv (base 10, int64)

def isDigit (c : UInt8) : Bool := 0x30 ≤ c && c ≤ 0x39

/-- digits → value, most significant first; `none` on a non-digit. -/
def digitsVal : Bytes → Nat → Option Nat
  | [], acc => some acc
  | c :: r, acc => if isDigit c then digitsVal r (acc * 10 + (c.toNat - 0x30)) else none

/-- `strconv.ParseInt(s, 10, 64)`: optional sign, at least one digit, digits only, in range. -/
def parseInt64 (s : Bytes) : Option Int :=
  match s with
  | [] => none
  | c :: r =>
    let neg := c == 0x2d
    let ds := if c == 0x2b || c == 0x2d then r else s
    if ds.isEmpty then none else
    match digitsVal ds 0 with
    | none => none
    | some n =>
      if neg then (if n > 2^63 then none else some (-(n : Int)))
      else (if n ≥ 2^63 then none else some (n : Int))

def digitChar (d : Nat) : UInt8 := UInt8.ofNat (0x30 + d)

/-- decimal digits of a natural number, most significant first -/
def natDigits (n : Nat) : Bytes :=
  if h : n < 10 then [digitChar n] else natDigits (n / 10) ++ [digitChar (n % 10)]
termination_by n
decreasing_by omega

/-- `strconv.FormatInt(i, 10)` -/
def formatInt (i : Int) : Bytes :=
  if i < 0 then 0x2d :: natDigits i.natAbs else natDigits i.toNat

-- ------------------------------------------------------------------ base64.RawURLEncoding

def b64Alphabet : Bytes := str "ABCDEFGHIJKLMNOPQRSTUVWXYZabcdefghijklmnopqrstuvwxyz0123456789-_"

def b64Val (c : UInt8) : Option Nat :=
  if 0x41 ≤ c && c ≤ 0x5a then some (c.toNat - 0x41)
  else if 0x61 ≤ c && c ≤ 0x7a then some (c.toNat - 0x61 + 26)
  else if 0x30 ≤ c && c ≤ 0x39 then some (c.toNat - 0x30 + 52)
  else if c == 0x2d then some 62
  else if c == 0x5f then some 63
  else none

def b64Char (v : Nat) : UInt8 := b64Alphabet.getD v 0

def b64DecGo : List Nat → Option Bytes
  | a :: b :: c :: d :: rest =>
    match b64DecGo rest with
    | none => none
    | some tl =>
      let n := a * 262144 + b * 4096 + c * 64 + d
      some (UInt8.ofNat (n / 65536) :: UInt8.ofNat (n / 256 % 256) :: UInt8.ofNat (n % 256) :: tl)
  | [a, b, c] => let n := a * 4096 + b * 64 + c
    some [UInt8.ofNat (n / 1024), UInt8.ofNat (n / 4 % 256)]
  | [a, b] => some [UInt8.ofNat ((a * 64 + b) / 16)]
  | [_] => none
  | [] => some []

/-- `base64.RawURLEncoding.DecodeString` (non-strict): CR and LF are skipped anywhere, every other
byte must be in the URL alphabet (`=` is not), a dangling single character is an error, unused
trailing bits are not checked. -/
def b64Dec (s : Bytes) : Option Bytes :=
  match (s.filter (fun c => c != 0x0a && c != 0x0d)).mapM b64Val with
  | none => none
  | some vs => b64DecGo vs

def b64Enc : Bytes → Bytes
  | a :: b :: c :: rest =>
    let n := a.toNat * 65536 + b.toNat * 256 + c.toNat
    b64Char (n / 262144) :: b64Char (n / 4096 % 64) :: b64Char (n / 64 % 64) :: b64Char (n % 64) :: b64Enc rest
  | [a, b] => let n := a.toNat * 1024 + b.toNat * 4
    [b64Char (n / 4096), b64Char (n / 64 % 64), b64Char (n % 64)]
  | [a] => let n := a.toNat * 16
    [b64Char (n / 64), b64Char (n % 64)]
  | [] => []

def goB64 : B64 := ⟨b64Enc, b64Dec⟩

-- ------------------------------------------------------------------ query helpers

abbrev Query := List (Bytes × Bytes)

def qHas (q : Query) (k : Bytes) : Bool := q.any (fun p => p.1 == k)
def qGet (q : Query) (k : Bytes) : Bytes :=
  match q.find? (fun p => p.1 == k) with
  | some p => p.2
  | none => []

-- ------------------------------------------------------------------ Seal / Unseal

def sealedPrefix : Bytes := str "/single_symmetric_key_sealed_request/"

/-- `time.Now().Add(-10 * time.Second).UnixMilli()` / `time.Now().Add(15 * time.Minute).UnixMilli()`
with `now` in milliseconds -/
def nbfBackMs : Int := 10000
def expAheadMs : Int := 900000
def nonceLen : Nat := 12

def aadOf (nbfStr expStr : Bytes) : Bytes := nbfStr ++ 0x3a :: expStr

structure Url where
  path : Bytes
  query : Query
  deriving DecidableEq, Repr

/-- `Seal`.  `ep` = `u.EscapedPath()`, `rq` = `u.RawQuery`; `nonce` = the 12 random bytes;
`now`, `now2` = the two `time.Now()` reads (for nbf and for exp), in milliseconds.
`url.Values.Encode` sorts by key, hence the order exp, nbf, nonce, req. -/
def sealUrl (P : Params) (key : Bytes) (now now2 : Int) (nonce : Bytes) (ep rq : Bytes) : Url :=
  let requestURI := P.url.render ep rq
  let nbfStr := formatInt (now - nbfBackMs)
  let expStr := formatInt (now2 + expAheadMs)
  let reqBytes := P.aead.sealA key nonce (aadOf nbfStr expStr) requestURI
  { path := sealedPrefix ++ ep,
    query := [(str "exp", expStr), (str "nbf", nbfStr), (str "nonce", P.b64.enc nonce),
              (str "req", P.b64.enc reqBytes)] }

inductive Err where
  | badPrefix | noNbf | noExp | noNonce | noReq | parseNbf | parseExp | decodeNonce
  | nbfInvalid | expInvalid
  | nonceLen        -- `len(nonce) != aesgcm.NonceSize()` (guards `cipher.AEAD.Open`, which would panic)
  | decodeReq | openFail | parseUrl | pathMismatch
  deriving DecidableEq, Repr

/-- `Unseal`: result = `(ret.Path, ret.RawQuery)`; the checks are in the order of the Go code. -/
def unsealUrl (P : Params) (key : Bytes) (now : Int) (u : Url) : Except Err (Bytes × Bytes) :=
  if !sealedPrefix.isPrefixOf u.path then .error .badPrefix else
  if !qHas u.query (str "nbf") then .error .noNbf else
  if !qHas u.query (str "exp") then .error .noExp else
  if !qHas u.query (str "nonce") then .error .noNonce else
  if !qHas u.query (str "req") then .error .noReq else
  let nbfStr := qGet u.query (str "nbf")
  let expStr := qGet u.query (str "exp")
  let nonceStr := qGet u.query (str "nonce")
  match parseInt64 nbfStr with
  | none => .error .parseNbf
  | some nbf =>
  match parseInt64 expStr with
  | none => .error .parseExp
  | some exp =>
  match P.b64.dec nonceStr with
  | none => .error .decodeNonce
  | some nonce =>
  if now < nbf then .error .nbfInvalid else
  if now > exp then .error .expInvalid else
  if nonce.length != nonceLen then .error .nonceLen else
  match P.b64.dec (qGet u.query (str "req")) with
  | none => .error .decodeReq
  | some reqBytes =>
  match P.aead.openA key nonce (aadOf nbfStr expStr) reqBytes with
  | none => .error .openFail
  | some requestURI =>
  match P.url.parse requestURI with
  | none => .error .parseUrl
  | some r =>
  if u.path.drop sealedPrefix.length != r.escPath then .error .pathMismatch
  else .ok (r.path, r.rawQuery)

-- ------------------------------------------------------------------ file handler path logic

def isHashChar (c : UInt8) : Bool := (0x30 ≤ c && c ≤ 0x39) || (0x61 ≤ c && c ≤ 0x76)

/-- `hash.MaybeParse` succeeds: `^([0-9a-v]{32})$` -/
def isHashName (s : Bytes) : Bool := s.length == 32 && s.all isHashChar

def archiveSuffix : Bytes := str ".darc"

def hasPrefix (s p : Bytes) : Bool := p.isPrefixOf s
def hasSuffix (s p : Bytes) : Bool := p.isSuffixOf s
/-- `strings.Contains` -/
def contains : Bytes → Bytes → Bool
  | [], p => p.isEmpty
  | c :: r, p => p.isPrefixOf (c :: r) || contains r p

/-- `strings.TrimLeft(s, "/")` -/
def trimLeftSlash : Bytes → Bytes
  | [] => []
  | c :: r => if c == slash then trimLeftSlash r else c :: r

/-- `path[strings.LastIndex(path, "/")+1:]`, `none` when there is no '/'.
Returns (path[:i], path[i+1:]). -/
def splitLastSlash (s : Bytes) : Option (Bytes × Bytes) :=
  match s with
  | [] => none
  | c :: r =>
    match splitLastSlash r with
    | some (d, f) => some (c :: d, f)
    | none => if c == slash then some ([], r) else none

/-- `validateFileName` -/
def validateFileName (f : Bytes) : Bool :=
  if f.length == 32 then isHashName f
  else if f.length == 32 + archiveSuffix.length && hasSuffix f archiveSuffix then isHashName (f.take 32)
  else false

inductive GetRes where
  | dotdot      -- 400 "bad request with .. in URL path"
  | noSlash     -- 400 "-1 LastIndex"
  | badName     -- 400 "unparseable last path component"
  | serve (rel : Bytes)   -- `fh.fs.Abs(rel)` is opened
  deriving DecidableEq, Repr

/-- GET branch of `filehandler.ServeHTTP`, applied to the unsealed `req.URL.Path` -/
def getPath (urlPath : Bytes) : GetRes :=
  let path := clean (trimLeftSlash urlPath)
  if hasPrefix path (str "../") || contains path (str "/../") || hasSuffix path (str "/..") then .dotdot else
  match splitLastSlash path with
  | none => .noSlash
  | some (_, f) =>
    let fileName := if hasSuffix f archiveSuffix then f.take (f.length - archiveSuffix.length) else f
    if isHashName fileName then .serve path else .badName

inductive PostRes where
  | notFound    -- 404
  | write (dbPath file : Bytes)   -- `writeTableFile(…, dbCache, dbPath, file, …)`
  deriving DecidableEq, Repr

/-- POST/PUT branch (when not read-only), up to the query-parameter checks -/
def postPath (urlPath : Bytes) : PostRes :=
  let path := trimLeftSlash urlPath
  match splitLastSlash path with
  | none => .notFound
  | some (d, f) => if validateFileName f then .write d f else .notFound

-- ------------------------------------------------------------------ toy AEAD for the driver

/-- 4-byte big-endian length prefix -/
def len4 (n : Nat) : Bytes :=
  [UInt8.ofNat (n / 16777216 % 256), UInt8.ofNat (n / 65536 % 256), UInt8.ofNat (n / 256 % 256), UInt8.ofNat (n % 256)]

/-- A transparent "AEAD": the ciphertext spells out key, nonce, aad and message.  It is an
instance of the ideal interface the theorems assume (open succeeds exactly on what seal
produced for the same key, nonce and aad); it hides nothing, which the model does not need. -/
def toySeal (k n aad m : Bytes) : Bytes :=
  len4 k.length ++ k ++ len4 n.length ++ n ++ len4 aad.length ++ aad ++ m

def toyOpen (k n aad c : Bytes) : Option Bytes :=
  let hdr := len4 k.length ++ k ++ len4 n.length ++ n ++ len4 aad.length ++ aad
  if hdr.isPrefixOf c then some (c.drop hdr.length) else none

def toyAead : Aead := ⟨toySeal, toyOpen⟩

end DoltVerif.Sealer
