import DoltVerif.Model.ValCodec
/-
BigValues — model for C16 (large TEXT / BLOB / JSON values are stored faithfully).

* `varintEncode/varintDecode`: the SQLite4 variable-length integer of github.com/mohae/uvarint
  (length prefix of an out-of-band adaptive value), transliterated branch by branch.
* adaptive values (`go/store/val/adaptive_value.go`): NULL = empty, inline = `0 :: payload`,
  out of band = `varint(len) ++ addr(20)`; `isInlined/isOutOfBand/messageLength/inlineSize/
  outOfBandSize` as in Go (including `outOfBandSize` of an inline value reading the *header byte*
  as a varint, i.e. always 1 + 20).
* `putAdaptive` / `placeRow`: `TupleBuilder.PutAdaptiveFromInline` and the out-of-band selection
  of `BuildPermissive` (candidates with positive savings, stable sort by savings descending, move
  out of band until the row fits, everything else inline).
* blob trees (`go/store/prolly/tree/blob_builder.go`).  A tree written by `BlobBuilder` has fixed
  fan-out `sz = chunkSize / 20`, every leaf node holds one value, and a node of level `k` whose
  first leaf has index `o` covers the leaves `[o, o + sz^k)`.  The model therefore represents a
  tree by its level and its leaf list (`Tree`); a node is a window (`Frame`).  The reader handed to
  `Chunk` is the byte string *plus its segmentation* (`seg`: the most the k-th `Read` call
  returns), because `blobLeafWriter.Write` issues one `r.Read(buf)` per leaf.  `Chunk` returns
  after the first node of the top level: leaves beyond `sz^topLevel` are never written.
* `differNext` / `compareAdaptive`: `blobChunkDiffer.Next` (trim, aligned walk over equal-level
  internal nodes skipping children with equal addresses, `diverged`, `nextLeaf`) and
  `nodeStore.CompareAdaptive` + `compareChunkDiffer` (one call of `Next`, `bytes.Compare` of the
  pair).  Node addresses are compared as covered leaf lists (content addressing; hash injectivity
  is the stated assumption).
Core Lean only.
-/
namespace DoltVerif.BigValues
open DoltVerif.ValCodec (Bytes bytesCompare beBytes beNat)

/-! ## SQLite4 varint -/

def varintEncode (x : Nat) : Bytes :=
  if x < 241 then [UInt8.ofNat x]
  else if x < 2288 then [UInt8.ofNat ((x - 240) / 256 + 241), UInt8.ofNat ((x - 240) % 256)]
  else if x < 67824 then [0xF9, UInt8.ofNat ((x - 2288) / 256), UInt8.ofNat ((x - 2288) % 256)]
  else if x < 2 ^ 24 then 0xFA :: beBytes 3 x
  else if x < 2 ^ 32 then 0xFB :: beBytes 4 x
  else if x < 2 ^ 40 then 0xFC :: beBytes 5 x
  else if x < 2 ^ 48 then 0xFD :: beBytes 6 x
  else if x < 2 ^ 56 then 0xFE :: beBytes 7 x
  else 0xFF :: beBytes 8 x

/-- `Uvarint`: (value, bytes consumed); `none` = index-out-of-range panic -/
def varintDecode (b : Bytes) : Option (Nat × Nat) :=
  match b with
  | [] => none
  | b0 :: rest =>
    if b0 ≤ 0xF0 then some (b0.toNat, 1)
    else if b0 ≤ 0xF8 then
      match rest with
      | b1 :: _ => some (240 + 256 * (b0.toNat - 241) + b1.toNat, 2)
      | _ => none
    else if b0 = 0xF9 then
      match rest with
      | b1 :: b2 :: _ => some (2288 + 256 * b1.toNat + b2.toNat, 3)
      | _ => none
    else
      let n := b0.toNat - 0xFA + 3
      if rest.length < n then none else some (beNat (rest.take n), n + 1)

/-! ## adaptive values -/

def addrLen : Nat := 20
def maxVarIntLength : Nat := 9

def inlineEnc (v : Bytes) : Bytes := 0 :: v
def outOfBandEnc (len : Nat) (addr : Bytes) : Bytes := varintEncode len ++ addr

def isNull (v : Bytes) : Bool := v.isEmpty
def isInlined : Bytes → Bool
  | [] => false
  | b :: _ => b == 0
def isOutOfBand : Bytes → Bool
  | [] => false
  | b :: _ => b != 0

/-- `getMessageLength` -/
def messageLength (v : Bytes) : Option Nat :=
  if isNull v then some 0
  else if isInlined v then some (v.length - 1)
  else (varintDecode v).map (·.1)

/-- `outOfBandSize` (of an inline value: `Uvarint` is applied to the header byte 0 → 1 byte) -/
def outOfBandSize (v : Bytes) : Option Nat :=
  if isNull v then some 0
  else if isOutOfBand v then some v.length
  else (varintDecode v).map (fun p => p.2 + addrLen)

def inlineSize (v : Bytes) : Option Nat :=
  if isNull v then some 0
  else if isInlined v then some v.length
  else (messageLength v).map (· + 1)

/-- `InlineValueBytes`: payload of NULL/inline values -/
def inlinePayload (v : Bytes) : Option Bytes :=
  if isNull v then some [] else if isInlined v then some (v.drop 1) else none

/-- `OutOfBandAddr` (after the varint) -/
def outOfBandAddr (v : Bytes) : Option Bytes :=
  if isNull v || isInlined v then none else (varintDecode v).map (fun p => v.drop p.2)

/-- `PutAdaptiveFromInline`: out of band iff the inline form (header + payload) exceeds the
target; returns `true` for out of band -/
def putOutOfBand (target len : Nat) : Bool := decide (len + 1 > target)

/-- the field `PutAdaptiveFromInline` stores -/
def putAdaptive (target : Nat) (v addr : Bytes) : Bytes :=
  if putOutOfBand target v.length then outOfBandEnc v.length addr else inlineEnc v

/-- size of the varint of `len` -/
def varintLen (len : Nat) : Nat := (varintEncode len).length

/-- `BuildPermissive`: which adaptive columns end up out of band.  `fixed` = bytes of the
non-adaptive fields, `cols` = payload length per adaptive column (`none` = NULL). -/
structure Cand where
  col : Nat
  savings : Nat
  deriving Repr

def insertBySavings (c : Cand) : List Cand → List Cand
  | [] => [c]
  | d :: ds => if c.savings > d.savings then c :: d :: ds else d :: insertBySavings c ds

/-- stable sort by savings descending (`sort.SliceStable` with `>`): every element is inserted after
the elements already placed that save at least as much -/
def sortCands (cs : List Cand) : List Cand := cs.foldl (fun acc c => insertBySavings c acc) []

def selectOut (target : Nat) : Nat → List Cand → List Nat
  | _, [] => []
  | total, c :: cs =>
    let total' := total - c.savings
    if total' ≤ target then [c.col] else c.col :: selectOut target total' cs

def placeRow (target fixed : Nat) (cols : List (Option Nat)) : List (Option Bool) :=
  let total := fixed + (cols.map (fun c => match c with | none => 0 | some l => l + 1)).sum
  if total ≤ target then cols.map (fun c => c.map (fun l => putOutOfBand target l))
  else
    let idx := (List.range cols.length).zip cols
    let cands := idx.filterMap fun (i, c) =>
      match c with
      | none => none
      | some l =>
        let inl := l + 1
        let oob := if putOutOfBand target l then varintLen l + addrLen else 1 + addrLen
        if inl > oob then some ⟨i, inl - oob⟩ else none
    let out := selectOut target total (sortCands cands)
    idx.map fun (i, c) => c.map (fun _ => out.contains i)

/-! ## blob trees -/

structure Tree where
  level : Nat
  sz : Nat
  leaves : List Bytes
  deriving DecidableEq, Repr

/-- the loop of `BlobBuilder.Init`: `for dataSize > 0 { dataSize /= numAddrs; topLevel++ }`
(does not terminate for `numAddrs ≤ 1`; fuel makes the model total) -/
def topLevelLoop (sz : Nat) : Nat → Nat → Nat
  | 0, _ => 0
  | fuel + 1, ds => if ds > 0 then 1 + topLevelLoop sz fuel (ds / sz) else 0

def topLevelOf (cs dataSize : Nat) : Nat := topLevelLoop (cs / addrLen) (dataSize + 1) (dataSize / cs)

/-- what the k-th `Read` into a buffer of `bufLen` bytes returns: at most the k-th entry of the
segmentation (full reads once the list is exhausted) -/
def leafChunks (bufLen : Nat) : Nat → Bytes → List Nat → List Bytes
  | 0, _, _ => []
  | fuel + 1, data, seg =>
    let want := match seg with
      | [] => bufLen
      | s :: _ => min bufLen s
    let n := min want data.length
    if n = 0 then [] else data.take n :: leafChunks bufLen fuel (data.drop n) seg.tail

/-- `Init(dataSize)` + `Chunk(reader)`; `none` = empty blob (nil node, zero hash) -/
def buildWith (cs dataSize : Nat) (data : Bytes) (seg : List Nat) : Option Tree :=
  let sz := cs / addrLen
  if dataSize = 0 then none
  else if dataSize ≤ cs then
    -- one leaf writer with a buffer of dataSize bytes, one Read
    match leafChunks dataSize 1 data seg with
    | [] => none            -- the Read hit EOF: nothing written
    | l :: _ => some ⟨0, sz, [l]⟩
  else
    let t := topLevelOf cs dataSize
    let ls := leafChunks cs (data.length + 1) data seg
    if ls.isEmpty then none else some ⟨t, sz, ls.take (sz ^ t)⟩

/-- production callers pass `bytes.NewReader(b), len(b)` -/
def build (cs : Nat) (data : Bytes) (seg : List Nat) : Option Tree := buildWith cs data.length data seg

/-- `ReadBytes`: concatenation of the leaf values in order -/
def readTree (t : Tree) : Bytes := t.leaves.flatten

/-! ### node windows -/

structure Frame where
  level : Nat
  off : Nat
  idx : Nat
  deriving DecidableEq, Repr

def span (t : Tree) (level off : Nat) : Nat := min (t.sz ^ level) (t.leaves.length - off)

/-- `node.Count()` -/
def nodeCount (t : Tree) (f : Frame) : Nat :=
  if f.level = 0 then 1
  else (span t f.level f.off + t.sz ^ (f.level - 1) - 1) / t.sz ^ (f.level - 1)

/-- leaves covered by child `idx` of frame `f` (its address, up to hash injectivity) -/
def childLeaves (t : Tree) (f : Frame) : List Bytes :=
  let w := t.sz ^ (f.level - 1)
  ((t.leaves.drop (f.off + f.idx * w)).take w)

structure Side where
  tree : Option Tree
  stack : List Frame      -- head = top of the Go stack
  inline : Option Bytes
  consumed : Bool
  deriving Repr

/-- `newBlobDiffSide` -/
def mkSide (inl : Option Bytes) (t : Option Tree) : Side :=
  match inl with
  | some p => ⟨none, [], some p, false⟩
  | none => match t with
    | some tr => ⟨some tr, [⟨tr.level, 0, 0⟩], none, false⟩
    | none => ⟨none, [], none, false⟩

def Side.trim (s : Side) : Side :=
  match s.tree with
  | none => s
  | some t => { s with stack := s.stack.dropWhile (fun f => decide (f.idx ≥ nodeCount t f)) }

def Side.exhausted (s : Side) : Bool :=
  if !s.stack.isEmpty then false else s.inline.isNone || s.consumed

/-- `descend`: advance the top frame, push the child -/
def Side.descend (s : Side) : Side :=
  match s.stack with
  | [] => s
  | f :: rest =>
    let w := (s.tree.map (·.sz)).getD 1 ^ (f.level - 1)
    { s with stack := ⟨f.level - 1, f.off + f.idx * w, 0⟩ :: { f with idx := f.idx + 1 } :: rest }

/-- `nextLeaf` -/
def Side.nextLeaf : Nat → Side → Option Bytes × Side
  | 0, s => (none, s)
  | fuel + 1, s =>
    match s.tree, s.stack with
    | _, [] =>
      if s.consumed || s.inline.isNone then (none, s) else (s.inline, { s with consumed := true })
    | none, _ :: _ => (none, s)
    | some t, f :: rest =>
      if f.idx ≥ nodeCount t f then Side.nextLeaf fuel { s with stack := rest }
      else if f.level = 0 then (t.leaves[f.off]?, { s with stack := { f with idx := f.idx + 1 } :: rest })
      else Side.nextLeaf fuel s.descend

inductive NextResult
  | eof
  | pair (l r : Option Bytes)
  | outOfFuel
  deriving Repr

/-- `blobChunkDiffer.Next` (first call: `diverged = false`) -/
def differNext : Nat → Side → Side → NextResult
  | 0, _, _ => .outOfFuel
  | fuel + 1, l, r =>
    let l := l.trim
    let r := r.trim
    if l.exhausted && r.exhausted then .eof
    else
      match l.tree, l.stack, r.tree, r.stack with
      | some lt, lf :: lrest, some rt, rf :: rrest =>
        if lf.level > 0 ∧ rf.level > 0 ∧ lf.level = rf.level then
          if childLeaves lt lf = childLeaves rt rf ∧ lt.sz = rt.sz then
            differNext fuel { l with stack := { lf with idx := lf.idx + 1 } :: lrest }
              { r with stack := { rf with idx := rf.idx + 1 } :: rrest }
          else differNext fuel l.descend r.descend
        else
          let (lc, _) := l.nextLeaf (fuel + 1)
          let (rc, _) := r.nextLeaf (fuel + 1)
          if lc.isNone && rc.isNone then .eof else .pair lc rc
      | _, _, _, _ =>
        let (lc, _) := l.nextLeaf (fuel + 1)
        let (rc, _) := r.nextLeaf (fuel + 1)
        if lc.isNone && rc.isNone then .eof else .pair lc rc

/-- one adaptive value as the store sees it: NULL/inline payload, or the tree behind the address -/
inductive AVal
  | inl (payload : Bytes)         -- NULL is `inl []` for `InlineValueBytes`
  | oob (t : Option Tree)         -- `none`: the zero address (empty blob)
  deriving Repr

def fuelFor : AVal → Nat
  | .inl _ => 8
  | .oob none => 8
  | .oob (some t) => 4 * t.leaves.length + 4 * t.level + 16

/-- `nodeStore.CompareAdaptive` for the byte/string encodings -/
def compareAdaptive (l r : AVal) : Option Ordering :=
  match l, r with
  | .inl a, .inl b => some (bytesCompare a b)
  | _, _ =>
    let side : AVal → Side := fun v => match v with
      | .inl p => mkSide (some p) none
      | .oob t => mkSide none t
    let ls := side l
    let rs := side r
    -- fast path: identical roots
    let same := match l, r with
      | .oob (some a), .oob (some b) => decide (a = b)
      | _, _ => false
    if same then some .eq
    else match differNext (fuelFor l + fuelFor r) ls rs with
      | .eof => some .eq
      | .pair lc rc => some (bytesCompare (lc.getD []) (rc.getD []))
      | .outOfFuel => none

/-- contents of an adaptive value -/
def AVal.contents : AVal → Bytes
  | .inl p => p
  | .oob none => []
  | .oob (some t) => readTree t

/-! ## JSON documents: leaf chunks of `SerializeJsonToAddr` (json_chunker.go)

`SerializeJsonToAddr` marshals the document to its serialized text, puts the whole text into the
chunker's buffer (`appendJsonToBuffer`), runs `processBuffer` once and then `Done`.
`processBuffer` lets the `JsonScanner` advance from one JSON location to the next; at each location
(value offset `p`, location key `key`) the candidate segment is `buffer[chunkStart:p]`, and if
`crossesBoundary(key, segment)` it is written as a leaf blob and `chunkStart := p`.  `Done` (no
cursor) writes the remaining buffer `buffer[chunkStart:]` as the final blob.
The scanner (which offsets are JSON locations, with which keys) and the boundary predicate
(size limits + xxHash/Weibull) are parameters: `locs` is the list of offsets the scanner stops
at, `boundary k seg` the decision at the `k`-th stop. -/
def jsonChunks (boundary : Nat → Bytes → Bool) (text : Bytes) : List Nat → Nat → Nat → List Bytes
  | [], start, _ => [text.drop start]
  | p :: ps, start, k =>
    let seg := (text.drop start).take (p - start)
    if boundary k seg then seg :: jsonChunks boundary text ps p (k + 1)
    else jsonChunks boundary text ps start (k + 1)

/-- the offsets a scanner can deliver: non-decreasing, inside the text, not before the chunk start -/
def ScanOffsets (len : Nat) : Nat → List Nat → Prop
  | _, [] => True
  | start, p :: ps => start ≤ p ∧ p ≤ len ∧ ScanOffsets len p ps

end DoltVerif.BigValues
