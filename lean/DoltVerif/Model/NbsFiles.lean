/-
Model of the NBS chunk-file layer (C01, C06): table-file index and its lookups
(`table_index.go`, `table_reader.go`, `table_writer.go`), the archive index search
(`archive_reader.go`, `mmap_index_reader.go`) and the journal's in-memory range index
(`journal_writer.go`).  Core Lean only.

Style: transliteration.  Every loop of the Go code is a recursive function with the same
branches, early exits and carried state.  Integers that the Go code only compares / adds without
ever relying on wrap-around are `Nat` (prefixes are the big-endian value of the first 8 address
bytes, `< 2^64`; ordinals/lengths `< 2^32`); the two places that *do* subtract unsigned values
(`prollyBinSearch`) use explicit wrapping subtraction.  Where the Go code would index a slice out
of range the model returns `none` ("would panic"), never a default value.
-/
namespace DoltVerif.NbsFiles

/-! ## Addresses -/

/-- A 20-byte address: `pre` = first 8 bytes (big-endian value, `hash.Prefix()`), `suf` = last 12
bytes (big-endian value, `hash.Suffix()`). -/
structure Addr where
  pre : Nat
  suf : Nat
deriving DecidableEq, Repr, Inhabited

/-- `toAddr16`: the first 16 bytes = prefix + the first 8 suffix bytes. -/
def Addr.a16 (a : Addr) : Nat × Nat := (a.pre, a.suf / 4294967296)

/-! ## Table-file layout constants (tied to the Go source by `Tie/NbsLayout.lean`) -/

def addrLen : Nat := 20
def prefixLen : Nat := 8
def suffixLen : Nat := 12
def ordinalSize : Nat := 4
def lengthSize : Nat := 4
def prefixTupleSize : Nat := prefixLen + ordinalSize
def uint64Size : Nat := 8
def uint32Size : Nat := 4
def checksumSize : Nat := 4
def magicNumber : List UInt8 := [0xff, 0xb5, 0xd8, 0xc2, 0x24, 0x63, 0xee, 0x50]
def footerSize : Nat := uint32Size + uint64Size + magicNumber.length
/-- `indexSize(numChunks)` -/
def indexSize (n : Nat) : Nat := n * (suffixLen + lengthSize + prefixTupleSize)
/-- `lengthsOffset(numChunks)` -/
def lengthsOffset (n : Nat) : Nat := n * prefixTupleSize
/-- `suffixesOffset(numChunks)` -/
def suffixesOffset (n : Nat) : Nat := n * (prefixTupleSize + lengthSize)

/-! ## Big-endian codecs over byte lists -/

/-- big-endian value of a byte list -/
def beVal : List UInt8 → Nat
  | [] => 0
  | b :: bs => b.toNat * 256 ^ bs.length + beVal bs

/-- big-endian encoding of `v` into exactly `k` bytes (high bytes dropped, like `PutUint32/64`) -/
def beBytes : Nat → Nat → List UInt8
  | 0, _ => []
  | k + 1, v => UInt8.ofNat (v / 256 ^ k % 256) :: beBytes k v

/-- `b[off : off+len]` with Go's bounds check: `none` = slice bounds out of range. -/
def slice? (b : List UInt8) (off len : Nat) : Option (List UInt8) :=
  if off + len ≤ b.length then some ((b.drop off).take len) else none

/-! ## The parsed table index (`onHeapTableIndex`) -/

/-- The in-memory index.  `pfx[i]`, `ord[i]` are prefix tuple `i` (sorted by prefix on disk);
`suf[o]`, `len[o]` are the suffix and record length of ordinal `o` (insertion order).
`unc` is the footer's total uncompressed size. -/
structure Idx where
  pfx : Array Nat
  ord : Array Nat
  suf : Array Nat
  len : Array Nat
  unc : Nat
deriving Repr, Inhabited

/-- `chunkCount()` -/
def Idx.count (ix : Idx) : Nat := ix.pfx.size

inductive ParseErr where
  | invalidTableFile      -- bad magic
  | unsupportedFormat     -- "DOLTARC" where the magic should be
  | wrongBufferSize       -- ErrWrongBufferSize
  | tooShort              -- footer / index region cannot be read (Seek/ReadFull error)
deriving DecidableEq, Repr

def doltMagic : List UInt8 := [0x44, 0x4f, 0x4c, 0x54, 0x41, 0x52, 0x43]   -- "DOLTARC"

/-- `ReadTableFooter`: the last `footerSize` bytes. -/
def readFooter (file : List UInt8) : Except ParseErr (Nat × Nat) :=
  if file.length < footerSize then .error .tooShort else
  let footer := file.drop (file.length - footerSize)
  if footer.drop (uint32Size + uint64Size) != magicNumber then
    if footer.drop (footer.length - doltMagic.length) == doltMagic then .error .unsupportedFormat
    else .error .invalidTableFile
  else .ok (beVal (footer.take uint32Size), beVal ((footer.drop uint32Size).take uint64Size))

/-- split a byte list into `n` consecutive fields of `w` bytes, decoded big-endian -/
def fields (w : Nat) : Nat → List UInt8 → List Nat
  | 0, _ => []
  | n + 1, b => beVal (b.take w) :: fields w n (b.drop w)

/-- the prefix-tuple block: `n` tuples of (8-byte prefix, 4-byte ordinal) -/
def tuples : Nat → List UInt8 → List (Nat × Nat)
  | 0, _ => []
  | n + 1, b => (beVal (b.take prefixLen), beVal ((b.drop prefixLen).take ordinalSize))
                  :: tuples n (b.drop prefixTupleSize)

/-- `readTableIndexByCopy` + `newOnHeapTableIndex` on a byte string that *ends* with index and footer
(anything may precede them). -/
def parseIndex (file : List UInt8) : Except ParseErr Idx := do
  let (n, unc) ← readFooter file
  let idxSz := indexSize n + footerSize
  if file.length < idxSz then .error .tooShort else
  let buff := file.drop (file.length - idxSz)
  -- len(indexBuff) == indexSize(count)+footerSize holds by construction here
  let tu := tuples n buff
  let lens := fields lengthSize n (buff.drop (lengthsOffset n))
  let sufs := fields suffixLen n (buff.drop (suffixesOffset n))
  .ok { pfx := (tu.map (·.1)).toArray, ord := (tu.map (·.2)).toArray,
        suf := sufs.toArray, len := lens.toArray, unc := unc }

/-! ## Lookups: `findPrefix`, `lookupOrdinal`, `lookup`, `getIndexEntry` -/

/-- The inlined `sort.Search` loop of `findPrefix` / `hasMany` / `findOffsets`:
`for i < j { h := i + (j-i)/2; if p[h] < t { i = h+1 } else { j = h } }; return i`.
`j ≤ p.size` always holds in the Go code (`j` starts at the chunk count = `len(prefixes)`). -/
def findFrom (p : Array Nat) (t : Nat) (i j : Nat) (hj : j ≤ p.size) : Nat :=
  if h : i < j then
    let m := i + (j - i) / 2
    if p[m]'(by omega) < t then findFrom p t (m + 1) j hj
    else findFrom p t i m (by omega)
  else i
termination_by j - i

/-- `findPrefix` -/
def findPrefix (ix : Idx) (t : Nat) : Nat := findFrom ix.pfx t 0 ix.pfx.size (Nat.le_refl _)

/-- suffix of tuple row `i`: `suffixes[ordinalAt(i)]`; `none` = the Go slice expression panics. -/
def rowSuf (ix : Idx) (i : Nat) : Option Nat := do
  let o ← ix.ord[i]?
  ix.suf[o]?

/-- The equal-prefix scan shared by `lookupOrdinal`, `hasMany`, `findOffsets`:
`for j := start; j < count && prefixes[j] == pre; j++ { if suffix matches { return j } }`.
Result `some (some j)` = matched at row `j`; `some none` = no match; `none` = panic. -/
def scanRun (ix : Idx) (a : Addr) (j : Nat) : Option (Option Nat) :=
  if h : j < ix.pfx.size then
    if ix.pfx[j] = a.pre then
      match rowSuf ix j with
      | none => none
      | some s => if s = a.suf then some (some j) else scanRun ix a (j + 1)
    else some none
  else some none
termination_by ix.pfx.size - j

/-- `lookupOrdinal`: the ordinal of `h`, or `count` when absent. -/
def lookupOrdinal (ix : Idx) (a : Addr) : Option Nat :=
  match scanRun ix a (findPrefix ix a.pre) with
  | none => none
  | some none => some ix.count
  | some (some j) => ix.ord[j]?

/-- sum of the first `o` record lengths = `offsetAt(o-1)` (0 for `o = 0`) -/
def offsetOf (ix : Idx) (o : Nat) : Nat := (ix.len.toList.take o).foldl (· + ·) 0

/-- `getIndexEntry(ord)` = (offset, length); `none` = `offsetAt` indexes out of range. -/
def indexEntry (ix : Idx) (o : Nat) : Option (Nat × Nat) :=
  match ix.len[o]? with
  | none => none
  | some l => some (offsetOf ix o, l)

/-- `lookup`: `(offset, length)` of the record of `h`, `some none` when absent. -/
def lookup (ix : Idx) (a : Addr) : Option (Option (Nat × Nat)) :=
  match lookupOrdinal ix a with
  | none => none
  | some o => if o = ix.count then some none else (indexEntry ix o).map some

/-- `tableReader.has` -/
def has (ix : Idx) (a : Addr) : Option Bool := (lookup ix a).map Option.isSome

/-- `tableFileSize()` -/
def tableFileSize (ix : Idx) : Nat :=
  if ix.count > 0 then footerSize + offsetOf ix ix.count + indexSize ix.count else footerSize

/-! ## Batched lookups with the carried `filterIdx` -/

structure HasRec where
  a : Addr
  has : Bool
deriving DecidableEq, Repr

/-- `tableReader.hasMany`.  `fi` is the carried `filterIdx`, `rem` the `remaining` flag so far.
Returns the updated records and `remaining`. -/
def hasManyGo (ix : Idx) : List HasRec → Nat → Bool → Option (List HasRec × Bool)
  | [], _, rem => some ([], rem)
  | r :: rs, fi, rem =>
    if r.has then
      (hasManyGo ix rs fi rem).map (fun (o, b) => (r :: o, b))
    else
      if hfi : fi ≤ ix.pfx.size then
        let fi' := findFrom ix.pfx r.a.pre fi ix.pfx.size (Nat.le_refl _)
        if h : fi' < ix.pfx.size then
          if ix.pfx[fi'] ≠ r.a.pre then
            (hasManyGo ix rs fi' true).map (fun (o, b) => (r :: o, b))
          else
            match scanRun ix r.a fi' with
            | none => none
            | some none => (hasManyGo ix rs fi' true).map (fun (o, b) => (r :: o, b))
            | some (some _) => (hasManyGo ix rs fi' rem).map (fun (o, b) => ({ r with has := true } :: o, b))
        else
          -- `if filterIdx >= filterLen { return true, … }`: everything after is left untouched
          some (r :: rs, true)
      else some (r :: rs, true)

def hasMany (ix : Idx) (reqs : List HasRec) : Option (List HasRec × Bool) := hasManyGo ix reqs 0 false

structure GetRec where
  a : Addr
  found : Bool
deriving DecidableEq, Repr

/-- an `offsetRec`: which request, at which offset, how long -/
structure OffRec where
  a : Addr
  off : Nat
  len : Nat
deriving DecidableEq, Repr

/-- `tableReader.findOffsets` before the final `sort.Sort(ors)`.  Returns updated requests, the
offset records in request order and `remaining`. -/
def findOffsetsGo (ix : Idx) : List GetRec → Nat → Bool → Option (List GetRec × List OffRec × Bool)
  | [], _, rem => some ([], [], rem)
  | r :: rs, fi, rem =>
    if r.found then
      (findOffsetsGo ix rs fi rem).map (fun (o, rc, b) => (r :: o, rc, b))
    else
      if hfi : fi ≤ ix.pfx.size then
        let fi' := findFrom ix.pfx r.a.pre fi ix.pfx.size (Nat.le_refl _)
        if h : fi' < ix.pfx.size then
          if ix.pfx[fi'] ≠ r.a.pre then
            (findOffsetsGo ix rs fi' true).map (fun (o, rc, b) => (r :: o, rc, b))
          else
            match scanRun ix r.a fi' with
            | none => none
            | some none => (findOffsetsGo ix rs fi' true).map (fun (o, rc, b) => (r :: o, rc, b))
            | some (some j) =>
              match ix.ord[j]? with
              | none => none
              | some o =>
                match indexEntry ix o with
                | none => none
                | some (off, l) =>
                  (findOffsetsGo ix rs fi' rem).map
                    (fun (o', rc, b) => ({ r with found := true } :: o', ⟨r.a, off, l⟩ :: rc, b))
        else
          -- `remaining = true; break`
          some (r :: rs, [], true)
      else some (r :: rs, [], true)

/-- insertion of an offset record into a list sorted by offset (stable) -/
def insertByOff (x : OffRec) : List OffRec → List OffRec
  | [] => [x]
  | y :: ys => if x.off < y.off then x :: y :: ys else y :: insertByOff x ys

def sortByOff : List OffRec → List OffRec
  | [] => []
  | x :: xs => insertByOff x (sortByOff xs)

/-- `findOffsets` (records sorted by offset; ties in *some* order in Go, request order here) -/
def findOffsets (ix : Idx) (reqs : List GetRec) : Option (List GetRec × List OffRec × Bool) :=
  (findOffsetsGo ix reqs 0 false).map (fun (o, rc, b) => (o, sortByOff rc, b))

/-! ## Writing a table index (`tableWriter.writeIndex` + `writeFooter`) -/

/-- one chunk as the writer sees it: address and the length of its record (compressed data + CRC) -/
structure Rec where
  a : Addr
  len : Nat
deriving DecidableEq, Repr

/-- stable insertion sort of (prefix, ordinal) tuples by prefix -/
def insertTuple (x : Nat × Nat) : List (Nat × Nat) → List (Nat × Nat)
  | [] => [x]
  | y :: ys => if x.1 < y.1 then x :: y :: ys else y :: insertTuple x ys

def sortTuples : List (Nat × Nat) → List (Nat × Nat)
  | [] => []
  | x :: xs => insertTuple x (sortTuples xs)

/-- (prefix, ordinal) in insertion order -/
def rawTuples (cs : List Rec) : List (Nat × Nat) :=
  (List.range cs.length).zipWith (fun o c => (c.a.pre, o)) cs

/-- the index `writeIndex` + `newOnHeapTableIndex` produce for chunks added in order `cs`, for the
tie order of this model's (stable) sort; the theorems hold for *every* tie order (`IsIndexOf`). -/
def build (cs : List Rec) (unc : Nat) : Idx :=
  let tu := sortTuples (rawTuples cs)
  { pfx := (tu.map (·.1)).toArray, ord := (tu.map (·.2)).toArray,
    suf := (cs.map (·.a.suf)).toArray, len := (cs.map (·.len)).toArray, unc := unc }

/-- serialised index + footer for an `Idx` -/
def serializeIndex (ix : Idx) : List UInt8 :=
  let tu := (ix.pfx.toList.zip ix.ord.toList).flatMap (fun (p, o) => beBytes prefixLen p ++ beBytes ordinalSize o)
  let lens := ix.len.toList.flatMap (beBytes lengthSize)
  let sufs := ix.suf.toList.flatMap (beBytes suffixLen)
  tu ++ lens ++ sufs ++ (beBytes uint32Size ix.count ++ beBytes uint64Size ix.unc ++ magicNumber)

/-- the bytes the table writer puts after the chunk records -/
def writeIndex (cs : List Rec) (unc : Nat) : List UInt8 := serializeIndex (build cs unc)

/-! ## Conjoin (`planTableConjoin`): concatenate records, renumber ordinals, re-sort tuples -/

/-- the chunk of ordinal `o`: suffix and length by ordinal, prefix through the tuple that carries `o` -/
def recAt (ix : Idx) (o : Nat) : Option Rec :=
  match ix.suf[o]?, ix.len[o]? with
  | some s, some l =>
    match (ix.pfx.toList.zip ix.ord.toList).find? (fun (_, o') => o' = o) with
    | some (p, _) => some ⟨⟨p, s⟩, l⟩
    | none => none
  | _, _ => none

/-- chunk list (in ordinal order) that an index describes -/
def recsOf (ix : Idx) : List Rec := (List.range ix.count).filterMap (recAt ix)

/-- `planTableConjoin` on already ordered sources: the merged index (tie order of this model). -/
def conjoin (srcs : List Idx) : Idx :=
  build (srcs.flatMap recsOf) ((srcs.map (·.unc)).foldl (· + ·) 0)

/-! ## Archive index: `prollyBinSearch` and `findIndex` -/

/-- unsigned 64-bit subtraction (operands `< 2^64`) -/
def wsub (a b : Nat) : Nat := if b ≤ a then a - b else a + 18446744073709551616 - b

/-- `dU64` of `bits.Div64(bits.Mul64(target-lo, idxRangeSz), hi-lo)` -/
def interp (t lo hi n : Nat) : Nat := wsub t lo * n / wsub hi lo

/-- The interpolation loop of `prollyBinSearch` / `mmapIndexReader.searchPrefix`
(`idx = interp … + lft`, `idxRangeSz = rht - lft - 1`).
`none` = the Go code panics (`bits.Div64` by zero or with overflowing quotient, slice index out of
range) or leaves the envelope `idx < rht` in which the loop is known to make progress; neither can
happen for a sorted slice (`prollyBinSearch_lowerBound`). -/
def pbsLoop (s : Array Nat) (t : Nat) (lft rht lo hi : Nat) : Option Nat :=
  if lft < rht then
    -- bits.Div64(mhi, mlo, y) panics if y == 0 or y <= mhi
    if wsub hi lo = 0 then none
    else if wsub hi lo ≤ wsub t lo * (rht - lft - 1) / 18446744073709551616 then none
    else
      match s[interp t lo hi (rht - lft - 1) + lft]? with
      | none => none
      | some v =>
        if v < t then
          if interp t lo hi (rht - lft - 1) + lft + 1 < s.size then
            match s[interp t lo hi (rht - lft - 1) + lft + 1]? with
            | none => none
            | some lo' => if lo' ≥ t then some (interp t lo hi (rht - lft - 1) + lft + 1)
                          else pbsLoop s t (interp t lo hi (rht - lft - 1) + lft + 1) rht lo' hi
          else pbsLoop s t (interp t lo hi (rht - lft - 1) + lft + 1) rht lo hi
        else
          if interp t lo hi (rht - lft - 1) + lft < rht then
            pbsLoop s t lft (interp t lo hi (rht - lft - 1) + lft) lo v
          else none
  else some lft
termination_by rht - lft
decreasing_by all_goals omega

/-- `prollyBinSearch(slice, target)` -/
def prollyBinSearch (s : Array Nat) (t : Nat) : Option Nat :=
  if h : s.size = 0 then some 0 else
  let lo := s[0]
  let hi := s[s.size - 1]
  if t > hi then some s.size
  else if lo ≥ t then some 0
  else pbsLoop s t 0 s.size lo hi

/-- parsed archive index: span end offsets (ids are 1-based), prefixes, chunk refs, suffixes -/
structure Arc where
  spanEnd : Array Nat
  pfx : Array Nat
  refs : Array (Nat × Nat)
  suf : Array Nat
deriving Repr, Inhabited

def Arc.count (ar : Arc) : Nat := ar.pfx.size

/-- the suffix scan of `findIndex` from `idx` -/
def arcScan (ar : Arc) (a : Addr) (j : Nat) : Option Nat :=
  if h : j < ar.pfx.size then
    if ar.pfx[j] = a.pre then
      match ar.suf[j]? with
      | none => if 0 = a.suf then some j else arcScan ar a (j + 1)   -- getSuffix returns suffix{} out of range
      | some s => if s = a.suf then some j else arcScan ar a (j + 1)
    else none
  else none
termination_by ar.pfx.size - j

/-- `archiveReader.findIndex`: `some (some i)` = found at `i`, `some none` = -1, `none` = panic in the search -/
def findIndex (ar : Arc) (a : Addr) : Option (Option Nat) :=
  match prollyBinSearch ar.pfx a.pre with
  | none => none
  | some pm => if pm ≥ ar.count then some none else some (arcScan ar a pm)

/-- `getByteSpanByID` -/
def spanOf (ar : Arc) (id : Nat) : Nat × Nat :=
  if id = 0 then (0, 0) else
  let off := if id = 1 then 0 else (ar.spanEnd[id - 2]?).getD 0   -- getSpanIndex returns 0 out of range
  let e := (ar.spanEnd[id - 1]?).getD 0
  (off, wsub e off)

/-- address-ordered insertion sort (`stagedChunkRefSlice.Less` = bytes.Compare of the 20 bytes) -/
def addrLt (a b : Addr) : Bool := a.pre < b.pre || (a.pre = b.pre && a.suf < b.suf)

def insertStaged (x : Addr × Nat × Nat) : List (Addr × Nat × Nat) → List (Addr × Nat × Nat)
  | [] => [x]
  | y :: ys => if addrLt x.1 y.1 then x :: y :: ys else y :: insertStaged x ys

def sortStaged : List (Addr × Nat × Nat) → List (Addr × Nat × Nat)
  | [] => []
  | x :: xs => insertStaged x (sortStaged xs)

/-- running end offsets: `endOffset += bs.length; writeUint64(endOffset)` -/
def spanEnds : Nat → List Nat → List Nat
  | _, [] => []
  | acc, l :: ls => (acc + l) :: spanEnds (acc + l) ls

/-- `archiveWriter.writeIndex` on staged byte-span lengths and staged chunks (addr, dict, data) -/
def arcBuild (spanLens : List Nat) (staged : List (Addr × Nat × Nat)) : Arc :=
  let st := sortStaged staged
  { spanEnd := (spanEnds 0 spanLens).toArray,
    pfx := (st.map (·.1.pre)).toArray, refs := (st.map (·.2)).toArray, suf := (st.map (·.1.suf)).toArray }

/-- archive index section bytes: span ends, prefixes, chunk refs, suffixes -/
def arcSerializeIndex (ar : Arc) : List UInt8 :=
  ar.spanEnd.toList.flatMap (beBytes 8) ++ ar.pfx.toList.flatMap (beBytes 8) ++
  ar.refs.toList.flatMap (fun (d, x) => beBytes 4 d ++ beBytes 4 x) ++ ar.suf.toList.flatMap (beBytes suffixLen)

def refsOf : Nat → List UInt8 → List (Nat × Nat)
  | 0, _ => []
  | n + 1, b => (beVal (b.take 4), beVal ((b.drop 4).take 4)) :: refsOf n (b.drop 8)

/-- parse an archive index section given the footer's counts -/
def arcParseIndex (spanCount chunkCount : Nat) (b : List UInt8) : Option Arc :=
  let need := spanCount * 8 + chunkCount * 8 + chunkCount * 8 + chunkCount * suffixLen
  if b.length < need then none else
  some { spanEnd := (fields 8 spanCount b).toArray,
         pfx := (fields 8 chunkCount (b.drop (spanCount * 8))).toArray,
         refs := (refsOf chunkCount (b.drop (spanCount * 8 + chunkCount * 8))).toArray,
         suf := (fields suffixLen chunkCount (b.drop (spanCount * 8 + chunkCount * 16))).toArray }

/-! ### Archive footer (`buildArchiveFooter`) -/

def archiveCheckSumSize : Nat := 64 * 3
def archiveFooterSize : Nat := uint64Size + uint32Size + uint32Size + uint32Size + archiveCheckSumSize + 1 + 7
def afrIndexLenOffset : Nat := 0
def afrByteSpanOffset : Nat := afrIndexLenOffset + uint64Size
def afrChunkCountOffset : Nat := afrByteSpanOffset + uint32Size
def afrMetaLenOffset : Nat := afrChunkCountOffset + uint32Size
def afrDataChkSumOffset : Nat := afrMetaLenOffset + uint32Size
def afrVersionOffset : Nat := afrDataChkSumOffset + archiveCheckSumSize
def afrSigOffset : Nat := afrVersionOffset + 1
def archiveFormatVersionMax : Nat := 3
def archiveVersionGiantIndexSupport : Nat := 3

structure ArcFooter where
  indexSize : Nat
  byteSpanCount : Nat
  chunkCount : Nat
  metadataSize : Nat
  formatVersion : Nat
  fileSize : Nat
deriving DecidableEq, Repr

inductive ArcErr where
  | tooShort | invalidFileSignature | invalidFormatVersion
deriving DecidableEq, Repr

/-- `loadFooter` + `buildArchiveFooter` on the whole file -/
def arcParseFooter (file : List UInt8) : Except ArcErr ArcFooter :=
  if file.length < archiveFooterSize then .error .tooShort else
  let buf := file.drop (file.length - archiveFooterSize)
  let ver := ((buf.drop afrVersionOffset).take 1 |> beVal)
  if buf.drop afrSigOffset != doltMagic then .error .invalidFileSignature
  else if ver > archiveFormatVersionMax then .error .invalidFormatVersion
  else
    let isz := if ver < archiveVersionGiantIndexSupport then beVal ((buf.drop 4).take 4)
               else beVal ((buf.drop afrIndexLenOffset).take 8)
    .ok { indexSize := isz,
          byteSpanCount := beVal ((buf.drop afrByteSpanOffset).take 4),
          chunkCount := beVal ((buf.drop afrChunkCountOffset).take 4),
          metadataSize := beVal ((buf.drop afrMetaLenOffset).take 4),
          formatVersion := ver, fileSize := file.length }

def ArcFooter.actualFooterSize (f : ArcFooter) : Nat :=
  if f.formatVersion < archiveVersionGiantIndexSupport then archiveFooterSize - 4 else archiveFooterSize

/-- `totalIndexSpan().offset` (unsigned arithmetic; a nonsensical footer wraps exactly as in Go) -/
def ArcFooter.indexOffset (f : ArcFooter) : Nat :=
  wsub (wsub (wsub f.fileSize f.actualFooterSize) f.metadataSize) f.indexSize

/-- the footer `writeFooter` emits (always the newest version) -/
def arcSerializeFooter (indexLen spanCount chunkCount metaLen : Nat) : List UInt8 :=
  beBytes 8 indexLen ++ beBytes 4 spanCount ++ beBytes 4 chunkCount ++ beBytes 4 metaLen ++
  List.replicate archiveCheckSumSize 0 ++ [UInt8.ofNat archiveFormatVersionMax] ++ doltMagic

/-- open an archive file image: footer, then the index section it points at -/
def arcOpen (file : List UInt8) : Except ArcErr (ArcFooter × Option Arc) := do
  let f ← arcParseFooter file
  let off := f.indexOffset
  .ok (f, if off ≤ file.length then arcParseIndex f.byteSpanCount f.chunkCount (file.drop off) else none)

/-! ## Journal range index (`rangeIndex`) -/

/-- `novel` is keyed by the full address, `cached` by the first 16 bytes.  Association lists,
newest binding first (a Go map keeps the last write). -/
structure JIdx where
  novel : List (Addr × (Nat × Nat))
  cached : List ((Nat × Nat) × (Nat × Nat))
deriving Repr, Inhabited

def JIdx.empty : JIdx := ⟨[], []⟩

def JIdx.put (ix : JIdx) (a : Addr) (r : Nat × Nat) : JIdx := { ix with novel := (a, r) :: ix.novel }

/-- `rangeIndex.get`: novel by full address, else cached by `addr16` -/
def JIdx.get (ix : JIdx) (a : Addr) : Option (Nat × Nat) :=
  match ix.novel.lookup a with
  | some r => some r
  | none => ix.cached.lookup a.a16

/-- `rangeIndex.flatten`: every novel range moves to `cached[toAddr16(a)]`.  Go iterates the map in
unspecified order; colliding addr16 keys therefore keep *one of* the ranges — the model keeps the
oldest-inserted-last (list order), and the theorems only rely on this when no two keys alias. -/
def JIdx.flatten (ix : JIdx) : JIdx :=
  { novel := [], cached := (ix.novel.map (fun (a, r) => (a.a16, r))) ++ ix.cached }

def JIdx.count (ix : JIdx) : Nat :=
  (ix.novel.map (·.1)).eraseDups.length + (ix.cached.map (·.1)).eraseDups.length

end DoltVerif.NbsFiles
