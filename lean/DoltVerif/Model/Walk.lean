/-!
C09 — model of "which addresses does the reference walker report / do the loaders read".

The *tables* (which flatbuffer fields `SerialMessage.WalkAddrs` / `message.WalkAddresses` hand to
the callback, which fields the loaders turn into hashes and read) are **generated** from the Go
source on every run (`Gen/Walk.lean`, `Gen/Loads.lean`, `Gen/Fbs.lean`).  This file holds

* the hand-written, reviewed classification of the `[ubyte]` / `string` / `[string]` fields of
  the flatbuffer schemas (address, embedded message, tuple items, plain data) — `Tie/Walk.lean`
  proves that it is total over the regenerated schema, so a new field breaks the tie until it is
  reviewed;
* the explicit lists of what is still exempt (`tupleExempt`, `knownMissingEncs`);
* the object-level semantics: an object is the assignment of address lists to its fields (sub-tables
  and embedded messages flattened: a field is named by `(table, field)`); the walker reports the
  addresses of the walked fields, a loader reads the addresses of the loaded fields.

Core Lean only.
-/
namespace DoltVerif.Walk

/-- a flatbuffer field: (table, field) -/
abbrev Fld := String × String

/-- chunk addresses; `0` is the all-zero ("empty") hash that never names a chunk -/
abbrev Addr := Nat

/-! ## reviewed classification of the schema's byte / string fields -/

/-- fields holding one 20-byte address, an array of 20-byte addresses, or hash strings -/
def addressFields : List Fld := [
  ("Commit", "root"), ("Commit", "parent_addrs"), ("Commit", "parent_closure"),
  ("Tag", "commit_addr"),
  ("WorkingSet", "working_root_addr"), ("WorkingSet", "staged_root_addr"),
  ("MergeState", "pre_working_root_addr"), ("MergeState", "from_commit_addr"),
  ("MergeState", "pre_merge_head_commit_addr"), ("MergeState", "pending_commit_hashes"),
  ("RebaseState", "pre_working_root_addr"), ("RebaseState", "onto_commit_addr"),
  ("RootValue", "foreign_key_addr"),
  ("Table", "schema"), ("Table", "violations"), ("Table", "artifacts"),
  ("Conflicts", "data"), ("Conflicts", "our_schema"), ("Conflicts", "their_schema"),
  ("Conflicts", "ancestor_schema"),
  ("Stash", "stash_root_addr"), ("Stash", "head_commit_addr"),
  ("Statistic", "root"),
  ("AddressMap", "address_array"), ("Blob", "address_array"), ("CommitClosure", "address_array"),
  ("CommitClosure", "key_items"),
  ("MergeArtifacts", "address_array"), ("ProllyTreeNode", "address_array"),
  ("VectorIndexNode", "address_array")]

/-- fields holding a whole serialized message (walked by recursion) -/
def embeddedFields : List Fld := [
  ("StoreRoot", "address_map"), ("StashList", "address_map"), ("RootValue", "tables"),
  ("Table", "primary_index"), ("Table", "secondary_indexes")]

/-- fields holding concatenated tuples; a tuple may contain addresses at positions given by a
companion offsets field (or by the tuple descriptor only) -/
def tupleFields : List Fld := [
  ("ProllyTreeNode", "key_items"), ("ProllyTreeNode", "value_items"),
  ("MergeArtifacts", "key_items"), ("MergeArtifacts", "value_items"),
  ("VectorIndexNode", "key_items"), ("VectorIndexNode", "value_items"),
  ("AddressMap", "key_items")]

/-- reviewed as not holding addresses -/
def dataFields : List Fld := [
  ("AddressMap", "subtree_counts"),
  ("Blob", "payload"), ("Blob", "subtree_sizes"),
  ("Commit", "name"), ("Commit", "email"), ("Commit", "description"), ("Commit", "signature"),
  ("Commit", "committer_name"), ("Commit", "committer_email"),
  ("CommitClosure", "subtree_counts"),
  ("ForeignKey", "name"), ("ForeignKey", "child_table_name"), ("ForeignKey", "child_table_index"),
  ("ForeignKey", "parent_table_name"), ("ForeignKey", "parent_table_index"),
  ("ForeignKey", "unresolved_child_columns"), ("ForeignKey", "unresolved_parent_columns"),
  ("ForeignKey", "child_table_database_schema"), ("ForeignKey", "parent_table_database_schema"),
  ("MergeArtifacts", "subtree_counts"),
  ("ProllyTreeNode", "subtree_counts"),
  ("DatabaseSchema", "name"),
  ("TableSchema", "comment"),
  ("Column", "name"), ("Column", "sql_type"), ("Column", "default_value"), ("Column", "comment"),
  ("Column", "on_update_value"),
  ("Index", "name"), ("Index", "comment"), ("Index", "predicate"),
  ("FulltextInfo", "config_table"), ("FulltextInfo", "position_table"),
  ("FulltextInfo", "doc_count_table"), ("FulltextInfo", "global_count_table"),
  ("FulltextInfo", "row_count_table"), ("FulltextInfo", "key_name"),
  ("CheckConstraint", "name"), ("CheckConstraint", "expression"),
  ("Stash", "branch_name"), ("Stash", "desc"), ("Stash", "tables_to_stage"),
  ("Tag", "name"), ("Tag", "email"), ("Tag", "desc"),
  ("Tuple", "value"),
  ("VectorIndexNode", "subtree_counts"),
  ("WorkingSet", "name"), ("WorkingSet", "email"), ("WorkingSet", "desc"),
  ("MergeState", "from_commit_spec_str"), ("MergeState", "unmergable_tables"),
  ("RebaseState", "branch")]

/-- tables that are not chunk-store objects (the branch-control file is written next to the
database, never as a chunk) and therefore outside the walker's domain -/
def nonChunkTables : List String := [
  "BranchControl", "BranchControlAccess", "BranchControlAccessValue", "BranchControlNamespace",
  "BranchControlNamespaceValue", "BranchControlBinlog", "BranchControlBinlogRow",
  "BranchControlMatchExpression"]

/-! ## omissions that are still known findings (design/C09.md)

The four working-set omissions of DESIGN.md §11 d (`rebase_state.{pre_working_root_addr,
onto_commit_addr}`, `merge_state.{pre_merge_head_commit_addr, pending_commit_hashes}`) were repaired
in /repo (`fix:` commit bf9bc24); no field-level or sub-table exemption is left. -/

/-- tuple fields whose embedded addresses are not recorded in any offsets field.
* `ProllyTreeNode.key_items`, `AddressMap.key_items`, `MergeArtifacts.value_items`: key tuples /
  artifact metadata never use address encodings (reviewed assumption, exercised by `walkaddrs`);
* `VectorIndexNode.*_items`: the vector-index node format has no address-offset field at all. -/
def tupleExempt : List Fld := [
  ("ProllyTreeNode", "key_items"), ("AddressMap", "key_items"), ("MergeArtifacts", "value_items"),
  ("VectorIndexNode", "key_items"), ("VectorIndexNode", "value_items")]

/-- tuple encodings that hold an address but are not enumerated by `val.IterAddressFields` /
`val.IterAdaptiveFields` (hence never recorded in `value_address_offsets`) -/
def knownMissingEncs : List String := ["ExtendedAddrEnc"]

/-! ## table-level helpers (over the generated tables, passed as arguments) -/

def fst2 (t : String × String × String) : Fld := (t.1, t.2.1)

/-- all fields the walkers report: direct callbacks of `SerialMessage.WalkAddrs` and of the
message walkers -/
def walkedFields (direct msgDirect : List (String × String × String)) : List Fld :=
  direct.map fst2 ++ msgDirect.map fst2

/-- all fields the loaders dereference: hashes built from a field in loader code, plus the
working-set chain -/
def loadFields (extracts wsReads : List (String × String × String)) : List Fld :=
  extracts.map fst2 ++ wsReads.map fst2

def missing (walked loads : List Fld) : List Fld := loads.filter (fun f => !walked.contains f)

/-- byte / string typed schema fields of chunk-store tables -/
def byteFields (tables : List (String × List (String × String × Bool))) : List Fld :=
  tables.flatMap fun (t, fs) =>
    if nonChunkTables.contains t then [] else
    (fs.filter fun (_, ty, _) => ty == "[ubyte]" || ty == "string" || ty == "[string]").map
      fun (f, _, _) => (t, f)

/-- sub-table typed fields `(table, field, subtable)` of chunk-store tables -/
def subtableFields (tables : List (String × List (String × String × Bool))) :
    List (String × String × String) :=
  let names := tables.map (·.1)
  tables.flatMap fun (t, fs) =>
    if nonChunkTables.contains t then [] else
    fs.filterMap fun (f, ty, _) =>
      let base := if ty.startsWith "[" then ((ty.drop 1).dropEnd 1).toString else ty
      if names.contains base then some (t, f, base) else none

/-- tables that (directly) hold an address / embedded / offset-walked tuple field -/
def tablesWithAddrs : List String :=
  (addressFields ++ embeddedFields).map (·.1)

/-! ## object level -/

/-- an object: the addresses held by each of its fields (sub-tables and embedded messages
flattened; a field may occur several times, e.g. one entry per array element) -/
structure Obj where
  vals : List (Fld × List Addr)

def Obj.get (o : Obj) (f : Fld) : List Addr :=
  (o.vals.filter (fun p => p.1 == f)).flatMap (·.2)

/-- non-empty addresses held in the given fields -/
def fieldsAddrs (fs : List Fld) (o : Obj) : List Addr :=
  (fs.flatMap o.get).filter (· != 0)

/-- what the reference walker reports for `o` (guards: a field guarded by `!addr.IsEmpty()` /
`Length() != 0` is skipped exactly when it holds the empty hash / nothing) -/
def walk (walked : List Fld) (o : Obj) : List Addr := fieldsAddrs walked o

/-- what loading `o` reads from the chunk store -/
def loadReads (loads : List Fld) (o : Obj) : List Addr := fieldsAddrs loads o

theorem mem_fieldsAddrs {fs : List Fld} {o : Obj} {a : Addr} :
    a ∈ fieldsAddrs fs o ↔ a ≠ 0 ∧ ∃ f ∈ fs, a ∈ o.get f := by
  simp [fieldsAddrs, List.mem_filter, List.mem_flatMap, and_comm]

/-- lifting lemma: a field-level inclusion (decided over the finite generated tables) gives the
object-level inclusion for every object -/
theorem lift_cover {walked loads exempt : List Fld}
    (h : ∀ f ∈ loads, f ∈ walked ∨ f ∈ exempt) (o : Obj) (a : Addr)
    (ha : a ∈ loadReads loads o) :
    a ∈ walk walked o ∨ ∃ f ∈ exempt, a ∈ o.get f := by
  obtain ⟨hz, f, hf, hm⟩ := mem_fieldsAddrs.mp ha
  cases h f hf with
  | inl hw => exact Or.inl (mem_fieldsAddrs.mpr ⟨hz, f, hw, hm⟩)
  | inr he => exact Or.inr ⟨f, he, hm⟩

/-! ## wire helpers for the driver -/

def sortDedup (xs : List Nat) : List Nat :=
  (xs.toArray.qsort (· < ·)).toList.eraseDups

def sortStrs (xs : List String) : List String :=
  (xs.toArray.qsort (· < ·)).toList.eraseDups

end DoltVerif.Walk
