/-
The prolly chunker (go/store/prolly/tree/chunker.go, node_splitter.go) as an abstract algorithm
over an ABSTRACT boundary oracle.  Core-only.

* `Splitter σ α`      = `nodeSplitter`: `init` is the state after `Reset()` (and after construction),
                        `step` is `Append` followed by reading `CrossedBoundary()`.
* `LevelCfg`          = what one `chunker[S]` of a given level is parameterised by: its splitter,
                        the item weight `len(key)+len(value)`, the node capacity
                        (`message.MaxVectorOffset`) and `isLeaf()`.
* `stepItem`          = `chunker.append` (capacity rule, degenerate rule, `handleChunkBoundary`).
* `feed` / `chunk`    = appending a run of items / a whole level followed by the flush in `Done`.
* `rootOf` / `build`  = the stack of chunkers: level n+1 receives `summary` of every finished
                        level-n chunk; `canonical` = `getCanonicalRoot`.
-/
import DoltVerif.Model.Tree
namespace DoltVerif.Prolly

structure Splitter (σ α : Type) where
  init : σ
  step : σ → α → σ × Bool

structure LevelCfg (σ α : Type) where
  sp : Splitter σ α
  weight : α → Nat
  cap : Nat
  leaf : Bool

/-- in-progress chunk of one chunker: splitter state and the items in the `nodeBuilder` -/
structure St (σ α : Type) where
  s : σ
  cur : List α

variable {σ α : Type}

def LevelCfg.fresh (L : LevelCfg σ α) : St σ α := ⟨L.sp.init, []⟩

/-- `nodeBuilder.size` -/
def LevelCfg.size (L : LevelCfg σ α) (cur : List α) : Nat := (cur.map L.weight).sum

/-- `!nodeBuilder.hasCapacity(key, value)` -/
def LevelCfg.overflow (L : LevelCfg σ α) (cur : List α) (x : α) : Bool :=
  decide (L.cap < L.size cur + L.weight x)

/-- `!tc.isLeaf() && tc.builder.count() == 1` -/
def LevelCfg.degenerate (L : LevelCfg σ α) (cur : List α) : Bool := !L.leaf && cur.length == 1

/-- `chunker.append` panics (`"impossible node"`, or the non-empty assertion of
`handleChunkBoundary`) exactly when this is false. -/
def LevelCfg.stepOk (L : LevelCfg σ α) (st : St σ α) (x : α) : Bool :=
  !(L.overflow st.cur x && (L.degenerate st.cur || st.cur.isEmpty))

/-- `chunker.append`: the chunks handed to the parent, the new in-progress state, and the
returned `split` flag (true only for a boundary *after* the item). -/
def LevelCfg.stepItem (L : LevelCfg σ α) (st : St σ α) (x : α) : List (List α) × St σ α × Bool :=
  if L.overflow st.cur x then
    -- constraint (2): the pair does not fit; force a boundary before it (`handleChunkBoundary`,
    -- `splitter.Reset()`), then add it to the empty builder
    let r := L.sp.step L.sp.init x
    if r.2 && !L.degenerate [x] then ([st.cur, [x]], L.fresh, true)
    else ([st.cur], ⟨r.1, [x]⟩, false)
  else
    let r := L.sp.step st.s x
    if r.2 && !L.degenerate (st.cur ++ [x]) then ([st.cur ++ [x]], L.fresh, true)
    else ([], ⟨r.1, st.cur ++ [x]⟩, false)

/-- append a run of items -/
def LevelCfg.feed (L : LevelCfg σ α) : St σ α → List α → List (List α) × St σ α
  | st, [] => ([], st)
  | st, x :: xs =>
    let r := L.stepItem st x
    let r2 := L.feed r.2.1 xs
    (r.1 ++ r2.1, r2.2)

def LevelCfg.feedOk (L : LevelCfg σ α) : St σ α → List α → Bool
  | _, [] => true
  | st, x :: xs => L.stepOk st x && L.feedOk (L.stepItem st x).2.1 xs

/-- `Done`: the pending items become the last chunk of the level -/
def St.flush (st : St σ α) : List (List α) := if st.cur.isEmpty then [] else [st.cur]

/-- all chunks of a level built from scratch -/
def LevelCfg.chunk (L : LevelCfg σ α) (xs : List α) : List (List α) :=
  let r := L.feed L.fresh xs
  r.1 ++ r.2.flush

def LevelCfg.chunkOk (L : LevelCfg σ α) (xs : List α) : Bool := L.feedOk L.fresh xs

/-! ### the stack of chunkers -/

variable {κ ν : Type}

/-- one chunker configuration per tree level (`newChunker(…, level, …)` asks
`defaultSplitterFactory(level % 256)`) -/
abbrev Cfg (σ κ ν : Type) := (n : Nat) → LevelCfg σ (ItemH κ ν n)

/-- `getCanonicalRoot`: strip internal roots that have a single child -/
def canonical : (n : Nat) → NodeH κ ν n → Tree κ ν
  | 0, nd => ⟨0, nd⟩
  | n+1, nd =>
    match nd with
    | [it] => canonical n (childOf it)
    | _ => ⟨n+1, nd⟩

inductive BuildErr where
  | panic   -- chunker.append panicked (impossible node / empty boundary)
  | fuel    -- more levels than items (cannot happen without a panic; kept as an error, not assumed away)
  deriving DecidableEq, Repr

/-- `Done` above a finished level: the level-`n` chunks are given; while more than one remains,
their summaries are chunked by the (cursor-less) chunker of the next level; then
`getCanonicalRoot`.  No chunk at all = the empty leaf. -/
def rootOf [Inhabited κ] (C : Cfg σ κ ν) : (fuel : Nat) → (n : Nat) → List (NodeH κ ν n) → Except BuildErr (Tree κ ν)
  | _, _, [] => .ok ⟨0, []⟩
  | _, n, [c] => .ok (canonical n c)
  | 0, _, _ :: _ :: _ => .error .fuel
  | fuel+1, n, c₁ :: c₂ :: cs =>
    let items := (c₁ :: c₂ :: cs).map (summary n)
    if !(C (n+1)).chunkOk items then .error .panic
    else rootOf C fuel (n+1) ((C (n+1)).chunk items)

/-- bulk build of a map from sorted key/value pairs (`NewMapFromTuples` → `newEmptyChunker`,
`AddPair`…, `Done`) -/
def build [Inhabited κ] (C : Cfg σ κ ν) (kvs : List (κ × ν)) : Except BuildErr (Tree κ ν) :=
  if !(C 0).chunkOk kvs then .error .panic else rootOf C (kvs.length + 2) 0 ((C 0).chunk kvs)

end DoltVerif.Prolly
