import DoltVerif.Model.Txn
/-
Secondary indexes of one table (C25) — core Lean only.

Anchors: `writer/prolly_table_writer.go` (`Insert/Update/Delete` fan out to every
`prollySecondaryIndexWriter`: `Insert` puts `keyFromRow(row)`, `Delete` deletes it, `Update` =
delete(old) + put(new)); `writer/prolly_index_writer.go: keyFromRow/trimKeyPart` (index key = the
indexed columns, trimmed to their prefix lengths, followed by the primary key);
`merge/merge_prolly_rows.go: secondaryMerger.merge` (per three-way diff: delete the old entry, put
the new one); index (re)build on `CREATE INDEX` (`creation.BuildSecondaryProllyIndex`).
An index prolly map is a *set* of key tuples (put of an existing key overwrites).
-/
namespace DoltVerif.TxnIdx
open DoltVerif.Txn

structure IdxDef where
  name : String
  cols : List Nat          -- indexed value columns, in index order
  pfx : List Nat := []     -- prefix lengths, parallel to `cols` (0 / missing = whole value)
  unique : Bool := false
  deriving DecidableEq, Repr

/-- `val.TrimValueToPrefixLength`: strings are cut to `n` characters, `n = 0` = no prefix -/
def trimCell (n : Nat) : Cell → Cell
  | some (.str s) => if n = 0 then some (.str s) else some (.str (String.ofList (s.toList.take n)))
  | c => c

/-- a column the row does not have reads as NULL (never reached: rows have the table's width) -/
def colOf (r : Row) (c : Nat) : Cell := match r[c]? with | some x => x | none => none

def keyCells (d : IdxDef) (r : Row) : List Cell :=
  (d.cols.zipIdx).map (fun (c, i) => trimCell (match d.pfx[i]? with | some n => n | none => 0) (colOf r c))

/-- `keyFromRow`: indexed (trimmed) columns, then the primary key -/
def entry (d : IdxDef) (k : Key) (r : Row) : List Cell := keyCells d r ++ [some (.int k)]

abbrev Entries := List (List Cell)

def addE (e : List Cell) (es : Entries) : Entries := if e ∈ es then es else e :: es
def delE (e : List Cell) (es : Entries) : Entries := es.filter (fun x => !(x == e))

structure ITable where
  rows : Root
  idx : List (IdxDef × Entries)

/-- one index after the row at `k` changed from `old` to `new`: delete the old entry, put the new one -/
def idxAfter (d : IdxDef) (k : Key) (old new : Option Row) (es : Entries) : Entries :=
  let es1 := match old with | some ro => delE (entry d k ro) es | none => es
  match new with | some rn => addE (entry d k rn) es1 | none => es1

def rowsAfter (k : Key) (new : Option Row) (rows : Root) : Root :=
  match new with | some r => put k r rows | none => del k rows

/-- the one primitive every row change goes through (writer Insert/Update/Delete, merge diffs,
conflict resolution): set key `k` to `v`, fanning out to every index -/
def setKey (k : Key) (v : Option Row) (t : ITable) : ITable :=
  { rows := rowsAfter k v t.rows
    idx := t.idx.map (fun p => (p.1, idxAfter p.1 k (get t.rows k) v p.2)) }

/-- entries computed from the primary rows -/
def rebuild (d : IdxDef) (rows : Root) : Entries := (dump rows).map (fun (k, r) => entry d k r)

/-- unique key check of `prollySecondaryIndexWriter.ValidateKeyViolations`: another row has the same
indexed prefix and no indexed cell is NULL -/
def uniqueClash (d : IdxDef) (rows : Root) (k : Key) (r : Row) : Bool :=
  d.unique && (keyCells d r).all (fun c => c.isSome) &&
    (dump rows).any (fun (k', r') => k' != k && keyCells d r' == keyCells d r)

inductive IOp where
  | ins (k : Key) (r : Row)
  | upd (k : Key) (col : Nat) (v : Cell)
  | del (k : Key)
  | createIndex (d : IdxDef)
  | dropIndex (name : String)
  | mergeFrom (w s : Root)     -- three-way merge of the primary rows, `w` = theirs, `s` = base
  deriving Repr

inductive IRes where | ok | dupKey | conflict | noSuchIndex
  deriving DecidableEq, Repr

def applyIOp (t : ITable) : IOp → ITable × IRes
  | .ins k r =>
    match get t.rows k with
    | some _ => (t, .dupKey)
    | none => if t.idx.any (fun (d, _) => uniqueClash d t.rows k r) then (t, .dupKey) else (setKey k (some r) t, .ok)
  | .upd k c v =>
    match get t.rows k with
    | none => (t, .ok)
    | some r =>
      let r' := setCol r c v
      if t.idx.any (fun (d, _) => uniqueClash d t.rows k r') then (t, .dupKey) else (setKey k (some r') t, .ok)
  | .del k => (setKey k none t, .ok)
  | .createIndex d =>
    if d.unique && (dump t.rows).any (fun (k, r) => uniqueClash d t.rows k r) then (t, .dupKey)
    else ({ t with idx := t.idx ++ [(d, rebuild d t.rows)] }, .ok)
  | .dropIndex n =>
    if t.idx.any (fun (d, _) => d.name == n) then ({ t with idx := t.idx.filter (fun (d, _) => d.name != n) }, .ok)
    else (t, .noSuchIndex)
  | .mergeFrom w s =>
    let ks := mergeKeysOf t.rows w s
    if ks.any (conflictAt t.rows w s) then (t, .conflict)
    else
      -- secondaryMerger: one delete+put per diffed key, values taken from the merge of the ORIGINAL rows
      (ks.foldl (fun acc k => if mergedAt t.rows w s k = get t.rows k then acc else setKey k (mergedAt t.rows w s k) acc) t, .ok)

def runIOps (t : ITable) : List IOp → ITable
  | [] => t
  | op :: rest => runIOps (applyIOp t op).1 rest

end DoltVerif.TxnIdx
