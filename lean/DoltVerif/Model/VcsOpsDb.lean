import DoltVerif.Model.VcsOps
/-
VcsOps, part 2: the database machine — commits, branches, tags, one working set per branch, the
stash list — and the procedures `dolt_add / commit / branch / checkout / merge / cherry_pick /
revert / rebase / reset / stash / tag` as total functions `Db → … → Res × Db` (an error leaves the
database unchanged: every procedure runs in an autocommit transaction that is rolled back on error).
-/
namespace DoltVerif.VcsOps

structure Commit where
  parents : List Nat
  root : Root
  msg : String
  height : Nat
  deriving DecidableEq, Repr, Inhabited

inductive MergeKind where
  | cherry | revert
  deriving DecidableEq, Repr

/-- `doltdb.MergeState` as far as `--abort` reads it -/
structure MergeSt where
  preWorking : Root
  preHead : Nat
  kind : MergeKind
  deriving DecidableEq, Repr

structure WS where
  working : Root
  staged : Root
  merge : Option MergeSt := none
  deriving DecidableEq, Repr, Inhabited

structure Stash where
  root : Root
  head : Nat
  toStage : List String
  deriving DecidableEq, Repr

structure Db where
  commits : List Commit            -- commit id = position
  branches : List (String × Nat)   -- ascending in the name
  tags : List (String × Nat)
  wss : List (String × WS)         -- one working set per branch
  cur : String
  stashes : List Stash             -- index 0 = most recent
  deriving DecidableEq, Repr

/-- error classes (closed enum shared with the harness) -/
inductive Err where
  | dupKey | noTable | nothingToCommit | conflict | schemaConflict | dirty | badRef | exists_ | other
  deriving DecidableEq, Repr

inductive Res where
  | ok
  | err (e : Err)
  | skip (why : String)      -- outside the modelled family: the harness does not run the statement
  deriving DecidableEq, Repr

def initDb : Db :=
  { commits := [⟨[], [], "Initialize data repository", 1⟩]
    branches := [("main", 0)], tags := [], wss := [("main", ⟨[], [], none⟩)], cur := "main", stashes := [] }

/-! ### accessors -/

def Db.commit? (d : Db) (i : Nat) : Option Commit := d.commits[i]?
def Db.rootOf (d : Db) (i : Nat) : Root := match d.commits[i]? with | some c => c.root | none => []
def Db.headId (d : Db) : Nat := (get d.branches d.cur).getD 0
def Db.headRoot (d : Db) : Root := d.rootOf d.headId
def Db.ws (d : Db) : WS := (get d.wss d.cur).getD ⟨[], [], none⟩
def Db.setWs (d : Db) (w : WS) : Db := { d with wss := put ltStr d.wss d.cur w }
def Db.setHead (d : Db) (i : Nat) : Db := { d with branches := put ltStr d.branches d.cur i }

def Db.addCommit (d : Db) (parents : List Nat) (root : Root) (msg : String) : Db × Nat :=
  let h := (parents.map (fun p => match d.commits[p]? with | some c => c.height | none => 0)).foldl max 0 + 1
  ({ d with commits := d.commits ++ [⟨parents, root, msg, h⟩] }, d.commits.length)

/-! ### revision specs: `<hash>`, branch, tag, HEAD, each with `~n` (first-parent steps) -/

inductive RefBase where
  | commit (i : Nat) | branch (n : String) | tag (n : String) | head
  deriving DecidableEq, Repr

structure Ref where
  base : RefBase
  up : Nat := 0
  deriving DecidableEq, Repr

def Db.ancestor (d : Db) : Nat → Nat → Option Nat
  | i, 0 => if i < d.commits.length then some i else none
  | i, n + 1 =>
    match d.commits[i]? with
    | some c => match c.parents with
      | p :: _ => d.ancestor p n
      | [] => none
    | none => none

def Db.resolveBase (d : Db) : RefBase → Option Nat
  | .commit i => if i < d.commits.length then some i else none
  | .branch n => get d.branches n
  | .tag n => get d.tags n
  | .head => get d.branches d.cur

def Db.resolve (d : Db) (r : Ref) : Option Nat :=
  match d.resolveBase r.base with
  | some i => d.ancestor i r.up
  | none => none

/-! ### ancestry -/

/-- all ancestors of `i` including `i` (fuel = number of commits; parents have smaller ids) -/
def Db.closureAux (d : Db) : Nat → List Nat → List Nat → List Nat
  | 0, _, acc => acc
  | fuel + 1, todo, acc =>
    match todo with
    | [] => acc
    | i :: rest =>
      if acc.contains i then d.closureAux fuel rest acc
      else
        let ps := match d.commits[i]? with | some c => c.parents | none => []
        d.closureAux fuel (ps ++ rest) (i :: acc)

def Db.closure (d : Db) (i : Nat) : List Nat :=
  d.closureAux (d.commits.length * d.commits.length + d.commits.length + 1) [i] []

def Db.isAncestor (d : Db) (a b : Nat) : Bool := (d.closure b).contains a

def Db.heightOf (d : Db) (i : Nat) : Nat := match d.commits[i]? with | some c => c.height | none => 0

/-- merge base: the common ancestor of maximal height, when unique -/
def Db.mergeBase (d : Db) (a b : Nat) : Option Nat :=
  let ca := (d.closure a).filter (fun i => (d.closure b).contains i)
  let hmax := (ca.map d.heightOf).foldl max 0
  match ca.filter (fun i => d.heightOf i = hmax) with
  | [i] => some i
  | _ => none

/-! ### status -/

/-- names whose tables differ between two roots -/
def changedTables (a b : Root) : List String :=
  (unionKeys ltStr (keys a) (keys b)).filter (fun n => get a n ≠ get b n)

def statusWord (f t : Option Table) : String :=
  match f, t with
  | none, some _ => "new table"
  | some _, none => "deleted"
  | _, _ => "modified"

/-- rows of `dolt_status`: (table, staged?, status) -/
def Db.status (d : Db) : List (String × Bool × String) :=
  let w := d.ws
  let h := d.headRoot
  (changedTables h w.staged).map (fun n => (n, true, statusWord (get h n) (get w.staged n))) ++
  (changedTables w.staged w.working).map (fun n => (n, false, statusWord (get w.staged n) (get w.working n)))

def Db.clean (d : Db) : Bool := d.ws.staged = d.headRoot ∧ d.ws.working = d.headRoot

/-! ### DML / DDL on the working root of the current branch -/

def Db.setWorking (d : Db) (r : Root) : Db := d.setWs { d.ws with working := r }

def Db.dml (d : Db) (s : Stmt) : Res × Db :=
  let w := d.ws.working
  match s with
  | .insert n k row =>
    match get w n with
    | none => (.err .noTable, d)
    | some tb =>
      if row.length ≠ tb.cols.length then (.err .other, d)
      else if has tb.rows k then (.err .dupKey, d)
      else (.ok, d.setWorking (putTable w n ⟨tb.cols, putRow tb.rows k row⟩))
  | .update n _ sets =>
    match get w n with
    | none => (.err .noTable, d)
    | some tb =>
      if sets.any (fun s => !(tb.cols.any (fun c => c.name = s.1))) then (.err .other, d)
      else match execStmt w s with
        | some w' => (.ok, d.setWorking w')
        | none => (.err .other, d)
  | .createTable n _ =>
    if has w n then (.err .exists_, d) else
    match execStmt w s with
    | some w' => (.ok, d.setWorking w')
    | none => (.err .other, d)
  | _ =>
    match s with
    | .dropTable n | .delete n _ | .addCol n _ | .dropCol n _ =>
      if !(has w n) then (.err .noTable, d) else
      match execStmt w s with
      | some w' => (.ok, d.setWorking w')
      | none => (.err .other, d)
    | _ => (.err .other, d)

/-! ### add / commit -/

/-- `actions.MoveTablesBetweenRoots` restricted to names: copy (or delete) each named table -/
def moveStep (src : Root) (acc : Root) (n : String) : Root :=
  match get src n with
  | some tb => putTable acc n tb
  | none => del acc n

def moveTables (names : List String) (src dest : Root) : Root :=
  names.foldl (moveStep src) dest

def Db.add (d : Db) (names : List String) : Res × Db :=
  let w := d.ws
  if names.any (fun n => !(has w.working n) && !(has w.staged n)) then (.err .noTable, d)
  else (.ok, d.setWs { w with staged := moveTables names w.working w.staged })

def Db.addAll (d : Db) : Res × Db :=
  let w := d.ws
  (.ok, d.setWs { w with staged := moveTables (unionKeys ltStr (keys w.working) (keys w.staged)) w.working w.staged })

/-- tables that `dolt_commit -a` / `StageModifiedAndDeletedTables` stages: unstaged deltas that are
not additions -/
def trackedChanged (w : WS) : List String :=
  (changedTables w.staged w.working).filter (fun n => has w.staged n)

inductive CommitMode where
  | staged | tracked | all
  deriving DecidableEq, Repr

def Db.commitWith (d : Db) (mode : CommitMode) (msg : String) : Res × Db :=
  let w := d.ws
  if w.merge.isSome then (.skip "merge active", d) else
  let staged := match mode with
    | .staged => w.staged
    | .tracked => moveTables (trackedChanged w) w.working w.staged
    | .all => moveTables (unionKeys ltStr (keys w.working) (keys w.staged)) w.working w.staged
  if staged = d.headRoot then (.err .nothingToCommit, d)
  else
    let (d1, id) := d.addCommit [d.headId] staged msg
    (.ok, (d1.setHead id).setWs { w with staged := staged })

/-! ### branches, tags, plain checkout (the session switches to the other branch's working set) -/

def Db.newBranch (d : Db) (name : String) (at_ : Ref) : Res × Db :=
  if has d.branches name then (.err .exists_, d) else
  match d.resolve at_ with
  | none => (.err .badRef, d)
  | some i =>
    let r := d.rootOf i
    (.ok, { d with branches := put ltStr d.branches name i, wss := put ltStr d.wss name ⟨r, r, none⟩ })

def Db.newTag (d : Db) (name : String) (at_ : Ref) : Res × Db :=
  if has d.tags name then (.err .exists_, d) else
  match d.resolve at_ with
  | none => (.err .badRef, d)
  | some i => (.ok, { d with tags := put ltStr d.tags name i })

def Db.checkout (d : Db) (name : String) : Res × Db :=
  if has d.branches name then (.ok, { d with cur := name }) else (.err .badRef, d)

def Db.checkoutNew (d : Db) (name : String) : Res × Db :=
  match d.newBranch name ⟨.head, 0⟩ with
  | (.ok, d1) => (.ok, { d1 with cur := name })
  | r => r

/-! ### `dolt_checkout('--move', b)`: the working set travels (what `dolt checkout` does) -/

/-- `actions.moveModifiedTables`: `none` inside the map = the empty hash; outer `none` = conflict -/
def moveModified (old new changed : Root) : Option (List (String × Option Table)) :=
  let step1 := (keys new).foldl (fun (acc : Option (List (String × Option Table))) n =>
    match acc with
    | none => none
    | some m =>
      let oh := get old n; let nh := get new n; let ch := get changed n
      if oh = ch then some (m ++ [(n, nh)])
      else if oh = nh then some (m ++ [(n, ch)])
      else none) (some [])
  (keys changed).foldl (fun acc n =>
    match acc with
    | none => none
    | some m =>
      if has m n then some m else
      let oh := get old n; let ch := get changed n
      if oh = none then some (m ++ [(n, ch)])
      else if oh ≠ ch then none
      else some m) step1

/-- `actions.writeTableHashes`: start from the branch head, drop what the map does not mention,
write every non-empty hash — an empty hash is *skipped*, the head's table stays. -/
def writeHashes (head : Root) (m : List (String × Option Table)) : Root :=
  let kept := head.filter (fun nt => has m nt.1)
  m.foldl (fun acc nv => match nv.2 with
    | some tb => putTable acc nv.1 tb
    | none => acc) kept

def hasChanges (head : Root) (w : WS) : Bool := w.working ≠ w.staged ∨ w.staged ≠ head

def Db.checkoutMove (d : Db) (name : String) : Res × Db :=
  match get d.branches name with
  | none => (.err .badRef, d)
  | some bh =>
    if name = d.cur then (.ok, d) else
    let src := d.ws
    let srcHead := d.headRoot
    let dst := (get d.wss name).getD ⟨[], [], none⟩
    let dstHead := d.rootOf bh
    if src.merge.isSome then (.skip "merge active", d) else
    -- CheckoutWouldStompWorkingSetChanges
    if hasChanges srcHead src && hasChanges dstHead dst && (src.working ≠ dst.working || src.staged ≠ dst.staged) then (.err .dirty, d)
    else if hasChanges srcHead src then
      match moveModified srcHead dstHead src.working, moveModified srcHead dstHead src.staged with
      | some wm, some sm =>
        let nw : WS := { dst with working := writeHashes dstHead wm, staged := writeHashes dstHead sm }
        -- CleanOldWorkingSet: reset --hard + clean on the source branch
        let d1 := { d with wss := put ltStr (put ltStr d.wss d.cur ⟨srcHead, srcHead, none⟩) name nw, cur := name }
        (.ok, d1)
      | _, _ => (.err .conflict, d)
    else (.ok, { d with cur := name })

/-- `dolt_checkout(<table>)` = `MoveTablesFromHeadToWorking` for one table -/
def Db.checkoutTable (d : Db) (n : String) : Res × Db :=
  let w := d.ws
  if !(has w.working n) && !(has w.staged n) && !(has d.headRoot n) then (.err .noTable, d) else
  match (get w.staged n).orElse (fun _ => get d.headRoot n) with
  | some tb => (.ok, d.setWs { w with working := putTable w.working n tb })
  | none => (.ok, d.setWs { w with working := del w.working n })

/-! ### merge (only to build merged histories; conflicts abort) -/

def errOfMerge : MergeErr → Res
  | .conflict => .err .conflict
  | .schemaConflict => .err .schemaConflict   -- returned as an error: no merge state, nothing to abort
  | .unsupported => .skip "schema merge outside the model"

def Db.mergeBranch (d : Db) (name : String) (noff : Bool) (msg : String) : Res × Db :=
  match get d.branches name with
  | none => (.err .badRef, d)
  | some other =>
    if !d.clean || d.ws.merge.isSome then (.skip "merge with a dirty working set", d) else
    let h := d.headId
    if d.isAncestor other h then (.ok, d)                         -- already up to date
    else if d.isAncestor h other && !noff then
      let r := d.rootOf other
      (.ok, (d.setHead other).setWs ⟨r, r, none⟩)                 -- fast-forward
    else
      match d.mergeBase h other with
      | none => (.skip "ambiguous merge base", d)
      | some mb =>
        match merge3 false (d.rootOf mb) d.headRoot (d.rootOf other) with
        | .error e => (errOfMerge e, d)
        | .ok m =>
          let (d1, id) := d.addCommit [h, other] m msg
          (.ok, (d1.setHead id).setWs ⟨m, m, none⟩)

/-! ### cherry-pick and revert -/

/-- `MergeOpts.IsCherryPick` as passed by `cherry_pick.cherryPick`, `revert.revertCommit` and the
stash's `handleMerge` (tied to the source by `Tie/VcsOps.lean`) -/
def cherryPickIsCherry : Bool := true
def revertIsCherry : Bool := false
def stashPopIsCherry : Bool := false

/-- `cherry_pick.cherryPick` up to the merge: the merged root, or why not -/
def Db.cherryRoot (d : Db) (c : Nat) : Except Res Root :=
  if !d.clean then .error (.err .dirty) else
  match d.commit? c with
  | none => .error (.err .badRef)
  | some cm =>
    match cm.parents with
    | [p] =>
      if cm.root = d.rootOf p then .error (.err .other)        -- empty commit, no --allow-empty
      else match merge3 cherryPickIsCherry (d.rootOf p) d.ws.working cm.root with
        | .error e => .error (errOfMerge e)
        | .ok m => .ok m
    | _ => .error (.err .other)                                 -- merge commit / no parents

def Db.cherryPick (d : Db) (r : Ref) : Res × Db :=
  if d.ws.merge.isSome then (.skip "merge active", d) else
  match d.resolve r with
  | none => (.err .badRef, d)
  | some c =>
    match d.cherryRoot c with
    | .error e => (e, d)
    | .ok m =>
      if m = d.headRoot then (.err .nothingToCommit, d)
      else
        let msg := match d.commit? c with | some cm => cm.msg | none => ""
        let (d1, id) := d.addCommit [d.headId] m msg
        (.ok, (d1.setHead id).setWs ⟨m, m, none⟩)

/-- `revert.dirtyTablesConflictWithRevert` -/
def Db.revertBlocked (d : Db) (c : Nat) : Bool :=
  let w := d.ws
  if w.staged ≠ d.headRoot then true else
  let dirty := changedTables w.staged w.working
  if dirty.isEmpty then false else
  match d.commit? c with
  | none => true
  | some cm =>
    match cm.parents with
    | [] => true
    | p :: _ => (changedTables (d.rootOf p) cm.root).any (fun n => dirty.contains n)

def Db.revert (d : Db) (r : Ref) : Res × Db :=
  if d.ws.merge.isSome then (.skip "merge active", d) else
  match d.resolve r with
  | none => (.err .badRef, d)
  | some c =>
    if d.revertBlocked c then (.err .dirty, d) else
    match d.commit? c with
    | none => (.err .badRef, d)
    | some cm =>
      match cm.parents with
      | [] => (.err .other, d)
      | p :: _ =>
        match merge3 revertIsCherry cm.root d.ws.working (d.rootOf p) with
        | .error e => (errOfMerge e, d)
        | .ok m =>
          -- stageRevertedTables: the tables the merge touched
          let touched := changedTables d.ws.working m
          let staged := moveTables touched m d.ws.staged
          if staged = d.headRoot then (.err .nothingToCommit, d)
          else
            let (d1, id) := d.addCommit [d.headId] staged ("Revert \"" ++ cm.msg ++ "\"")
            (.ok, (d1.setHead id).setWs ⟨m, staged, none⟩)

/-! ### conflicted cherry-pick / revert with `@@dolt_allow_commit_conflicts = 1`, then `--abort` -/

/-- the working set a conflicted cherry-pick / revert leaves behind (`StartCherryPick` /
`StartRevert`): a merge state recording the pre-merge working root and head; the working and staged
roots then hold whatever the partial merge wrote (`midW`, `midS` — conflict artifacts included; the
model never reads them, only `--abort` is defined on such a state). -/
def Db.startConflicted (d : Db) (kind : MergeKind) (midW midS : Root) : Db :=
  d.setWs { working := midW, staged := midS, merge := some ⟨d.ws.working, d.headId, kind⟩ }

/-- the working root `--abort` restores: `merge.AbortMerge` puts the recorded pre-merge working root
back; `revert.AbortRevert` then overwrites working *and* staged with the pre-revert HEAD ("so the
working set is clean") — which discards the unrelated unstaged changes a revert is allowed to start
with (design/C31.md). -/
def abortWorking (kind : MergeKind) (preWorking headRoot : Root) : Root :=
  match kind with
  | .cherry => preWorking
  | .revert => headRoot

/-- `merge.AbortMerge` (+ `AbortRevert`'s head and working-set reset) -/
def Db.abortMerge (d : Db) : Res × Db :=
  match d.ws.merge with
  | none => (.err .other, d)
  | some ms =>
    let d1 := d.setHead ms.preHead
    (.ok, d1.setWs ⟨abortWorking ms.kind ms.preWorking d1.headRoot, d1.headRoot, none⟩)

/-- cherry-pick with `@@dolt_allow_commit_conflicts = 1`, `--abort` after a data conflict -/
def Db.cherryPickAbort (d : Db) (r : Ref) : Res × Db :=
  match d.cherryPick r with
  | (.err .conflict, _) => (.err .conflict, ((d.startConflicted .cherry d.ws.working d.ws.staged).abortMerge).2)
  | x => x

def Db.revertAbort (d : Db) (r : Ref) : Res × Db :=
  match d.revert r with
  | (.err .conflict, _) => (.err .conflict, ((d.startConflicted .revert d.ws.working d.ws.staged).abortMerge).2)
  | x => x

/-! ### reset -/

/-- `actions.MoveUntrackedTables` (column-tag collisions are not modelled: table identity = name) -/
def moveUntracked (srcWorking srcStaged target : Root) : Root :=
  srcWorking.foldl (fun acc nt =>
    if has srcStaged nt.1 || has target nt.1 then acc else putTable acc nt.1 nt.2) target

def Db.resetHard (d : Db) (r : Option Ref) : Res × Db :=
  let tgt := match r with | none => some d.headId | some r => d.resolve r
  match tgt with
  | none => (.err .badRef, d)
  | some i =>
    let root := d.rootOf i
    let w := d.ws
    (.ok, (d.setHead i).setWs ⟨moveUntracked w.working w.staged root, root, none⟩)

/-- `dolt_reset('--soft', ref)`: only the branch head moves -/
def Db.resetSoft (d : Db) (r : Option Ref) : Res × Db :=
  match r with
  | none => (.ok, d)
  | some r =>
    match d.resolve r with
    | none => (.err .badRef, d)
    | some i => (.ok, (d.setHead i).setWs { d.ws with merge := none })

/-- `dolt_reset(ref)` (mixed): head moves, staged := that commit, working untouched -/
def Db.resetMixed (d : Db) (r : Ref) : Res × Db :=
  match d.resolve r with
  | none => (.err .badRef, d)
  | some i => (.ok, (d.setHead i).setWs { d.ws with staged := d.rootOf i, merge := none })

/-- `dolt_reset()` / `dolt_reset(table)`: `ResetSoftTables` — staged tables := HEAD's -/
def Db.resetTables (d : Db) (names : Option (List String)) : Res × Db :=
  let w := d.ws
  let h := d.headRoot
  let ns := match names with | none => unionKeys ltStr (keys w.staged) (keys h) | some ns => ns
  if ns.any (fun n => !(has w.staged n) && !(has h n)) then (.err .noTable, d)
  else (.ok, d.setWs { w with staged := moveTables ns h w.staged })

/-! ### stash -/

/-- `hasLocalChanges` without flags -/
def stashable (head : Root) (w : WS) : Bool :=
  if w.staged ≠ head then true
  else if w.working = head then false
  else (changedTables w.staged w.working).any (fun n => has w.staged n)

def Db.stashPush (d : Db) : Res × Db :=
  let w := d.ws
  let h := d.headRoot
  if w.merge.isSome then (.skip "merge active", d) else
  if !stashable h w then (.err .other, d) else
  let staged1 := moveTables (trackedChanged w) w.working w.staged      -- StageModifiedAndDeletedTables
  let all := changedTables h staged1                                   -- stashedTableSets
  let added := all.filter (fun n => !(has h n))
  -- MoveTablesFromHeadToWorking (staged := head first)
  let working1 := moveTables all h w.working
  (.ok, { (d.setWs ⟨working1, h, none⟩) with stashes := ⟨staged1, d.headId, added⟩ :: d.stashes })

/-- does the merge need a row-level three-way merge of some table (all three versions differ)?
`handleMerge`'s conflict test on such tables is not modelled: the harness does not run those pops. -/
def needsRowMerge (b o t : Root) : Bool :=
  (unionKeys ltStr (keys o) (keys t)).any (fun n =>
    decide (get o n ≠ get b n) && decide (get t n ≠ get b n) && decide (get o n ≠ get t n))

def Db.stashPop (d : Db) : Res × Db :=
  match d.stashes with
  | [] => (.err .other, d)
  | s :: rest =>
    let w := d.ws
    if needsRowMerge (d.rootOf s.head) w.working s.root then (.skip "stash pop needing a row-level merge", d) else
    match merge3 stashPopIsCherry (d.rootOf s.head) w.working s.root with
    | .error e => (errOfMerge e, d)
    | .ok m =>
      (.ok, { (d.setWs ⟨m, moveTables s.toStage m w.staged, w.merge⟩) with stashes := rest })

def Db.stashDrop (d : Db) : Res × Db :=
  match d.stashes with
  | [] => (.err .other, d)
  | _ :: rest => (.ok, { d with stashes := rest })

/-! ### rebase -/

inductive Action where
  | pick | drop | squash | fixup | reword (msg : String)
  deriving DecidableEq, Repr

/-- is `i` a commit with exactly one parent (merge commits are left out of a rebase plan) -/
def Db.singleParent (d : Db) (i : Nat) : Bool :=
  match d.commit? i with
  | some c => c.parents.length = 1
  | none => false

/-- `findRebaseCommits`: commits reachable from the branch head but not from upstream, without
merge commits, oldest first; `none` when two of them have the same height (the order then depends
on the commit walk's tie-breaking, which is not modelled). -/
def Db.rebaseCommits (d : Db) (head upstream : Nat) : Option (List Nat) :=
  let up := d.closure upstream
  let cs := (d.closure head).filter (fun i => !(up.contains i))
  -- insertion sort by height
  let sorted := cs.foldl (fun acc i =>
    let (lo, hi) := acc.partition (fun j => d.heightOf j < d.heightOf i)
    lo ++ [i] ++ hi) []
  let picks := sorted.filter d.singleParent
  let hs := picks.map d.heightOf
  if hs.eraseDups.length = hs.length then some picks else none

/-- `ValidateRebasePlan`: squash / fixup only after a pick or reword -/
def planValid : List Action → Bool → Bool
  | [], _ => true
  | .pick :: rest, _ => planValid rest true
  | .reword _ :: rest, _ => planValid rest true
  | .drop :: rest, seen => planValid rest seen
  | _ :: rest, seen => seen && planValid rest seen

/-- one plan step on the temporary branch whose head is `cur` (`handleRebaseCherryPick`):
the new head, or the reason the rebase stops -/
def Db.rebaseStep (d : Db) (cur : Nat) (c : Nat) (a : Action) : Except Res (Db × Nat) :=
  match a with
  | .drop => .ok (d, cur)
  | _ =>
    match d.commit? c, d.commit? cur with
    | some cm, some curc =>
      match cm.parents with
      | [p] =>
        match merge3 cherryPickIsCherry (d.rootOf p) curc.root cm.root with
        | .error e => .error (errOfMerge e)
        | .ok m =>
          if m = curc.root then .ok (d, cur)           -- the commit became empty: dropped
          else match a with
            | .pick => let (d1, id) := d.addCommit [cur] m cm.msg; .ok (d1, id)
            | .reword msg => let (d1, id) := d.addCommit [cur] m msg; .ok (d1, id)
            | .squash => let (d1, id) := d.addCommit curc.parents m (curc.msg ++ "\n\n" ++ cm.msg); .ok (d1, id)
            | .fixup => let (d1, id) := d.addCommit curc.parents m curc.msg; .ok (d1, id)
            | .drop => .ok (d, cur)
      | _ => .error (.err .other)
    | _, _ => .error (.err .badRef)

def Db.rebaseSteps (d : Db) (cur : Nat) : List (Nat × Action) → Except Res (Db × Nat)
  | [] => .ok (d, cur)
  | (c, a) :: rest =>
    match d.rebaseStep cur c a with
    | .error e => .error e
    | .ok (d1, cur1) => d1.rebaseSteps cur1 rest

/-- `dolt_rebase('-i', upstream)`, editing the plan, `dolt_rebase('--continue')`; on a conflict the
harness issues `dolt_rebase('--abort')`, which restores the branch — so an error leaves `d`. -/
def Db.rebase (d : Db) (upstream : Ref) (plan : List Action) : Res × Db :=
  if d.ws.merge.isSome then (.skip "merge active", d) else
  if !d.clean then (.err .dirty, d) else
  match d.resolve upstream with
  | none => (.err .badRef, d)
  | some up =>
    match d.rebaseCommits d.headId up with
    | none => (.skip "rebase range with equal heights", d)
    | some cs =>
      if cs.isEmpty then (.err .other, d)
      else if plan.length ≠ cs.length then (.skip "plan length", d)
      else if !planValid plan false then (.skip "invalid plan", d)
      else match d.rebaseSteps up (cs.zip plan) with
        | .error e => (e, d)
        | .ok (d1, cur) =>
          let r := d1.rootOf cur
          (.ok, (d1.setHead cur).setWs ⟨r, r, none⟩)

end DoltVerif.VcsOps
