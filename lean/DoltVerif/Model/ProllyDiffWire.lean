import Std.Data.HashMap
import DoltVerif.Model.Wire
import DoltVerif.Model.ProllyDiff
/-!
Wire helpers shared by the `ProllyDiff` / `ProllyMerge` drivers: a node store filled by `node`
requests (the harness ships every distinct prolly node once, addresses interned to small
numbers), from which `Tree` values are rebuilt, and the rendering of diff events.
-/
namespace DoltVerif.ProllyDiff.W
open DoltVerif.Wire DoltVerif.ProllyDiff

inductive NodeRec where
  | leaf (kvs : List KV)
  | inner (cs : List (Bytes × Nat))

abbrev Store := Std.HashMap Nat NodeRec

def splitList (s : String) : Option (List String) :=
  if s.length < 2 then none else
  let inner := ((s.drop 1).dropEnd 1).toString
  if inner.isEmpty then some [] else some (inner.splitOn ",")

def parseLeafItems (s : String) : Option (List KV) := do
  let items ← splitList s
  items.mapM (fun it => match it.splitOn ":" with
    | [k, v] => do some ((← unhex k), (← unhex v))
    | _ => none)

def parseInnerItems (s : String) : Option (List (Bytes × Nat)) := do
  let items ← splitList s
  items.mapM (fun it => match it.splitOn ":" with
    | [k, c] => do some ((← unhex k), (← c.toNat?))
    | _ => none)

/-- rebuild the tree below node `id`; fuel bounds the height -/
def build (st : Store) : Nat → Nat → Option Tree
  | 0, _ => none
  | fuel + 1, id =>
    match st[id]? with
    | none => none
    | some (.leaf kvs) => some (.leaf kvs)
    | some (.inner cs) => do
      let kids ← cs.mapM (fun (k, c) => do some (k, c, ← build st fuel c))
      some (.node kids)

def getTree (st : Store) (tok : String) : Option Tree := do build st 64 (← tok.toNat?)

def evStr (e : Event) : String :=
  match e.type with
  | .removed => s!"R:{hex e.key}:{hex (e.from?.getD [])}"
  | .added => s!"A:{hex e.key}:{hex (e.to?.getD [])}"
  | .modified => s!"M:{hex e.key}:{hex (e.from?.getD [])}:{hex (e.to?.getD [])}"

def evsStr (evs : List Event) : String := "[" ++ ",".intercalate (evs.map evStr) ++ "]"

def parseBound (s : String) : Option Bound :=
  if s == "u" then some ⟨[], false, false⟩ else
  match s.splitOn ":" with
  | ["i", h] => do some ⟨← unhex h, true, true⟩
  | ["x", h] => do some ⟨← unhex h, true, false⟩
  | ["ui", h] => do some ⟨← unhex h, false, true⟩
  | ["ux", h] => do some ⟨← unhex h, false, false⟩
  | _ => none

def parseOptKey (s : String) : Option (Option Bytes) :=
  if s == "_" then some none else (unhex s).map some

def storeStep (st : Store) : List String → Option (Store × String)
  | ["node", id, "L", items] => do
      let kvs ← parseLeafItems items
      some (st.insert (← id.toNat?) (.leaf kvs), "ok")
  | ["node", id, "N", items] => do
      let cs ← parseInnerItems items
      some (st.insert (← id.toNat?) (.inner cs), "ok")
  | ["reset"] => some ({}, "ok")
  | _ => none

end DoltVerif.ProllyDiff.W
