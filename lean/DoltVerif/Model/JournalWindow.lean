import DoltVerif.Model.JournalRecover
/-
`possibleDataLossCheck` with its real buffering: a window `buf` of `W = journalWriterBuffSize * 2`
bytes, refilled by `io.ReadFull(reader, buf[bufferPrefix:])` after the unprocessed remainder was
copied to the front (`goto ReadBatchGoto`).  `w` is the unprocessed part of the window
(`buf[idx:]`), `rest` what the reader has not delivered yet, `atEOF` the Go flag.  One call of
`wdlc` = one iteration of the inner `for idx <= len(buf)-rootHashRecordSize()` loop, or one refill.
The recursion takes fuel; `Lemmas/JournalWindow.lean` proves the fuel used by `windowedDlc` is
sufficient whenever `40 ≤ W` and `B ≤ W`, and that the result equals the whole-suffix `dlc`.
-/
namespace DoltVerif.Journal

/-- shift the remainder to the front and `io.ReadFull` into the free space: returns the new window,
the undelivered rest, and `atEOF` (set exactly when the read came up short) -/
def refill (W : Nat) (w rest : Bytes) : Bytes × Bytes × Bool :=
  let space := W - w.length
  (w ++ rest.take space, rest.drop space, decide (rest.length < space))

def wdlc (B W : Nat) : Nat → Bytes → Bytes → Bool → Bool → Except RErr Bool
  | 0, _, _, _, _ => .ok false
  | fuel + 1, w, rest, atEOF, firstRoot =>
    if w.length < rootRecSz then
      if atEOF then .ok false
      else
        let (w', rest', e') := refill W w rest
        wdlc B W fuel w' rest' e' firstRoot
    else
      match readU32? w with
      | none => .ok false
      | some sz =>
        if 0 < sz ∧ sz ≤ B then
          if sz ≤ w.length then
            if isValid (w.take sz) = true then
              match readRecord (w.take sz) with
              | .error e => .error e
              | .ok r => if firstRoot then .ok true else wdlc B W fuel (w.drop sz) rest atEOF (r.kind == kindRoot)
            else wdlc B W fuel w.tail rest atEOF firstRoot
          else if atEOF then wdlc B W fuel w.tail rest atEOF firstRoot
          else
            let (w', rest', e') := refill W w rest
            wdlc B W fuel w' rest' e' firstRoot
        else wdlc B W fuel w.tail rest atEOF firstRoot

/-- `possibleDataLossCheck(reader)` over the bytes `s` the reader still holds -/
def windowedDlc (B : Nat) (s : Bytes) : Except RErr Bool :=
  let W := B * 2
  let (w, rest, e) := refill W [] s
  wdlc B W (2 * s.length + 3) w rest e false

end DoltVerif.Journal
