import DoltVerif.Model.Dag
/-
Ref store model (family RefStore: C20, C21).  Core Lean only.

The store root is one register holding the datasets map (`Name → Addr`; address 0 = the empty hash
= "no such dataset").  Content addressing makes the root hash a function of the map, so the
register holds the map itself and `tryCommitChunks(new, last)` is `if root = last then root := new`.

`database.update(edit)` (go/store/datas/database_common.go) is the loop

    for { root := Root(); ds := load(root); ds', err := edit(ds); if err → return err
          if CAS(root, hash ds') → return nil }        -- retry only on ErrOptimisticLockFailed of the CAS

and is modelled as two atomic steps per iteration, `read` and `attempt` (edit evaluation + CAS; the
edit is a pure function of the map read, of immutable content-addressed objects and of the
closure's captured variables).  The edit closures of doCommit, doFastForward, doSetHead, doTag,
doUpdateWorkingSet, doDelete, CommitWithWorkingSet and the unconditional setters are transliterated
guard by guard, in source order.

Dataset names are indices into a fixed universe (the harness maps ids to indices), so a map is a
`List Nat` of fixed length and structural equality is extensional equality.
-/
namespace DoltVerif.RefStore
open DoltVerif.Dag

abbrev Name := Nat
abbrev DMap := List Nat

def get (m : DMap) (n : Name) : Nat := m.getD n 0
/-- `ae.Update(id, addr)` / `ae.Delete(id)` (delete = back to the empty hash) -/
def put (m : DMap) (n : Name) (v : Nat) : DMap := m.set n v

/-- the immutable, content-addressed objects an edit closure dereferences -/
inductive Obj where
  | commit (root : Nat)             -- GetCommitRootHash
  | ws (working staged : Nat)       -- WorkingRootAddr / StagedRootAddr
  | tag (commit : Nat)
  | other
deriving Repr, DecidableEq

abbrev Objs := List (Nat × Obj)

def obj (os : Objs) (a : Nat) : Option Obj := (os.find? (fun p => p.1 == a)).map (·.2)

inductive Err where
  | mergeNeeded          -- ErrMergeNeeded
  | alreadyCommitted     -- ErrAlreadyCommitted
  | dirtyWorkspace       -- ErrDirtyWorkspace
  | optimisticLock       -- ErrOptimisticLockFailed returned by an edit (stale working set)
  | tagExists            -- "tag %s already exists and cannot be altered after creation"
  | typeChange           -- "cannot change type of head"
  | other                -- any other error (unreadable / wrongly typed object)
  | badName              -- model-only: name outside the declared universe
deriving Repr, DecidableEq

inductive Op where
  /-- doCommit(datasetID, datasetCurrentAddr, newCommitValue) -/
  | commit (ds : Name) (expected h : Nat)
  /-- the edit closure of doFastForward (`currentHeadAddr` captured from the caller's Dataset) -/
  | ff (ds : Name) (expected h : Nat) (ws : Option Name) (allowDirty : Bool) (newWs : Nat)
  /-- the edit closure of doSetHead (no preconditions) -/
  | setHead (ds : Name) (h : Nat) (ws : Option Name) (newWs : Nat)
  /-- doTag -/
  | tag (ds : Name) (t : Nat)
  /-- doUpdateWorkingSet(datasetID, addr, currHash) -/
  | updateWS (ds : Name) (addr prev : Nat)
  /-- doDelete(datasetID, workingsetID) -/
  | delete (ds : Name) (ws : Option Name)
  /-- the edit closure of CommitWithWorkingSet -/
  | commitWS (cds wds : Name) (h wsAddr prevWs expectedHead : Nat)
  /-- SetTuple / SetStatsRef / UpdateStashList: unconditional -/
  | set (ds : Name) (v : Nat)
deriving Repr, DecidableEq

def commitRoot (os : Objs) (a : Nat) : Option Nat :=
  match obj os a with
  | some (.commit r) => some r
  | _ => none

/-- `TypeName()` of a head: commits and tags are the only types doSetHead accepts -/
def typeName (os : Objs) (a : Nat) : Nat :=
  match obj os a with
  | some (.commit _) => 1
  | some (.tag _) => 2
  | some (.ws _ _) => 3
  | _ => 0

/-- the "working set is clean and at the branch head" block shared by doFastForward and doDelete:
`stagedHash != workingSetHash` (unless allowed) → dirty; `stagedHash != root of the current head` → dirty -/
def wsCleanCheck (os : Objs) (m : DMap) (w : Name) (curr : Nat) (allowDirty : Bool) : Except Err Unit :=
  match obj os (get m w) with
  | some (.ws working staged) =>
    if !allowDirty && staged != working then .error .dirtyWorkspace
    else match commitRoot os curr with
      | none => .error .other
      | some r => if staged != r then .error .dirtyWorkspace else .ok ()
  | _ => .error .other

/-- One evaluation of an edit closure on the map `m` read from the root.  `loc` is the closure's
captured mutable state (`firstHash` of doDelete); the new value is returned for the next retry. -/
def edit (os : Objs) (op : Op) (loc : Nat) (m : DMap) : Nat × Except Err DMap :=
  match op with
  | .commit ds expected h =>
    let curr := get m ds
    if curr != expected then (loc, .error .mergeNeeded)
    else if curr != 0 && curr == h then (loc, .error .alreadyCommitted)
    else (loc, .ok (put m ds h))
  | .ff ds expected h ws allowDirty newWs =>
    let curr := get m ds
    if curr != expected then (loc, .error .mergeNeeded)
    else if curr != 0 && curr == h then (loc, .error .alreadyCommitted)
    else match ws with
      | none => (loc, .ok (put m ds h))
      | some w =>
        match commitRoot os h with
        | none => (loc, .error .other)
        | some _ =>
          if get m w != 0 then
            match wsCleanCheck os m w curr allowDirty with
            | .error e => (loc, .error e)
            | .ok () => (loc, .ok (put (put m ds h) w newWs))
          else (loc, .ok (put (put m ds h) w newWs))
  | .setHead ds h ws newWs =>
    let curr := get m ds
    if curr != 0 && typeName os curr != typeName os h then (loc, .error .typeChange)
    else match ws with
      | none => (loc, .ok (put m ds h))
      | some w =>
        match commitRoot os h with
        | none => (loc, .error .other)
        | some _ =>
          if get m w != 0 && (obj os (get m w)).isNone then (loc, .error .other)
          else (loc, .ok (put (put m ds h) w newWs))
  | .tag ds t =>
    if get m ds != 0 then (loc, .error .tagExists) else (loc, .ok (put m ds t))
  | .updateWS ds addr prev =>
    if get m ds != prev then (loc, .error .optimisticLock) else (loc, .ok (put m ds addr))
  | .delete ds ws =>
    let curr := get m ds
    let first := if curr != 0 && loc == 0 then curr else loc
    if curr != first then (first, .error .mergeNeeded)
    else match ws with
      | none => (first, .ok (put m ds 0))
      | some w =>
        if get m w != 0 then
          match wsCleanCheck os m w curr false with
          | .error e => (first, .error e)
          | .ok () => (first, .ok (put (put m ds 0) w 0))
        else (first, .ok (put (put m ds 0) w 0))
  | .commitWS cds wds h wsAddr prevWs expectedHead =>
    if get m wds != prevWs then (loc, .error .optimisticLock)
    else if get m cds != expectedHead then (loc, .error .mergeNeeded)
    else (loc, .ok (put (put m cds h) wds wsAddr))
  | .set ds v => (loc, .ok (put m ds v))

def opNames : Op → List Name
  | .commit ds _ _ => [ds]
  | .ff ds _ _ ws _ _ => ds :: ws.toList
  | .setHead ds _ ws _ => ds :: ws.toList
  | .tag ds _ => [ds]
  | .updateWS ds _ _ => [ds]
  | .delete ds ws => ds :: ws.toList
  | .commitWS c w _ _ _ _ => [c, w]
  | .set ds _ => [ds]

/-! ### the checks made outside `update` -/

/-- `BuildNewCommit`'s parent rule: the parents the new commit gets, given the head of the caller's
Dataset snapshot (0 = no head). -/
def buildParents (head : Nat) (parents : List Nat) (force : Bool) (amended : Nat) : Except Err (List Nat) :=
  if force && amended != 0 then .error .other
  else if amended != 0 then
    (if head == 0 then .error .mergeNeeded
     else if head != amended then .error .mergeNeeded
     else .ok parents)
  else if head != 0 && !force then
    (if parents.isEmpty then .ok [head]
     else if !parents.contains head then .error .mergeNeeded
     else .ok parents)
  else .ok parents

/-- the ancestor check doFastForward makes before `update`: no current head, or the merge base of
(current head, new head) is the current head -/
def ffPre (g : Graph) (expected h : Nat) : Except Err Unit :=
  if expected = 0 then .ok ()
  else match lookup g expected, lookup g h with
    | some c, some n =>
      match findCommonAncestor g c n with
      | .ok (some a) => if a = expected then .ok () else .error .mergeNeeded
      | .ok none => .error .mergeNeeded
      | .error _ => .error .other
    | _, _ => .error .other

/-! ### the concurrent system -/

structure Thread where
  op : Op
  loc : Nat
  /-- `none`: about to call `Root()`; `some (r, k)`: holds the map `r` read when `k` root
  transitions had happened -/
  pc : Option (DMap × Nat)
  /-- number of root transitions at invocation -/
  since : Nat
deriving Repr

inductive Event where
  /-- thread `t`'s op took effect: its edit, evaluated on `pre`, gave `post`, and the root moved from `pre` to `post` -/
  | applied (t : Nat) (op : Op) (loc : Nat) (pre post : DMap)
  /-- thread `t`'s op failed with `e`: its edit, evaluated on the map `seen` read at time `at`, returned `e` -/
  | failed (t : Nat) (op : Op) (loc : Nat) (seen : DMap) (at_ since : Nat) (e : Err)
deriving Repr, DecidableEq

structure State where
  root : DMap
  /-- every value the root has held, oldest first -/
  hist : List DMap
  threads : List (Option Thread)
  /-- oldest first -/
  events : List Event
deriving Repr

def State.init (m : DMap) (nthreads : Nat) : State :=
  { root := m, hist := [m], threads := List.replicate nthreads none, events := [] }

inductive Label where
  | invoke (t : Nat) (op : Op)
  | read (t : Nat)
  | attempt (t : Nat)
  /-- process crash: every in-flight operation vanishes; the root register is durable -/
  | crash
deriving Repr

def thread (s : State) (t : Nat) : Option Thread := (s.threads[t]?).join

/-- one atomic step; `none` = the label is not enabled in this state -/
def step (os : Objs) (s : State) : Label → Option State
  | .invoke t op =>
    if t < s.threads.length && (thread s t).isNone then
      some { s with threads := s.threads.set t (some { op := op, loc := 0, pc := none, since := s.hist.length - 1 }) }
    else none
  | .read t =>
    match thread s t with
    | some th =>
      if th.pc.isNone then
        some { s with threads := s.threads.set t (some { th with pc := some (s.root, s.hist.length - 1) }) }
      else none
    | none => none
  | .attempt t =>
    match thread s t with
    | some th =>
      match th.pc with
      | none => none
      | some (r, k) =>
        match edit os th.op th.loc r with
        | (_, .error e) =>
          some { s with threads := s.threads.set t none,
                        events := s.events ++ [.failed t th.op th.loc r k th.since e] }
        | (loc', .ok m') =>
          if s.root = r then
            some { root := m', hist := s.hist ++ [m'], threads := s.threads.set t none,
                   events := s.events ++ [.applied t th.op th.loc r m'] }
          else
            some { s with threads := s.threads.set t (some { th with loc := loc', pc := none }) }
    | none => none
  | .crash => some { s with threads := s.threads.map (fun _ => none) }

def exec (os : Objs) : State → List Label → Option State
  | s, [] => some s
  | s, l :: ls => match step os s l with
    | some s' => exec os s' ls
    | none => none

end DoltVerif.RefStore
