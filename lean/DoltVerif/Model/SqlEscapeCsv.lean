/-
C36 — the field layer of dolt's CSV export / import (`table/untyped/csv/writer.go`, `reader.go`),
over code points (the strings are valid UTF-8; decoding is Go's and is compared by the harness).

* `needsQuotes` = `fieldNeedsQuotes` (empty string, `\.`, contains the delimiter, `"`, CR, LF, or the
  first rune is `unicode.IsSpace`); `writeField` = one field of `writeCsvRow` (NULL ↦ nothing,
  `"` doubled, CR/LF verbatim since `useCRLF` is false);
* `readField` = one iteration of `csvReadRecords`: `bytes.TrimLeftFunc(line, unicode.IsSpace)`, then
  `parseQuotedField` (state machine) or `parseField` (up to the delimiter; an *unquoted* empty field
  is NULL).
Not modelled: `readLine` (splitting the input at LF, CRLF → LF normalisation — also inside quoted
fields —, dropping a final CR), the header line, type conversion of the imported strings.
-/
namespace DoltVerif.SqlEscape.Csv

abbrev Runes := List Nat

/-- `unicode.IsSpace` (Latin-1 fast path + the White_Space property) -/
def isSpace (r : Nat) : Bool :=
  r = 9 || r = 10 || r = 11 || r = 12 || r = 13 || r = 32 || r = 0x85 || r = 0xA0 || r = 0x1680 ||
  (0x2000 ≤ r && r ≤ 0x200A) || r = 0x2028 || r = 0x2029 || r = 0x202F || r = 0x205F || r = 0x3000

abbrev comma : Nat := 44
abbrev dq : Nat := 34

def firstIsSpace : Runes → Bool
  | [] => false
  | r :: _ => isSpace r

/-- `fieldNeedsQuotes` with delimiter `,` -/
def needsQuotes (f : Runes) : Bool :=
  f.isEmpty || f == [92, 46] || f.contains comma || f.contains dq || f.contains 13 || f.contains 10 || firstIsSpace f

def escBody : Runes → Runes
  | [] => []
  | r :: rs => if r = dq then dq :: dq :: escBody rs else r :: escBody rs

/-- one field of `writeCsvRow`; `none` = SQL NULL -/
def writeField : Option Runes → Runes
  | none => []
  | some f => if needsQuotes f then dq :: (escBody f ++ [dq]) else f

def trimLeft : Runes → Runes
  | [] => []
  | r :: rs => if isSpace r then trimLeft rs else r :: rs

/-- `parseField`: up to the delimiter, or to the end of the line (a trailing LF is not part of it);
the second component is what follows the delimiter (`none` = end of record) -/
def parseField : Runes → Runes → Runes × Option Runes
  | [], acc => (acc, none)
  | r :: rs, acc =>
    if r = comma then (acc, some rs)
    else if r = 10 && rs.isEmpty then (acc, none)
    else parseField rs (acc ++ [r])

inductive QSt where
  | body    -- inside the quotes
  | quote   -- just read a `"` inside the quotes
deriving DecidableEq

/-- `parseQuotedField`, positioned after the opening quote; `none` = ErrQuote / abrupt end -/
def parseQuoted : QSt → Runes → Runes → Option (Runes × Option Runes)
  | .body, [], _ => none
  | .body, r :: rs, acc => if r = dq then parseQuoted .quote rs acc else parseQuoted .body rs (acc ++ [r])
  | .quote, [], acc => some (acc, none)
  | .quote, r :: rs, acc =>
    if r = comma then some (acc, some rs)
    else if r = dq then parseQuoted .body rs (acc ++ [dq])
    else if r = 10 && rs.isEmpty then some (acc, none)
    else none

/-- one field of `csvReadRecords`: value (`none` = NULL) and the rest of the record -/
def readField (line : Runes) : Option (Option Runes × Option Runes) :=
  match trimLeft line with
  | r :: rs =>
    if r = dq then (parseQuoted .body rs []).map (fun (v, rest) => (some v, rest))
    else
      let (v, rest) := parseField (r :: rs) []
      some (if v.isEmpty then none else some v, rest)
  | [] => some (none, none)

end DoltVerif.SqlEscape.Csv
