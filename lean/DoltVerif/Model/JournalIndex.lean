import DoltVerif.Model.JournalRecover
/-
L2 journal, part 4: the out-of-band journal index (`journal_index_record.go`) and the bootstrap of
`journal_writer.go` (`loadJournalIndex` / `readJournalIndex` / `corruptIndexRecovery` /
`bootstrapJournal`).  An index is `|lookup|lookup|…|meta|` batches; a lookup is tag 0 + addr16 +
offset(8) + length(4), a meta is tag 1 + start(8) + end(8) + checksum(4) + root(20).  The batch
checksum is `crc32.Update` over the addr16s ONLY (what the Go code does).
-/
namespace DoltVerif.Journal

structure Lookup where
  a16 : Bytes
  off : Nat
  len : Nat
  deriving Repr, DecidableEq

structure Meta where
  start : Nat
  stop : Nat
  crc : Nat
  root : Bytes
  deriving Repr, DecidableEq

def idxTagLookup : UInt8 := 0
def idxTagMeta : UInt8 := 1
def lookupSz : Nat := 16 + 8 + 4
def metaSz : Nat := 8 + 8 + 4 + 20

def encodeLookup (l : Lookup) : Bytes := [idxTagLookup] ++ l.a16 ++ be64 l.off ++ be32 l.len
def encodeMeta (m : Meta) : Bytes := [idxTagMeta] ++ be64 m.start ++ be64 m.stop ++ be32 m.crc ++ m.root

/-- `readIndexLookup`; `none` = short read (benign EOF) -/
def readLookup (bs : Bytes) : Option (Lookup × Bytes) :=
  if bs.length < lookupSz then none
  else match readU64? (bs.drop 16), readU32? (bs.drop 24) with
    | some o, some l => some (⟨bs.take 16, o, l⟩, bs.drop lookupSz)
    | _, _ => none

/-- `readIndexMeta` -/
def readMeta (bs : Bytes) : Option (Meta × Bytes) :=
  if bs.length < metaSz then none
  else match readU64? bs, readU64? (bs.drop 8), readU32? (bs.drop 16) with
    | some s, some e, some c => some (⟨s, e, c, (bs.drop 20).take 20⟩, bs.drop metaSz)
    | _, _, _ => none

/-- what the batch checksum covers: the addr16 of every lookup, nothing else -/
def batchCrc (ls : List Lookup) : UInt32 := ls.foldl (fun c l => crcUpdate c l.a16) 0

/-- `peekRootHashAt(journal, off)` + `rootHashFromBuffer` -/
def peekRoot (journal : Bytes) (off : Nat) : Option Bytes :=
  let got := (journal.drop off).take rootRecSz
  let buf := got ++ zeros (rootRecSz - got.length)
  match readU32? buf with
  | none => none
  | some sz =>
    if sz > rootRecSz then none
    else if isValid (buf.take sz) then
      match readRecord (buf.take sz) with
      | .ok r => if r.kind = kindRoot then some r.addr else none
      | .error _ => none
    else none

inductive IdxErr where
  | malformed | checksum | notContiguous | rootMismatch
  deriving Repr, DecidableEq

/-- the validation callback of `readJournalIndex` -/
def acceptBatch (journal : Bytes) (prev : Nat) (m : Meta) (batch : List Lookup) : Except IdxErr Unit :=
  if m.crc ≠ (batchCrc batch).toNat then .error .checksum
  else if m.start ≠ prev then .error .notContiguous
  else match peekRoot journal m.stop with
    | none => .error .rootMismatch
    | some h => if h = m.root then .ok () else .error .rootMismatch

structure IdxOk where
  lookups : List Lookup   -- in index order
  indexed : Nat           -- journal offset of the end of the last accepted batch
  safeOff : Nat           -- index-file offset of the end of the last complete batch
  deriving Repr, DecidableEq

/-- `processIndexRecords` with the callback of `readJournalIndex`; `consumed` counts the bytes of
the current partial batch, `batch` is kept reversed. -/
def parseIdx (journal : Bytes) : Nat → Bytes → Nat → List Lookup → Nat → IdxOk → Except IdxErr IdxOk
  | 0, _, _, _, _, acc => .ok acc
  | fuel + 1, data, prev, batch, consumed, acc =>
    match data with
    | [] => .ok acc
    | tag :: rest =>
      if tag = idxTagLookup then
        match readLookup rest with
        | none => .ok acc
        | some (l, rest') => parseIdx journal fuel rest' prev (l :: batch) (consumed + 1 + lookupSz) acc
      else if tag = idxTagMeta then
        match readMeta rest with
        | none => .ok acc
        | some (m, rest') =>
          match acceptBatch journal prev m batch.reverse with
          | .error e => .error e
          | .ok _ =>
            parseIdx journal fuel rest' m.stop [] 0
              { lookups := acc.lookups ++ batch.reverse, indexed := m.stop,
                safeOff := acc.safeOff + consumed + 1 + metaSz }
      else .error .malformed

def readIndex (journal data : Bytes) : Except IdxErr IdxOk :=
  parseIdx journal (data.length + 1) data 0 [] 0 ⟨[], 0, 0⟩

/-! ### bootstrap -/

inductive FileOp where
  | idxCreate | idxTruncate (off : Nat) | idxWriteLookup (l : Lookup) | idxWriteMeta (m : Meta)
  | jrnTruncate (off : Nat) | jrnSync
  deriving Repr, DecidableEq

structure Boot where
  root : Option Bytes
  cached : List Lookup        -- loaded from the index (keyed by addr16)
  novel : List RangeEnt       -- replayed from the journal (keyed by the full address)
  off : Nat
  indexed : Nat
  ops : List FileOp
  deriving Repr, DecidableEq

inductive BootOut where
  | ok (b : Boot) | dataLoss (off : Nat) | fatal (e : RErr)
  deriving Repr, DecidableEq

/-- offset of the last root record (`lastOffset` of `bootstrapJournal`) -/
def lastRootOff : List (Nat × Parsed) → Nat
  | [] => 0
  | (o, r) :: rest => if (lastRoot rest).isSome then lastRootOff rest else if r.kind = kindRoot then o else 0

/-- `bootstrapJournal(canWrite)`; `idx = none`: no index file. `maxNovel` as in the writer. -/
def bootstrap (B maxNovel : Nat) (journal : Bytes) (idx : Option Bytes) (canWrite : Bool) : BootOut :=
  let (cached, indexed, ops0) : List Lookup × Nat × List FileOp :=
    match idx with
    | none => ([], 0, if canWrite then [.idxCreate] else [])
    | some data =>
      match readIndex journal data with
      | .ok r => (r.lookups, r.indexed, if canWrite then [.idxTruncate r.safeOff] else [])
      | .error _ => ([], 0, if canWrite then [.idxTruncate 0] else [])   -- corruptIndexRecovery
  match recoverFrom B journal indexed with
  | .fatal e => .fatal e
  | .dataLoss off => .dataLoss off
  | .ok recs off =>
    let novel := rangesOf recs
    let ops1 := if canWrite then
        [.jrnTruncate off, .jrnSync] ++ novel.map (fun e => .idxWriteLookup ⟨e.addr.take 16, e.off, e.len⟩)
      else []
    -- save bootstrap progress: `flushIndexRecord` when more than `maxNovel` distinct novel addresses
    let distinct := (novel.map (·.addr)).eraseDups.length
    let ops2 := if canWrite && decide (distinct > maxNovel) then
        [.idxWriteMeta ⟨indexed, lastRootOff recs, (batchCrc (novel.map (fun e => ⟨e.addr.take 16, e.off, e.len⟩))).toNat,
          (lastRoot recs).getD []⟩]
      else []
    -- `flushIndexRecord` moves the high-water mark to the last root record
    let indexed' := if ops2.isEmpty then indexed else lastRootOff recs
    .ok { root := lastRoot recs, cached := cached, novel := novel, off := off, indexed := indexed',
          ops := ops0 ++ ops1 ++ ops2 }

/-- `rangeIndex.get`: the novel map (full address) first, then the cached map (addr16) -/
def Boot.get (b : Boot) (a : Bytes) : Option (Nat × Nat) :=
  match lookupRange b.novel a with
  | some e => some (e.off, e.len)
  | none => (b.cached.foldl (fun acc l => if l.a16 = a.take 16 then some (l.off, l.len) else acc) none)

/-- what a reader sees: the root and, per address, the bytes its range selects -/
def Boot.read (b : Boot) (journal : Bytes) (a : Bytes) : Option Bytes :=
  (b.get a).map (fun (o, l) => (journal.drop o).take l)

end DoltVerif.Journal
