/-
C10 (family Corrupt) — byte-level base: Go slice expressions with their run-time bounds checks,
big-endian integer reads, CRC-32C.  Core-only.

The point of this family is that the model is PANIC-FAITHFUL: every Go slice expression
`s[lo:hi]` / index `s[i]` / `binary.BigEndian.UintN(s)` is modelled by a function that returns
`.error .panicWouldOccur` exactly when the Go run time would panic (for a slice `s` of a larger
backing array the bound is `cap(s)`, not `len(s)`), so a missing bounds check in the Go code is a
missing bounds check in the model.
-/
namespace DoltVerif.Corrupt

abbrev Bytes := List UInt8

/-- Outcome classes of the parsers.  `panicWouldOccur` is the distinguished one. -/
inductive ParseError where
  | panicWouldOccur          -- the Go code would index / slice out of range (or call a panicking helper)
  | seek                     -- io.Seeker / ReadAt refused the (negative) position
  | eof                      -- io.EOF / io.ErrUnexpectedEOF from a read
  | invalidTableFile | unsupportedFormat | wrongBufferSize | countMismatch
  | checksum | emptyData | shortRead
  | corruptManifest | unknownVersion | badHash | badCount
  | unknownTag | malformedIndex
  | badSignature | badVersion
  deriving DecidableEq, Repr

abbrev R (α : Type) := Except ParseError α

def panic {α : Type} : R α := .error .panicWouldOccur

/-- is this result the panic outcome? -/
def isPanic {α : Type} : R α → Bool
  | .error .panicWouldOccur => true
  | _ => false

/-- Go `s[lo:hi]` where `s` starts at absolute offset `start` of the backing array `buf`
(so `cap(s) = buf.length - start`): panics unless `lo ≤ hi ≤ cap(s)`. -/
def goSlice (buf : Bytes) (start lo hi : Nat) : R Bytes :=
  if lo ≤ hi ∧ start + hi ≤ buf.length then .ok ((buf.drop (start + lo)).take (hi - lo)) else panic

/-- Go `s[lo:]` on a slice with `len(s) = n` starting at `start`: panics unless `lo ≤ len(s)`. -/
def goSliceFrom (buf : Bytes) (start n lo : Nat) : R Bytes :=
  if lo ≤ n then .ok ((buf.drop (start + lo)).take (n - lo)) else panic

/-- Go `s[i]`: panics unless `i < len(s)`. -/
def goIndex (s : Bytes) (i : Nat) : R UInt8 :=
  match s[i]? with
  | some b => .ok b
  | none => panic

def beNat : Bytes → Nat
  | [] => 0
  | b :: rest => b.toNat * 256 ^ rest.length + beNat rest

/-- `binary.BigEndian.Uint32(s)`: panics unless `len(s) ≥ 4` (reads `s[3]` first). -/
def be32 (s : Bytes) : R Nat := if 4 ≤ s.length then .ok (beNat (s.take 4)) else panic
/-- `binary.BigEndian.Uint64(s)`: panics unless `len(s) ≥ 8`. -/
def be64 (s : Bytes) : R Nat := if 8 ≤ s.length then .ok (beNat (s.take 8)) else panic

def natBE (w : Nat) (n : Nat) : Bytes :=
  (List.range w).map (fun i => UInt8.ofNat (n / 256 ^ (w - 1 - i) % 256))

def two32 : Nat := 4294967296
def two64 : Nat := 18446744073709551616

/-- uint32 / uint64 wrap-around subtraction -/
def sub32 (a b : Nat) : Nat := (a + two32 - b % two32) % two32
def sub64 (a b : Nat) : Nat := (a + two64 - b % two64) % two64

/-! ### CRC-32C (Castagnoli, reflected polynomial 0x82F63B78), bitwise -/

def crcStep (c : UInt32) : UInt32 := if c &&& 1 == 1 then (c >>> 1) ^^^ 0x82F63B78 else c >>> 1

def crcByte (c : UInt32) (b : UInt8) : UInt32 :=
  let c := c ^^^ b.toUInt32
  crcStep (crcStep (crcStep (crcStep (crcStep (crcStep (crcStep (crcStep c)))))))

/-- `crc32.Update(init, castagnoli, b)` -/
def crcUpdate (init : UInt32) (b : Bytes) : UInt32 :=
  (b.foldl crcByte (init ^^^ 0xFFFFFFFF)) ^^^ 0xFFFFFFFF

def crc32c (b : Bytes) : Nat := (crcUpdate 0 b).toNat

/-- apply a corruption: substitutions `(offset, value)` then truncation (harness wire format) -/
def applySubs (b : Bytes) : List (Nat × Nat) → Bytes
  | [] => b
  | (o, v) :: rest => applySubs (if o < b.length then b.set o (UInt8.ofNat v) else b) rest

def applyMut (b : Bytes) (subs : List (Nat × Nat)) (trunc : Option Nat) : Bytes :=
  let b := applySubs b subs
  match trunc with
  | some n => if n < b.length then b.take n else b
  | none => b

end DoltVerif.Corrupt
