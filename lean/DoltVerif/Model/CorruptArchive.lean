import DoltVerif.Model.CorruptTable
import DoltVerif.Model.CorruptFormats
/-
C10 — panic-faithful transliteration of the archive read path BEYOND the footer, for the
in-memory index reader (`mmapArchiveIndexes = false`):
  go/store/nbs/archive_reader.go   archiveFooter.{totalIndexSpan,indexByteOffsetSpan,indexPrefixSpan,
                                   indexChunkRefSpan,indexSuffixSpan}, newInMemoryArchiveIndexReader,
                                   inMemoryArchiveIndexReader.{getSpanIndex,getPrefix,searchPrefix,
                                   getChunkRef,getSuffix}, prollyBinSearch, findIndex, has,
                                   getByteSpanByID, readByteSpan, getRawByRef, decompress
  go/store/nbs/file_table_reader.go fileReaderAt.ReadAtWithStats (the deferred
                                   `stats.FileBytesPerRead.Sample(len(p))` asserts `len(p) != 0`)

Integer widths: section offsets are uint64 and wrap (`fileSize - footerSize - metadataSize -
indexSize`), they are converted to int64 for the section reader (a value ≥ 2^63 is a negative
offset: read error); counts are uint32; `idx*2+1` in getChunkRef is uint32 arithmetic; span
lengths are uint64 differences and wrap; `make([]byte, n)` panics for n > maxAlloc = 2^48.
Allocation failure below that bound (fatal out-of-memory) is not modelled.
zstd (dictionary bundle, DecompressDict) and snappy decoding are parameters: the model returns the
bytes that were read and verified, the harness decodes them.
-/
namespace DoltVerif.Corrupt.Archive
open DoltVerif.Corrupt

def add64 (a b : Nat) : Nat := (a + b) % two64
def mul32 (a b : Nat) : Nat := (a * b) % two32
def add32 (a b : Nat) : Nat := (a + b) % two32
def maxAlloc : Nat := 2 ^ 48
def versionSnappy : Nat := 2

/-- `actualFooterSize` -/
def actualFooterSize (f : Footer) : Nat := if f.formatVersion < versionGiantIndex then footerSize - 4 else footerSize

/-- `totalIndexSpan().offset` (uint64, wrapping) -/
def indexStart (f : Footer) (fileSize : Nat) : Nat :=
  sub64 (sub64 (sub64 fileSize (actualFooterSize f)) f.metadataSize) f.indexSize

/-- `binary.Read` / `io.ReadFull` through `newSectionReader(reader, int64(off), int64(n))` on a file:
`n` bytes at `off`, or a read error.  A zero-length destination is filled without any read. -/
def readSection (file : Bytes) (off n : Nat) : R Bytes :=
  if n == 0 then .ok []
  else if off ≥ 2 ^ 63 then .error .seek                     -- negative int64 offset: ReadAt refuses
  else if off + n ≤ file.length then .ok ((file.drop off).take n) else .error .eof

def u64s : Bytes → List Nat
  | a :: b :: c :: d :: e :: f :: g :: h :: rest => beNat [a, b, c, d, e, f, g, h] :: u64s rest
  | _ => []

def u32s : Bytes → List Nat
  | a :: b :: c :: d :: rest => beNat [a, b, c, d] :: u32s rest
  | _ => []

/-- `inMemoryArchiveIndexReader` -/
structure Index where
  spanIndex : List Nat      -- byteSpans, with the null span 0 in front
  prefixes : List Nat
  chunkRefs : List Nat
  suffixes : Bytes
  footer : Footer
  deriving Repr

/-- `newInMemoryArchiveIndexReader(reader, footer)` on a file of `file.length` bytes -/
def loadIndexWith (file : Bytes) (f : Footer) : R Index := do
  let start := indexStart f file.length
  let spanLen := f.byteSpanCount * 8
  let spans ← readSection file start spanLen
  let pOff := add64 start spanLen
  let pLen := f.chunkCount * 8
  let pre ← readSection file pOff pLen
  let cOff := add64 pOff pLen
  let refs ← readSection file cOff pLen
  let sOff := add64 cOff pLen
  let sLen := f.chunkCount * 12
  let suf ← readSection file sOff sLen
  return { spanIndex := 0 :: u64s spans, prefixes := u64s pre, chunkRefs := u32s refs, suffixes := suf, footer := f }

/-- `newArchiveReader`: footer, then the index -/
def loadIndex (file : Bytes) : R Index := do
  let f ← loadFooter file
  loadIndexWith file f

/-- Go `s[i]` on a `[]uint64` -/
def natAt (s : List Nat) (i : Nat) : R Nat := match s[i]? with | some v => .ok v | none => panic

/-- `bits.Div64(hi, lo, y)`: panics when `y == 0` (divide error) or `y <= hi` (quotient overflow) -/
def div64 (hi lo y : Nat) : R Nat := if y == 0 ∨ y ≤ hi then panic else .ok ((hi * two64 + lo) / y)

/-- the loop of `prollyBinSearch` -/
def pbsLoop (s : List Nat) (target : Nat) : Nat → Nat → Nat → Nat → Nat → R Nat
  | 0, lft, _, _, _ => .ok lft
  | fuel + 1, lft, rht, lo, hi =>
    if lft < rht then do
      let valRangeSz := sub64 hi lo
      let idxRangeSz := rht - lft - 1
      let shiftedTgt := sub64 target lo
      let prod := shiftedTgt * idxRangeSz                   -- bits.Mul64: (prod / 2^64, prod % 2^64)
      let q ← div64 (prod / two64) (prod % two64) valRangeSz
      if q ≥ 2 ^ 63 then panic                               -- int(dU64) negative: slice[idx] out of range
      let idx := q + lft
      let v ← natAt s idx
      if v < target then
        let lft' := idx + 1
        if lft' < s.length then do
          let lo' ← natAt s lft'
          if lo' ≥ target then return lft' else pbsLoop s target fuel lft' rht lo' hi
        else pbsLoop s target fuel lft' rht lo hi
      else do
        let hi' ← natAt s idx
        pbsLoop s target fuel lft idx lo hi'
    else .ok lft

/-- `prollyBinSearch(slice, target)` -/
def prollyBinSearch (s : List Nat) (target : Nat) : R Nat := do
  if s.length == 0 then return 0
  let lo ← natAt s 0
  let hi ← natAt s (s.length - 1)
  if target > hi then return s.length
  if lo ≥ target then return 0
  pbsLoop s target (s.length + 1) 0 s.length lo hi

namespace Index

def getSpanIndex (x : Index) (idx : Nat) : Nat := if idx ≥ x.spanIndex.length % two32 then 0 else x.spanIndex.getD idx 0
def getPrefix (x : Index) (idx : Nat) : Nat := if idx ≥ x.prefixes.length % two32 then 0 else x.prefixes.getD idx 0

/-- `getChunkRef(idx)` (uint32 arithmetic) -/
def getChunkRef (x : Index) (idx : Nat) : R (Nat × Nat) :=
  let i2 := mul32 idx 2
  if add32 i2 1 ≥ x.chunkRefs.length % two32 then .ok (0, 0)
  else do
    let d ← natAt x.chunkRefs i2
    let c ← natAt x.chunkRefs (add32 i2 1)
    return (d, c)

/-- `getSuffix(idx)` -/
def getSuffix (x : Index) (idx : Nat) : R Bytes :=
  if idx ≥ x.prefixes.length % two32 then .ok (List.replicate 12 0)
  else goSlice x.suffixes 0 (idx * 12) (idx * 12 + 12)

def findLoop (x : Index) (pfx : Nat) (sfx : Bytes) : Nat → Nat → R (Option Nat)
  | 0, _ => .ok none
  | fuel + 1, idx =>
    if idx < x.footer.chunkCount ∧ x.getPrefix idx == pfx then do
      let s ← x.getSuffix idx
      if s == sfx then return some idx else findLoop x pfx sfx fuel (idx + 1)
    else .ok none

/-- `findIndex(hash)`: `none` = -1 -/
def findIndex (x : Index) (h : Bytes) : R (Option Nat) := do
  let pfx := beNat (h.take 8)
  let pm ← prollyBinSearch x.prefixes pfx
  let pm32 := pm % two32                                   -- int32(...) then the `< 0 ||` test
  if pm32 ≥ 2 ^ 31 ∨ pm32 ≥ x.footer.chunkCount then return none
  findLoop x pfx (h.drop 8) (x.footer.chunkCount + 1) pm32

def has (x : Index) (h : Bytes) : R Bool := do
  let r ← x.findIndex h
  return r.isSome

/-- `getByteSpanByID(id)` → (offset, length) -/
def byteSpanByID (x : Index) (id : Nat) : Nat × Nat :=
  if id == 0 then (0, 0)
  else
    let off := x.getSpanIndex (id - 1)
    (off, sub64 (x.getSpanIndex id) off)

end Index

/-- `readByteSpan(bs)` on a file-backed reader: `make([]byte, bs.length)` then
`fileReaderAt.ReadAtWithStats` (whose deferred `Sample(len(p))` asserts a non-empty buffer) -/
def readByteSpan (file : Bytes) (span : Nat × Nat) : R Bytes :=
  if span.2 > maxAlloc then panic                            -- makeslice: len out of range
  else if span.2 == 0 then panic                              -- Histogram.Sample(0): d.PanicIfTrue
  else if span.1 ≥ 2 ^ 63 then .error .seek
  else if span.1 + span.2 ≤ file.length then .ok ((file.drop span.1).take span.2) else .error .eof

/-- what `archiveReader.get` hands to the decompressor -/
inductive Got where
  | absent
  | snappy (payload : Bytes)                     -- verified by NewCompressedChunk; caller: snappy.Decode
  | zstd (dict : Bytes) (data : R Bytes)         -- dictionary span (caller: NewDecompBundle), then the data span read
  deriving Repr

/-- `archiveReader.get(hash)` up to decompression -/
def get (x : Index) (file : Bytes) (h : Bytes) : R Got := do
  match ← x.findIndex h with
  | none => return .absent
  | some idx =>
    let (dictId, dataId) ← x.getChunkRef idx
    if dictId ≠ 0 then
      let dict ← readByteSpan file (x.byteSpanByID dictId)           -- loadDict (cache miss)
      return .zstd dict (readByteSpan file (x.byteSpanByID dataId))
    else
      let data ← readByteSpan file (x.byteSpanByID dataId)
      if x.footer.formatVersion < versionSnappy then throw .badVersion
      let cd ← Table.newCompressedChunk data
      return .snappy cd

end DoltVerif.Corrupt.Archive
