import DoltVerif.Model.ProllyDiff
/-
C14 — model of the three-way tree merge (go/store/prolly/tree/three_way_differ.go, merge.go,
patch_generator.go, tree_patcher.go).  Core Lean only.  Builds on the C13 cursor machine.

* `twNext` — `ThreeWayDiffer.Next` as the list of all results over the two diff streams
  (base→left, base→right): dsInit / dsDiffFinalize / dsCompare / dsNewLeft / dsNewRight / dsMatch /
  dsMatchFinalize.
* `PG` — `PatchGenerator` (cursors that change level: `split` pushes a child frame, exhausted
  nodes pop to the parent), `pgNext`, `advanceFromPreviousPatch`, `findNextPatch`, `split`,
  `skipCommonVisitingParents`, `getNextAndSplitIfAtEnd`, `SendPatches` — statement by statement.
* `applyPatches` — `ApplyPatches` at the level of the key-value content (leaf patch = upsert /
  delete, range patch `(keyBelowStart, endKey] ↦ subtree` = replace that key interval by the
  subtree's pairs).  The chunker that rebuilds the nodes is C12's subject, not modelled here.
* `merge3` — the key-wise specification.
Loops take fuel; out-of-fuel and reads Go would do out of range are explicit errors.
-/
namespace DoltVerif.ProllyMerge
open DoltVerif.ProllyDiff

/-! ## ThreeWayDiffer -/

inductive DiffOp where
  | leftAdd | rightAdd | leftDelete | rightDelete | leftModify | rightModify
  | convergentAdd | convergentDelete | convergentModify
  | divergentModifyResolved | divergentDeleteConflict | divergentModifyConflict | divergentDeleteResolved
  deriving DecidableEq, Repr, Inhabited

structure TWDiff where
  op : DiffOp
  key : Bytes
  base : Option Bytes := none
  left : Option Bytes := none
  right : Option Bytes := none
  merged : Option Bytes := none
  deriving DecidableEq, Repr, Inhabited

/-- `resolveCb(left, right, base)`: `none` = not ok (conflict), `some m` = resolved to `m` -/
abbrev ResolveCb := Option Bytes → Option Bytes → Option Bytes → Option Bytes

def newLeftEdit (e : Event) : TWDiff :=
  { op := match e.type with | .added => .leftAdd | .modified => .leftModify | .removed => .leftDelete,
    key := e.key, left := e.to? }

def newRightEdit (e : Event) : TWDiff :=
  { op := match e.type with | .added => .rightAdd | .modified => .rightModify | .removed => .rightDelete,
    key := e.key, base := e.from?, right := e.to? }

def newConvergentEdit (e : Event) : TWDiff :=
  { op := match e.type with | .added => .convergentAdd | .modified => .convergentModify | .removed => .convergentDelete,
    key := e.key, left := e.to? }

/-- `dsMatch` -/
def matchEdit (resolve : ResolveCb) (l r : Event) : TWDiff :=
  if l.to?.isNone && r.to?.isNone then newConvergentEdit l
  else if l.to?.isNone || r.to?.isNone then
    match resolve l.to? r.to? l.from? with
    | none => { op := .divergentDeleteConflict, key := l.key, base := l.from?, left := l.to?, right := r.to? }
    | some _ => { op := .divergentDeleteResolved, key := l.key, base := l.from?, left := l.to?, right := r.to? }
  else if l.type = r.type && l.to? == r.to? then newConvergentEdit l
  else
    match resolve l.to? r.to? l.from? with
    | none => { op := .divergentModifyConflict, key := l.key, base := l.from?, left := l.to?, right := r.to? }
    | some m => { op := .divergentModifyResolved, key := l.key, left := l.to?, right := r.to?, merged := some m }

/-- all results of `ThreeWayDiffer.Next` over the two diff streams -/
def twNext (cmp : Bytes → Bytes → Ordering) (resolve : ResolveCb) : List Event → List Event → List TWDiff
  | [], [] => []
  | l :: ls, [] => newLeftEdit l :: twNext cmp resolve ls []                 -- rDone ⇒ dsNewLeft
  | [], r :: rs => newRightEdit r :: twNext cmp resolve [] rs                -- lDone ⇒ dsNewRight
  | l :: ls, r :: rs =>
    match cmp l.key r.key with                                              -- dsCompare
    | .lt => newLeftEdit l :: twNext cmp resolve ls (r :: rs)
    | .gt => newRightEdit r :: twNext cmp resolve (l :: ls) rs
    | .eq => matchEdit resolve l r :: twNext cmp resolve ls rs             -- dsMatch; dsMatchFinalize
termination_by ls rs => ls.length + rs.length

/-- `NewThreeWayDiffer` + drain: two `DifferFromRoots` (base→left, base→right) -/
def threeWayDiffer (cmp : Bytes → Bytes → Ordering) (resolve : ResolveCb) (leftSchemaChange rightSchemaChange : Bool)
    (base left right : Tree) : Option (List TWDiff) := do
  let dl ← diffRoots cmp leftSchemaChange base left
  let dr ← diffRoots cmp rightSchemaChange base right
  pure (twNext cmp resolve dl dr)

/-! ## patches -/

inductive Err where
  | fuel | oob | splitLeaf
  deriving DecidableEq, Repr

abbrev M := Except Err

/-- a patch payload: a leaf value or a child address (with the subtree it addresses) -/
inductive PVal where
  | val (b : Bytes)
  | sub (addr : Addr) (t : Tree)
  deriving Inhabited

/-- `bytes.Equal` on payloads (value bytes, or address bytes) -/
def PVal.beq : PVal → PVal → Bool
  | .val a, .val b => a == b
  | .sub a _, .sub b _ => a == b
  | _, _ => false

def optPValEq : Option PVal → Option PVal → Bool
  | none, none => true
  | some a, some b => a.beq b
  | _, _ => false

structure Patch where
  from? : Option PVal := none
  keyBelowStart : Option Bytes := none
  endKey : Bytes
  to? : Option PVal := none
  subtreeCount : Nat := 0
  level : Nat := 0
  deriving Inhabited

structure PG where
  from_ : Cur
  to : Cur
  prevKey : Option Bytes := none
  prevLevel : Nat := 0
  prevType : Option DiffType := none      -- `none` = NoDiff
  deriving Inhabited

/-- `cur.nd.Level()` (0 for the nil node) -/
def level : Cur → Nat
  | [] => 0
  | f :: _ => f.nd.height

def curKey : Cur → Option Bytes
  | [] => none
  | f :: _ => f.nd.key? f.idx

def curVal : Cur → Option PVal
  | [] => none
  | f :: _ =>
    match f.nd with
    | .leaf kvs => kvs[f.idx]?.map (fun kv => .val kv.2)
    | .node cs => cs[f.idx]?.map (fun c => .sub c.2.1 c.2.2)

/-- `currentSubtreeSize` -/
def subtreeSize : Cur → Nat
  | [] => 0
  | f :: _ =>
    match f.nd with
    | .leaf _ => 1
    | .node cs => match cs[f.idx]? with | some c => c.2.2.size | none => 0

/-- `cur.atEnd()`: `atNodeEnd() && (parent == nil || parent.atNodeEnd())` -/
def atEnd (c : Cur) : Bool := atNodeEnd c && (c.tail.isEmpty || atNodeEnd c.tail)

/-- `&cursor{nd: child, idx: 0, parent: c}` -/
def pushChild : Cur → M Cur
  | [] => .error .oob
  | p :: ps => match p.nd.child? p.idx with
    | some ch => pure (⟨ch, 0⟩ :: p :: ps)
    | none => .error .oob

def needKey (c : Cur) : M Bytes := match curKey c with | some k => pure k | none => .error .oob

/-- `compareWithNilAsMin` -/
def cmpNilMin (cmp : Bytes → Bytes → Ordering) : Option Bytes → Option Bytes → Ordering
  | none, none => .eq
  | none, some _ => .lt
  | some _, none => .gt
  | some a, some b => cmp a b

/-- `PatchGeneratorFromRoots`: cursors at the roots; the from cursor is pushed down until it is
not above the to cursor -/
def descendTo : Nat → Cur → Nat → M Cur
  | 0, _, _ => .error .fuel
  | n + 1, fc, lvl => if level fc > lvl then do descendTo n (← pushChild fc) lvl else pure fc

def pgFromRoots (from_ to : Tree) : M PG :=
  let fc0 : Cur := if from_.count = 0 then [] else [⟨from_, 0⟩]
  if to.count = 0 then pure { from_ := fc0, to := [] }
  else do
    let fc ← descendTo (from_.height + 2) fc0 to.height
    pure { from_ := fc, to := [⟨to, 0⟩] }

def PG.getLevel (d : PG) : Nat := if valid d.to then level d.to else level d.from_

def sendRemovedKey (d : PG) : M (PG × Patch × DiffType) := do
  let k ← needKey d.from_
  pure ({ d with prevType := some .removed, prevLevel := 0 }, { from? := curVal d.from_, endKey := k }, .removed)

def sendAddedKey (d : PG) : M (PG × Patch × DiffType) := do
  let k ← needKey d.to
  pure ({ d with prevType := some .added, prevLevel := 0 }, { endKey := k, to? := curVal d.to }, .added)

def sendModifiedKey (d : PG) : M (PG × Patch × DiffType) := do
  let k ← needKey d.to
  pure ({ d with prevType := some .modified, prevLevel := 0 }, { from? := curVal d.from_, endKey := k, to? := curVal d.to }, .modified)

def sendModifiedRange (d : PG) : M (PG × Patch × DiffType) := do
  let lvl := level d.to
  let fromValue := if valid d.from_ then curVal d.from_ else none
  let k ← needKey d.to
  pure ({ d with prevType := some .modified, prevLevel := lvl },
    { from? := fromValue, keyBelowStart := d.prevKey, endKey := k, to? := curVal d.to, subtreeCount := subtreeSize d.to, level := lvl },
    .modified)

def sendAddedRange (d : PG) : M (PG × Patch × DiffType) := do
  let lvl := level d.to
  let k ← needKey d.to
  pure ({ d with prevType := some .added, prevLevel := lvl },
    { keyBelowStart := d.prevKey, endKey := k, to? := curVal d.to, subtreeCount := subtreeSize d.to, level := lvl }, .added)

def sendRemovedRange (d : PG) : M (PG × Patch × DiffType) := do
  let lvl := level d.from_
  let k ← needKey d.from_
  pure ({ d with prevType := some .removed, prevLevel := lvl },
    { from? := curVal d.from_, keyBelowStart := d.prevKey, endKey := k, level := lvl }, .removed)

/-- `equalcursorValues` on payloads -/
def equalCursorValues (f t : Cur) : Bool := optPValEq (curVal f) (curVal t)

/-- `skipCommonVisitingParents` -/
def skipVP : Nat → Cur → Cur → Bool → Option Bytes → M (Option Bytes × Cur × Cur)
  | 0, _, _, _, _ => .error .fuel
  | n + 1, f, t, pnew, last =>
    if !(valid f && valid t) then pure (last, f, t)
    else if !equalItems f t then pure (last, f, t)
    else if pnew && equalParents f t then skipVP n f.tail t.tail true none
    else skipVP n (advance f) (advance t) (atNodeEnd f || atNodeEnd t) (curKey f)

/-- `advanceToNextDiff` -/
def advanceToNextDiff (fuel : Nat) (d : PG) : M PG := do
  let pk := if valid d.to then curKey d.to else d.prevKey
  let (last, f, t) ← skipVP fuel (advance d.from_) (advance d.to) true none
  pure { d with from_ := f, to := t, prevKey := match last with | some k => some k | none => pk }

/-- `for c.atNodeEnd() && c.parent != nil { c = c.parent }` -/
def climb : Cur → Cur
  | f :: p :: ps => if atNodeEnd (f :: p :: ps) then climb (p :: ps) else f :: p :: ps
  | c => c

/-- inner loop of the Modified/range case of `advanceFromPreviousPatch`;
`.inl d` = fell through (cursors lined up), `.inr r` = return `r` -/
def lineUp (cmp : Bytes → Bytes → Ordering) : Nat → PG → Ordering → M (PG ⊕ (PG × Option (Patch × DiffType)))
  | 0, _, _ => .error .fuel
  | n + 1, d, c =>
    if c == .eq then pure (.inl d)
    else if c == .gt then
      if !valid d.to then do let (d', p, t) ← sendRemovedRange d; pure (.inr (d', some (p, t)))
      else do let (d', p, t) ← sendModifiedRange d; pure (.inr (d', some (p, t)))
    else
      let d1 := { d with from_ := advance d.from_ }
      if !valid d1.from_ then
        if !valid d1.to then pure (.inr (d1, none))
        else do let (d', p, t) ← sendAddedRange d1; pure (.inr (d', some (p, t)))
      else do
        let k ← needKey d1.from_
        match d1.prevKey with
        | some pk => lineUp cmp n d1 (cmp k pk)
        | none => .error .oob

/-- `advanceFromPreviousPatch`: `some (patch, type)` = a patch produced while re-aligning -/
def advanceFromPreviousPatch (cmp : Bytes → Bytes → Ordering) (fuel : Nat) (d : PG) : M (PG × Option (Patch × DiffType)) :=
  if d.prevLevel > 0 then
    match d.prevType with
    | some .added =>
      let to' := climb d.to
      pure ({ d with prevKey := curKey d.to, to := advance to' }, none)
    | some .removed =>
      let f' := climb d.from_
      pure ({ d with prevKey := curKey d.from_, from_ := advance f' }, none)
    | some .modified =>
      let d1 := { d with prevKey := curKey d.to, to := advance d.to }
      match curKey d1.from_ with
      | none => pure (d1, none)                     -- `currentKey != nil` is false
      | some ck => do
        match ← lineUp cmp fuel d1 (cmpNilMin cmp (some ck) d1.prevKey) with
        | .inr r => pure r
        | .inl d2 => pure ({ d2 with from_ := advance d2.from_ }, none)
    | none => pure (d, none)
  else
    match d.prevType with
    | some .removed =>
      let f' := if !valid d.to then climb d.from_ else d.from_
      pure ({ d with prevKey := curKey d.from_, from_ := advance f' }, none)
    | some .added =>
      let t' := if !valid d.from_ then climb d.to else d.to
      pure ({ d with prevKey := curKey d.to, to := advance t' }, none)
    | some .modified => do pure (← advanceToNextDiff fuel d, none)
    | none => pure (d, none)

/-- `findNextPatch` -/
def findNextPatch (cmp : Bytes → Bytes → Ordering) (sfuel : Nat) : Nat → PG → M (PG × Option (Patch × DiffType))
  | 0, _ => .error .fuel
  | n + 1, d =>
    if valid d.from_ && valid d.to then do
      let lvl := level d.to
      let f ← needKey d.from_
      let t ← needKey d.to
      match cmp f t with
      | .eq =>
        if !equalCursorValues d.from_ d.to then
          if lvl > 0 then do let (d', p, ty) ← sendModifiedRange d; pure (d', some (p, ty))
          else do let (d', p, ty) ← sendModifiedKey d; pure (d', some (p, ty))
        else do findNextPatch cmp sfuel n (← advanceToNextDiff sfuel d)
      | c =>
        if lvl > 0 then do let (d', p, ty) ← sendModifiedRange d; pure (d', some (p, ty))
        else if c == .lt then do let (d', p, ty) ← sendRemovedKey d; pure (d', some (p, ty))
        else do let (d', p, ty) ← sendAddedKey d; pure (d', some (p, ty))
    else if valid d.from_ then
      if level d.from_ > 0 then do let (d', p, ty) ← sendRemovedRange d; pure (d', some (p, ty))
      else do let (d', p, ty) ← sendRemovedKey d; pure (d', some (p, ty))
    else if valid d.to then
      if level d.to > 0 then do let (d', p, ty) ← sendAddedRange d; pure (d', some (p, ty))
      else do let (d', p, ty) ← sendAddedKey d; pure (d', some (p, ty))
    else pure (d, none)

/-- `PatchGenerator.Next` -/
def pgNext (cmp : Bytes → Bytes → Ordering) (fuel : Nat) (d : PG) : M (PG × Option (Patch × DiffType)) := do
  let (d1, r) ← if d.prevType.isSome then advanceFromPreviousPatch cmp fuel d else pure (d, none)
  match r with
  | some pt => pure (d1, some pt)
  | none => findNextPatch cmp fuel fuel d1

/-- the `for { … td.from.advance }` loop of `split` -/
def splitAlign (cmp : Bytes → Bytes → Ordering) : Nat → Cur → Option Bytes → M Cur
  | 0, _, _ => .error .fuel
  | n + 1, f, pk => do
    let k ← needKey f
    if cmpNilMin cmp (some k) pk == .gt then pure f else splitAlign cmp n (advance f) pk

/-- `PatchGenerator.split` -/
def pgSplit (cmp : Bytes → Bytes → Ordering) (fuel : Nat) (d : PG) : M (PG × Option (Patch × DiffType)) :=
  if d.prevLevel == 0 then .error .splitLeaf
  else match d.prevType with
    | some .removed => do
      let d1 := { d with from_ := ← pushChild d.from_ }
      let (d', p, t) ← if level d1.from_ > 0 then sendRemovedRange d1 else sendRemovedKey d1
      pure (d', some (p, t))
    | some .added => do
      let d1 := { d with to := ← pushChild d.to }
      let (d', p, t) ← if level d1.to > 0 then sendAddedRange d1 else sendAddedKey d1
      pure (d', some (p, t))
    | some .modified => do
      let to' ← pushChild d.to
      let f' ← if level d.from_ == level d.to then do
          splitAlign cmp fuel (← pushChild d.from_) d.prevKey
        else pure d.from_
      findNextPatch cmp fuel fuel { d with from_ := f', to := to' }
    | none => .error .oob

/-- `getNextAndSplitIfAtEnd` -/
def splitWhileAtEnd (cmp : Bytes → Bytes → Ordering) (fuel : Nat) : Nat → PG × Option (Patch × DiffType) → M (PG × Option (Patch × DiffType))
  | 0, _ => .error .fuel
  | n + 1, (d, r) =>
    match r with
    | some (p, t) =>
      if atEnd d.to && p.level > 0 && t != .removed then do
        let (d', r') ← pgSplit cmp fuel d
        match r' with
        | none => pure (d', none)
        | some _ => splitWhileAtEnd cmp fuel n (d', r')
      else pure (d, r)
    | none => pure (d, none)

def getNextAndSplitIfAtEnd (cmp : Bytes → Bytes → Ordering) (fuel : Nat) (d : PG) : M (PG × Option (Patch × DiffType)) := do
  splitWhileAtEnd cmp fuel fuel (← pgNext cmp fuel d)

/-- `CollisionFn(left, right Diff) (Diff, bool)`: `none` = conflict (left stays), `some to` =
resolved value (`none` inside = delete); the harness' handlers never change the key -/
abbrev Collide := Event → Event → Option (Option Bytes)

def pvalBytes : Option PVal → Option Bytes
  | some (.val b) => some b
  | _ => none

def typeOf (from? to? : Option PVal) : DiffType :=
  match from?, to? with
  | none, _ => .added
  | _, none => .removed
  | _, _ => .modified

/-- `resolveCollision` -/
def resolveCollision (collide : Collide) (l : Patch) (lt : DiffType) (r : Patch) (rt : DiffType) : Option Patch :=
  match collide ⟨lt, l.endKey, pvalBytes l.from?, pvalBytes l.to?⟩ ⟨rt, r.endKey, pvalBytes r.from?, pvalBytes r.to?⟩ with
  | none => none
  | some to => some { from? := l.from?, endKey := l.endKey, to? := to.map PVal.val }

structure Collision where
  left : Event
  right : Event
  deriving DecidableEq, Repr

/-- state of the `SendPatches` loop -/
structure SP where
  l : PG
  r : PG
  left : Option (Patch × DiffType)
  right : Option (Patch × DiffType)
  out : List Patch := []            -- reversed
  coll : List Collision := []       -- reversed

def ordLE (o : Ordering) : Bool := o != .gt
def ordGE (o : Ordering) : Bool := o != .lt

/-- the loop of `SendPatches` -/
def sendLoop (cmp : Bytes → Bytes → Ordering) (collide : Collide) (fuel : Nat) : Nat → SP → M SP
  | 0, _ => .error .fuel
  | n + 1, s =>
    match s.left, s.right with
    | some (left, lt), some (right, rt) =>
      let leftLevel := s.l.getLevel
      let rightLevel := s.r.getLevel
      let nextL (s : SP) : M SP := do let (l', x) ← pgNext cmp fuel s.l; pure { s with l := l', left := x }
      let nextR (s : SP) : M SP := do let (r', x) ← getNextAndSplitIfAtEnd cmp fuel s.r; pure { s with r := r', right := x }
      let splitL (s : SP) : M SP := do let (l', x) ← pgSplit cmp fuel s.l; pure { s with l := l', left := x }
      let splitR (s : SP) : M SP := do let (r', x) ← pgSplit cmp fuel s.r; pure { s with r := r', right := x }
      let send (s : SP) (p : Patch) : SP := { s with out := p :: s.out }
      if leftLevel > 0 && rightLevel > 0 then
        if ordLE (cmpNilMin cmp (some left.endKey) right.keyBelowStart) then do sendLoop cmp collide fuel n (← nextL s)
        else if ordLE (cmpNilMin cmp (some right.endKey) left.keyBelowStart) then do sendLoop cmp collide fuel n (← nextR (send s right))
        else if optPValEq left.to? right.to? then do
          let s1 := if cmpNilMin cmp left.keyBelowStart right.keyBelowStart == .gt then send s right else s
          sendLoop cmp collide fuel n (← nextR (← nextL s1))
        else do
          let c := cmpNilMin cmp left.keyBelowStart right.keyBelowStart
          let s1 ← if ordLE c then splitL s else pure s
          let s2 ← if ordGE c then splitR s1 else pure s1
          sendLoop cmp collide fuel n s2
      else if rightLevel > 0 then
        if ordLE (cmpNilMin cmp (some left.endKey) right.keyBelowStart) then do sendLoop cmp collide fuel n (← nextL s)
        else if cmp left.endKey right.endKey == .gt then do sendLoop cmp collide fuel n (← nextR (send s right))
        else do sendLoop cmp collide fuel n (← splitR s)
      else if leftLevel > 0 then
        if ordLE (cmpNilMin cmp (some right.endKey) left.keyBelowStart) then do sendLoop cmp collide fuel n (← nextR (send s right))
        else if cmp right.endKey left.endKey == .gt then do sendLoop cmp collide fuel n (← nextL s)
        else do sendLoop cmp collide fuel n (← splitL s)
      else
        match cmp left.endKey right.endKey with
        | .lt => do sendLoop cmp collide fuel n (← nextL s)
        | .gt => do sendLoop cmp collide fuel n (← nextR (send s right))
        | .eq =>
          let s1 :=
            if !optPValEq left.to? right.to? then
              let c : Collision := ⟨⟨lt, left.endKey, pvalBytes left.from?, pvalBytes left.to?⟩, ⟨rt, right.endKey, pvalBytes right.from?, pvalBytes right.to?⟩⟩
              match resolveCollision collide left lt right rt with
              | some p => { send s p with coll := c :: s.coll }
              | none => { s with coll := c :: s.coll }
            else s
          do sendLoop cmp collide fuel n (← nextR (← nextL s1))
    | _, _ => pure s

/-- the trailing `for rok { send right }` -/
def drainRight (cmp : Bytes → Bytes → Ordering) (fuel : Nat) : Nat → SP → M SP
  | 0, _ => .error .fuel
  | n + 1, s =>
    match s.right with
    | none => pure s
    | some (right, _) => do
      let (r', x) ← getNextAndSplitIfAtEnd cmp fuel s.r
      drainRight cmp fuel n { s with out := right :: s.out, r := r', right := x }

/-- `SendPatches(l, r, buf, cb)`: the patches sent (in order) and the collisions handed to `cb` -/
def sendPatches (cmp : Bytes → Bytes → Ordering) (collide : Collide) (fuel : Nat) (l r : PG) : M (List Patch × List Collision) := do
  let (l1, left) ← pgNext cmp fuel l
  let (r1, right) ← getNextAndSplitIfAtEnd cmp fuel r
  let s ← sendLoop cmp collide fuel fuel { l := l1, r := r1, left := left, right := right }
  let s' ← if s.left.isSome then pure s else drainRight cmp fuel fuel s
  pure (s'.out.reverse, s'.coll.reverse)

/-! ## ApplyPatches on the content -/

def upsert (cmp : Bytes → Bytes → Ordering) (k v : Bytes) : List KV → List KV
  | [] => [(k, v)]
  | x :: xs => match cmp k x.1 with
    | .lt => (k, v) :: x :: xs
    | .eq => (k, v) :: xs
    | .gt => x :: upsert cmp k v xs

def erase (cmp : Bytes → Bytes → Ordering) (k : Bytes) : List KV → List KV
  | [] => []
  | x :: xs => match cmp k x.1 with
    | .lt => x :: xs
    | .eq => xs
    | .gt => x :: erase cmp k xs

/-- replace the pairs with `lo < key ≤ hi` (`lo = none`: from the start) by `ins` -/
def replaceRange (cmp : Bytes → Bytes → Ordering) (lo : Option Bytes) (hi : Bytes) (ins : List KV) (l : List KV) : List KV :=
  let before := l.takeWhile (fun x => match lo with | none => false | some k => cmp x.1 k != .gt)
  let rest := l.dropWhile (fun x => match lo with | none => false | some k => cmp x.1 k != .gt)
  before ++ ins ++ rest.dropWhile (fun x => cmp x.1 hi != .gt)

def applyPatch (cmp : Bytes → Bytes → Ordering) (l : List KV) (p : Patch) : List KV :=
  if p.level == 0 then
    match p.to? with
    | some (.val v) => upsert cmp p.endKey v l
    | _ => erase cmp p.endKey l
  else
    replaceRange cmp p.keyBelowStart p.endKey (match p.to? with | some (.sub _ t) => t.flatten | _ => []) l

def applyPatches (cmp : Bytes → Bytes → Ordering) (l : List KV) (ps : List Patch) : List KV :=
  ps.foldl (applyPatch cmp) l

def mergeFuel (a b c : Tree) : Nat := (a.size + b.size + c.size + 4) * (a.height + b.height + c.height + 3)

/-- `ThreeWayMerge`: patches of base→left and base→right merged by `SendPatches`, applied to
`left`.  Returns the merged content, the patches and the collisions in call order. -/
def threeWayMerge (cmp : Bytes → Bytes → Ordering) (collide : Collide) (base left right : Tree) :
    M (List KV × List Patch × List Collision) := do
  let fuel := mergeFuel base left right
  let ld ← pgFromRoots base left
  let rd ← pgFromRoots base right
  let (ps, cs) ← sendPatches cmp collide fuel ld rd
  pure (applyPatches cmp left.flatten ps, ps, cs)

/-- The cause of the known finding `MergeMaps/canonical-shape`, read off the patch stream of the
(unchanged) `SendPatches`: a *range* patch that carries a subtree (`To ≠ nil`) whose end key is
right's very last key — i.e. the patch for the last node of its level in `right` — while `left`
still has a key sorting after it.  `getNextAndSplitIfAtEnd` never returns such a patch (its loop
only exits when `to.atEnd()` is false, the patch is a point patch or a removal), so in the unchanged
code it can only come from one of the two bare `r.split(ctx)` calls inside `SendPatches`. -/
def knownCanonicalCause (cmp : Bytes → Bytes → Ordering) (left right : Tree) (ps : List Patch) : Bool :=
  match right.flatten.getLast? with
  | none => false
  | some lastR =>
    ps.any (fun p =>
      p.level > 0 &&
      (match p.to? with | some (.sub _ _) => true | _ => false) &&
      cmp p.endKey lastR.1 == .eq &&
      left.flatten.any (fun kv => cmp p.endKey kv.1 == .lt))

/-- The INPUT-SHAPE cause of the known finding `MergeMaps/tail-truncation-data-loss` at one `split` call:
the generator's previous patch is a removed RANGE and the first key of the `from` child that
`split`'s `RemovedDiff` case descends to is `≤ previousKey` — the `from` node straddles `previousKey`
(it was sent by `advanceFromPreviousPatch` after a modified range that ended at `to`'s last key), and
that case has no loop skipping what earlier patches covered. -/
def splitStraddles (cmp : Bytes → Bytes → Ordering) (d : PG) : Bool :=
  decide (d.prevLevel > 0) &&
  (match d.prevType with | some .removed => true | _ => false) &&
  (match pushChild d.from_ with
   | .ok c => (match curKey c, d.prevKey with
      | some k, some pk => cmp k pk != .gt
      | _, _ => false)
   | .error _ => false)

/-- `sendLoop` with a flag: was `split` ever called on a generator in a `splitStraddles` state?
(the same control flow as `sendLoop`; only the `splitL` / `splitR` sites look at the flag) -/
def sendLoopF (cmp : Bytes → Bytes → Ordering) (collide : Collide) (fuel : Nat) : Nat → SP → Bool → M (SP × Bool)
  | 0, _, _ => .error .fuel
  | n + 1, s, fl =>
    match s.left, s.right with
    | some (left, lt), some (right, rt) =>
      let leftLevel := s.l.getLevel
      let rightLevel := s.r.getLevel
      let nextL (s : SP) : M SP := do let (l', x) ← pgNext cmp fuel s.l; pure { s with l := l', left := x }
      let nextR (s : SP) : M SP := do let (r', x) ← getNextAndSplitIfAtEnd cmp fuel s.r; pure { s with r := r', right := x }
      let splitL (s : SP) : M SP := do let (l', x) ← pgSplit cmp fuel s.l; pure { s with l := l', left := x }
      let splitR (s : SP) : M SP := do let (r', x) ← pgSplit cmp fuel s.r; pure { s with r := r', right := x }
      let send (s : SP) (p : Patch) : SP := { s with out := p :: s.out }
      if leftLevel > 0 && rightLevel > 0 then
        if ordLE (cmpNilMin cmp (some left.endKey) right.keyBelowStart) then do sendLoopF cmp collide fuel n (← nextL s) fl
        else if ordLE (cmpNilMin cmp (some right.endKey) left.keyBelowStart) then do sendLoopF cmp collide fuel n (← nextR (send s right)) fl
        else if optPValEq left.to? right.to? then do
          let s1 := if cmpNilMin cmp left.keyBelowStart right.keyBelowStart == .gt then send s right else s
          sendLoopF cmp collide fuel n (← nextR (← nextL s1)) fl
        else do
          let c := cmpNilMin cmp left.keyBelowStart right.keyBelowStart
          let fl1 := fl || (ordLE c && splitStraddles cmp s.l)
          let s1 ← if ordLE c then splitL s else pure s
          let fl2 := fl1 || (ordGE c && splitStraddles cmp s1.r)
          let s2 ← if ordGE c then splitR s1 else pure s1
          sendLoopF cmp collide fuel n s2 fl2
      else if rightLevel > 0 then
        if ordLE (cmpNilMin cmp (some left.endKey) right.keyBelowStart) then do sendLoopF cmp collide fuel n (← nextL s) fl
        else if cmp left.endKey right.endKey == .gt then do sendLoopF cmp collide fuel n (← nextR (send s right)) fl
        else do sendLoopF cmp collide fuel n (← splitR s) (fl || splitStraddles cmp s.r)
      else if leftLevel > 0 then
        if ordLE (cmpNilMin cmp (some right.endKey) left.keyBelowStart) then do sendLoopF cmp collide fuel n (← nextR (send s right)) fl
        else if cmp right.endKey left.endKey == .gt then do sendLoopF cmp collide fuel n (← nextL s) fl
        else do sendLoopF cmp collide fuel n (← splitL s) (fl || splitStraddles cmp s.l)
      else
        match cmp left.endKey right.endKey with
        | .lt => do sendLoopF cmp collide fuel n (← nextL s) fl
        | .gt => do sendLoopF cmp collide fuel n (← nextR (send s right)) fl
        | .eq =>
          let s1 :=
            if !optPValEq left.to? right.to? then
              let c : Collision := ⟨⟨lt, left.endKey, pvalBytes left.from?, pvalBytes left.to?⟩, ⟨rt, right.endKey, pvalBytes right.from?, pvalBytes right.to?⟩⟩
              match resolveCollision collide left lt right rt with
              | some p => { send s p with coll := c :: s.coll }
              | none => { s with coll := c :: s.coll }
            else s
          do sendLoopF cmp collide fuel n (← nextR (← nextL s1)) fl
    | _, _ => pure (s, fl)

/-- does the run of the (unchanged) `SendPatches` on this input split a removed range whose `from`
node straddles `previousKey`?  (`false` when the run fails) -/
def knownStraddleCause (cmp : Bytes → Bytes → Ordering) (collide : Collide) (base left right : Tree) : Bool :=
  let fuel := mergeFuel base left right
  match (do
    let ld ← pgFromRoots base left
    let rd ← pgFromRoots base right
    let (l1, lf) ← pgNext cmp fuel ld
    let (r1, rf) ← getNextAndSplitIfAtEnd cmp fuel rd
    sendLoopF cmp collide fuel fuel { l := l1, r := r1, left := lf, right := rf } false) with
  | .ok (_, fl) => fl
  | .error _ => false

/-- all patches of one generator (base→to), as `Next` would produce them without any split -/
def drainPG (cmp : Bytes → Bytes → Ordering) (fuel : Nat) : Nat → PG → List (Patch × DiffType) → M (List (Patch × DiffType))
  | 0, _, _ => .error .fuel
  | n + 1, d, acc => do
    let (d', r) ← pgNext cmp fuel d
    match r with
    | none => pure acc.reverse
    | some pt => drainPG cmp fuel n d' (pt :: acc)

/-! ## key-wise specification -/

def lookupKV (cmp : Bytes → Bytes → Ordering) (k : Bytes) : List KV → Option KV
  | [] => none
  | x :: xs => if cmp k x.1 == .eq then some x else lookupKV cmp k xs

/-- the change of one key from base to a side, as the point patch it would be: the key bytes are
the side's own (`to.CurrentKey()` in `sendModifiedKey` / `sendAddedKey`), base's for a removal -/
def changeOf (b x : Option KV) : Option Event :=
  match b, x with
  | none, none => none
  | none, some y => some (Event.added y)
  | some a, none => some (Event.removed a)
  | some a, some y => if a.2 != y.2 then some ⟨.modified, y.1, some a.2, some y.2⟩ else none

/-- what a key maps to after the merge, from what it maps to in base / left / right -/
def mergeKey (collide : Collide) (b l r : Option KV) : Option KV × Option Collision :=
  match changeOf b l, changeOf b r with
  | _, none => (l, none)                              -- right did not touch it
  | none, some er =>                                  -- only right changed it
    (match r with | some y => some y | none => none, none)
  | some el, some er =>
    if el.to? == er.to? then (l, none)                -- same result on both sides
    else
      let k := el.key
      match collide el er with
      | none => (l, some ⟨el, er⟩)                    -- conflict: left stays
      | some to => (to.map (fun v => (k, v)), some ⟨el, er⟩)

/-- key-wise merge over an explicit key universe (ascending, one representative per key) -/
def merge3 (cmp : Bytes → Bytes → Ordering) (collide : Collide) (keys : List Bytes) (base left right : List KV) :
    List KV × List Collision :=
  let rs := keys.map (fun k => mergeKey collide (lookupKV cmp k base) (lookupKV cmp k left) (lookupKV cmp k right))
  (rs.filterMap (·.1), rs.filterMap (·.2))

/-- ascending union of the keys of three ascending lists (one representative per key) -/
def unionKeys (cmp : Bytes → Bytes → Ordering) : List Bytes → List Bytes → List Bytes
  | [], bs => bs
  | a :: as, [] => a :: as
  | a :: as, b :: bs =>
    match cmp a b with
    | .lt => a :: unionKeys cmp as (b :: bs)
    | .gt => b :: unionKeys cmp (a :: as) bs
    | .eq => a :: unionKeys cmp as bs
termination_by as bs => as.length + bs.length

def merge3Lists (cmp : Bytes → Bytes → Ordering) (collide : Collide) (base left right : List KV) : List KV × List Collision :=
  merge3 cmp collide (unionKeys cmp (left.map (·.1)) (unionKeys cmp (base.map (·.1)) (right.map (·.1)))) base left right

/-- the edits the three-way differ's results ask for, applied to the left content
("key-level merge path"): right-only changes and resolved divergences are written, everything
else (left-only, convergent, conflicts) leaves left as it is -/
def applyTW (cmp : Bytes → Bytes → Ordering) (l : List KV) (d : TWDiff) : List KV :=
  match d.op with
  | .rightAdd | .rightModify => match d.right with | some v => upsert cmp d.key v l | none => l
  | .rightDelete => erase cmp d.key l
  | .divergentModifyResolved => match d.merged with | some v => upsert cmp d.key v l | none => l
  | _ => l

end DoltVerif.ProllyMerge
