import DoltVerif.Model.NbsFiles
/-!
Store level of C01 (simplified): a `NomsBlockStore` as memtable + novel + upstream chunk sources, and
a `GenerationalNBS` as old generation + new generation.  A chunk source is abstracted to the
association list of the chunks it serves — that a table file / archive serves exactly its written
chunks is C06 (`table_roundtrip`, `archive_roundtrip`) and C01 (`lookup_membership`, `hasMany_spec`).
The read paths are modelled the way the Go code composes them: `Get` = memtable, then `tableSet.get`
over novel then upstream, first hit; `GetMany`/`HasMany` = the same chain over a request list with
carried `found`/`has` flags, each source only answering what is still unanswered.
Core Lean only.
-/
namespace DoltVerif.NbsStore
open DoltVerif.NbsFiles (Addr)

abbrev Bytes := List UInt8

/-- the chunks a source serves (first binding of an address wins inside a source) -/
abbrev Source := List (Addr × Bytes)

def Source.get (s : Source) (a : Addr) : Option Bytes := s.lookup a
def Source.has (s : Source) (a : Addr) : Bool := (s.lookup a).isSome

structure Store where
  mem : Source
  novel : List Source
  upstream : List Source
deriving Repr

/-- the order in which a read consults the sources -/
def Store.chain (s : Store) : List Source := s.mem :: (s.novel ++ s.upstream)

/-- `tableSet.get`: first source that has it -/
def chainGet : List Source → Addr → Option Bytes
  | [], _ => none
  | s :: ss, a => match s.get a with
    | some d => some d
    | none => chainGet ss a

def chainHas : List Source → Addr → Bool
  | [], _ => false
  | s :: ss, a => s.has a || chainHas ss a

/-- `NomsBlockStore.Get` -/
def Store.get (s : Store) (a : Addr) : Option Bytes := chainGet s.chain a
/-- `NomsBlockStore.Has` -/
def Store.has (s : Store) (a : Addr) : Bool := chainHas s.chain a

/-- one source's `getMany`: answers the requests not yet found, marks them, delivers their bytes -/
def srcGetMany (src : Source) : List (Addr × Bool) → List (Addr × Bool) × List (Addr × Bytes)
  | [] => ([], [])
  | (a, found) :: rest =>
    let r := srcGetMany src rest
    if found then ((a, true) :: r.1, r.2)
    else match src.get a with
      | some d => ((a, true) :: r.1, (a, d) :: r.2)
      | none => ((a, false) :: r.1, r.2)

/-- the chain of `getMany` calls (memtable, novel…, upstream…) with the carried `found` flags -/
def chainGetMany : List Source → List (Addr × Bool) → List (Addr × Bytes)
  | [], _ => []
  | s :: ss, reqs => (srcGetMany s reqs).2 ++ chainGetMany ss (srcGetMany s reqs).1

/-- `NomsBlockStore.GetMany` / `GetManyCompressed` (what is delivered to the callback) -/
def Store.getMany (s : Store) (as : List Addr) : List (Addr × Bytes) :=
  chainGetMany s.chain (as.map (fun a => (a, false)))

def srcHasMany (src : Source) : List (Addr × Bool) → List (Addr × Bool)
  | [] => []
  | (a, has) :: rest => (a, has || src.has a) :: srcHasMany src rest

def chainHasMany : List Source → List (Addr × Bool) → List (Addr × Bool)
  | [], reqs => reqs
  | s :: ss, reqs => chainHasMany ss (srcHasMany s reqs)

/-- `NomsBlockStore.HasMany`: the absent set -/
def Store.hasMany (s : Store) (as : List Addr) : List Addr :=
  ((chainHasMany s.chain (as.map (fun a => (a, false)))).filter (fun r => !r.2)).map (·.1)

/-- `Put` → `memTable.addChunk`: an address already in the memtable is `chunkExists` -/
def Store.put (s : Store) (a : Addr) (d : Bytes) : Store :=
  if s.mem.has a then s else { s with mem := s.mem ++ [(a, d)] }

/-- flush on `Commit`: `memTable.write(haver = tables)` drops what the tables already hold; the new
table becomes a novel source; the memtable is reset -/
def Store.flush (s : Store) : Store :=
  { mem := [], novel := (s.mem.filter (fun e => !chainHas (s.novel ++ s.upstream) e.1)) :: s.novel, upstream := s.upstream }

/-- reopen: novel tables become upstream (manifest), nothing else changes -/
def Store.reopen (s : Store) : Store := { mem := [], novel := [], upstream := (s.flush).novel ++ s.upstream }

/-- conjoin: the selected upstream tables are replaced by **one** table serving the concatenation of
their chunks (duplicates kept, `planTableConjoin`); it is listed first among the upstream tables, the
unselected ones keep their order (`conjoinOperation.updateManifest`) -/
def Store.conjoin (s : Store) (sel : Source → Bool) : Store :=
  { s with upstream := (s.upstream.filter sel).flatten :: s.upstream.filter (fun t => !sel t) }

/-- everything the store holds anywhere, in read order -/
def Store.entries (s : Store) : List (Addr × Bytes) := (s.mem :: (s.novel ++ s.upstream)).flatten

/-- garbage collection with keep-set `keep` (the marked addresses): memtable flushed, every table
replaced by one table serving exactly the kept chunks (`markAndSweepChunks` + `swapTables`) -/
def Store.gc (s : Store) (keep : Addr → Bool) : Store :=
  { mem := [], novel := [], upstream := [s.entries.filter (fun e => keep e.1)] }

inductive Op where
  | put (a : Addr) (d : Bytes)
  | commit
  | reopen
  | conjoin (sel : Source → Bool)
  | gc (keep : Addr → Bool)

def Store.apply (s : Store) : Op → Store
  | .put a d => s.put a d
  | .commit => s.flush
  | .reopen => s.reopen
  | .conjoin sel => s.conjoin sel
  | .gc keep => s.gc keep

def run (ops : List Op) : Store := ops.foldl Store.apply ⟨[], [], []⟩

/-- every (address, bytes) pair a history wrote (collected or not) -/
def written : List Op → List (Addr × Bytes)
  | [] => []
  | .put a d :: rest => (a, d) :: written rest
  | _ :: rest => written rest

/-- the specification state: the pairs written **and not collected since** -/
def liveStep (l : List (Addr × Bytes)) : Op → List (Addr × Bytes)
  | .put a d => (a, d) :: l
  | .gc keep => l.filter (fun e => keep e.1)
  | _ => l

def live (ops : List Op) : List (Addr × Bytes) := ops.foldl liveStep []

/-- the abstract map: first binding in read order -/
def Store.abs (s : Store) (a : Addr) : Option Bytes := s.entries.lookup a

/-! ### journal store: the journal chunk source with its range index inside the store -/

/-- the journal chunk source (`journalChunkSource` over `rangeIndex`, ranges replaced by the bytes they
address): `novel` is keyed by the full address, `cached` by its first 16 bytes -/
structure JSrc where
  novel : List (Addr × Bytes)
  cached : List ((Nat × Nat) × Bytes)
deriving Repr

/-- `rangeIndex.get` + read: novel by full address, else cached by `addr16` -/
def JSrc.get (j : JSrc) (a : Addr) : Option Bytes :=
  match j.novel.lookup a with
  | some d => some d
  | none => j.cached.lookup a.a16

def JSrc.has (j : JSrc) (a : Addr) : Bool := (j.get a).isSome

/-- `rangeIndex.flatten` (at a commit with more than `maxNovel` novel chunks, and when the index is
bootstrapped from the journal index file) -/
def JSrc.flatten (j : JSrc) : JSrc :=
  { novel := [], cached := j.novel.map (fun e => (e.1.a16, e.2)) ++ j.cached }

/-- `journalChunkSource.iterateAllChunks`: novel chunks under their addresses, cached chunks under
the 16 known address bytes followed by four zero bytes -/
def JSrc.iterate (j : JSrc) : List (Addr × Bytes) :=
  j.novel ++ j.cached.map (fun e => (⟨e.1.1, e.1.2 * 4294967296⟩, e.2))

/-- a journaling `NomsBlockStore`: memtable, the journal source, table files -/
structure JStore where
  mem : Source
  j : JSrc
  tables : List Source
deriving Repr

def JStore.get (s : JStore) (a : Addr) : Option Bytes :=
  match s.mem.get a with
  | some d => some d
  | none => match s.j.get a with
    | some d => some d
    | none => chainGet s.tables a

def JStore.has (s : JStore) (a : Addr) : Bool := s.mem.has a || s.j.has a || chainHas s.tables a

/-- `HasMany` through the chain with carried flags: memtable, journal (`hasAddr` per record), tables -/
def JStore.hasMany (s : JStore) (as : List Addr) : List Addr :=
  ((chainHasMany s.tables
      ((srcHasMany s.mem (as.map (fun a => (a, false)))).map (fun r => (r.1, r.2 || s.j.has r.1)))).filter
    (fun r => !r.2)).map (·.1)

def JStore.put (s : JStore) (a : Addr) (d : Bytes) : JStore :=
  if s.mem.has a then s else { s with mem := s.mem ++ [(a, d)] }

/-- commit: the memtable is persisted into the journal (`ChunkJournal.Persist`), minus what journal or
tables already have -/
def JStore.flush (s : JStore) : JStore :=
  { s with mem := [],
           j := { s.j with novel := (s.mem.filter (fun e => !(s.j.has e.1 || chainHas s.tables e.1))).reverse ++ s.j.novel } }

inductive JOp where
  | put (a : Addr) (d : Bytes)
  | commit
  | flatten

def JStore.apply (s : JStore) : JOp → JStore
  | .put a d => s.put a d
  | .commit => s.flush
  | .flatten => { s with j := s.j.flatten }

def jrun (ops : List JOp) : JStore := ops.foldl JStore.apply ⟨[], ⟨[], []⟩, []⟩

def jwritten : List JOp → List (Addr × Bytes)
  | [] => []
  | .put a d :: rest => (a, d) :: jwritten rest
  | _ :: rest => jwritten rest

/-! ### generational store -/

structure Gen where
  old : Store
  new : Store

/-- `GenerationalNBS.Get`: old generation first, then new -/
def Gen.get (g : Gen) (a : Addr) : Option Bytes :=
  match g.old.get a with
  | some d => some d
  | none => g.new.get a

def Gen.has (g : Gen) (a : Addr) : Bool := g.old.has a || g.new.has a

/-- `GenerationalNBS.HasMany` (after the repair): new generation first, then the still-absent in old -/
def Gen.hasMany (g : Gen) (as : List Addr) : List Addr := g.old.hasMany (g.new.hasMany as)

def Gen.abs (g : Gen) (a : Addr) : Option Bytes :=
  match g.old.abs a with
  | some d => some d
  | none => g.new.abs a

end DoltVerif.NbsStore
