/-
Model of dolt's SQL transaction machine (C22, C23) at statement granularity — core Lean only.

Anchors (transliterated, see design/C22.md, design/C23.md):
* `dsess.DoltSession.StartTransaction` / `NewDoltTransaction`: a transaction records the noms root of
  the database when it starts (`dbStartPoints`); the session's working copy is resolved against it.
* `dsess.DoltTransaction.doCommit`: under the per-branch lock `E := ResolveWorkingSet`; if
  `workingAndStagedEqual E S` write `W` (ff); else `mergeRoots` (working and staged separately, each
  skipped when `rootsEqual existing ours`), `validateWorkingSetForCommit` (conflicts in the *working*
  root only ⇒ rollback + retryable error), then the write function (`txCommit` / `doltCommit`).
* `doltCommit`: `pending.Staged := merged staged`; if the branch head moved since tx start,
  `pending.Staged := MergeRoots(pending.Staged, curHead, headAtStart)`; commit it.
* `merge.MergeRoots` → `ThreeWayDiffer.Next` + `valueMerger.TryMerge/processColumn` for one table whose
  schema is the same on all three sides: per key, per cell.

A database here is one table `t(pk int primary key, c0 … c(n-1))`; a root is a finite map `pk → row`.
Roots are association lists read only through `get` (first binding wins), so all statements about
them are extensional.
-/
namespace DoltVerif.Txn

inductive Val where
  | int (i : Int)
  | str (s : String)
  deriving DecidableEq, Repr, Inhabited

abbrev Cell := Option Val
abbrev Row := List Cell
abbrev Key := Int
abbrev Root := List (Key × Row)

def get (t : Root) (k : Key) : Option Row := t.lookup k
def keys (t : Root) : List Key := t.map (·.1)
def put (k : Key) (r : Row) (t : Root) : Root := (k, r) :: t
def del (k : Key) (t : Root) : Root := t.filter (fun p => !(p.1 == k))
/-- the root whose binding at `k ∈ ks` is `g k` -/
def ofFn (ks : List Key) (g : Key → Option Row) : Root :=
  ks.filterMap (fun k => (g k).map (fun r => (k, r)))

/-- `rootsEqual` (hash equality of two root values = same contents) -/
def rootEq (a b : Root) : Bool := (keys a ++ keys b).all (fun k => get a k == get b k)

/-! ### three-way merge of one key (ThreeWayDiffer.Next + valueMerger), same schema on all sides -/

/-- `processColumn` when the base row exists: `none` = conflict ("concurrent modification") -/
def mergeCell (e w s : Cell) : Option Cell :=
  if e = w then some w
  else if e ≠ s ∧ w ≠ s then none
  else if e ≠ s then some e
  else some w

/-- `TryMerge` over the value columns.  Rows of one table have the same length (fixed schema); a
shorter side ends the merge (never reached by the drivers). -/
def mergeCells : Row → Row → Row → Option Row
  | e :: es, w :: ws, s :: ss =>
    match mergeCell e w s, mergeCells es ws ss with
    | some c, some r => some (c :: r)
    | _, _ => none
  | _, _, _ => some []

/-- One key of the three-way diff; `e` = left (existing working set), `w` = right (the committing
transaction), `s` = base (transaction start).  `none` = conflict.
* no right diff → left value; no left diff → right value (`dsNewLeft`/`dsNewRight`);
* both deleted → convergent delete; one deleted, other modified → `DivergentDeleteConflict`;
* equal values → convergent; both inserted with different values → conflict (`processColumn`, base
  absent, "conflicting inserts"); both modified → cell-wise. -/
def mergeKey (e w s : Option Row) : Option (Option Row) :=
  if w = s then some e
  else if e = s then some w
  else match e, w with
    | none, none => some none
    | some er, some wr =>
      if er = wr then some (some er)
      else match s with
        | none => none
        | some sr => (mergeCells er wr sr).map some
    | _, _ => none

def mergeKeysOf (e w s : Root) : List Key := (keys e ++ keys w ++ keys s).eraseDups

/-- value of key `k` in the merged root: conflicts keep the left ("ours") value, the conflict is
recorded as an artifact -/
def mergedAt (e w s : Root) (k : Key) : Option Row :=
  match mergeKey (get e k) (get w k) (get s k) with
  | some v => v
  | none => get e k

def conflictAt (e w s : Root) (k : Key) : Bool := (mergeKey (get e k) (get w k) (get s k)).isNone

/-- `merge.MergeRoots ours=e theirs=w anc=s`: merged root and the keys with conflict artifacts -/
def mergeRoots (e w s : Root) : Root × List Key :=
  let ks := mergeKeysOf e w s
  (ofFn ks (mergedAt e w s), ks.filter (conflictAt e w s))

/-! ### statements -/

inductive WOp where
  | ins (k : Key) (r : Row)
  | upd (k : Key) (col : Nat) (v : Cell)
  | updAll (col : Nat) (v : Cell)
  | updWhere (wcol : Nat) (wv : Cell) (col : Nat) (v : Cell)  -- UPDATE t SET col=v WHERE wcol <=> wv
  | del (k : Key)
  | delWhere (wcol : Nat) (wv : Cell)
  deriving DecidableEq, Repr

inductive Res where
  | ok | dupKey | retry | nothingToCommit | unsupported
  deriving DecidableEq, Repr

def setCol : Row → Nat → Cell → Row
  | [], _, _ => []
  | _ :: cs, 0, v => v :: cs
  | c :: cs, n + 1, v => c :: setCol cs n v

def colIs (r : Row) (c : Nat) (v : Cell) : Bool :=
  match r[c]? with
  | some x => x == v
  | none => false

def mapRows (f : Key → Row → Option Row) (t : Root) : Root :=
  ofFn (keys t).eraseDups (fun k => match get t k with | some r => f k r | none => none)

/-- one DML statement on the session's own working root -/
def applyOp (op : WOp) (t : Root) : Root × Res :=
  match op with
  | .ins k r => match get t k with
      | some _ => (t, .dupKey)
      | none => (put k r t, .ok)
  | .upd k c v => match get t k with
      | some r => (put k (setCol r c v) t, .ok)
      | none => (t, .ok)
  | .updAll c v => (mapRows (fun _ r => some (setCol r c v)) t, .ok)
  | .updWhere wc wv c v => (mapRows (fun _ r => if colIs r wc wv then some (setCol r c v) else some r) t, .ok)
  | .del k => (del k t, .ok)
  | .delWhere wc wv => (mapRows (fun _ r => if colIs r wc wv then none else some r) t, .ok)

/-- branch state: the working set (working, staged) and the root of the HEAD commit -/
structure WS where
  working : Root
  staged : Root
  head : Root
  /-- the staged root / the HEAD commit's root carries conflict artifacts (left there by an unvalidated
  staged merge); artifacts are part of a root value's hash, so they matter for `rootsEqual` -/
  sArt : Bool := false
  hArt : Bool := false

structure Sess where
  active : Bool := false      -- a transaction is open
  explicit : Bool := false    -- opened by BEGIN: autocommit ignored until COMMIT/ROLLBACK
  autocommit : Bool := true
  snap : WS := ⟨[], [], [], false, false⟩   -- start state: working set + head resolved at the tx-start root
  work : Root := []           -- own working root
  log : List WOp := []        -- ghost: own successful writes since tx start
  snapO : Root := []          -- start root of the OTHER database (`dbStartPoints` has one root per database)
  workO : Root := []          -- own working root of the other database

structure World where
  shared : WS
  sess : Nat → Sess
  /-- ghost: (start working root, committed working root) of every acknowledged commit, oldest first -/
  commits : List (Root × Root) := []
  /-- working root of table `otherdb.t` of a second database on the same provider -/
  other : Root := []

def World.init : World := { shared := ⟨[], [], [], false, false⟩, sess := fun _ => {} }

def setSess (w : World) (i : Nat) (s : Sess) : World :=
  { w with sess := fun j => if j = i then s else w.sess j }

inductive Stmt where
  | begin | commit | rollback | read
  | write (op : WOp)
  | dcommit            -- CALL dolt_commit('-Am', …)
  | readO              -- SELECT * FROM otherdb.t
  | readHead           -- SELECT * FROM t AS OF 'HEAD' / AS OF 'main': resolved at the transaction's noms root
  | writeO (op : WOp)  -- DML on otherdb.t (modelled for autocommit statements only)
  | setAuto (b : Bool)
  deriving Repr

/-- `StartTransaction`: snapshot of the branch state of EVERY database of the provider
(`NewDoltTransaction(ctx, txDbs)` with `txDbs` = all `d.provider.DoltDatabases()`) -/
def startTx (w : World) (i : Nat) (explicit : Bool) : World :=
  let s := w.sess i
  setSess w i { s with
    active := true, explicit := explicit, snap := w.shared, work := w.shared.working, log := []
    snapO := w.other, workO := w.other }

/-- `Rollback` / `clear`: the working copy is thrown away; the next statement starts a new transaction -/
def endTx (w : World) (i : Nat) (keepExplicit : Bool) : World :=
  let s := w.sess i
  setSess w i { s with active := false, explicit := keepExplicit && s.explicit, work := [], log := [], workO := [] }

/-- `workingAndStagedEqual(existingWs, startState)`: nobody committed since the transaction began -/
def isFF (E S : WS) : Bool := rootEq E.working S.working && (rootEq E.staged S.staged && E.sArt == S.sArt)

/-- `mergeRoots` of `doCommit`, working root: skipped when `rootsEqual(existing, ours)`; second
component: the merge left conflicts (`validateWorkingSetForCommit` then rolls back) -/
def mergedWorking (E S : WS) (W : Root) : Root × Bool :=
  if rootEq E.working W then (W, false)
  else ((mergeRoots E.working W S.working).1, !(mergeRoots E.working W S.working).2.isEmpty)

/-- `mergeRoots` of `doCommit`, staged root (`St`, `stArt` = the session's staged root and whether it
carries artifacts): conflicts keep the existing value, are recorded as artifacts and are NOT validated -/
def mergedStaged (E S : WS) (St : Root) (stArt : Bool) : Root × Bool :=
  if rootEq E.staged St && E.sArt == stArt then (St, stArt)
  else ((mergeRoots E.staged St S.staged).1, E.sArt || !(mergeRoots E.staged St S.staged).2.isEmpty)

/-- `doCommit` with `txCommit`/`doltCommit`, the whole body under the branch lock.  `dolt` = also
create a dolt commit from `St` (the staged root the session wants to commit).
`none` = rejected (conflicts): nothing written. -/
def doCommit (E S : WS) (W St : Root) (dolt : Bool) : Option WS :=
  let stArt := if dolt then false else S.sArt   -- `-A` stages the session's (artifact-free) working root
  let mw := if isFF E S then (W, false) else mergedWorking E S W
  let ms := if isFF E S then (St, stArt) else mergedStaged E S St stArt
  if mw.2 then none
  else if dolt then
    -- doltCommit: merge a moved HEAD into the staged root, commit it
    let st := if rootEq E.head S.head && E.hArt == S.hArt then ms
      else ((mergeRoots ms.1 E.head S.head).1, ms.2 || !(mergeRoots ms.1 E.head S.head).2.isEmpty)
    some ⟨mw.1, st.1, st.1, st.2, st.2⟩
  else some ⟨mw.1, ms.1, E.head, ms.2, E.hArt⟩

/-- commit of the other database's working root (same `doCommit`: ff, else three-way merge) -/
def commitOther (E S W : Root) : Option Root :=
  if rootEq E S then some W
  else if (mergeRoots E W S).2.isEmpty then some (mergeRoots E W S).1 else none

/-- COMMIT (or the implicit commit of autocommit / BEGIN / SET autocommit=1) -/
def commitTx (w : World) (i : Nat) (keepExplicit : Bool) : World × Res :=
  let s := w.sess i
  if !s.active then (endTx w i keepExplicit, .ok)
  else match doCommit w.shared s.snap s.work s.snap.staged false with
    | some ws => (endTx { w with shared := ws, commits := w.commits ++ [(s.snap.working, s.work)] } i keepExplicit, .ok)
    | none => (endTx w i keepExplicit, .retry)

def ensureTx (w : World) (i : Nat) : World :=
  if (w.sess i).active then w else startTx w i (w.sess i).explicit

/-- end of a statement: autocommit unless inside BEGIN … -/
def endStmt (w : World) (i : Nat) : World × Res :=
  let s := w.sess i
  if s.autocommit && !s.explicit then commitTx w i true else (w, .ok)

/-- One statement of session `i`.  Third component: the rows a `read` returns. -/
def step (w : World) (i : Nat) : Stmt → World × Res × Option Root
  | .begin =>
    -- BEGIN inside a transaction commits it first
    let (w1, r) := commitTx w i false
    match r with
    | .ok => (startTx w1 i true, .ok, none)
    | e => (w1, e, none)
  | .commit => let (w1, r) := commitTx w i false; (w1, r, none)
  | .rollback => (endTx w i false, .ok, none)
  | .read =>
    let w1 := ensureTx w i
    let rows := (w1.sess i).work
    let (w2, r) := endStmt w1 i
    (w2, r, some rows)
  | .write op =>
    let w1 := ensureTx w i
    let s := w1.sess i
    match applyOp op s.work with
    | (t, .ok) =>
      let w2 := setSess w1 i { s with work := t, log := s.log ++ [op] }
      let (w3, r) := endStmt w2 i
      (w3, r, none)
    | (_, e) =>
      -- a failed statement changes nothing; under autocommit the transaction is rolled back
      if s.autocommit && !s.explicit then (endTx w1 i true, e, none) else (w1, e, none)
  | .dcommit =>
    let w1 := ensureTx w i
    let s := w1.sess i
    -- `-A`: stage everything; nothing staged against the session's HEAD ⇒ SQL commit only + error
    if rootEq s.work s.snap.head && !s.snap.hArt then
      -- doDoltCommit: "Nothing to commit. Finalize the transaction": CommitTransaction, then the error
      match commitTx w1 i true with
      | (w2, .ok) => (w2, .nothingToCommit, none)
      | (w2, e) => (endTx w2 i false, e, none)
    else match doCommit w1.shared s.snap s.work s.work true with
      | some ws => (endTx { w1 with shared := ws, commits := w1.commits ++ [(s.snap.working, s.work)] } i true, .ok, none)
      -- validateWorkingSetForCommit → tx.rollback: SetTransaction(nil), SetIgnoreAutoCommit(false)
      | none => (endTx w1 i false, .retry, none)
  | .readHead =>
    let w1 := ensureTx w i
    let rows := (w1.sess i).snap.head
    let (w2, r) := endStmt w1 i
    (w2, r, some rows)
  | .readO =>
    let w1 := ensureTx w i
    let rows := (w1.sess i).workO
    let (w2, r) := endStmt w1 i
    (w2, r, some rows)
  | .writeO op =>
    let w1 := ensureTx w i
    let s := w1.sess i
    if s.autocommit && !s.explicit then
      match applyOp op s.workO with
      | (t, .ok) =>
        match commitOther w1.other s.snapO t with
        | some o => let (w2, r) := commitTx { w1 with other := o } i true; (w2, r, none)
        | none => (endTx w1 i true, .retry, none)
      | (_, e) => (endTx w1 i true, e, none)
    else
      -- writing two databases in one multi-statement transaction is outside the statement family
      (w1, .unsupported, none)
  | .setAuto b =>
    if b then
      -- SET autocommit=1 commits the open transaction
      let (w1, r) := commitTx w i true
      let s1 := w1.sess i
      (setSess w1 i { s1 with autocommit := true }, r, none)
    else
      let w1 := ensureTx w i
      let s1 := w1.sess i
      (setSess w1 i { s1 with autocommit := false }, .ok, none)

def run (w : World) : List (Nat × Stmt) → World
  | [] => w
  | (i, st) :: rest => run (step w i st).1 rest

/-! ### canonical dump (driver) -/

def sortedKeys (t : Root) : List Key := ((keys t).eraseDups).mergeSort (fun a b => a ≤ b)

def dump (t : Root) : List (Key × Row) :=
  (sortedKeys t).filterMap (fun k => (get t k).map (fun r => (k, r)))

end DoltVerif.Txn
