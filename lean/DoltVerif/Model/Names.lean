/-
Model of dolt's ref-name validation (C44).

Transliteration of
  go/store/datas/dataset.go        ValidateDatasetId / validateDatasetIdComponent / refnameActions
  go/libraries/doltcore/ref/branchname.go   IsValidBranchName (InvalidBranchNameRegex alternatives)
  go/libraries/doltcore/doltdb/ancestor_spec.go  parseInstructions / SplitAncestorSpec
  go/libraries/doltcore/doltdb/commit_spec.go    NewCommitSpec

Go strings are byte strings; the model works on `List UInt8`.  `for _, ch := range s` decodes
UTF-8, but every byte >= 0x80 yields a rune > unicode.MaxASCII (or RuneError = U+FFFD), which the
Go code rejects immediately, so a byte-wise loop that rejects bytes >= 128 is exact.
Core-only (no Mathlib) so the driver links.
-/
namespace DoltVerif.Names

abbrev Bytes := List UInt8

inductive Action where
  | ok | eof | dot | leftCurly | illegal
  deriving DecidableEq, Repr

/-- `refnameActions` (the first 128 entries are written out in the Go source; the remaining
128 are the zero value `refnameOk`).  `Tie/Names.lean` proves this literal equals the table
regenerated from the Go source. -/
def actionCodes : List Nat :=
  [4,4,4,4,4,4,4,4,4,4,4,4,4,4,4,4,
   4,4,4,4,4,4,4,4,4,4,4,4,4,4,4,4,
   4,0,0,0,0,0,0,0,0,0,4,0,0,0,2,1,
   0,0,0,0,0,0,0,0,0,0,4,0,0,0,0,4,
   0,0,0,0,0,0,0,0,0,0,0,0,0,0,0,0,
   0,0,0,0,0,0,0,0,0,0,0,4,4,0,4,0,
   0,0,0,0,0,0,0,0,0,0,0,0,0,0,0,0,
   0,0,0,0,0,0,0,0,0,0,0,3,0,0,4,4]

def actionOfCode : Nat → Action
  | 0 => .ok | 1 => .eof | 2 => .dot | 3 => .leftCurly | _ => .illegal

def action (b : UInt8) : Action := actionOfCode (actionCodes.getD b.toNat 0)

def lockSuffix : Bytes := [0x2e, 0x6c, 0x6f, 0x63, 0x6b]  -- ".lock"

def hasSuffix (s suf : Bytes) : Bool := suf.isSuffixOf s

/-- The body of the `for _, ch := range refname` loop of `validateDatasetIdComponent`.
`full` is the whole remaining refname, `n` = `numChars` before this iteration, `last` the previous
byte (0 initially).  `none` = ErrInvalidDatasetID, `some k` = component length. -/
def compLoop (full : Bytes) : Bytes → UInt8 → Nat → Option Nat
  | [], _, n => if hasSuffix (full.take n) lockSuffix then none else some n
  | ch :: rest, last, n =>
    if ch.toNat > 127 then none else
    match action ch with
    | .ok => compLoop full rest ch (n+1)
    | .eof => if hasSuffix (full.take n) lockSuffix then none else some (n+1)
    | .dot => if last == 0x2e then none else compLoop full rest ch (n+1)
    | .leftCurly => if last == 0x40 then none else compLoop full rest ch (n+1)
    | .illegal => none

/-- `validateDatasetIdComponent`; the Go code indexes `refname[0]`, callers guarantee non-empty. -/
def validateComponent (refname : Bytes) : Option Nat :=
  match refname with
  | [] => none   -- unreachable from ValidateDatasetId (loop guard `len(refname) > 0`)
  | c :: _ => if c == 0x2e then none else compLoop refname refname 0 0

/-- the `for len(refname) > 0` loop, with fuel (sufficiency: `Props/C44`). -/
def validateLoop : Nat → Bytes → Bool
  | _, [] => true
  | 0, _ => false
  | fuel+1, s =>
    match validateComponent s with
    | none => false
    | some k => validateLoop fuel (s.drop k)

/-- `datas.ValidateDatasetId` (true = nil error). -/
def validateDatasetId (s : Bytes) : Bool :=
  if s.isEmpty then false
  else if s == [0x40] then false
  else if hasSuffix s [0x2f] || hasSuffix s [0x2e] then false
  else validateLoop (s.length + 1) s

def isHashChar (b : UInt8) : Bool :=
  (0x30 ≤ b.toNat && b.toNat ≤ 0x39) || (0x61 ≤ b.toNat && b.toNat ≤ 0x76)   -- [0-9a-v]

def looksLikeHash (s : Bytes) : Bool := s.length == 32 && s.all isHashChar

def hasInfix (s pat : Bytes) : Bool :=
  match s with
  | [] => pat.isEmpty
  | _ :: t => pat.isPrefixOf s || hasInfix t pat

/-- `InvalidBranchNameRegex.MatchString`: the seven alternatives as direct predicates. -/
def invalidBranchNameRegex (s : Bytes) : Bool :=
  s.isEmpty || s == [0x48,0x45,0x41,0x44] || s == [0x2d] || looksLikeHash s ||
  hasInfix s [0x2f,0x2f] || [0x2f].isPrefixOf s || hasSuffix s [0x2f]

def isValidBranchName (s : Bytes) : Bool :=
  !invalidBranchNameRegex s && validateDatasetId s

/-! ### ancestor specs -/

def isDigit (b : UInt8) : Bool := 0x30 ≤ b.toNat && b.toNat ≤ 0x39

def digitsVal (ds : Bytes) : Nat := ds.foldl (fun acc d => acc * 10 + (d.toNat - 0x30)) 0

/-- Go's `strconv.Atoi` fails on values outside int64; we mirror that with an explicit bound. -/
def atoiOk (ds : Bytes) : Bool := digitsVal ds < 2^63

inductive SpecErr where
  | invalidAncestor | invalidHead | atoi | invalidBranchOrHash
  deriving DecidableEq, Repr

/-- `parseInstructions`; the instruction list for `~n` has `n` zeros — the model caps nothing, the
harness keeps n small. -/
def parseInstructions : Nat → Bytes → Except SpecErr (List Nat)
  | 0, _ => .ok []
  | _, [] => .ok []
  | fuel+1, c :: rest =>
    let ds := rest.takeWhile isDigit
    let rest' := rest.dropWhile isDigit
    if !ds.isEmpty && !atoiOk ds then .error .atoi else
    let num := if ds.isEmpty then 1 else digitsVal ds
    if c == 0x5e then
      if num == 1 || num == 2 then
        match parseInstructions fuel rest' with
        | .ok is => .ok ((num - 1) :: is)
        | .error e => .error e
      else .error .invalidAncestor
    else if c == 0x7e then
      match parseInstructions fuel rest' with
      | .ok is => .ok (List.replicate num 0 ++ is)
      | .error e => .error e
    else .error .invalidHead

def isSpace (b : UInt8) : Bool :=
  b == 0x20 || b == 0x09 || b == 0x0a || b == 0x0b || b == 0x0c || b == 0x0d

/-- `strings.TrimSpace` restricted to ASCII white space (bytes >= 0x80 are left alone here; the
harness generator emits ASCII + a few high bytes that are not Unicode spaces). -/
def trimSpace (s : Bytes) : Bytes :=
  ((s.dropWhile isSpace).reverse.dropWhile isSpace).reverse

def indexOfSpecChar (s : Bytes) : Option Nat :=
  s.findIdx? (fun b => b == 0x5e || b == 0x7e)

/-- `SplitAncestorSpec`: note the Go code slices the *untrimmed* `s` at an index computed on the
trimmed string. -/
def splitAncestorSpec (s : Bytes) : Except SpecErr (Bytes × List Nat) :=
  let clean := trimSpace s
  match indexOfSpecChar clean with
  | none => .ok (clean, [])
  | some idx =>
    let tail := s.drop idx
    if tail.isEmpty then .ok (clean.take idx, []) else
    match parseInstructions (tail.length + 1) tail with
    | .ok is => .ok (clean.take idx, is)
    | .error e => .error e

inductive BaseKind where | head | hash | ref
  deriving DecidableEq, Repr

def toLower (b : UInt8) : UInt8 := if 0x41 ≤ b.toNat && b.toNat ≤ 0x5a then b + 0x20 else b

/-- `NewCommitSpec` (ASCII `EqualFold` with "head"). -/
def newCommitSpec (s : Bytes) : Except SpecErr (BaseKind × Bytes × List Nat) :=
  match splitAncestorSpec (trimSpace s) with
  | .error e => .error e
  | .ok (name, is) =>
    if name.map toLower == [0x68,0x65,0x61,0x64] then .ok (.head, [0x68,0x65,0x61,0x64], is)
    else if looksLikeHash name then .ok (.hash, name, is)
    else if !isValidBranchName name then .error .invalidBranchOrHash
    else .ok (.ref, name, is)

end DoltVerif.Names
