import DoltVerif.Model.VcsOpsQuery
/-
VcsOps, part 4: the statement family as one inductive type and `Db.apply`, so that properties can be
stated over *all histories* (`Db.run`).  The driver dispatches to the same `Db.*` functions.
-/
namespace DoltVerif.VcsOps

inductive Op where
  | dml (s : Stmt)
  | add (t : String) | addAll
  | commit (mode : CommitMode) (msg : String)
  | branch (b : String) (r : Ref) | tag (b : String) (r : Ref)
  | checkout (b : String) | checkoutNew (b : String) | checkoutMove (b : String) | checkoutTable (t : String)
  | merge (b : String) (noff : Bool) (msg : String)
  | cherryPick (r : Ref) | cherryPickAbort (r : Ref) | revert (r : Ref) | revertAbort (r : Ref)
  | rebase (r : Ref) (plan : List Action)
  | resetHard (r : Option Ref) | resetSoft (r : Option Ref) | resetMixed (r : Ref) | resetTables (ts : Option (List String))
  | stashPush | stashPop | stashDrop

def Db.apply (d : Db) : Op → Res × Db
  | .dml s => d.dml s
  | .add t => d.add [t]
  | .addAll => d.addAll
  | .commit mode msg => d.commitWith mode msg
  | .branch b r => d.newBranch b r
  | .tag b r => d.newTag b r
  | .checkout b => d.checkout b
  | .checkoutNew b => d.checkoutNew b
  | .checkoutMove b => d.checkoutMove b
  | .checkoutTable t => d.checkoutTable t
  | .merge b noff msg => d.mergeBranch b noff msg
  | .cherryPick r => d.cherryPick r
  | .cherryPickAbort r => d.cherryPickAbort r
  | .revert r => d.revert r
  | .revertAbort r => d.revertAbort r
  | .rebase r plan => d.rebase r plan
  | .resetHard r => d.resetHard r
  | .resetSoft r => d.resetSoft r
  | .resetMixed r => d.resetMixed r
  | .resetTables ts => d.resetTables ts
  | .stashPush => d.stashPush
  | .stashPop => d.stashPop
  | .stashDrop => d.stashDrop

/-- the database after a history (results discarded) -/
def Db.run (d : Db) : List Op → Db
  | [] => d
  | op :: rest => (d.apply op).2.run rest

end DoltVerif.VcsOps
