/-!
Order facts the Manifest-family models assume about the Go source, as data, plus the list helpers the
`Tie/Manifest*.lean` files use to compare them with the regenerated `Gen/Manifest*.lean` facts.
-/
namespace DoltVerif.ManOrder

/-- index of the first occurrence -/
def idx (l : List String) (x : String) : Option Nat :=
  let rec go : List String → Nat → Option Nat
    | [], _ => none
    | y :: ys, n => if y == x then some n else go ys (n + 1)
  go l 0

/-- `a` occurs, `b` occurs, and the first `a` is before the first `b` -/
def before (l : List String) (a b : String) : Bool :=
  match idx l a, idx l b with
  | some i, some j => i < j
  | _, _ => false

/-- every occurrence of `b` is after the first occurrence of `a` (and `a`, `b` occur) -/
def allAfter (l : List String) (a b : String) : Bool :=
  match idx l a with
  | none => false
  | some i => l.contains b && ((l.take (i + 1)).all (· != b))

/-- the sublist of events that are in `keep`, in order -/
def project (l keep : List String) : List String := l.filter keep.contains

/-- directly followed by -/
def next (l : List String) (a b : String) : Bool :=
  match idx l a with
  | none => false
  | some i => l[i + 1]? == some b

/-! what the models assume -/

/-- `fileManifest.Update`: the LOCK file is taken first, released by a `defer`, and the whole of
`updateWithChecker` runs in between (ManStore treats `Disk.update` as one atomic step) -/
def lockRegion : List String := ["call:tryFileLock", "defer:fm.lock.Unlock", "call:updateWithChecker"]

/-- `updateManifest`: the order of the events ManStore's `prepare` / `commitResume` transliterate -/
def updateManifestSkeleton : List String :=
  ["if:nbs.upstream.root != last", "return:errLastRootMismatch", "call:nbs.tables.append", "call:nbs.addPendingRefsToHasCache",
   "call:nbs.errorIfDangling", "call:nbs.tables.toSpecs", "call:generateLockHash", "call:nbs.manifest.Update",
   "if:newContents.lock != upstream.lock", "call:handleOptimisticLockFailure", "call:nbs.tables.flatten", "assign:nbs.upstream"]

/-- byte layout fed to SHA-512 by `generateLockHash` -/
def lockHashLayout : List String :=
  ["root[:]", "range appendix: spec.name[:]", "[]byte{0}", "range specs: spec.name[:]",
   "if len(extra) > 0: []byte{0}", "if len(extra) > 0: extra", "[]byte{0}"]

/-- the preimage of the lock hash (extra = nil) -/
def lockPreimage (root : List UInt8) (appendix specs : List (List UInt8)) : List UInt8 :=
  root ++ appendix.flatten ++ [0] ++ specs.flatten ++ [0]

/-- `updateWithChecker`: the steps the C05 writer actor performs, in order -/
def updateWithCheckerSkeleton : List String :=
  ["call:tempfiles.MovableTempFileProvider.NewFile", "defer:temp.Close", "call:writeManifest", "call:temp.Sync", "call:writeHook",
   "call:openIfExists", "call:parseManifest", "if:lastLock != upstream.lock", "call:validate",
   "call:file.Rename", "call:file.SyncDirectoryHandle", "return:newContents, nil"]

/-- grace prune: snapshot, quiescence test, then (under the manifest lock) mtime re-check, keepers, stat, unlink -/
def pruneDirSkeleton : List String :=
  ["call:os.ReadDir", "if:newest.After(cutoff)", "call:unlinkUnderManifestLock"]
def unlinkUnderLockSkeleton : List String :=
  ["call:lock", "defer:release", "call:manifestMtimeChanged", "if:changed", "call:unlinkCandidates"]
def unlinkCandidatesSkeleton : List String :=
  ["for:candidates", "if:!c.isTemp && keep.Has(c.addr)", "call:os.Stat",
   "if:!info.ModTime().Equal(c.modTime) || info.Size() != c.size", "call:file.Remove"]

end DoltVerif.ManOrder
