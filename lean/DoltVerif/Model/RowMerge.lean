/-
RowMerge — model of dolt's row-level three-way table merge (C29), its chunk-level fast path at key
granularity (C30), the conflict table / conflict resolution (C43) and keyless tables (C27).

Core Lean only.  Style: transliteration of
  go/libraries/doltcore/merge/merge_prolly_rows.go   valueMerger.TryMerge / processBaseColumn /
      processColumn / generateSchemaMappings, computeProllyTreePatches (both branches of
      `canFastMergeProllyTrees`), primaryMerger.merge, remapTupleWithColumnDefaults
  go/libraries/doltcore/merge/merge_schema.go        mergeColumns (flags + merged column order)
  go/libraries/doltcore/merge/merge_rows.go          RootMerger.MaybeShortCircuit
  go/store/prolly/tree/three_way_differ.go           ThreeWayDiffer.Next (dsMatch decisions), at key
      granularity: the two-cursor zip and the chunk-range patches of SendPatches are the subject of
      C13/C14; here a table is a key-sorted association list and the merge is key-wise.
  go/libraries/doltcore/sqle/dprocedures/dolt_conflicts_resolve.go   ResolveDataConflictsForTable
Bugs included (see `rowDiff`; the repaired §11(f) choice is `leftTypeSchemaInRightDeleteBranch`).

Universe: cells are NULL | int | short string; column types int | str; one integer primary key.
A column is identified by `id` (plays the role of both tag and name: the generator never re-uses a
name with another type).  A stored row is the list of its non-key fields *in its own schema's
order* — byte equality of tuples is list equality of rows (an int field and a string field never
have equal bytes for the generated alphabet).
-/
namespace DoltVerif.RowMerge

inductive Ty | int | str
deriving DecidableEq, Repr, Inhabited

inductive Cell
  | int (i : Int)
  | str (s : String)
deriving DecidableEq, Repr, Inhabited

/-- `none` = SQL NULL -/
abbrev Val := Option Cell

structure Col where
  id : Nat
  ty : Ty
deriving DecidableEq, Repr, Inhabited

abbrev Schema := List Col
abbrev Row := List Val
abbrev Key := Int
/-- a keyed table: association list, strictly ascending keys -/
abbrev Rows := List (Key × Row)

inductive Err
  | truncated        -- sql.ErrTruncatedIncorrect from Type.Convert ("Truncated incorrect int value")
  | panic            -- index out of range (recovered by mergeProllyTableData, returned as error)
  | keylessReorder   -- "cannot merge keyless tables with reordered columns"
  | schemaConflict   -- SchemaMerge reported column conflicts
  | confSchIncompatible -- dolt_conflicts_resolve: ErrConfSchIncompatible
deriving DecidableEq, Repr, Inhabited

/-! ## values: Type.Convert and Type.Compare of go-mysql-server on the closed universe -/

/-- `strconv`-style decimal parse; the generator emits only `[a-z]+` or canonical decimals. -/
def parseInt (s : String) : Option Int := s.toInt?

/-- `toType.Convert(v)` -/
def convert (ty : Ty) : Val → Except Err Val
  | none => .ok none
  | some (.int i) =>
    match ty with
    | .int => .ok (some (.int i))
    | .str => .ok (some (.str (toString i)))
  | some (.str s) =>
    match ty with
    | .str => .ok (some (.str s))
    | .int =>
      match parseInt s with
      | some i => .ok (some (.int i))
      | none => .error .truncated

/-- `convertToInt64` inside `NumberTypeImpl_.Compare`: a conversion error yields 0 (number.go). -/
def toI : Cell → Int
  | .int i => i
  | .str s => match parseInt s with | some i => i | none => 0

/-- `StringType.Convert` inside `StringType.Compare` -/
def toS : Cell → String
  | .int i => toString i
  | .str s => s

/-- `ty.Compare(a, b) == 0` (errors of Compare are dropped by every caller in TryMerge) -/
def eqUnder (ty : Ty) : Val → Val → Bool
  | none, none => true
  | none, some _ => false
  | some _, none => false
  | some x, some y =>
    match ty with
    | .int => toI x == toI y
    | .str => toS x == toS y

def Cell.hasTy : Cell → Ty → Bool
  | .int _, .int => true
  | .str _, .str => true
  | _, _ => false

def Val.hasTy : Val → Ty → Bool
  | none, _ => true
  | some c, t => c.hasTy t

/-- a row is well typed for a schema: same length, every field NULL or of the column's type -/
def rowOk : Schema → Row → Bool
  | [], [] => true
  | c :: cs, v :: vs => Val.hasTy v c.ty && rowOk cs vs
  | _, _ => false

/-! ## schema mappings (generateSchemaMappings / findNonPKColumnMappingByTagOrName) -/

def findCol : Schema → Nat → Option Nat
  | [], _ => none
  | c :: cs, id => if c.id == id then some 0 else (findCol cs id).map (· + 1)

/-- for every column of `dst`, its index in `src` (`none` = -1) -/
def mapping (dst src : Schema) : List (Option Nat) := dst.map (fun c => findCol src c.id)

def isIdentityAux : Nat → List (Option Nat) → Bool
  | _, [] => true
  | i, m :: ms => (m == some i) && isIdentityAux (i + 1) ms

/-- `OrdinalMapping.IsIdentityMapping` -/
def isIdentity (m : List (Option Nat)) : Bool := isIdentityAux 0 m

structure VM where
  baseSch : Schema
  leftSch : Schema
  rightSch : Schema
  resultSch : Schema
  keyless : Bool
deriving Repr

namespace VM
def leftMapping (m : VM) := mapping m.resultSch m.leftSch
def rightMapping (m : VM) := mapping m.resultSch m.rightSch
def baseMapping (m : VM) := mapping m.resultSch m.baseSch
def baseToLeft (m : VM) := mapping m.baseSch m.leftSch
def baseToRight (m : VM) := mapping m.baseSch m.rightSch
end VM

/-- **The schema consulted for the LEFT column's type in the "right side deleted the row" branch of
`processBaseColumn`** (merge_prolly_rows.go:2084).  Up to dolt commit 64cd79f the code read
`m.rightSchema` (indexing it with the *left* column index) — DESIGN §11(f), kept below as
`leftTypeSchemaBuggy`; the `fix:` commit changed it to `m.leftSchema`.  Every theorem about this
branch is stated over `processBaseColumnG pick`, so both choices are covered: `merge_total` holds
for this definition and is refuted for the old one (`Props/C29`). -/
def leftTypeSchemaInRightDeleteBranch (m : VM) : Schema := m.leftSch

/-- the choice before the fix (the defect): the RIGHT schema, indexed with the LEFT column index -/
def leftTypeSchemaBuggy (m : VM) : Schema := m.rightSch

/-- `getColumn(tuple, mapping, idx)`: (field, colIdx) ; `(none, none)` = (nil, -1, false).
`Tuple.GetField` returns nil (NULL) past the field count. -/
def getColumn (tuple : Row) (mp : List (Option Nat)) (idx : Nat) : Except Err (Val × Option Nat) :=
  match mp[idx]? with
  | none => .error .panic
  | some none => .ok (none, none)
  | some (some j) =>
    match tuple[j]? with
    | some v => .ok (v, some j)
    | none => .ok (none, some j)

/-- `sch.GetNonPKCols().GetByIndex(i).TypeInfo` — panics out of range -/
def colTy (sch : Schema) (i : Nat) : Except Err Ty :=
  match sch[i]? with
  | some c => .ok c.ty
  | none => .error .panic

/-- `convert(ctx, fromDesc, toType, fromIndex, tuple, ns)` -/
def convertField (toTy : Ty) (tuple : Row) (idx : Nat) : Except Err Val :=
  match tuple[idx]? with
  | some v => convert toTy v
  | none => .ok none

/-- `processBaseColumn` with the schema choice of the right-delete branch as a parameter -/
def processBaseColumnG (pick : VM → Schema) (m : VM) (i : Nat) (left right base : Option Row) :
    Except Err Bool :=
  match base with
  | none => .ok false
  | some b =>
    match left, right with
    | none, none => .ok false   -- unreachable from the differ (convergent delete); Go would deref nil
    | none, some r => do
      let (_, rIdx) ← getColumn r m.baseToRight i
      match rIdx with
      | none => pure false
      | some j =>
        let rightType ← colTy m.rightSch j
        let baseVal ← convertField rightType b i
        let rightVal := (r[j]?).join
        pure (!eqUnder rightType baseVal rightVal)
    | some l, none => do
      let (_, lIdx) ← getColumn l m.baseToLeft i
      match lIdx with
      | none => pure false
      | some j =>
        let leftType ← colTy (pick m) j
        let baseVal ← convertField leftType b i
        let leftVal := (l[j]?).join
        pure (!eqUnder leftType baseVal leftVal)
    | some l, some r => do
      let (_, rIdx) ← getColumn r m.baseToRight i
      let (_, lIdx) ← getColumn l m.baseToLeft i
      match lIdx, rIdx with
      | some _, some _ => pure false
      | none, none => pure false
      | none, some j =>
        let modifiedVal := (r[j]?).join
        let ty ← colTy m.rightSch j
        let baseVal ← convertField ty b i
        pure (!eqUnder ty modifiedVal baseVal)
      | some j, none =>
        let modifiedVal := (l[j]?).join
        let ty ← colTy m.leftSch j
        let baseVal ← convertField ty b i
        pure (!eqUnder ty modifiedVal baseVal)

/-- which of two equal-under-the-type values is returned (`bytes.Compare(leftCol, rightCol) > 0`);
the merged value does not depend on it (`Lemmas`: both are the same converted value). -/
def rawGt : Val → Val → Bool
  | some (.int a), some (.int b) => a > b
  | some (.str a), some (.str b) => a > b
  | some _, none => true
  | _, _ => false

/-- `processColumn`: merged value of column `i` of the result schema, or conflict.
`left` and `right` are both present (asserted by TryMerge's callers). -/
def processColumn (m : VM) (i : Nat) (left right : Row) (base : Option Row) :
    Except Err (Val × Bool) := do
  let sqlType ← colTy m.resultSch i
  let (baseCol, baseIdx) ← match base with
    | some b => getColumn b m.baseMapping i
    | none => pure (none, none)
  let (leftCol, leftIdx) ← getColumn left m.leftMapping i
  let (rightCol, rightIdx) ← getColumn right m.rightMapping i
  match base, baseIdx with
  | none, _ | some _, none =>
    -- the base row or the base column does not exist: inserts
    match rightIdx with
    | none =>
      match leftIdx with
      | some li => do let v ← convertField sqlType left li; pure (v, false)
      | none => .error .panic        -- convert(…, -1, …): GetField(-1) panics
    | some ri => do
      let rightVal ← convertField sqlType right ri
      match leftIdx with
      | none => pure (rightVal, false)
      | some li =>
        let leftVal ← convertField sqlType left li
        if eqUnder sqlType leftVal rightVal then
          pure (if rawGt leftCol rightCol then leftVal else rightVal, false)
        else pure (none, true)
  | some b, some bi => do
    let baseVal ← match baseCol with
      | some _ => convertField sqlType b bi
      | none => pure none
    match leftIdx, rightIdx with
    | none, none => pure (none, false)
    | _, _ =>
      let (rightVal, rightModified) ← match rightIdx with
        | none => pure (none, baseCol.isSome)
        | some ri => do
          let rv ← convertField sqlType right ri
          pure (rv, !eqUnder sqlType rv baseVal)
      let leftVal ← match leftIdx with
        | some li => convertField sqlType left li
        | none => .error .panic      -- convert(…, -1, …)
      if eqUnder sqlType leftVal rightVal then
        pure (if rawGt leftCol rightCol then leftVal else rightVal, false)
      else
        let leftModified := !eqUnder sqlType leftVal baseVal
        if leftModified && rightModified then pure (none, true)
        else if leftModified then pure (leftVal, false)
        else pure (rightVal, false)

/-- run `f 0 … f (n-1)`, stop at the first error or the first `true` -/
def anyConflict (f : Nat → Except Err Bool) : Nat → Nat → Except Err Bool
  | 0, _ => .ok false
  | n + 1, i => do
    if (← f i) then pure true else anyConflict f n (i + 1)

/-- build the merged tuple column by column; `none` = conflict -/
def mergeCols (f : Nat → Except Err (Val × Bool)) : Nat → Nat → Except Err (Option Row)
  | 0, _ => .ok (some [])
  | n + 1, i => do
    let (v, c) ← f i
    if c then pure none else
    match ← mergeCols f n (i + 1) with
    | none => pure none
    | some vs => pure (some (v :: vs))

/-- `valueMerger.TryMerge(left, right, base)`: `(merged, ok)`; `ok = false` is a conflict;
`(none, true)` is "one side deleted the row, the other did not really modify it". -/
def tryMergeG (pick : VM → Schema) (m : VM) (left right base : Option Row) :
    Except Err (Option Row × Bool) := do
  if m.keyless then return (none, false)
  if (← anyConflict (fun i => processBaseColumnG pick m i left right base) m.baseSch.length 0) then
    return (none, false)
  match base, left, right with
  | some _, none, some _ => pure (none, true)
  | some _, some _, none => pure (none, true)
  | _, some l, some r =>
    match ← mergeCols (fun i => processColumn m i l r base) m.resultSch.length 0 with
    | none => pure (none, false)
    | some row => pure (some row, true)
  | _, _, _ => .error .panic     -- a nil tuple reaches processColumn

def tryMerge := tryMergeG leftTypeSchemaInRightDeleteBranch

/-! ## schema merge (mergeColumns) for columns identified by id -/

structure Flags where
  leftNeedsRewrite : Bool := false
  rightNeedsRewrite : Bool := false
  leftSchemaChange : Bool := false
  rightSchemaChange : Bool := false
deriving DecidableEq, Repr, Inhabited

def Flags.or (a b : Flags) : Flags :=
  { leftNeedsRewrite := a.leftNeedsRewrite || b.leftNeedsRewrite
    rightNeedsRewrite := a.rightNeedsRewrite || b.rightNeedsRewrite
    leftSchemaChange := a.leftSchemaChange || b.leftSchemaChange
    rightSchemaChange := a.rightSchemaChange || b.rightSchemaChange }

def lookupCol (sch : Schema) (id : Nat) : Option Col := sch.find? (fun c => c.id == id)

/-- one `columnMapping` of mergeColumns: (merged column if any, flags) or a column conflict -/
def mergeOneColumn (anc ours theirs : Option Col) : Except Err (Option Col × Flags) :=
  match anc, ours, theirs with
  | none, none, some t => .ok (some t, { leftNeedsRewrite := true, rightSchemaChange := true })
  | none, some o, none => .ok (some o, { rightNeedsRewrite := true, leftSchemaChange := true })
  | some _, none, some _ => .ok (none, { rightNeedsRewrite := true, leftSchemaChange := true })
  | some _, some _, none => .ok (none, { leftNeedsRewrite := true, rightSchemaChange := true })
  | _, none, none => .ok (none, { leftSchemaChange := true, rightSchemaChange := true })
  | some a, some o, some t =>
    if a = o ∧ a = t then .ok (some o, {})
    else .error .schemaConflict      -- a type change int<->str is never compatible
  | none, some o, some t =>
    if o = t then .ok (some o, { leftSchemaChange := true, rightSchemaChange := true })
    else .error .schemaConflict

def mergeColumnsAux (anc : Schema) (f : Col → Option Col × Option Col) :
    List Col → Except Err (Schema × Flags)
  | [] => .ok ([], {})
  | c :: cs => do
    let (o, t) := f c
    let (mc, fl) ← mergeOneColumn (lookupCol anc c.id) o t
    let (rest, fl') ← mergeColumnsAux anc f cs
    pure (match mc with | some x => x :: rest | none => rest, fl.or fl')

/-- `mergeColumns`: ours' columns in ours' order, then the columns only theirs has. -/
def mergeColumns (anc ours theirs : Schema) : Except Err (Schema × Flags) := do
  let (a, f1) ← mergeColumnsAux anc (fun c => (some c, lookupCol theirs c.id)) ours
  let theirOnly := theirs.filter (fun c => (lookupCol ours c.id).isNone)
  let (b, f2) ← mergeColumnsAux anc (fun c => (none, some c)) theirOnly
  pure (a ++ b, f1.or f2)

/-- `SchemaMerge` + the rewrite decisions of `mergeProllyTable` -/
def schemaMerge (anc ours theirs : Schema) : Except Err (Schema × Flags) := do
  if anc = ours ∧ anc = theirs then return (ours, {})
  let (merged, fl) ← mergeColumns anc ours theirs
  let lrw := !isIdentity (mapping merged ours) || (ours.map (·.ty) != merged.map (·.ty))
  let rrw := !isIdentity (mapping merged theirs) || (theirs.map (·.ty) != merged.map (·.ty))
  pure (merged, { fl with leftNeedsRewrite := fl.leftNeedsRewrite || lrw,
                          rightNeedsRewrite := fl.rightNeedsRewrite || rrw })

/-! ## tables -/

def get : Rows → Key → Option Row
  | [], _ => none
  | (k', r) :: rest, k => if k' = k then some r else get rest k

/-- sorted union of the keys of three key-sorted tables (insertion into a sorted duplicate-free list) -/
def insertKey (k : Key) : List Key → List Key
  | [] => [k]
  | x :: xs => if k < x then k :: x :: xs else if k = x then x :: xs else x :: insertKey k xs

def allKeys (a b c : Rows) : List Key :=
  (a ++ b ++ c).foldr (fun p acc => insertKey p.1 acc) []

/-- `remapTupleWithColumnDefaults` for columns without defaults: missing columns become NULL,
existing ones are converted to the merged column's type (`convertValueToNewType`). -/
def remapAux (merged : Schema) (row : Row) : List (Option Nat) → Schema → Except Err Row
  | [], _ => .ok []
  | _ :: _, [] => .error .panic
  | none :: ms, _ :: cs => do let rest ← remapAux merged row ms cs; pure (none :: rest)
  | some j :: ms, c :: cs => do
    let v ← convertField c.ty row j
    let rest ← remapAux merged row ms cs
    pure (v :: rest)

def remap (merged side : Schema) (row : Row) : Except Err Row :=
  remapAux merged row (mapping merged side) merged

/-- `val.NewTuple` trims trailing NULL fields (`trimNullSuffix`): the stored tuple of a row is the
row without its trailing NULLs. -/
def trimNulls : Row → Row
  | [] => []
  | v :: vs =>
    match v, trimNulls vs with
    | none, [] => []
    | v, t => v :: t

/-- `bytes.Equal` on two stored tuples — also used by the differ on tuples of *different* schemas -/
def rawEq (a b : Row) : Bool := trimNulls a == trimNulls b

def rawEqOpt : Option Row → Option Row → Bool
  | none, none => true
  | some a, some b => rawEq a b
  | _, _ => false

/-- tree.DiffType between the base row and a side's row.  `schemaChange` =
`ThreeWayDiffInfo.{Left,Right}SchemaChange`: rows present on both are then always "modified".
Otherwise a difference is detected on the **stored bytes**, i.e. on the rows as lists in their own
schemas (`rawEq`) — also when the two schemas order their columns differently (a pure reorder sets
no flag) or differ in length (trailing NULLs are not stored): known finding merge-reorder-rawbytes. -/
inductive DiffType | none | added | removed | modified
deriving DecidableEq, Repr

def rowDiff (schemaChange : Bool) (base side : Option Row) : DiffType :=
  match base, side with
  | none, none => .none
  | none, some _ => .added
  | some _, none => .removed
  | some b, some s => if schemaChange || !rawEq b s then .modified else .none

inductive Op
  | none | leftAdd | leftModify | leftDelete | rightAdd | rightModify | rightDelete
  | convergentAdd | convergentModify | convergentDelete
  | divergentModifyResolved | divergentDeleteConflict | divergentModifyConflict | divergentDeleteResolved
deriving DecidableEq, Repr

structure Stats where
  adds : Nat := 0
  modifications : Nat := 0
  deletes : Nat := 0
  dataConflicts : Nat := 0
deriving DecidableEq, Repr, Inhabited

/-- what the merge does with one key -/
structure KeyOut where
  op : Op
  row : Option Row      -- the row under this key in the merged table
  conflict : Bool
deriving DecidableEq, Repr

structure Cfg where
  vm : VM
  flags : Flags
deriving Repr

/-- `primaryMerger.merge` for left-side / conflict diffs: keep or migrate the left row -/
def keepLeft (c : Cfg) (l : Option Row) : Except Err (Option Row) :=
  match l with
  | none => .ok none
  | some row =>
    if !c.flags.leftNeedsRewrite then .ok (some row)
    else if c.vm.keyless then
      (if isIdentity c.vm.leftMapping then .ok (some row) else .error .keylessReorder)
    else do let r ← remap c.vm.resultSch c.vm.leftSch row; pure (some r)

def takeRight (c : Cfg) (row : Row) : Except Err (Option Row) :=
  if c.vm.keyless then
    (if isIdentity c.vm.rightMapping then .ok (some row) else .error .keylessReorder)
  else if !c.flags.rightNeedsRewrite then .ok (some row)
  else do let r ← remap c.vm.resultSch c.vm.rightSch row; pure (some r)

/-- dsMatch with one side's row deleted: TryMerge decides between "resolved" and conflict -/
def divergentDelete (pick : VM → Schema) (c : Cfg) (b l r : Option Row) : Except Err KeyOut := do
  let (_, ok) ← tryMergeG pick c.vm l r b
  if ok then pure ⟨.divergentDeleteResolved, none, false⟩
  else pure ⟨.divergentDeleteConflict, ← keepLeft c l, true⟩

/-- dsMatch: both sides have a diff for the key -/
def matchBoth (pick : VM → Schema) (c : Cfg) (ld rd : DiffType) (b l r : Option Row) :
    Except Err KeyOut :=
  match l, r with
  | none, none => .ok ⟨.convergentDelete, none, c.vm.keyless⟩
  | none, some _ => divergentDelete pick c b l r
  | some _, none => divergentDelete pick c b l r
  | some ll, some rr =>
    if ld = rd ∧ rawEq ll rr = true then
      .ok ⟨if ld = .added then .convergentAdd else .convergentModify, l, c.vm.keyless⟩
    else do
      let (mrg, ok) ← tryMergeG pick c.vm l r b
      if ok then pure ⟨.divergentModifyResolved, mrg, false⟩
      else pure ⟨.divergentModifyConflict, ← keepLeft c l, true⟩

/-- ThreeWayDiffer.Next (dsNewLeft / dsNewRight / dsMatch) followed by the `switch diff.Op` of
computeProllyTreePatches' row path, for one key. -/
def mergeKeySlowG (pick : VM → Schema) (c : Cfg) (b l r : Option Row) : Except Err KeyOut :=
  let ld := rowDiff c.flags.leftSchemaChange b l
  let rd := rowDiff c.flags.rightSchemaChange b r
  if rd = .none then
    -- dsNewLeft (or no diff at all)
    match ld with
    | .none => .ok ⟨.none, l, false⟩
    | .added => do pure ⟨.leftAdd, ← keepLeft c l, false⟩
    | .modified => do pure ⟨.leftModify, ← keepLeft c l, false⟩
    | .removed => .ok ⟨.leftDelete, none, false⟩
  else if ld = .none then
    -- dsNewRight
    match r with
    | some rr => do pure ⟨if rd = .added then .rightAdd else .rightModify, ← takeRight c rr, false⟩
    | none => .ok ⟨.rightDelete, none, false⟩
  else matchBoth pick c ld rd b l r

/-- the chunk-level path (`canFastMergeProllyTrees`): SendPatches over point patches -/
def mergeKeyFastG (pick : VM → Schema) (c : Cfg) (b l r : Option Row) : Except Err KeyOut :=
  let ld := rowDiff false b l
  let rd := rowDiff false b r
  if rd = .none then .ok ⟨.none, l, false⟩           -- no right patch: already on the left map
  else if ld = .none then .ok ⟨.none, r, false⟩      -- right patch applied as is
  else if rawEqOpt l r = true then .ok ⟨.none, l, false⟩   -- bytes.Equal(left.To, right.To)
  else do
    let (mrg, ok) ← tryMergeG pick c.vm l r b
    if ok then pure ⟨.divergentModifyResolved, mrg, false⟩
    else pure ⟨.divergentModifyConflict, l, true⟩

/-- the counters of merge.MergeStats incremented by the row path -/
def statOf (o : Op) (s : Stats) : Stats :=
  match o with
  | .rightAdd => { s with adds := s.adds + 1 }
  | .rightModify | .divergentModifyResolved => { s with modifications := s.modifications + 1 }
  | .rightDelete | .divergentDeleteResolved => { s with deletes := s.deletes + 1 }
  | _ => s

structure Merged where
  sch : Schema
  rows : Rows
  conflicts : List Key
  stats : Stats
  path : String           -- "short" | "fast" | "slow"
deriving DecidableEq, Repr

/-- fold the per-key outcomes in key order (first error aborts the merge) -/
def mergeKeys (f : Option Row → Option Row → Option Row → Except Err KeyOut) (slow : Bool)
    (base left right : Rows) : List Key → Except Err (Rows × List Key × Stats)
  | [] => .ok ([], [], {})
  | k :: ks => do
    let o ← f (get base k) (get left k) (get right k)
    let (rows, confs, st) ← mergeKeys f slow base left right ks
    let rows' := match o.row with | some r => (k, r) :: rows | none => rows
    let confs' := if o.conflict then k :: confs else confs
    let st' := if slow then statOf o.op st else st
    pure (rows', confs', st')

/-- `canFastMergeProllyTrees` for tables without indexes, checks, unique keys and NOT NULL columns -/
def canFast (c : Cfg) : Bool :=
  !c.vm.keyless && !c.flags.leftNeedsRewrite && !c.flags.rightNeedsRewrite &&
  !c.flags.leftSchemaChange && !c.flags.rightSchemaChange

structure Table where
  sch : Schema
  rows : Rows
deriving DecidableEq, Repr

/-- `RootMerger.MergeTable` for a table present in all three roots (keyed).
`forceSlow` = the verif hook that disables the fast path. -/
def mergeTableG (pick : VM → Schema) (forceSlow : Bool) (base left right : Table) :
    Except Err Merged := do
  -- MaybeShortCircuit (table hashes = schema + rows)
  if left = right then return ⟨left.sch, left.rows, [], {}, "short"⟩
  if right = base then return ⟨left.sch, left.rows, [], {}, "short"⟩
  if left = base then return ⟨right.sch, right.rows, [], {}, "short"⟩
  let (msch, fl) ← schemaMerge base.sch left.sch right.sch
  let c : Cfg := ⟨⟨base.sch, left.sch, right.sch, msch, false⟩, fl⟩
  let keys := allKeys base.rows left.rows right.rows
  if canFast c && !forceSlow then
    let (rows, confs, st) ← mergeKeys (mergeKeyFastG pick c) false base.rows left.rows right.rows keys
    pure ⟨msch, rows, confs, { st with dataConflicts := confs.length }, "fast"⟩
  else
    let (rows, confs, st) ← mergeKeys (mergeKeySlowG pick c) true base.rows left.rows right.rows keys
    pure ⟨msch, rows, confs, { st with dataConflicts := confs.length }, "slow"⟩

def mergeTable := mergeTableG leftTypeSchemaInRightDeleteBranch false

/-- what SQL shows of a stored tuple under a schema: field `i` of the tuple for column `i`
(`Tuple.GetField` is NULL past the field count; extra fields are not looked at) -/
def viewRow (sch : Schema) (row : Row) : Row :=
  (List.range sch.length).map (fun i => (row[i]?).join)

def viewRows (sch : Schema) (rows : Rows) : Rows := rows.map (fun (k, r) => (k, viewRow sch r))

/-! ## conflict table and resolution (C43) -/

/-- one row of `dolt_conflicts_<t>`: key, base row (base schema), our row (current table, merged
schema), their row (their schema) -/
structure ConfRow where
  key : Key
  base : Option Row
  ours : Option Row
  theirs : Option Row
deriving DecidableEq, Repr

def conflictRows (base right : Table) (m : Merged) : List ConfRow :=
  m.conflicts.map (fun k =>
    ⟨k, (get base.rows k).map (viewRow base.sch), (get m.rows k).map (viewRow m.sch),
        (get right.rows k).map (viewRow right.sch)⟩)

def put (k : Key) (r : Row) : Rows → Rows
  | [] => [(k, r)]
  | (k', r') :: rest =>
    if k < k' then (k, r) :: (k', r') :: rest
    else if k = k' then (k, r) :: rest
    else (k', r') :: put k r rest

def del (k : Key) : Rows → Rows
  | [] => []
  | (k', r') :: rest => if k = k' then del k rest else (k', r') :: del k rest

/-- `resolveProllyConflicts`: every conflicted key takes their row (raw) or is deleted -/
def applyTheirs (right : Rows) : List Key → Rows → Rows
  | [], rows => rows
  | k :: ks, rows =>
    applyTheirs right ks (match get right k with | some r => put k r rows | none => del k rows)

/-- `ResolveDataConflictsForTable` (ours = true / false); returns the table with conflicts cleared -/
def resolve (ours : Bool) (right : Table) (m : Merged) : Except Err Merged :=
  if m.conflicts.isEmpty then .ok m
  else if ours then .ok { m with conflicts := [] }
  else if m.sch != right.sch then .error .confSchIncompatible
  else .ok { m with rows := applyTheirs right.rows m.conflicts m.rows, conflicts := [] }

end DoltVerif.RowMerge
