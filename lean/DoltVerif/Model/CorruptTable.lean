import DoltVerif.Model.CorruptBytes
/-
C10 — panic-faithful transliteration of the table-file read path
  go/store/nbs/table_index.go   ReadTableFooter, parseTableIndex, newOnHeapTableIndex,
                                onHeapTableIndex.{findPrefix,prefixAt,ordinalAt,tupleAt,
                                entrySuffixMatches,offsetAt,getIndexEntry,lookupOrdinal,lookup,indexEntry}
  go/store/nbs/index_transformer.go  OffsetsReader (lengths → running offsets, written back in place)
  go/store/nbs/table_reader.go  NewCompressedChunk, tableReader.{has,get,iterateAllChunks}
  go/store/nbs/file_table_reader.go  nomsFileTableReader (chunk count from the manifest)
  go/store/nbs/chunk_source_adapter.go newReaderFromIndexData → readTableIndexByCopy

Go integer widths: `count` is uint32, products with untyped constants stay uint32
(`chunks1*offsetSize` can wrap), `uint64(ord)*12`, `int64(idx)*12` cannot; `int` is 64 bit.
Slices of `indexBuff` keep the capacity of the whole buffer, so e.g. `ti.suffixes[o:o+12]` is
checked against `len(indexBuff) - 16*count`, not against `12*count`.
-/
namespace DoltVerif.Corrupt.Table
open DoltVerif.Corrupt

def magic : Bytes := [0xff, 0xb5, 0xd8, 0xc2, 0x24, 0x63, 0xee, 0x50]
def doltMagic : Bytes := [0x44, 0x4f, 0x4c, 0x54, 0x41, 0x52, 0x43]   -- "DOLTARC"
def uint32Size : Nat := 4
def uint64Size : Nat := 8
def magicNumberSize : Nat := 8
def doltMagicSize : Nat := 7
def footerSize : Nat := uint32Size + uint64Size + magicNumberSize
def prefixLen : Nat := 8
def suffixLen : Nat := 12
def ordinalSize : Nat := 4
def lengthSize : Nat := 4
def offsetSize : Nat := 8
def prefixTupleSize : Nat := prefixLen + ordinalSize
def checksumSize : Nat := 4
def iterBufSize : Nat := 4 * 1024 * 1024
def indexSize (count : Nat) : Nat := count * (suffixLen + lengthSize + prefixTupleSize)

/-- `ReadTableFooter(bytes.NewReader(b))` → (chunkCount, totalUncompressedData). -/
def readTableFooter (b : Bytes) : R (Nat × Nat) := do
  if b.length < footerSize then throw .seek            -- rd.Seek(-footerSize, io.SeekEnd): negative position
  let footer := b.drop (b.length - footerSize)          -- io.ReadFull(rd, footer): exactly footerSize bytes
  let m ← goSliceFrom footer 0 footer.length (uint32Size + uint64Size)
  if m ≠ magic then
    let pd ← goSliceFrom footer 0 footer.length (footer.length - doltMagicSize)
    if pd = doltMagic then throw .unsupportedFormat else throw .invalidTableFile
  let c ← be32 footer
  let rest ← goSliceFrom footer 0 footer.length uint32Size
  let t ← be64 rest
  return (c, t)

/-- the table index after `newOnHeapTableIndex` -/
structure TableIndex where
  mbuff : Bytes     -- indexBuff after the in-place rewrite of the lengths region into offsets
  offs1 : Bytes     -- offsetsBuff1
  count : Nat
  total : Nat
  deriving Repr

def lengthsOf : Bytes → List Nat
  | a :: b :: c :: d :: rest => beNat [a, b, c, d] :: lengthsOf rest
  | _ => []

def prefixSums (acc : Nat) : List Nat → List Nat
  | [] => []
  | x :: xs => (acc + x) :: prefixSums (acc + x) xs

/-- `newOnHeapTableIndex(buff, offsetsBuff1, count, total)` with
`len(offsetsBuff1) = int(chunks1*offsetSize)` (uint32 product) as `parseTableIndex` allocates it. -/
def newOnHeapTableIndex (b : Bytes) (count total : Nat) : R TableIndex := do
  let chunks1 := count - count / 2
  let offs1Len := (chunks1 * offsetSize) % two32
  if b.length ≠ indexSize count + footerSize then throw .wrongBufferSize
  let tuples ← goSlice b 0 0 (prefixTupleSize * count)
  let lengths ← goSlice b 0 (prefixTupleSize * count) (prefixTupleSize * count + lengthSize * count)
  let _ ← goSlice b 0 (prefixTupleSize * count + lengthSize * count) (indexSize count)
  let _ ← goSliceFrom b 0 b.length (indexSize count)
  let chunks2 := count / 2
  let sums := prefixSums 0 (lengthsOf lengths)
  let consumed1 := offs1Len / offsetSize                 -- lengths converted by io.ReadFull(r, offsetsBuff1)
  let offs1 := (sums.take consumed1).flatMap (natBE 8)
  if chunks2 > 0 then
    let _ ← goSlice b (prefixTupleSize * count) 0 (chunks2 * offsetSize)   -- offsetsBuff2[:chunks2*offsetSize]
  let offs2 := ((sums.drop consumed1).take chunks2).flatMap (natBE 8)
  let mbuff := tuples ++ offs2 ++ lengths.drop (chunks2 * offsetSize) ++ b.drop ((prefixTupleSize + lengthSize) * count)
  return { mbuff := mbuff, offs1 := offs1, count := count, total := total }

/-- `parseTableIndex(ctx, buff, q)` -/
def parseTableIndex (b : Bytes) : R TableIndex := do
  let (count, total) ← readTableFooter b
  newOnHeapTableIndex b count total

namespace TableIndex

def prefixAt (ti : TableIndex) (idx : Nat) : R Nat := do
  let s ← goSlice ti.mbuff 0 (prefixTupleSize * idx) (prefixTupleSize * idx + prefixLen)
  be64 s

def ordinalAt (ti : TableIndex) (idx : Nat) : R Nat := do
  let off := prefixTupleSize * idx + prefixLen
  let s ← goSlice ti.mbuff 0 off (off + ordinalSize)
  be32 s

/-- `tupleAt` : (prefix bytes, ordinal) -/
def tupleAt (ti : TableIndex) (idx : Nat) : R (Bytes × Nat) := do
  let off := prefixTupleSize * idx
  let b ← goSlice ti.mbuff 0 off (off + prefixTupleSize)
  let _ ← be64 b
  let o ← goSliceFrom b 0 b.length prefixLen
  let ord ← be32 o
  return (b.take prefixLen, ord)

/-- `ti.suffixes[o : o+12]` with `ti.suffixes = indexBuff[16*count : 28*count]` -/
def suffixAt (ti : TableIndex) (ord : Nat) : R Bytes :=
  let o := ord * suffixLen
  goSlice ti.mbuff ((prefixTupleSize + lengthSize) * ti.count) o (o + suffixLen)

def entrySuffixMatches (ti : TableIndex) (idx : Nat) (h : Bytes) : R Bool := do
  let ord ← ti.ordinalAt idx
  let b ← ti.suffixAt ord
  return (h.drop prefixLen == b)

def offsetAt (ti : TableIndex) (ord : Nat) : R Nat := do
  let chunks1 := ti.count - ti.count / 2
  if ord < chunks1 then
    let off := offsetSize * ord
    let b ← goSlice ti.offs1 0 off (off + offsetSize)
    be64 b
  else
    let off := offsetSize * (ord - chunks1)
    let b ← goSlice ti.mbuff (prefixTupleSize * ti.count) off (off + offsetSize)
    be64 b

/-- `getIndexEntry(ord)` → (offset, length) -/
def getIndexEntry (ti : TableIndex) (ord : Nat) : R (Nat × Nat) := do
  let prev ← if ord == 0 then pure 0 else ti.offsetAt (ord - 1)
  let cur ← ti.offsetAt ord
  return (prev, sub64 cur prev % two32)

def findPrefixLoop (ti : TableIndex) (pfx : Nat) : Nat → Nat → Nat → R Nat
  | 0, idx, _ => pure idx
  | fuel + 1, idx, j =>
    if idx < j then do
      let h := idx + (j - idx) / 2
      let t ← ti.prefixAt h
      if t < pfx then findPrefixLoop ti pfx fuel (h + 1) j else findPrefixLoop ti pfx fuel idx h
    else pure idx

def findPrefix (ti : TableIndex) (pfx : Nat) : R Nat := findPrefixLoop ti pfx (ti.count + 1) 0 ti.count

def lookupLoop (ti : TableIndex) (h : Bytes) (pfx : Nat) : Nat → Nat → R Nat
  | 0, _ => pure ti.count
  | fuel + 1, idx =>
    if idx < ti.count then do
      let p ← ti.prefixAt idx
      if p == pfx then do
        let m ← ti.entrySuffixMatches idx h
        if m then ti.ordinalAt idx else lookupLoop ti h pfx fuel (idx + 1)
      else pure ti.count
    else pure ti.count

/-- `lookupOrdinal(h)`: `ti.count` when absent.  `h` is a 20-byte address. -/
def lookupOrdinal (ti : TableIndex) (h : Bytes) : R Nat := do
  let pfx := beNat (h.take prefixLen)
  let idx ← ti.findPrefix pfx
  ti.lookupLoop h pfx ti.count idx

def lookup (ti : TableIndex) (h : Bytes) : R (Option (Nat × Nat)) := do
  let ord ← ti.lookupOrdinal h
  if ord == ti.count then return none
  let e ← ti.getIndexEntry ord
  return some e

/-- `indexEntry(idx, &a)` → (address, offset, length) -/
def indexEntryAddr (ti : TableIndex) (idx : Nat) : R (Bytes × Nat × Nat) := do
  let (p, ord) ← ti.tupleAt idx
  let s ← ti.suffixAt ord
  let e ← ti.getIndexEntry ord
  return (p ++ s, e.1, e.2)

/-- `prefixes(ctx)` as run by `newTableReader` -/
def prefixes (ti : TableIndex) : R (List Nat) :=
  (List.range ti.count).mapM (fun i => do
    let b ← goSlice ti.mbuff 0 (prefixTupleSize * i) (prefixTupleSize * i + prefixLen)
    be64 b)

end TableIndex

/-- which `tableReaderAt` serves the chunk reads -/
inductive ReaderKind where
  | osFile        -- fileReaderAt: (*os.File).ReadAt
  | bytesReader   -- bytes.Reader.ReadAt
  deriving DecidableEq, Repr

/-- `ReadAtWithStats(buff[:len], off)` followed by the callers' `n != len` check: the bytes, or an error. -/
def readAt (k : ReaderKind) (file : Bytes) (off len : Nat) : R Bytes :=
  if off ≥ 2 ^ 63 then .error .seek
  else match k with
  | .osFile =>
    if len == 0 then .ok []
    else if off + len ≤ file.length then .ok ((file.drop off).take len) else .error .eof
  | .bytesReader =>
    if off ≥ file.length then .error .eof
    else if off + len ≤ file.length then .ok ((file.drop off).take len) else .error .eof

/-- `NewCompressedChunk(h, buff)` → CompressedData (payload without the trailing CRC). -/
def newCompressedChunk (buff : Bytes) : R Bytes := do
  let dataLen := sub64 buff.length checksumSize          -- uint64(len(buff)) - checksumSize
  let tail ← goSliceFrom buff 0 buff.length dataLen       -- buff[dataLen:]
  let chk ← be32 tail
  let data ← goSlice buff 0 0 dataLen                     -- buff[:dataLen]
  if chk ≠ crc32c data then throw .checksum
  return data

/-- an opened table file -/
structure Open where
  idx : TableIndex
  data : Bytes         -- what the tableReaderAt reads from
  kind : ReaderKind
  deriving Repr

/-- `nomsFileTableReader(path, h, chunkCount)`: the store's open path, chunk count from the manifest. -/
def openFile (file : Bytes) (mcount : Nat) : R Open := do
  let idxSz := indexSize mcount + footerSize
  if file.length < idxSz then throw .seek                -- SectionReader at a negative offset: ReadAt fails
  let b := file.drop (file.length - idxSz)
  let ti ← parseTableIndex b
  if mcount ≠ ti.count then throw .countMismatch
  let _ ← ti.prefixes
  return { idx := ti, data := file, kind := .osFile }

/-- `newReaderFromIndexData(idxData, name, tra)`: index by `parseTableIndexByCopy`, reads from `data`. -/
def openSplit (idxData data : Bytes) : R Open := do
  let (count, total) ← readTableFooter idxData
  let idxSz := indexSize count + footerSize
  if idxData.length < idxSz then throw .seek
  let b := idxData.drop (idxData.length - idxSz)
  let ti ← newOnHeapTableIndex b count total
  let _ ← ti.prefixes
  return { idx := ti, data := data, kind := .bytesReader }

def Open.has (o : Open) (h : Bytes) : R Bool := do
  let e ← o.idx.lookup h
  return e.isSome

/-- the tail of `tableReader.get`: `len(cmp.CompressedData) == 0` → "failed to get data" -/
def finishGet (cd : Bytes) : R (Option Bytes) :=
  if cd.length == 0 then .error .emptyData else .ok (some cd)

/-- what `get` does with the outcome of `NewCompressedChunk` -/
def afterChunk (r : R Bytes) : R (Option Bytes) :=
  match r with
  | .error e => .error e
  | .ok cd => finishGet cd

/-- `NewCompressedChunk(h, buff)` on the outcome of the read, then `afterChunk` -/
def getChunk (r : R Bytes) : R (Option Bytes) :=
  match r with
  | .error e => .error e
  | .ok buff => afterChunk (newCompressedChunk buff)

/-- `make([]byte, length)`; `ReadAtWithStats(buff, offset)`; `n != length` for a found index entry -/
def getEntry (k : ReaderKind) (data : Bytes) (e : Option (Nat × Nat)) : R (Option Bytes) :=
  match e with
  | none => .ok none
  | some (off, len) => getChunk (readAt k data off len)

/-- `tableReader.get`: `none` = absent, `some payload` = the snappy payload whose CRC was verified
(the caller decodes it). -/
def Open.get (o : Open) (h : Bytes) : R (Option Bytes) :=
  match o.idx.lookup h with
  | .error e => .error e
  | .ok e => getEntry o.kind o.data e

def insertByOffset (x : Bytes × Nat × Nat) : List (Bytes × Nat × Nat) → List (Bytes × Nat × Nat)
  | [] => [x]
  | y :: ys => if x.2.1 < y.2.1 then x :: y :: ys else y :: insertByOffset x ys

def sortByOffset (xs : List (Bytes × Nat × Nat)) : List (Bytes × Nat × Nat) :=
  xs.foldl (fun acc x => insertByOffset x acc) []

/-- the sequential read loop of `iterateAllChunks`.  The read buffer (4 MiB, replaced by a fresh
`make([]byte, length)` when a record is larger) is always large enough, and a short
`io.ReadFull` is now returned as the error (both repaired upstream: the earlier code sliced the
4 MiB buffer out of range and discarded the read error, re-using the previous record's bytes). -/
def iterLoop (stream : Bytes) : List (Bytes × Nat × Nat) → Nat → List (Bytes × Bytes) →
    List (Bytes × Bytes) × Option ParseError
  | [], _, acc => (acc.reverse, none)
  | (h, _, len) :: rest, pos, acc =>
    let got := (stream.drop pos).take len
    if got.length < len then (acc.reverse, some .eof)               -- io.ReadFull: (Unexpected)EOF
    else
      match newCompressedChunk got with
      | .error e => (acc.reverse, some e)
      | .ok cd => iterLoop stream rest (pos + got.length) ((h, cd) :: acc)

/-- `tableReader.iterateAllChunks`: (chunks handed to the callback, terminal error if any).
The callback payloads are still snappy-encoded; a decode failure ends the real iteration. -/
def Open.iterate (o : Open) : List (Bytes × Bytes) × Option ParseError :=
  if o.idx.count == 0 then ([], none) else
  match (List.range o.idx.count).mapM o.idx.indexEntryAddr with
  | .error e => ([], some e)
  | .ok recs =>
    let sorted := sortByOffset recs
    match sorted.getLast? with
    | none => ([], none)
    | some last =>
      let total := last.2.1 + last.2.2
      iterLoop (o.data.take total) sorted 0 []

end DoltVerif.Corrupt.Table
