import DoltVerif.Model.JsonDoc
/-
Model of dolt's stored JSON documents (C17), part 2: `IndexedJsonDocument` — the mutations expressed
as splices on the stored text, located by scanning the text for path locations.

Transliteration of go/store/prolly/tree
  json_location.go   jsonLocation, compareJsonLocations, compareJsonPathTypes, varints
  json_scanner.go    JsonScanner.AdvanceToNextLocation and its accept* helpers
  json_cursor.go     AdvanceToLocation, NextValue
  json_chunker.go    Done (the comma rule; what is written = prefix ++ inserted ++ rest)
  json_indexed_document.go  tryLookup / tryInsert / insertIntoCursor / removeWithLocation /
                     setWithLocation / tryReplace / replaceIntoCursor / tryWithFallback /
                     ArrayInsert / ArrayAppend
Abstraction: the prolly tree of chunks is the concatenation of its leaves; a cursor that starts at
a chunk boundary with the previous chunk's key is a scan from the beginning of the text (the
chunk index invariant is exercised by the correspondence harness on multi-chunk documents).
Core-only.
-/
namespace DoltVerif.JsonDoc

inductive PState where
  | startOfValue | objectInitial | arrayInitial | endOfValue | middleOfString
  deriving DecidableEq, Repr

structure Elem where
  isArr : Bool
  key : Bytes      -- object key bytes, or the varint of the array index
  idx : Nat := 0
  deriving DecidableEq, Repr

structure Loc where
  st : PState
  elems : List Elem
  deriving DecidableEq, Repr

/-- mohae/uvarint (SQLite4 varint), as far as array indexes go -/
def varint (x : Nat) : Bytes :=
  if x ≤ 240 then [UInt8.ofNat x]
  else if x ≤ 2287 then [UInt8.ofNat ((x - 240) / 256 + 241), UInt8.ofNat ((x - 240) % 256)]
  else if x ≤ 67823 then [249, UInt8.ofNat ((x - 2288) / 256), UInt8.ofNat ((x - 2288) % 256)]
  else [250, UInt8.ofNat (x / 65536 % 256), UInt8.ofNat (x / 256 % 256), UInt8.ofNat (x % 256)]

def arrElem (i : Nat) : Elem := { isArr := true, key := varint i, idx := i }
def objElem (k : Bytes) : Elem := { isArr := false, key := k }

def rootLoc : Loc := { st := .startOfValue, elems := [] }

def Loc.size (l : Loc) : Nat := l.elems.length

/-- `getLastPathElement` -/
def Loc.last (l : Loc) : Elem :=
  match l.st with
  | .arrayInitial => { isArr := true, key := [] }
  | .objectInitial => { isArr := false, key := [] }
  | _ => l.elems.getLast?.getD { isArr := false, key := [] }

def Loc.pop (l : Loc) : Loc := { l with elems := l.elems.dropLast }
def Loc.push (l : Loc) (e : Elem) : Loc := { l with elems := l.elems ++ [e] }
def Loc.withState (l : Loc) (s : PState) : Loc := { l with st := s }

/-- `unescapeKey`: only `\"` is undone -/
def unescapeKey : Bytes → Bytes
  | 0x5c :: 0x22 :: t => 0x22 :: unescapeKey t
  | c :: t => c :: unescapeKey t
  | [] => []

/-- `escapeKey`: only `"` is escaped -/
def escapeKey : Bytes → Bytes
  | 0x22 :: t => 0x5c :: 0x22 :: escapeKey t
  | c :: t => c :: escapeKey t
  | [] => []

def compareTypes (l r : PState) : Int :=
  if l = .startOfValue && r != .startOfValue then -1
  else if l = .endOfValue && r != .endOfValue then 1
  else if r = .startOfValue && l != .startOfValue then 1
  else if r = .endOfValue && l != .endOfValue then -1
  else 0

def compareElems : List Elem → List Elem → Int
  | a :: s, b :: t =>
    match bytesCmp a.key b.key with
    | .lt => -1
    | .gt => 1
    | .eq => compareElems s t
  | _, _ => 0

/-- `compareJsonLocations` -/
def compareLoc (left right : Loc) : Int :=
  let c := compareElems left.elems right.elems
  if c ≠ 0 then c
  else if left.size < right.size then
    if right.size = left.size + 1 ∧ left.st = .objectInitial ∧ right.last.isArr then 1
    else if left.st ≠ .endOfValue then -1 else 1
  else if left.size > right.size then
    if left.size = right.size + 1 ∧ right.st = .objectInitial ∧ left.last.isArr then -1
    else if right.st ≠ .endOfValue then 1 else -1
  else compareTypes left.st right.st

/-- the scanner over the stored text: `done` is the text already passed (reversed), `rest` what is
still ahead; `valueOffset` of the Go scanner is `done.length` -/
structure Scanner where
  done : Bytes
  rest : Bytes
  path : Loc

inductive ScanErr where
  | eof | parse | corrupt | unexpected | panic
  deriving DecidableEq, Repr

/-- `current()`: 0xFF at the end of the buffer -/
def Scanner.cur (s : Scanner) : UInt8 := s.rest.headD 0xFF

/-- move `chunk` (a prefix of `rest`) to the passed text -/
def Scanner.pass (s : Scanner) (chunk rest' : Bytes) (p : Loc) : Scanner :=
  { done := chunk.reverse ++ s.done, rest := rest', path := p }

/-- a string value after its opening quote: everything up to and including the closing quote
(escape = two bytes), and what follows.  (At the end of the buffer Go loops for ever: `none`.) -/
def skipString : Bytes → Option (Bytes × Bytes)
  | [] => none
  | 0x22 :: t => some ([0x22], t)
  | 0x5c :: c :: t => (skipString t).map (fun cr => (0x5c :: c :: cr.1, cr.2))
  | c :: t => if c = 0x5c then none else (skipString t).map (fun cr => (c :: cr.1, cr.2))

/-- a key string after its opening quote: the key text, and what follows the closing quote -/
def skipKey : Bytes → Option (Bytes × Bytes)
  | [] => none
  | 0x22 :: t => some ([], t)
  | 0x5c :: c :: t => (skipKey t).map (fun cr => (0x5c :: c :: cr.1, cr.2))
  | c :: t => if c = 0x5c then none else (skipKey t).map (fun cr => (c :: cr.1, cr.2))

def isStop (c : UInt8) : Bool := c = 0x7d || c = 0x5d || c = 0x2c || c = 0xFF

def Scanner.acceptObjectKey (s : Scanner) : Except ScanErr Scanner :=
  match s.rest with
  | 0x22 :: t =>
    match skipKey t with
    | none => .error .parse
    | some (keyText, afterQuote) =>
      match afterQuote with
      | 0x3a :: r =>
        .ok (s.pass (0x22 :: keyText ++ [0x22, 0x3a]) r ((s.path.push (objElem (unescapeKey keyText))).withState .startOfValue))
      | _ => .error .parse
  | _ => .error .parse

/-- `AdvanceToNextLocation` -/
def Scanner.advance (s : Scanner) : Except ScanErr Scanner :=
  match s.rest with
  | [] => .error .eof
  | c :: t =>
    match s.path.st with
    | .startOfValue =>
      if c = 0x22 then
        match skipString t with
        | some (body, r) => .ok (s.pass (0x22 :: body) r (s.path.withState .endOfValue))
        | none => .error .parse
      else if c = 0x5b then .ok (s.pass [c] t (s.path.withState .arrayInitial))
      else if c = 0x7b then .ok (s.pass [c] t (s.path.withState .objectInitial))
      else .ok (s.pass (c :: t.takeWhile (fun x => !isStop x)) (t.dropWhile (fun x => !isStop x)) (s.path.withState .endOfValue))
    | .objectInitial =>
      if c = 0x22 then s.acceptObjectKey
      else if c = 0x7d then .ok (s.pass [c] t (s.path.withState .endOfValue))
      else .error .parse
    | .arrayInitial =>
      if c = 0x5d then .ok (s.pass [c] t (s.path.withState .endOfValue))
      else .ok { s with path := (s.path.withState .startOfValue).push (arrElem 0) }
    | .endOfValue =>
      let lastE := s.path.last
      let p := s.path.pop
      if lastE.isArr then
        if c = 0x2c then .ok (s.pass [c] t ((p.push (arrElem (lastE.idx + 1))).withState .startOfValue))
        else if c = 0x5d then .ok (s.pass [c] t (p.withState .endOfValue))
        else .error .parse
      else
        if c = 0x2c then
          let s' : Scanner := s.pass [c] t p
          if s'.cur ≠ 0x22 then .error .parse else s'.acceptObjectKey
        else if c = 0x7d then .ok (s.pass [c] t (p.withState .endOfValue))
        else .error .parse
    | .middleOfString =>
      match skipString (c :: t) with
      | some (body, r) => .ok (s.pass body r (s.path.withState .endOfValue))
      | none => .error .parse

/-- the loop of `AdvanceToLocation`; returns (comparison, previous scanner, scanner) -/
def advanceToGo (target : Loc) : Nat → Scanner → Scanner → Except ScanErr (Int × Scanner × Scanner)
  | 0, _, _ => .error .corrupt
  | f+1, prev, s =>
    let cmp := compareLoc s.path target
    if cmp < 0 then
      match s.advance with
      | .error .eof => .error .corrupt      -- Go panics: "Reached the end of the JSON document while advancing"
      | .error e => .error e
      | .ok s' => advanceToGo target f s s'
    else .ok (cmp, prev, s)

def Scanner.size (s : Scanner) : Nat := s.done.length + s.rest.length

def advanceTo (s : Scanner) (target : Loc) (forRemoval : Bool) : Except ScanErr (Bool × Scanner) :=
  match advanceToGo target (2 * s.size + 16) s s with
  | .error e => .error e
  | .ok (cmp, prev, cur) =>
    if cmp > 0 then .ok (false, prev)
    else if forRemoval then .ok (true, prev) else .ok (true, cur)

def nextValueGo (target : Loc) : Nat → Scanner → Except ScanErr Scanner
  | 0, _ => .error .corrupt
  | f+1, s =>
    if compareLoc s.path target ≥ 0 then .ok s
    else match s.advance with
      | .error e => .error e
      | .ok s' => nextValueGo target f s'

/-- `NextValue`: the text of the value the scanner stands at, and the scanner after it -/
def nextValue (s : Scanner) : Except ScanErr (Bytes × Scanner) :=
  if s.path.st ≠ .startOfValue then .error .unexpected else
  let target := s.path.withState .endOfValue
  match s.advance with
  | .error e => .error e
  | .ok s1 =>
    match nextValueGo target (2 * s.size + 16) s1 with
    | .error e => .error e
    | .ok s2 => .ok ((s2.done.take (s2.done.length - s.done.length)).reverse, s2)

/-- `jsonPathElementsFromMySQLJsonPath` on lexed legs (`last` is the unsupported-path fallback,
`last-N` fails `strconv.Atoi`) -/
inductive PathRes where
  | loc (l : Loc) | unsupported | invalid

def legsToLoc : List Leg → Loc → PathRes
  | [], l => .loc l
  | .key k :: t, l =>
    if k = [] then .invalid
    else if k = [0x2a] || k = [0x2a, 0x2a] then .unsupported else legsToLoc t (l.push (objElem k))
  | .idx (.nat n) :: t, l => legsToLoc t (l.push (arrElem n))
  | .idx .last :: _, _ => .unsupported
  | .idx (.lastMinus _) :: _, _ => .invalid

inductive IErr where
  | ref (e : Err) | invalidPath | scan (e : ScanErr) | badDoc
  deriving DecidableEq, Repr

def mkScanner (b : Bytes) : Scanner := { done := [], rest := b, path := rootLoc }

def restOf (s : Scanner) : Bytes := s.rest
def prefixOf (s : Scanner) : Bytes := s.done.reverse

/-- `JsonChunker.Done`: what is written after the chunker's buffer — a comma when the chunker stands
at the end of a value and the remaining text does not start with `}` `]` `,` — then the rest -/
def doneTail (chunkerState : PState) (rest : Bytes) : Bytes :=
  match rest with
  | c :: _ => if chunkerState = .endOfValue ∧ c ≠ 0x7d ∧ c ≠ 0x5d ∧ c ≠ 0x2c then 0x2c :: rest else rest
  | [] => rest

/-- `insertIntoCursor` -/
def insertInto (doc : Bytes) (keyPath : Loc) (cursor : Scanner) (v : Bytes) : Except IErr (Bytes × Bool) :=
  let cp := cursor.path
  if cp.size = 0 ∧ cp.st = .startOfValue then .ok (doc, false) else
  -- `getLastPathElement` on a location without elements indexes offsets[-1]: a Go panic
  if keyPath.elems.isEmpty ∧ keyPath.st ≠ .objectInitial ∧ keyPath.st ≠ .arrayInitial then .error (.scan .panic) else
  if cp.elems.isEmpty ∧ cp.st ≠ .objectInitial ∧ cp.st ≠ .arrayInitial then .error (.scan .panic) else
  let keyLast := keyPath.last
  let curLast := cp.last
  if curLast.isArr ∧ !keyLast.isArr then .ok (doc, false) else
  let go : Except IErr (Bytes × Bool) :=
    let cmp := compareLoc cp keyPath
    if cmp < 0 ∧ cp.st = .startOfValue then .ok (doc, false) else
    let comma : Bytes := if cp.st = .objectInitial ∨ cp.st = .arrayInitial then [] else [0x2c]
    let keyText : Bytes := if keyLast.isArr then [] else 0x22 :: escapeKey keyLast.key ++ [0x22, 0x3a]
    .ok (prefixOf cursor ++ comma ++ keyText ++ v ++ doneTail .endOfValue (restOf cursor), true)
  if cp.size + 1 = keyPath.size then
    if keyLast.isArr ∧ !curLast.isArr then
      if keyLast.idx = 0 then .ok (doc, false)
      else
        match nextValue cursor with
        | .error e => .error (.scan e)
        | .ok (orig, after) =>
          .ok (prefixOf cursor ++ [0x5b] ++ orig ++ [0x2c] ++ v ++ [0x5d] ++ doneTail .endOfValue (restOf after), true)
    else if cp.st ≠ .arrayInitial ∧ cp.st ≠ .objectInitial then .ok (doc, false)
    else go
  else if cp.size = keyPath.size then go
  else .ok (doc, false)

/-- `replaceIntoCursor` -/
def replaceInto (keyPath : Loc) (cursor : Scanner) (v : Bytes) : Except IErr (Bytes × Bool) :=
  match advanceTo cursor (keyPath.withState .endOfValue) false with
  | .error e => .error (.scan e)
  | .ok (_, after) => .ok (prefixOf cursor ++ v ++ doneTail .endOfValue (restOf after), true)

/-- the "0-indexing into a scalar" loop of `setWithLocation` / `tryReplace`; returns (found, keyPath) -/
def popZeroIdx (cursorPath : Loc) : Nat → Loc → Bool × Loc
  | 0, kp => (false, kp)
  | f+1, kp =>
    if kp.size > cursorPath.size then
      let l := kp.last
      if !l.isArr || l.idx ≠ 0 then (false, kp)
      else
        let kp' := kp.pop
        if compareLoc kp' cursorPath = 0 then (true, kp') else popZeroIdx cursorPath f kp'
    else (false, kp)

def iLookup (doc : Bytes) (kp : Loc) : Except IErr (Option Bytes) :=
  match advanceTo (mkScanner doc) kp false with
  | .error e => .error (.scan e)
  | .ok (false, _) => .ok none
  | .ok (true, c) =>
    match nextValue c with
    | .error e => .error (.scan e)
    | .ok (b, _) => .ok (some b)

def iInsert (doc : Bytes) (kp : Loc) (v : Bytes) : Except IErr (Bytes × Bool) :=
  match advanceTo (mkScanner doc) kp false with
  | .error e => .error (.scan e)
  | .ok (true, _) => .ok (doc, false)
  | .ok (false, c) => insertInto doc kp c v

def iRemove (doc : Bytes) (kp : Loc) : Except IErr (Bytes × Bool) :=
  match advanceTo (mkScanner doc) kp true with
  | .error e => .error (.scan e)
  | .ok (false, _) => .ok (doc, false)
  | .ok (true, c) =>
    let isInitial := c.path.st = .objectInitial ∨ c.path.st = .arrayInitial
    match advanceTo c (kp.withState .endOfValue) false with
    | .error e => .error (.scan e)
    | .ok (_, after) =>
      let after' : Scanner := if isInitial ∧ after.cur = 0x2c then after.pass [0x2c] (after.rest.drop 1) after.path else after
      .ok (prefixOf c ++ doneTail c.path.st (restOf after'), true)

def iSet (doc : Bytes) (kp : Loc) (v : Bytes) : Except IErr (Bytes × Bool) :=
  match advanceTo (mkScanner doc) kp false with
  | .error e => .error (.scan e)
  | .ok (found, c) =>
    let (found', kp') := if found then (true, kp) else popZeroIdx c.path (kp.size + 1) kp
    if found' then replaceInto kp' c v else insertInto doc kp' c v

def iReplace (doc : Bytes) (kp : Loc) (v : Bytes) : Except IErr (Bytes × Bool) :=
  match advanceTo (mkScanner doc) kp false with
  | .error e => .error (.scan e)
  | .ok (found, c) =>
    let (found', kp') := if found then (true, kp) else popZeroIdx c.path (kp.size + 1) kp
    if found' then replaceInto kp' c v else .ok (doc, false)

/-- the in-memory implementation on the stored text (the fallback, and ArrayInsert / ArrayAppend) -/
def viaReference (mode : Mode) (legs : List Leg) (doc v : Bytes) : Except IErr (Bytes × Bool) :=
  match parse doc, (if mode = .remove then some nullLit else parse v) with
  | some d, some w =>
    match refOp mode legs d w with
    | .ok (r, ch) => .ok (serialize r, ch)
    | .error e => .error (.ref e)
  | _, _ => .error .badDoc

/-- `IndexedJsonDocument.{Set,Insert,Replace,Remove,ArrayInsert,ArrayAppend}` with `tryWithFallback` -/
def indexedOp (mode : Mode) (legs : List Leg) (doc v : Bytes) : Except IErr (Bytes × Bool) :=
  match mode with
  | .arrayInsert | .arrayAppend => viaReference mode legs doc v
  | _ =>
    if mode = .remove ∧ legs.isEmpty then .error (.ref .rootPath) else
    match legsToLoc legs rootLoc with
    | .invalid => .error .invalidPath
    | .unsupported => viaReference mode legs doc v
    | .loc kp =>
      match mode with
      | .set => iSet doc kp v
      | .insert => iInsert doc kp v
      | .replace => iReplace doc kp v
      | _ => iRemove doc kp

def indexedLookup (legs : List Leg) (doc : Bytes) : Except IErr (Option Bytes) :=
  match legsToLoc legs rootLoc with
  | .invalid => .error .invalidPath
  | .unsupported =>
    match parse doc with
    | some d => .ok ((refLookup legs d).map serialize)
    | none => .error .badDoc
  | .loc kp => iLookup doc kp

end DoltVerif.JsonDoc
