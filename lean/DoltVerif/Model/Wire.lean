/-
Line-protocol helpers shared by all model drivers (core-only).
One request per line, one response per line, ASCII, space separated, byte strings in hex
(`-` = empty byte string), lists as `[a,b,c]`.
-/
namespace DoltVerif.Wire

def hexDigit (c : Char) : Option Nat :=
  if '0' ≤ c ∧ c ≤ '9' then some (c.toNat - '0'.toNat)
  else if 'a' ≤ c ∧ c ≤ 'f' then some (c.toNat - 'a'.toNat + 10)
  else if 'A' ≤ c ∧ c ≤ 'F' then some (c.toNat - 'A'.toNat + 10)
  else none

def unhexAux : List Char → List UInt8 → Option (List UInt8)
  | [], acc => some acc.reverse
  | [_], _ => none
  | a :: b :: rest, acc =>
    match hexDigit a, hexDigit b with
    | some x, some y => unhexAux rest (UInt8.ofNat (x * 16 + y) :: acc)
    | _, _ => none

/-- `-` is the empty string. -/
def unhex (s : String) : Option (List UInt8) :=
  if s == "-" then some [] else unhexAux s.toList []

def hexChar (n : Nat) : Char :=
  if n < 10 then Char.ofNat (n + '0'.toNat) else Char.ofNat (n - 10 + 'a'.toNat)

def hex (bs : List UInt8) : String :=
  if bs.isEmpty then "-" else
  String.ofList (bs.foldr (fun b acc => hexChar (b.toNat / 16) :: hexChar (b.toNat % 16) :: acc) [])

def natList (xs : List Nat) : String :=
  "[" ++ ",".intercalate (xs.map toString) ++ "]"

def parseNatList (s : String) : Option (List Nat) :=
  let inner := (s.drop 1).dropEnd 1 |>.toString
  if inner.isEmpty then some [] else
  (inner.splitOn ",").mapM (fun t => t.toNat?)

def words (line : String) : List String :=
  (line.trimAscii.toString.splitOn " ").filter (fun w => !w.isEmpty)

/-- generic stateful line loop -/
partial def loop {σ : Type} (h : IO.FS.Stream) (out : IO.FS.Stream) (st : σ)
    (step : σ → List String → σ × String) : IO Unit := do
  let line ← h.getLine
  if line.isEmpty then return ()
  let (st', resp) := step st (words line)
  out.putStrLn resp
  out.flush
  loop h out st' step

def run {σ : Type} (init : σ) (step : σ → List String → σ × String) : IO Unit := do
  loop (← IO.getStdin) (← IO.getStdout) init step

end DoltVerif.Wire
