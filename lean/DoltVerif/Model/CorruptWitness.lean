import DoltVerif.Model.CorruptArchive
/-
C10 — a hand-assembled minimal archive (format version 2, one snappy chunk "A", no metadata), used
by `Props/C10.lean` as the concrete file of the archive witnesses and handed to the harness by the
driver (`witness arc`) so that the SAME bytes are opened by the real archive reader: the valid
file must read back, the one-byte corruption of its span index must crash.
-/
namespace DoltVerif.Corrupt.Witness
open DoltVerif.Corrupt

def payload : Bytes := [0x01, 0x00, 0x41]                       -- snappy("A")
def record : Bytes := payload ++ natBE 4 (crc32c payload)       -- 7 bytes: byte span 1
/-- SHA-512/20 of the chunk "A" (so that the real reader's recomputed chunk hash agrees) -/
def arcPrefix : Bytes := [33, 180, 244, 189, 158, 100, 237, 53]
def arcSuffix : Bytes := [92, 62, 182, 118, 162, 142, 190, 218, 246, 216, 241, 123]
def arcAddr : Bytes := arcPrefix ++ arcSuffix
/-- span index [7] ++ prefixes ++ chunk refs (dict 0, data 1) ++ suffixes -/
def arcIndex (spanEnd : Bytes) : Bytes := spanEnd ++ arcPrefix ++ [0, 0, 0, 0, 0, 0, 0, 1] ++ arcSuffix
/-- the 216-byte footer of format versions 1 and 2 (the reader loads 220 bytes and ignores the first 4) -/
def arcFooter : Bytes :=
  natBE 4 36 ++ natBE 4 1 ++ natBE 4 1 ++ natBE 4 0 ++ List.replicate 192 0 ++ [2] ++ Archive.signature
def arcFileWith (spanEnd : Bytes) : Bytes := record ++ arcIndex spanEnd ++ arcFooter
def arcFile : Bytes := arcFileWith (natBE 8 7)
/-- offset of the most significant byte of the span-index entry -/
def arcSpanOffset : Nat := 7
/-- the same file with that byte set to 0xFF: span 1 "ends" at 0xFF00000000000007 -/
def arcFileBad : Bytes := arcFileWith ([0xFF] ++ (natBE 8 7).drop 1)

end DoltVerif.Corrupt.Witness
