/-
C13 — model of the prolly-tree differ (go/store/prolly/tree/diff.go, node_cursor.go,
go/store/prolly/tuple_map.go, tuple_range.go).  Core Lean only.

Style: transliteration of the cursor machine over plain data.

* `Tree` is a Merkle tree: `leaf kvs | node children`, a child entry is `(lastKey, addr, subtree)`.
  The subtree is embedded next to its address; "content addressing" is the hypothesis that equal
  addresses carry equal subtrees (`Tree.WF store`, see Lemmas/ProllyDiff.lean), never an axiom.
* `Cur` is the Go `*cursor` linked list, leaf frame first: `(nd, idx)` per level.
* `advance`, `compareCur`, `skipCommon`/`skipCommonParents`, `Differ.next` (as the list of all
  events `diffLoop`), `newCursorAtStart/AtEnd/PastEnd/FromSearchFn`, `sort.Search`,
  `Range.aboveStart/belowStop` (single-field ranges) and `makeDiffCallBack` follow the Go code
  statement by statement.  Loops take fuel; running out of fuel is an explicit `none`.
-/
namespace DoltVerif.ProllyDiff

abbrev Bytes := List UInt8
abbrev Addr := Nat
abbrev KV := Bytes × Bytes

inductive Tree where
  | leaf (kvs : List KV)
  | node (cs : List (Bytes × Addr × Tree))
  deriving Inhabited

abbrev Child := Bytes × Addr × Tree

mutual
/-- all key-value pairs below a node, in order -/
def Tree.flatten : Tree → List KV
  | .leaf kvs => kvs
  | .node cs => flattenCs cs
def flattenCs : List Child → List KV
  | [] => []
  | c :: cs => c.2.2.flatten ++ flattenCs cs
end

/-- `nd.Count()` -/
def Tree.count : Tree → Nat
  | .leaf kvs => kvs.length
  | .node cs => cs.length

/-- `nd.GetKey(i)` -/
def Tree.key? : Tree → Nat → Option Bytes
  | .leaf kvs, i => kvs[i]?.map (·.1)
  | .node cs, i => cs[i]?.map (·.1)

def Tree.keys : Tree → List Bytes
  | .leaf kvs => kvs.map (·.1)
  | .node cs => cs.map (·.1)

/-- leaf item `(key, value)` -/
def Tree.kv? : Tree → Nat → Option KV
  | .leaf kvs, i => kvs[i]?
  | .node _, _ => none

/-- the child a parent slot points to (`fetchChild(currentRef())`) -/
def Tree.child? : Tree → Nat → Option Tree
  | .leaf _, _ => none
  | .node cs, i => cs[i]?.map (·.2.2)

/-- what `equalItems` compares: key bytes and value bytes (leaf value, or the child address) -/
def Tree.sig? : Tree → Nat → Option (Bytes × (Bytes ⊕ Addr))
  | .leaf kvs, i => kvs[i]?.map (fun kv => (kv.1, .inl kv.2))
  | .node cs, i => cs[i]?.map (fun c => (c.1, .inr c.2.1))

/-- key-value pairs of the items `i, i+1, …` of a node -/
def Tree.flatFrom : Tree → Nat → List KV
  | .leaf kvs, i => kvs.drop i
  | .node cs, i => flattenCs (cs.drop i)

/-- key-value pairs of the items `0 … i-1` of a node -/
def Tree.flatTo : Tree → Nat → List KV
  | .leaf kvs, i => kvs.take i
  | .node cs, i => flattenCs (cs.take i)

mutual
def Tree.height : Tree → Nat
  | .leaf _ => 0
  | .node cs => firstHeight cs + 1
def firstHeight : List Child → Nat
  | [] => 0
  | c :: _ => c.2.2.height
end

/-! ## cursors -/

structure Frame where
  nd : Tree
  idx : Nat
  deriving Inhabited

/-- Go `*cursor`: leaf frame first, root frame last.  `[]` is `&cursor{}` (nil node). -/
abbrev Cur := List Frame

def Frame.valid (f : Frame) : Bool := decide (f.idx < f.nd.count)

/-- `cur.Valid()` (idx is never negative in the differ) -/
def valid : Cur → Bool
  | [] => false
  | f :: _ => f.valid

/-- `cur.fetchNode` + set idx; the `none` branch is a leaf used as parent or an out-of-bounds
parent (Go panics there); it is never taken from a cursor built by the constructors below. -/
def fetch (p : Frame) (idx : Nat) : Frame :=
  match p.nd.child? p.idx with
  | some c => ⟨c, idx⟩
  | none => ⟨.leaf [], idx⟩

/-- `cur.advance` -/
def advance : Cur → Cur
  | [] => []
  | f :: ps =>
    if f.idx + 1 < f.nd.count then { f with idx := f.idx + 1 } :: ps        -- hasNext
    else match ps with
      | [] => [{ f with idx := f.nd.count }]                               -- invalidateAtEnd
      | p :: pps =>
        match advance (p :: pps) with
        | [] => [{ f with idx := f.nd.count }]
        | p' :: pps' =>
          if p'.idx < p'.nd.count then fetch p' 0 :: p' :: pps'            -- fetchNode; skipToNodeStart
          else { f with idx := f.nd.count } :: p' :: pps'                  -- parent outOfBounds

/-- `compareCursors`: the index difference of the highest level at which the two differ -/
def compareCur : Cur → Cur → Int
  | l :: ls, r :: rs =>
    let hi := compareCur ls rs
    if hi ≠ 0 then hi else (l.idx : Int) - (r.idx : Int)
  | _, _ => 0

mutual
/-- generic descent: `pick` chooses the slot in every node (internal slots are kept in bounds) -/
def descend (pick : Tree → Nat) : Tree → Cur
  | .leaf kvs => [⟨.leaf kvs, pick (.leaf kvs)⟩]
  | .node cs =>
    let i := min (pick (.node cs)) (cs.length - 1)                          -- keepInBounds
    descendCs pick cs i ++ [⟨.node cs, i⟩]
def descendCs (pick : Tree → Nat) : List Child → Nat → Cur
  | [], _ => []
  | c :: _, 0 => descend pick c.2.2
  | _ :: cs, i + 1 => descendCs pick cs i
end

/-- `newCursorAtStart` -/
def cursorAtStart (t : Tree) : Cur := descend (fun _ => 0) t
/-- `newCursorAtEnd` (`skipToNodeEnd` on an empty node gives -1 in Go; the only caller then
advances, which yields `idx = count = 0`, the same as from 0) -/
def cursorAtEnd (t : Tree) : Cur := descend (fun n => n.count - 1) t
/-- `newCursorPastEnd` -/
def cursorPastEnd (t : Tree) : Cur := advance (cursorAtEnd t)

/-- `sort.Search(n, f)` over the keys of one node: `i, j := 0, n; for i < j { h := (i+j)/2; if !f(h) {i = h+1} else {j = h} }` -/
def sortSearch (f : Nat → Bool) : Nat → Nat → Nat → Nat
  | 0, i, _ => i
  | fuel + 1, i, j =>
    if i < j then
      let h := (i + j) / 2
      if !f h then sortSearch f fuel (h + 1) j else sortSearch f fuel i h
    else i

/-- the `SearchFn` built from a key predicate (first slot whose key satisfies it) -/
def searchNode (p : Bytes → Bool) (nd : Tree) : Nat :=
  let ks := nd.keys
  sortSearch (fun h => match ks[h]? with | some k => p k | none => true) (ks.length + 1) 0 ks.length

/-- `newCursorFromSearchFn` -/
def cursorFromSearch (p : Bytes → Bool) (t : Tree) : Cur := descend (searchNode p) t

/-! ## skipCommon -/

def equalItems (f t : Cur) : Bool :=
  match f, t with
  | a :: _, b :: _ =>
    match a.nd.sig? a.idx, b.nd.sig? b.idx with
    | some x, some y => decide (x = y)
    | _, _ => false
  | _, _ => false

/-- `equalParents`: both parents non-nil and their current items equal -/
def equalParents (f t : Cur) : Bool := equalItems f.tail t.tail

def atNodeEnd : Cur → Bool
  | [] => false
  | f :: _ => f.idx + 1 == f.nd.count

/-- second half of `skipCommonParents`: re-seat the child under the moved parent -/
def refetch (c : Cur) (ps : Cur) : Cur :=
  match c, ps with
  | f :: _, p :: pps =>
    if p.valid then fetch p 0 :: p :: pps else { f with idx := f.nd.count } :: p :: pps
  | c, _ => c

/-- `skipCommon(from, to)`; `pnew` is `parentsAreNew`.  `none` = out of fuel. -/
def skipCommon : Nat → Cur → Cur → Bool → Option (Cur × Cur)
  | 0, _, _, _ => none
  | fuel + 1, f, t, pnew =>
    if !(valid f && valid t) then some (f, t)
    else if !equalItems f t then some (f, t)
    else if pnew && equalParents f t then
      match skipCommon fuel f.tail t.tail true with                       -- skipCommonParents
      | none => none
      | some (pf, pt) => skipCommon fuel (refetch f pf) (refetch t pt) true
    else
      skipCommon fuel (advance f) (advance t) (atNodeEnd f || atNodeEnd t)

/-! ## the differ -/

inductive DiffType where
  | added | modified | removed
  deriving DecidableEq, Repr, Inhabited

structure Event where
  type : DiffType
  key : Bytes
  from? : Option Bytes
  to? : Option Bytes
  deriving DecidableEq, Repr, Inhabited

def Event.removed (kv : KV) : Event := ⟨.removed, kv.1, some kv.2, none⟩
def Event.added (kv : KV) : Event := ⟨.added, kv.1, none, some kv.2⟩
def Event.modified (f t : KV) : Event := ⟨.modified, f.1, some f.2, some t.2⟩

/-- `cur.CurrentKey(), cur.currentValue()` of a leaf cursor -/
def curKV : Cur → Option KV
  | [] => none
  | f :: _ => f.nd.kv? f.idx

/-- `c.Valid() && c.compare(stop) < 0` -/
def active (c stop : Cur) : Bool := valid c && decide (compareCur c stop < 0)

/-- all results of repeated `Differ.Next` calls.  `cmp` is the key order, `cam` is
`considerAllRowsModified`, `sfuel` the fuel handed to each `skipCommon`.  `none` = out of fuel
or a cursor that is valid but not at a leaf (Go would read garbage; unreachable). -/
def diffLoop (cmp : Bytes → Bytes → Ordering) (cam : Bool) (sfuel : Nat) :
    Nat → Cur → Cur → Cur → Cur → Option (List Event)
  | 0, _, _, _, _ => none
  | fuel + 1, f, t, fs, ts =>
    if active f fs && active t ts then
      match curKV f, curKV t with
      | some a, some b =>
        match cmp a.1 b.1 with
        | .lt => (diffLoop cmp cam sfuel fuel (advance f) t fs ts).map (Event.removed a :: ·)
        | .gt => (diffLoop cmp cam sfuel fuel f (advance t) fs ts).map (Event.added b :: ·)
        | .eq =>
          if cam || a.2 != b.2 then
            (diffLoop cmp cam sfuel fuel (advance f) (advance t) fs ts).map (Event.modified a b :: ·)
          else
            match skipCommon sfuel (advance f) (advance t) true with
            | none => none
            | some (f', t') => diffLoop cmp cam sfuel fuel f' t' fs ts
      | _, _ => none
    else if active f fs then
      match curKV f with
      | some a => (diffLoop cmp cam sfuel fuel (advance f) t fs ts).map (Event.removed a :: ·)
      | none => none
    else if active t ts then
      match curKV t with
      | some b => (diffLoop cmp cam sfuel fuel f (advance t) fs ts).map (Event.added b :: ·)
      | none => none
    else some []

/-- number of key-value pairs; the fuel budgets below are computed from it -/
def Tree.size (t : Tree) : Nat := t.flatten.length

/-- `from.empty()` → `&cursor{}` -/
def startOrNil (t : Tree) : Cur := if t.count = 0 then [] else cursorAtStart t

def loopFuel (a b : Tree) : Nat := a.size + b.size + 1
def skipFuel (a b : Tree) : Nat := (a.size + b.size + 2) * (a.height + b.height + 2)

/-- `DifferFromRoots` + drain (`DiffOrderedTrees`) -/
def diffRoots (cmp : Bytes → Bytes → Ordering) (cam : Bool) (a b : Tree) : Option (List Event) :=
  diffLoop cmp cam (skipFuel a b) (loopFuel a b) (startOrNil a) (startOrNil b) (cursorPastEnd a) (cursorPastEnd b)

/-- `DifferFromCursors` + drain: start/stop cursors from two `SearchFn`s -/
def diffSearch (cmp : Bytes → Bytes → Ordering) (pStart pStop : Bytes → Bool) (a b : Tree) : Option (List Event) :=
  diffLoop cmp false (skipFuel a b) (loopFuel a b)
    (cursorFromSearch pStart a) (cursorFromSearch pStart b) (cursorFromSearch pStop a) (cursorFromSearch pStop b)

/-- `DiffKeyRangeOrderedTrees`: `len(start) == 0` → cursor at start, `len(stop) == 0` → past end;
otherwise `newCursorAtKey` (`searchForKey`: first slot with `cmp key slot ≤ 0`) -/
def diffKeyRange (cmp : Bytes → Bytes → Ordering) (start stop : Option Bytes) (a b : Tree) : Option (List Event) :=
  let sc (t : Tree) : Cur := match start with
    | none => cursorAtStart t
    | some k => cursorFromSearch (fun s => cmp k s != .gt) t
  let ec (t : Tree) : Cur := match stop with
    | none => cursorPastEnd t
    | some k => cursorFromSearch (fun s => cmp k s != .gt) t
  diffLoop cmp false (skipFuel a b) (loopFuel a b) (sc a) (sc b) (ec a) (ec b)

/-! ## single-field `prolly.Range` (tuple_range.go) -/

structure Bound where
  value : Bytes
  binding : Bool
  inclusive : Bool
  deriving Inhabited

structure Range where
  lo : Bound
  hi : Bound
  boundsAreEqual : Bool
  deriving Inhabited

/-- `Range.aboveStart` for one field -/
def Range.aboveStart (cmp : Bytes → Bytes → Ordering) (r : Range) (k : Bytes) : Bool :=
  if !r.lo.binding then true
  else match cmp k r.lo.value with
    | .lt => false
    | .eq => if r.boundsAreEqual then true else r.lo.inclusive
    | .gt => true

/-- `Range.belowStop` for one field -/
def Range.belowStop (cmp : Bytes → Bytes → Ordering) (r : Range) (k : Bytes) : Bool :=
  if !r.hi.binding then true
  else match cmp k r.hi.value with
    | .gt => false
    | .eq => if r.boundsAreEqual then true else r.hi.inclusive
    | .lt => true

/-- `RangeDiffMaps` before the callback filter: `rangeStartSearchFn` / `rangeStopSearchFn` -/
def diffRange (cmp : Bytes → Bytes → Ordering) (r : Range) (a b : Tree) : Option (List Event) :=
  diffSearch cmp (r.aboveStart cmp) (fun k => !r.belowStop cmp k) a b

/-- `makeDiffCallBack`: with equal value descriptors, Modified events whose two values compare
equal as tuples (`veq`, i.e. equal after trimming the NULL suffix) are dropped. -/
def callbackFilter (sameDesc : Bool) (veq : Bytes → Bytes → Bool) (evs : List Event) : List Event :=
  if !sameDesc then evs else
  evs.filter (fun e => match e.type, e.from?, e.to? with
    | .modified, some f, some t => !veq f t
    | _, _, _ => true)

/-! ## specification: merge walk of two sorted association lists -/

def specDiff (cmp : Bytes → Bytes → Ordering) (cam : Bool) : List KV → List KV → List Event
  | [], bs => bs.map Event.added
  | a :: as, [] => (a :: as).map Event.removed
  | a :: as, b :: bs =>
    match cmp a.1 b.1 with
    | .lt => Event.removed a :: specDiff cmp cam as (b :: bs)
    | .gt => Event.added b :: specDiff cmp cam (a :: as) bs
    | .eq => if cam || a.2 != b.2 then Event.modified a b :: specDiff cmp cam as bs
             else specDiff cmp cam as bs
termination_by as bs => as.length + bs.length

/-! ## tuple value canonicalisation used by the driver's `veq`
(`val.Tuple`: fields, then uint16 LE offsets of fields 1…n-1, then uint16 LE field count;
zero-length field = NULL; comparing tuples treats missing trailing fields as NULL) -/

def le16 (lo hi : UInt8) : Nat := lo.toNat + 256 * hi.toNat

def tupleFields (t : Bytes) : Option (List Bytes) :=
  let n := t.length
  if n < 2 then none else
  let cnt := le16 (t.getD (n - 2) 0) (t.getD (n - 1) 0)
  if cnt = 0 then some [] else
  let offBase := n - 2 - 2 * (cnt - 1)
  if n < 2 + 2 * (cnt - 1) then none else
  let offs := (List.range (cnt - 1)).map (fun i => le16 (t.getD (offBase + 2 * i) 0) (t.getD (offBase + 2 * i + 1) 0))
  let starts := 0 :: offs
  let stops := offs ++ [offBase]
  some ((starts.zip stops).map (fun (s, e) => (t.drop s).take (e - s)))

def trimNullSuffix (fs : List Bytes) : List Bytes :=
  (fs.reverse.dropWhile (·.isEmpty)).reverse

/-- equality of value tuples under a byte-string value descriptor -/
def tupleEq (a b : Bytes) : Bool :=
  match tupleFields a, tupleFields b with
  | some x, some y => trimNullSuffix x == trimNullSuffix y
  | _, _ => a == b

/-! ## the key order used by the harness: case-insensitive (ASCII) lexicographic bytes -/

def foldByte (b : UInt8) : UInt8 := if 0x41 ≤ b ∧ b ≤ 0x5a then b + 0x20 else b

def ciCompare : Bytes → Bytes → Ordering
  | [], [] => .eq
  | [], _ :: _ => .lt
  | _ :: _, [] => .gt
  | x :: xs, y :: ys =>
    if foldByte x < foldByte y then .lt
    else if foldByte y < foldByte x then .gt
    else ciCompare xs ys

end DoltVerif.ProllyDiff
