import DoltVerif.Model.Query
/-
C26 — the LEFT OUTER variant of kvexec's merge join (`mergeJoinKvIter` with `isLeftJoin`), as the code
has it: a resumable state machine; every call of `Next` returns one row or EOF.  Fields as in Go:
`leftKey/rightKey` (current rows), `nextRightKey` (look-ahead row fetched by `fillMatchBuf`),
`lookaheadBuf`, `matchPos`, `matchedLeft`, `exhaustLeft`; the two iterators are the remaining lists.
`isReversed = false`, `excludeNulls = false`, no left/right filter; `ok` = all join filters on a
candidate with a right row; a NULL-extended candidate always passes (`!IsTrue(res) && !rightKeyNil`).
-/
namespace DoltVerif.Query

structure LSt where
  L : List Tuple
  R : List Tuple
  left : Option Tuple
  right : Option Tuple
  nextR : Option Tuple
  buf : List Tuple
  pos : Nat
  matched : Bool
  exhaust : Bool
deriving DecidableEq, Repr, Inhabited

abbrev LRow := Tuple × Option Tuple

def LSt.init (L R : List Tuple) : LSt := ⟨L, R, none, none, none, [], 0, false, false⟩

/-- `exhaustLeftReturn` -/
def exhaustLeftReturn (s : LSt) : Option (LRow × LSt) :=
  let s := { s with exhaust := true }
  match s.left with
  | none => none
  | some l =>
    if s.matched then
      match s.L with
      | [] => none                                   -- leftIter.Next: EOF
      | l' :: ls => some ((l', none), { s with left := some l', L := ls, matched := true })
    else some ((l, none), { s with matched := true })

/-- `fillMatchBuf`: returns (buf extension, nextRightKey, remaining right iterator) -/
def fillMatch (lk rk : Tuple → Cell) (l : Tuple) : List Tuple → List Tuple × Option Tuple × List Tuple
  | [] => ([], none, [])
  | r :: rs =>
    if ccmp (lk l) (rk r) == 0 then
      let (b, n, rest) := fillMatch lk rk l rs
      (r :: b, n, rest)
    else ([], some r, rs)

/-- advance the right side: the look-ahead row if there is one, else the iterator; `none` = EOF -/
def advanceRight (s : LSt) : Option LSt :=
  match s.nextR with
  | some r => some { s with right := some r, nextR := none }
  | none =>
    match s.R with
    | [] => none
    | r :: rs => some { s with right := some r, R := rs }

mutual
/-- the `compare:` loop -/
def cmpLoop (lk rk : Tuple → Cell) (ok : Tuple → Tuple → Bool) : Nat → LSt → Option (LRow × LSt)
  | 0, _ => none
  | fuel + 1, s =>
    match s.left, s.right with
    | some l, some r =>
      let c := ccmp (lk l) (rk r)
      if c < 0 then
        let old : Option Tuple := if !s.matched then some l else none
        match s.L with
        | [] =>
          -- leftIter.Next: EOF
          match old with
          | some o => some ((o, none), { s with matched := false, left := none, exhaust := true })
          | none => none
        | l' :: ls =>
          let s' := { s with matched := false, left := some l', L := ls }
          match old with
          | some o => some ((o, none), s')
          | none => cmpLoop lk rk ok fuel s'
      else if c == 0 then
        let (b, n, rest) := fillMatch lk rk l s.R
        matchLoop lk rk ok fuel { s with buf := s.buf ++ b, nextR := n, R := rest }
      else
        match advanceRight s with
        | some s' => cmpLoop lk rk ok fuel s'
        | none => exhaustLeftReturn { s with right := none }
    | _, _ => none
/-- the `match:` loop -/
def matchLoop (lk rk : Tuple → Cell) (ok : Tuple → Tuple → Bool) : Nat → LSt → Option (LRow × LSt)
  | 0, _ => none
  | fuel + 1, s =>
    match s.left, s.right with
    | some l, some r =>
      if s.pos < s.buf.length then
        match s.buf[s.pos]? with
        | some b =>
          let o := ok l b
          let s' := { s with pos := s.pos + 1, matched := s.matched || o }
          if o then some ((l, some b), s') else matchLoop lk rk ok fuel s'
        | none => none
      else if s.pos == s.buf.length then
        let o := ok l r
        let s' := { s with pos := s.pos + 1, matched := s.matched || o }
        if o then some ((l, some r), s') else matchLoop lk rk ok fuel s'
      else
        -- matches for the current left key are exhausted
        match s.L with
        | [] =>
          if !s.matched then some ((l, none), { s with pos := 0, left := none, exhaust := true }) else none
        | l' :: ls =>
          let c := ccmp (lk l) (lk l')
          let s1 := { s with pos := 0, left := some l', L := ls }
          let s2 : LSt :=
            if c != 0 then
              match advanceRight { s1 with buf := [] } with
              | some t => t
              | none => { s1 with buf := [], right := none, exhaust := true }
            else s1
          if !s.matched then
            -- the NULL-extended row of the finished left row is *returned here*; the code after it
            -- (`matchedLeft = false`, `goto match` / `goto compare`) is not executed
            some ((l, none), s2)
          else
            let s3 := { s2 with matched := false }
            if c == 0 then matchLoop lk rk ok fuel s3
            else if s3.exhaust then exhaustLeftReturn s3
            else cmpLoop lk rk ok fuel s3
    | _, _ => none
end

/-- one call of `Next` -/
def lnext (lk rk : Tuple → Cell) (ok : Tuple → Tuple → Bool) (fuel : Nat) (s : LSt) : Option (LRow × LSt) :=
  -- `if l.leftKey == nil { initialize }`
  let s0 : Option LSt :=
    match s.left with
    | some _ => some s
    | none =>
      match s.L with
      | [] => none
      | l :: ls =>
        some { s with left := some l, L := ls }
  match s0 with
  | none => none                 -- initialize: left EOF (→ exhaustLeftReturn with leftKey == nil → EOF)
  | some s1 =>
    -- initialize also fetches the first right row when it just fetched the left one
    let s2 : Option LSt :=
      if s.left.isNone then
        match s1.R with
        | [] => none
        | r :: rs => some { s1 with right := some r, R := rs }
      else some s1
    match s2 with
    | none => exhaustLeftReturn s1           -- right side empty: every left row NULL-extended
    | some s3 =>
      if s3.exhaust then exhaustLeftReturn s3
      else if s3.buf.length > 0 || s3.pos > 0 then matchLoop lk rk ok fuel s3
      else cmpLoop lk rk ok fuel s3

/-- all rows `Next` returns until EOF -/
def lrun (lk rk : Tuple → Cell) (ok : Tuple → Tuple → Bool) : Nat → LSt → List LRow
  | 0, _ => []
  | n + 1, s =>
    match lnext lk rk ok (s.L.length + s.R.length + s.buf.length + 4) s with
    | none => []
    | some (row, s') => row :: lrun lk rk ok n s'

def leftMergeJoin (lk rk : Tuple → Cell) (ok : Tuple → Tuple → Bool) (L R : List Tuple) : List LRow :=
  lrun lk rk ok ((L.length + 1) * (R.length + 1) + 1) (LSt.init L R)

/-- the reference: left outer nested-loop join -/
def leftNlj (ok : Tuple → Tuple → Bool) (L R : List Tuple) : List LRow :=
  L.flatMap (fun a =>
    let ms := R.filter (ok a)
    if ms.isEmpty then [(a, none)] else ms.map (fun b => (a, some b)))

end DoltVerif.Query
