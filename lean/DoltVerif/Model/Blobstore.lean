/-
Model of dolt's blobstore byte ranges and conditional manifest update (C42).

Transliteration of
  go/store/blobstore/range.go     BlobRange.isAllRange / positiveRange / asHttpRangeHeader
  go/store/blobstore/inmem.go     InMemoryBlobstore.Get (slicing), CheckAndPutManifest, composeObjects
  go/store/blobstore/local.go     readCloserForFileRange + localBlobRangeReadCloser, CheckAndPutManifest
The Go code computes in int64: the two additions of `positiveRange` and the slice bound
`offset+length` wrap (`wrap64`), exactly as in Go; the theorems carry the no-overflow domain as
an explicit hypothesis and the overflowing inputs are exercised on the real code.  Core-only.
-/
namespace DoltVerif.Blobstore

abbrev Bytes := List UInt8

structure BlobRange where
  offset : Int
  length : Int
  deriving DecidableEq, Repr

def BlobRange.isAllRange (br : BlobRange) : Bool := br.offset == 0 && br.length == 0

/-- int64 two's-complement wrap-around of a mathematical integer -/
def wrap64 (x : Int) : Int := (x + 9223372036854775808) % 18446744073709551616 - 9223372036854775808

/-- `positiveRange(size)` (int64 arithmetic) -/
def BlobRange.positiveRange (br : BlobRange) (size : Int) : BlobRange :=
  let offset := if br.offset < 0 then wrap64 (size + br.offset) else br.offset
  let length := if wrap64 (offset + br.length) > size || br.length == 0 then wrap64 (size - offset) else br.length
  ⟨offset, length⟩

def intStr (i : Int) : String := toString i

/-- `asHttpRangeHeader` -/
def BlobRange.asHttpRangeHeader (br : BlobRange) : String :=
  if br.isAllRange then ""
  else if br.length == 0 || br.offset < 0 then s!"bytes={intStr br.offset}"
  else s!"bytes={intStr br.offset}-{intStr (br.offset + br.length - 1)}"

inductive ReadRes where
  | ok (b : Bytes)
  | panic          -- Go slice bounds out of range
  | error          -- returned error (negative seek)
  deriving DecidableEq, Repr

/-- Go `val[lo:hi]` on a slice of length `n` (cap = len here): panics unless 0 ≤ lo ≤ hi ≤ n -/
def goSlice (val : Bytes) (lo hi : Int) : ReadRes :=
  if 0 ≤ lo ∧ lo ≤ hi ∧ hi ≤ val.length then .ok ((val.drop lo.toNat).take (hi - lo).toNat) else .panic

/-- `InMemoryBlobstore.Get`: the byte range returned for blob `val` -/
def inmemRead (val : Bytes) (br : BlobRange) : ReadRes :=
  if br.isAllRange then .ok val else
  let p := br.positiveRange val.length
  if p.length == 0 then goSlice val p.offset val.length
  else goSlice val p.offset (wrap64 (p.offset + p.length))

/-- `LocalBlobstore.Get`: `readCloserForFileRange` then reading the returned reader to EOF.
`Seek` to a negative absolute position fails (EINVAL); seeking past the end succeeds and reads
nothing; a limited reader stops at `length` bytes or EOF. -/
def localRead (val : Bytes) (br : BlobRange) : ReadRes :=
  let br' := if br.offset < 0 then br.positiveRange val.length else br
  if br'.offset < 0 then .error else
  let rest := val.drop br'.offset.toNat
  if br'.length != 0 then .ok (rest.take br'.length.toNat) else .ok rest

/-- `GitBlobstore.Get` on an inline blob: `sliceInlineBlob` (skip to offset, limited reader);
offsets outside the blob and negative lengths are rejected with an error -/
def gitRead (val : Bytes) (br : BlobRange) : ReadRes :=
  if br.isAllRange then .ok val else
  let sz : Int := val.length
  let p := br.positiveRange sz
  if p.offset < 0 || p.offset > sz then .error else
  if p.length < 0 then .error else
  let l1 := if p.length == 0 then sz - p.offset else p.length
  let l2 := if wrap64 (p.offset + l1) > sz then sz - p.offset else l1
  .ok ((val.drop p.offset.toNat).take l2.toNat)

/-- the documented meaning of a range on a blob, for `-size ≤ offset ≤ size`, `0 ≤ length` -/
def specRange (val : Bytes) (offset length : Int) : Bytes :=
  let start := if offset < 0 then (val.length : Int) + offset else offset
  let n := if length == 0 || start + length > val.length then (val.length : Int) - start else length
  (val.drop start.toNat).take n.toNat

-- ------------------------------------------------------------------ store / conditional update

/-- the manifest blob: content + version; version 0 = does not exist (Go: ""), every write
installs a version never used before (in-memory: fresh UUID; local: the file's mtime string) -/
structure Reg where
  content : Bytes
  ver : Nat
  deriving DecidableEq, Repr

def Reg.empty : Reg := ⟨[], 0⟩

/-- `CheckAndPutManifest(expected, contents)` as one atomic step (under the store's mutex /
file lock): succeeds iff the stored version equals `expected`. -/
def cap (r : Reg) (expected : Nat) (contents : Bytes) : Reg × Bool :=
  if expected = r.ver then (⟨contents, r.ver + 1⟩, true) else (r, false)

/-- a schedule = the order in which the writers' critical sections ran -/
def run : Reg → List (Nat × Bytes) → Reg × List Bool
  | r, [] => (r, [])
  | r, (e, c) :: ops =>
    let (r1, ok) := cap r e c
    let (r2, oks) := run r1 ops
    (r2, ok :: oks)

/-- `GitBlobstore.CheckAndPutManifest` = `remoteManagedWrite` around the `build` closure of
`checkAndPutWithRemoteSync`: a retry loop of attempts, each of which fetches the remote head,
runs `build` (which compares the expected version with the fetched one), and pushes with a lease
on the fetched head.  `ws` lists, per attempt, the other clients' conditional updates that land on
the remote between this attempt's fetch and its push; the lease fails iff they changed the head,
and then the next attempt starts from the new head.  `checkEvery = true` is the code that exists
(the comparison is in the closure body, executed on every attempt); `false` models a comparison
made on the first attempt only. -/
def capRetry (checkEvery : Bool) : Reg → Nat → Bytes → List (List (Nat × Bytes)) → Bool → Reg × Bool
  | r, e, c, [], first =>
    if (checkEvery || first) && e != r.ver then (r, false) else (⟨c, r.ver + 1⟩, true)
  | r, e, c, w :: ws, first =>
    if (checkEvery || first) && e != r.ver then (r, false)
    else if (run r w).1 = r then (⟨c, r.ver + 1⟩, true)       -- lease holds: the head did not move
    else capRetry checkEvery (run r w).1 e c ws false          -- lease lost: retry on the new head

/-- `composeObjects` / `Concatenate` -/
def concat (blobs : List Bytes) : Bytes := blobs.foldr (· ++ ·) []

end DoltVerif.Blobstore
