/-
L2 journal, part 5 (C41): the exclusive database lock.  `newJournalLock(timeout, failOnTimeout)`
takes an advisory `flock` on `<dir>/LOCK`; success => `ExclusiveAccessMode_Exclusive`; failure
(timeout) => `ErrDatabaseLocked` when `failOnTimeout`, otherwise read-only mode (`lock == nil`,
`journalManifest.readOnly()`); every write path of `journal.go` tests `readOnly()` first.
The operating system's lock is a PARAMETER: `grant holder p` is its decision when process `p` asks
while `holder` holds it; theorems assume only the flock law (it never grants a held lock).
-/
namespace DoltVerif.Lock

inductive Mode where
  | exclusive | readOnly
  deriving Repr, DecidableEq

inductive Answer where
  | opened (m : Mode) | errLocked | wrote | errReadOnly | closed | noSession
  deriving Repr, DecidableEq

inductive Act where
  | opn (p : Nat) (failFast : Bool)
  | write (p : Nat)
  | close (p : Nat)
  deriving Repr, DecidableEq

structure Sys where
  holder : Option Nat := none            -- who holds the flock
  sessions : List (Nat × Mode) := []     -- open stores
  writes : List (Nat × Option Nat) := [] -- (writer, holder at that moment), newest first
  deriving Repr, DecidableEq

def modeOf (s : Sys) (p : Nat) : Option Mode := (s.sessions.find? (·.1 == p)).map (·.2)

/-- one action of one process; `grant` is the OS lock -/
def step (grant : Option Nat → Nat → Bool) (s : Sys) : Act → Sys × Answer
  | .opn p ff =>
    match modeOf s p with
    | some m => (s, .opened m)       -- already open in this process: same session
    | none =>
      if grant s.holder p then
        ({ s with holder := some p, sessions := (p, .exclusive) :: s.sessions }, .opened .exclusive)
      else if ff then (s, .errLocked)
      else ({ s with sessions := (p, .readOnly) :: s.sessions }, .opened .readOnly)
  | .write p =>
    match modeOf s p with
    | none => (s, .noSession)
    | some .readOnly => (s, .errReadOnly)       -- `if j.backing.readOnly() { return errReadOnlyManifest }`
    | some .exclusive => ({ s with writes := (p, s.holder) :: s.writes }, .wrote)
  | .close p =>
    match modeOf s p with
    | none => (s, .noSession)
    | some .readOnly => ({ s with sessions := s.sessions.filter (·.1 != p) }, .closed)
    | some .exclusive => ({ s with holder := none, sessions := s.sessions.filter (·.1 != p) }, .closed)

def run (grant : Option Nat → Nat → Bool) (s : Sys) : List Act → Sys × List Answer
  | [] => (s, [])
  | a :: as =>
    let (s1, r) := step grant s a
    let (s2, rs) := run grant s1 as
    (s2, r :: rs)

/-- the real `flock`: granted iff nobody holds it -/
def flock (holder : Option Nat) (_ : Nat) : Bool := holder.isNone

end DoltVerif.Lock
