/-
VcsOps — a small executable abstract machine for the version-control procedures of dolt that
properties C31–C34 talk about (cherry-pick / revert / rebase, diff / patch, AS OF / history reads,
stash / reset / checkout).  Core Lean only (the driver `dv_vcsops` links this file).

Style: abstract algorithm + refinement (DESIGN.md §5).  The data universe is closed:
  * a cell is NULL, an integer or a short string;
  * a table has one integer primary-key column `pk` and a list of non-key columns (name, type);
    its rows are an association list `pk ↦ cells`, ascending in `pk`;
  * a root is an association list `table name ↦ table`, ascending in the name.
The procedures are modelled at the level the Go code works at:
  * table-level three-way merge = `merge.RootMerger.MaybeShortCircuit` (hash comparisons = value
    comparisons here) followed by a key-wise / cell-wise row merge (`mergeRows`);
  * cherry-pick / revert call that merge with the bases `cherry_pick.cherryPick` /
    `revert.revertCommit` pass to `merge.MergeRoots`;
  * stash / reset / checkout follow `dprocedures/dolt_stash.go`, `env/actions/reset.go`,
    `env/actions/checkout.go` function by function (bugs included, see design/C34.md).
-/
namespace DoltVerif.VcsOps

/-! ## values, tables, roots -/

inductive Val where
  | null
  | int (i : Int)
  | str (s : String)
  deriving DecidableEq, Repr, Inhabited

inductive Ty where
  | int | str
  deriving DecidableEq, Repr, Inhabited

structure Col where
  name : String
  ty : Ty
  deriving DecidableEq, Repr, Inhabited

abbrev Row := List Val

structure Table where
  cols : List Col
  rows : List (Int × Row)
  deriving DecidableEq, Repr, Inhabited

abbrev Root := List (String × Table)

/-! ## association lists (generic in the key; ascending order is an invariant, see `Sorted`) -/

/-- lookup -/
def get {κ α : Type} [DecidableEq κ] : List (κ × α) → κ → Option α
  | [], _ => none
  | (k', v) :: rest, k => if k' = k then some v else get rest k

def keys {κ α : Type} (m : List (κ × α)) : List κ := m.map (·.1)

def has {κ α : Type} [DecidableEq κ] (m : List (κ × α)) (k : κ) : Bool := (get m k).isSome

/-- ordered insert-or-replace -/
def put {κ α : Type} [DecidableEq κ] (lt : κ → κ → Bool) : List (κ × α) → κ → α → List (κ × α)
  | [], k, v => [(k, v)]
  | (k', v') :: rest, k, v =>
    if k' = k then (k, v) :: rest
    else if lt k k' then (k, v) :: (k', v') :: rest
    else (k', v') :: put lt rest k v

def del {κ α : Type} [DecidableEq κ] : List (κ × α) → κ → List (κ × α)
  | [], _ => []
  | (k', v') :: rest, k => if k' = k then rest else (k', v') :: del rest k

/-- insert a key into an ascending duplicate-free key list -/
def insKey {κ : Type} [DecidableEq κ] (lt : κ → κ → Bool) : List κ → κ → List κ
  | [], k => [k]
  | k' :: rest, k =>
    if k' = k then k' :: rest
    else if lt k k' then k :: k' :: rest
    else k' :: insKey lt rest k

/-- ascending duplicate-free union of key lists -/
def unionKeys {κ : Type} [DecidableEq κ] (lt : κ → κ → Bool) (a b : List κ) : List κ :=
  b.foldl (insKey lt) (a.foldl (insKey lt) [])

def ltInt (a b : Int) : Bool := decide (a < b)
def ltStr (a b : String) : Bool := decide (a < b)

def putRow (t : List (Int × Row)) (k : Int) (r : Row) := put ltInt t k r
def putTable (r : Root) (n : String) (t : Table) : Root := put ltStr r n t

/-! ## three-way merge of rows (key-wise, then cell-wise) -/

/-- cell-wise merge of three rows over the same column list; `none` = conflict -/
def mergeCells : Row → Row → Row → Option Row
  | b :: bs, o :: os, t :: ts =>
    match mergeCells bs os ts with
    | none => none
    | some rest =>
      if o = b then some (t :: rest)
      else if t = b then some (o :: rest)
      else if o = t then some (o :: rest)
      else none
  | [], [], [] => some []
  | _, _, _ => none

/-- outcome of merging one key: the merged optional row, or a conflict -/
inductive KeyMerge where
  | row (r : Option Row)
  | conflict
  deriving DecidableEq, Repr

/-- one key of the three-way merge (`valueMerger.TryMerge` and the delete/modify rules) -/
def mergeKey (b o t : Option Row) : KeyMerge :=
  if o = b then .row t
  else if t = b then .row o
  else if o = t then .row o
  else match b, o, t with
    | some br, some or, some tr =>
      match mergeCells br or tr with
      | some r => .row (some r)
      | none => .conflict
    | _, _, _ => .conflict   -- delete/modify, or both sides inserted different rows

/-- merge the row maps over the union of their keys; `none` = at least one conflict -/
def mergeRowsOn (ks : List Int) (b o t : List (Int × Row)) : Option (List (Int × Row)) :=
  match ks with
  | [] => some []
  | k :: rest =>
    match mergeKey (get b k) (get o k) (get t k), mergeRowsOn rest b o t with
    | .conflict, _ => none
    | _, none => none
    | .row none, some m => some m
    | .row (some r), some m => some ((k, r) :: m)

def mergeRows (b o t : List (Int × Row)) : Option (List (Int × Row)) :=
  mergeRowsOn (unionKeys ltInt (unionKeys ltInt (keys b) (keys o)) (keys t)) b o t

/-! ## schema mapping -/

/-- the cell of column `c` in a row laid out by `cols` (NULL when the column is absent) -/
def cellOf : List Col → Row → Col → Val
  | c' :: cs, v :: vs, c => if c' = c then v else cellOf cs vs c
  | _, _, _ => .null

/-- re-lay a row from column list `src` to column list `dst` (by column identity = name and type) -/
def projRow (src dst : List Col) (r : Row) : Row := dst.map (cellOf src r)

def projRows (src dst : List Col) (rows : List (Int × Row)) : List (Int × Row) :=
  rows.map (fun kr => (kr.1, projRow src dst kr.2))

/-- result of a table / root merge -/
inductive MergeErr where
  | conflict          -- data conflict (the procedures abort / roll back)
  | schemaConflict    -- delete/modify of a table, same table added twice with different schemas
  | unsupported       -- outside the modelled family (both sides changed the schema)
  deriving DecidableEq, Repr

/-- `TableMerger.SchemaMerge` for the modelled family: at most one side changed the column list. -/
def mergeCols (b o t : List Col) : Except MergeErr (List Col) :=
  -- only theirs changed: ours' surviving columns in ours' order, theirs' new columns appended
  -- (the schema merge cannot place a column: a column theirs has in the middle lands at the end)
  if o = b then .ok (o.filter (fun c => t.contains c) ++ t.filter (fun c => !(o.contains c)))
  else if t = b then .ok o
  else if o = t then .ok o
  else .error .unsupported

/-- Three-way merge of one table name: `RootMerger.MaybeShortCircuit` + `mergeProllyTable`.
`cherry` is `MergeOpts.IsCherryPick` (no fast-forward of the table when only theirs changed). -/
def mergeTable (cherry : Bool) (b o t : Option Table) : Except MergeErr (Option Table) :=
  match o, t, b with
  -- nothing changed / both made identical changes
  | some ot, some tt, some bt =>
    if ot = tt then .ok (some ot)
    else if tt = bt then .ok (some ot)
    else if !cherry && ot = bt then .ok (some tt)
    else
      match mergeCols bt.cols ot.cols tt.cols with
      | .error e => .error e
      | .ok cols =>
        match mergeRows (projRows bt.cols cols bt.rows) (projRows ot.cols cols ot.rows) (projRows tt.cols cols tt.rows) with
        | none => .error .conflict
        | some rows => .ok (some ⟨cols, rows⟩)
  | some ot, some tt, none =>
    if ot = tt then .ok (some ot)
    else if ot.cols ≠ tt.cols then .error .schemaConflict      -- ErrSameTblAddedTwice
    else
      match mergeRows [] ot.rows tt.rows with
      | none => .error .conflict
      | some rows => .ok (some ⟨ot.cols, rows⟩)
  | some ot, none, none => .ok (some ot)          -- added by ours
  | none, some tt, none => .ok (some tt)          -- added by theirs
  | none, none, none => .ok none
  | none, none, some _ => .ok none                -- deleted in both
  | some ot, none, some bt => if ot = bt then .ok none else .error .schemaConflict   -- ErrTableDeletedAndModified
  | none, some tt, some bt => if tt = bt then .ok none else .error .schemaConflict

/-- `merge.MergeRoots`: table by table over the union of the names of ours and theirs. -/
def mergeRootsOn (cherry : Bool) (names : List String) (b o t : Root) : Except MergeErr Root :=
  match names with
  | [] => .ok []
  | n :: rest =>
    match mergeTable cherry (get b n) (get o n) (get t n), mergeRootsOn cherry rest b o t with
    | .error e, _ => .error e
    | _, .error e => .error e
    | .ok none, .ok m => .ok m
    | .ok (some tb), .ok m => .ok ((n, tb) :: m)

def merge3 (cherry : Bool) (b o t : Root) : Except MergeErr Root :=
  mergeRootsOn cherry (unionKeys ltStr (keys o) (keys t)) b o t

/-! ## diff of two tables / roots (`prolly.DiffMaps` lifted through the schema mapping) -/

inductive DiffType where
  | added | modified | removed
  deriving DecidableEq, Repr

structure DiffRow where
  pk : Int
  ty : DiffType
  «from» : Option Row     -- laid out by the from-table's columns
  to : Option Row         -- laid out by the to-table's columns
  deriving DecidableEq, Repr

def diffKey (k : Int) (f t : Option Row) : Option DiffRow :=
  match f, t with
  | none, none => none
  | none, some tr => some ⟨k, .added, none, some tr⟩
  | some fr, none => some ⟨k, .removed, some fr, none⟩
  | some fr, some tr => if fr = tr then none else some ⟨k, .modified, some fr, some tr⟩

/-- rows of `dolt_diff(a, b, t)` when the column lists agree: ascending in the key, one per key
whose rows differ. -/
def diffRows (f t : List (Int × Row)) : List DiffRow :=
  (unionKeys ltInt (keys f) (keys t)).filterMap (fun k => diffKey k (get f k) (get t k))

/-- the stored tuple of a row: trailing NULL fields are not stored -/
def trimNulls (r : Row) : Row := (r.reverse.dropWhile (fun v => v = Val.null)).reverse

/-- one key of the diff of two tables with different column lists: dolt compares the *stored tuples*
(positionally, trailing NULLs not stored), so after a column was added at the end (NULL in every old
row) an untouched row is equal, while dropping a column that is not last shifts the later fields and
makes every row that has one `modified` — even when the dropped value was NULL. -/
def diffKeyU (k : Int) (f t : Option Row) : Option DiffRow :=
  match f, t with
  | none, none => none
  | none, some tr => some ⟨k, .added, none, some tr⟩
  | some fr, none => some ⟨k, .removed, some fr, none⟩
  | some fr, some tr =>
    if trimNulls fr = trimNulls tr then none else some ⟨k, .modified, some fr, some tr⟩

def diffTables (f t : Option Table) : List DiffRow :=
  match f, t with
  | none, none => []
  | none, some tt => tt.rows.map (fun kr => ⟨kr.1, .added, none, some kr.2⟩)
  | some ft, none => ft.rows.map (fun kr => ⟨kr.1, .removed, some kr.2, none⟩)
  | some ft, some tt =>
    if ft.cols = tt.cols then diffRows ft.rows tt.rows
    else
      (unionKeys ltInt (keys ft.rows) (keys tt.rows)).filterMap (fun k =>
        diffKeyU k (get ft.rows k) (get tt.rows k))

/-! ## patches: `dolt_patch(a, b)` as a statement list, and its execution -/

inductive Stmt where
  | createTable (t : String) (cols : List Col)
  | dropTable (t : String)
  | addCol (t : String) (c : Col)
  | dropCol (t : String) (c : String)
  | insert (t : String) (pk : Int) (r : Row)
  | update (t : String) (pk : Int) (sets : List (String × Val))
  | delete (t : String) (pk : Int)
  deriving DecidableEq, Repr

/-- `generateNonCreateNonDropTableSqlSchemaDiff`: removed columns (in from-order) and added columns
(in to-order), walking the union of the tags from-schema first. -/
def schemaStmts (n : String) (f t : List Col) : List Stmt :=
  (f.filter (fun c => !(t.contains c))).map (fun c => Stmt.dropCol n c.name) ++
  (t.filter (fun c => !(f.contains c))).map (fun c => Stmt.addCol n c)

/-- columns of the to-layout whose value differs between the (re-laid) from-row and the to-row:
`DiffSplitter.SplitDiffResultRow` + `GenerateDataDiffStatement` for a modified row. -/
def changedSets : List Col → Row → Row → List (String × Val)
  | c :: cs, f :: fs, t :: ts =>
    if f = t then changedSets cs fs ts else (c.name, t) :: changedSets cs fs ts
  | _, _, _ => []

def dataStmt (n : String) (fcols tcols : List Col) (d : DiffRow) : List Stmt :=
  match d.ty, d.from, d.to with
  | .added, _, some tr => [Stmt.insert n d.pk tr]
  | .removed, _, _ => [Stmt.delete n d.pk]
  | .modified, some fr, some tr =>
    let sets := changedSets tcols (projRow fcols tcols fr) tr
    if sets.isEmpty then [] else [Stmt.update n d.pk sets]
  | _, _, _ => []

/-- the patch of one table delta (`getPatchNodes`): schema statements, then data statements. -/
def patchTable (n : String) (f t : Option Table) : List Stmt :=
  match f, t with
  | none, none => []
  | some _, none => [Stmt.dropTable n]
  | none, some tt => Stmt.createTable n tt.cols :: (diffTables none (some tt)).flatMap (dataStmt n tt.cols tt.cols)
  | some ft, some tt =>
    if ft = tt then [] else
    schemaStmts n ft.cols tt.cols ++ (diffTables (some ft) (some tt)).flatMap (dataStmt n ft.cols tt.cols)

/-- `PatchTableFunction.PartitionRows` sorts the table deltas by their *to* name, so dropped tables
(empty to-name) come first, each group ascending in the name. -/
def patch (a b : Root) : List Stmt :=
  let names := unionKeys ltStr (keys a) (keys b)
  (names.filter (fun n => !(has b n))).flatMap (fun n => patchTable n (get a n) (get b n)) ++
  (names.filter (fun n => has b n)).flatMap (fun n => patchTable n (get a n) (get b n))

/-- replace the cell of the column called `name` -/
def setCell : List Col → Row → String → Val → Row
  | c :: cs, v :: vs, name, x => if c.name = name then x :: vs else v :: setCell cs vs name x
  | _, r, _, _ => r

/-- remove the cell of the column called `name` -/
def dropCell : List Col → Row → String → Row
  | c :: cs, v :: vs, name => if c.name = name then vs else v :: dropCell cs vs name
  | _, r, _ => r

/-- the table a statement addresses -/
def stmtTable : Stmt → String
  | .createTable n _ | .dropTable n | .addCol n _ | .dropCol n _ | .insert n _ _ | .update n _ _ | .delete n _ => n

def applySets (cols : List Col) (row : Row) (sets : List (String × Val)) : Row :=
  sets.foldl (fun acc s => setCell cols acc s.1 s.2) row

/-- execution of one statement on the table it addresses (`none` inside = the table is absent);
outer `none` = the statement fails (table / column / key missing or duplicated) -/
def execT (tb : Option Table) : Stmt → Option (Option Table)
  | .createTable _ cols => match tb with | some _ => none | none => some (some ⟨cols, []⟩)
  | .dropTable _ => match tb with | some _ => some none | none => none
  | .addCol _ c =>
    match tb with
    | some tb =>
      if tb.cols.any (fun c' => c'.name = c.name) then none
      else some (some ⟨tb.cols ++ [c], tb.rows.map (fun kr => (kr.1, kr.2 ++ [Val.null]))⟩)
    | none => none
  | .dropCol _ cn =>
    match tb with
    | some tb =>
      if tb.cols.any (fun c' => c'.name = cn) then
        some (some ⟨tb.cols.filter (fun c' => c'.name ≠ cn), tb.rows.map (fun kr => (kr.1, dropCell tb.cols kr.2 cn))⟩)
      else none
    | none => none
  | .insert _ k row =>
    match tb with
    | some tb =>
      if has tb.rows k || row.length ≠ tb.cols.length then none
      else some (some ⟨tb.cols, putRow tb.rows k row⟩)
    | none => none
  | .update _ k sets =>
    match tb with
    | some tb =>
      match get tb.rows k with
      | some row => some (some ⟨tb.cols, putRow tb.rows k (applySets tb.cols row sets)⟩)
      | none => some (some tb)    -- UPDATE … WHERE pk = k matches no row: succeeds, changes nothing
    | none => none
  | .delete _ k =>
    match tb with
    | some tb => some (some ⟨tb.cols, del tb.rows k⟩)
    | none => none

/-- write a table (or its absence) back into a root -/
def setEntry (r : Root) (n : String) : Option Table → Root
  | some t => putTable r n t
  | none => del r n

/-- execution of one statement on a root -/
def execStmt (r : Root) (s : Stmt) : Option Root :=
  (execT (get r (stmtTable s)) s).map (setEntry r (stmtTable s))

def exec (ss : List Stmt) (r : Root) : Option Root :=
  ss.foldlM execStmt r

end DoltVerif.VcsOps
