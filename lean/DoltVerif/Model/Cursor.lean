/-
Read paths of a prolly map (go/store/prolly/tree/node_cursor.go, map.go; go/store/prolly/
tuple_range.go): per-level binary search, cursor positions, ordinals, range predicates and the
iterators' start/stop search.  Core-only.

Style: abstract algorithm + refinement.  A cursor is the path of node indices from the root to a
leaf (`cursor.idx` of every level); `compareCursors` is the lexicographic comparison of paths.
The node-to-node stepping of `cursor.advance/retreat` is NOT modelled: an iterator
`{curr: lo, stop: compare(hi) >= 0}` is modelled by its emptiness test (`compare(lo, hi) >= 0`),
the validity of its first position, and then the items between the ordinals of the two cursors
(`getOrdinalOfCursor` arithmetic on the stored subtree counts).
-/
import DoltVerif.Model.Tree
namespace DoltVerif.Prolly

variable {κ ν β : Type}

/-- the loop of `sort.Search` / `searchForKey` / `newLeafCursorAtKey`:
`for i < j { h := (i+j)/2; if !f(h) { i = h+1 } else { j = h } }` -/
def bsearch (f : Nat → Bool) (i j : Nat) : Nat :=
  if i < j then
    let h := (i + j) / 2
    if f h then bsearch f i h else bsearch f (h + 1) j
  else i
termination_by j - i

/-- `sort.Search(n, f)` -/
def sortSearch (n : Nat) (f : Nat → Bool) : Nat := bsearch f 0 n

/-- a `tree.SearchFn`, applied to the keys of one node -/
abbrev SearchFn (κ : Type) := List κ → Nat

/-- `searchForKey(key, order)`: first index whose key is ≥ `key` (`cmp key k ≤ 0`), `Count` if none -/
def searchForKey (cmp : κ → κ → Ordering) (key : κ) : SearchFn κ := fun keys =>
  sortSearch keys.length (fun i => match keys[i]? with
    | some k => cmp key k != .gt
    | none => true)

def nodeKeys (n : Nat) (nd : NodeH κ ν n) : List κ := nd.map (keyOf n)

/-- `newCursorFromSearchFn` (and `newLeafCursorAtKey`, `newCursorAtKey`): the index chosen at every
level, root first.  Internal indices are kept in bounds (`keepInBounds`), the leaf index is raw
(may equal `Count`).  `none` = the Go code indexes an empty internal node (panic). -/
def seekPath (search : SearchFn κ) : (n : Nat) → NodeH κ ν n → Option (List Nat)
  | 0, nd => some [search (nodeKeys 0 nd)]
  | n+1, nd =>
    let idx := min (search (nodeKeys (n+1) nd)) (nd.length - 1)
    match nd[idx]? with
    | none => none
    | some it => (seekPath search n (childOf it)).map (idx :: ·)

/-- `getOrdinalOfCursor`: the leaf index plus, per ancestor, the stored subtree counts of the
preceding siblings -/
def pathOrdinal : (n : Nat) → NodeH κ ν n → List Nat → Option Nat
  | 0, _, [i] => some i
  | 0, _, _ => none
  | n+1, nd, i :: rest =>
    -- `if curr.idx >= curr.nd.Count() { curr.skipToNodeEnd() }`
    let i := min i (nd.length - 1)
    match nd[i]? with
    | some it => (pathOrdinal n (childOf it) rest).map (· + ((nd.take i).map (countOf (n+1))).sum)
    | none => none
  | _+1, _, [] => none

/-- the leaf item a path points at (`cursor.Valid()` and `CurrentKey/currentValue`) -/
def pathItem : (n : Nat) → NodeH κ ν n → List Nat → Option (κ × ν)
  | 0, nd, [i] => nd[i]?
  | 0, _, _ => none
  | n+1, nd, i :: rest =>
    match nd[i]? with
    | some it => pathItem n (childOf it) rest
    | none => none
  | _+1, _, [] => none

/-- `newCursorAtOrdinal` for `ord < TreeCount`: walk the stored subtree counts -/
def ordinalPath : (n : Nat) → NodeH κ ν n → Nat → Option (List Nat)
  | 0, _, ord => some [ord]
  | n+1, nd, ord =>
    -- `for idx = 0; idx < Count; idx++ { if distance - card < 0 break; distance -= card }`
    let rec go (items : List (ItemH κ ν (n+1))) (idx dist : Nat) : Nat × Nat :=
      match items with
      | [] => (idx, dist)
      | it :: rest => if dist < countOf (n+1) it then (idx, dist) else go rest (idx + 1) (dist - countOf (n+1) it)
    let r := go nd 0 ord
    let idx := min r.1 (nd.length - 1)
    match nd[idx]? with
    | none => none
    | some it => (ordinalPath n (childOf it) r.2).map (idx :: ·)

/-- `newCursorAtStart`: first index at every level -/
def startPath (n : Nat) : List Nat := List.replicate (n + 1) 0

/-- `newCursorPastEnd` (`newCursorAtEnd` then `advance`): every level ends up invalidated at its
node's `Count` -/
def pastEndPath : (n : Nat) → NodeH κ ν n → List Nat
  | 0, nd => [nd.length]
  | n+1, nd => nd.length :: (match nd.getLast? with
      | some it => pastEndPath n (childOf it)
      | none => [])

/-- `compareCursors`: index difference per level, a higher level overrides a lower one -/
def cmpPath : List Nat → List Nat → Ordering
  | a :: as, b :: bs => if a < b then .lt else if b < a then .gt else cmpPath as bs
  | _, _ => .eq

namespace Tree
variable (t : Tree κ ν)

def count : Nat := treeCount t.height t.root

/-- `StaticMap.Get` / `Has` (via `newLeafCursorAtKey`): the stored pair whose key compares equal -/
def get (cmp : κ → κ → Ordering) (k : κ) : Option (κ × ν) :=
  match seekPath (searchForKey cmp k) t.height t.root with
  | none => none
  | some p =>
    match pathItem t.height t.root p with
    | some kv => if cmp k kv.1 == .eq then some kv else none
    | none => none

/-- ordinal of the cursor a search function lands on -/
def seekOrdinal (search : SearchFn κ) : Option Nat :=
  match seekPath search t.height t.root with
  | none => none
  | some p => pathOrdinal t.height t.root p

/-- `GetOrdinalForKey` -/
def ordinalForKey (cmp : κ → κ → Ordering) (k : κ) : Option Nat := t.seekOrdinal (searchForKey cmp k)

/-- the items between two ordinals -/
def slice (lo hi : Nat) : List (κ × ν) :=
  if lo < hi then (t.flatten.drop lo).take (hi - lo) else []

/-- `OrderedTreeIter{curr: lo, stop: compare(hi) >= 0}`: empty when `lo ≥ hi` as cursors;
otherwise the first `Next` dereferences `lo` (a panic when `lo` is not on an item), and the walk
yields the items up to `hi`.  `none` = panic. -/
def iterPaths (lo hi : List Nat) : Option (List (κ × ν)) :=
  if cmpPath lo hi != .lt then some []
  else match pathItem t.height t.root lo, pathOrdinal t.height t.root lo, pathOrdinal t.height t.root hi with
    | some _, some a, some b => some (t.slice a b)
    | _, _, _ => none

def atKeyPath (cmp : κ → κ → Ordering) (k : κ) : Option (List Nat) := seekPath (searchForKey cmp k) t.height t.root

/-- `getKeyRangeCursors`: empty bound = unbounded (`newCursorAtStart` / `newCursorPastEnd`) -/
def keyRangePaths (cmp : κ → κ → Ordering) (start stop : Option κ) : Option (List Nat × List Nat) := do
  let lo ← match start with
    | none => some (startPath t.height)
    | some k => t.atKeyPath cmp k
  let hi ← match stop with
    | none => some (pastEndPath t.height t.root)
    | some k => t.atKeyPath cmp k
  pure (lo, hi)

/-- `IterKeyRange(start, stop)` -/
def iterKeyRange (cmp : κ → κ → Ordering) (start stop : Option κ) : Option (List (κ × ν)) :=
  match t.keyRangePaths cmp start stop with
  | some p => t.iterPaths p.1 p.2
  | none => none

/-- `GetKeyRangeCardinality`: `getOrdinalOfCursor` of both cursors, saturating difference -/
def keyRangeCardinality (cmp : κ → κ → Ordering) (start stop : Option κ) : Option Nat :=
  match t.keyRangePaths cmp start stop with
  | some p =>
    match pathOrdinal t.height t.root p.1, pathOrdinal t.height t.root p.2 with
    | some a, some b => some (if a > b then 0 else b - a)
    | _, _ => none
  | none => none

inductive OrdErr where
  | invalidBounds | outOfBounds | panic
  deriving DecidableEq, Repr

/-- `newCursorAtOrdinal` -/
def atOrdinalPath (ord : Nat) : Option (List Nat) :=
  if ord ≥ t.count then some (pastEndPath t.height t.root) else ordinalPath t.height t.root ord

/-- `IterOrdinalRange(start, stop)` with its two error returns -/
def iterOrdinalRange (start stop : Nat) : Except OrdErr (List (κ × ν)) :=
  if stop = start then .ok []
  else if stop < start then .error .invalidBounds
  else if stop > t.count then .error .outOfBounds
  else match t.atOrdinalPath start, t.atOrdinalPath stop with
    | some lo, some hi =>
      -- no emptiness test here: the iterator is returned as is
      match pathItem t.height t.root lo, pathOrdinal t.height t.root lo, pathOrdinal t.height t.root hi with
      | some _, some a, some b => .ok (t.slice a b)
      | _, _, _ => .error .panic
    | _, _ => .error .panic

/-- `IterAll`: `newCursorAtStart` … `newCursorPastEnd` -/
def iterAll : Option (List (κ × ν)) := t.iterPaths (startPath t.height) (pastEndPath t.height t.root)
def iterAllReverse : Option (List (κ × ν)) := t.iterAll.map List.reverse
/-- `LastKey`: `getLastKey(root)` when the root is non-empty -/
def lastKey? : Option κ := (t.root.getLast?).map (keyOf t.height)

end Tree

/-! ### `prolly.Range` (tuple_range.go) -/

structure Bound (β : Type) where
  value : β
  binding : Bool
  inclusive : Bool

structure RangeField (β : Type) where
  lo : Bound β
  hi : Bound β
  boundsAreEqual : Bool

/-- `fcmp i t v` = `order.CompareValues(i, desc.GetField(i, t), v, typ)` -/
abbrev FieldCmp (κ β : Type) := Nat → κ → β → Ordering

/-- `Range.aboveStart` -/
def aboveStart (fcmp : FieldCmp κ β) (t : κ) : Nat → List (RangeField β) → Bool
  | _, [] => true
  | i, f :: fs =>
    if !f.lo.binding then true
    else match fcmp i t f.lo.value with
      | .lt => false
      | .eq => if f.boundsAreEqual then aboveStart fcmp t (i+1) fs else f.lo.inclusive
      | .gt => true

/-- `Range.belowStop` -/
def belowStop (fcmp : FieldCmp κ β) (t : κ) : Nat → List (RangeField β) → Bool
  | _, [] => true
  | i, f :: fs =>
    if !f.hi.binding then true
    else match fcmp i t f.hi.value with
      | .gt => false
      | .eq => if f.boundsAreEqual then belowStop fcmp t (i+1) fs else f.hi.inclusive
      | .lt => true

/-- `Range.Matches` -/
def rangeMatches (fcmp : FieldCmp κ β) (t : κ) : Nat → List (RangeField β) → Bool
  | _, [] => true
  | i, f :: fs =>
    if f.boundsAreEqual then
      (fcmp i t f.lo.value == .eq) && rangeMatches fcmp t (i+1) fs
    else
      let okLo := !f.lo.binding || (match fcmp i t f.lo.value with
        | .lt => false
        | .eq => f.lo.inclusive
        | .gt => true)
      let okHi := !f.hi.binding || (match fcmp i t f.hi.value with
        | .gt => false
        | .eq => f.hi.inclusive
        | .lt => true)
      okLo && okHi && rangeMatches fcmp t (i+1) fs

/-- `rangeStartSearchFn`: `sort.Search(Count, i => aboveStart(key i))` -/
def rangeStartSearch (fcmp : FieldCmp κ β) (r : List (RangeField β)) : SearchFn κ := fun keys =>
  sortSearch keys.length (fun i => match keys[i]? with
    | some k => aboveStart fcmp k 0 r
    | none => true)

/-- `rangeStopSearchFn`: `sort.Search(Count, i => !belowStop(key i))` -/
def rangeStopSearch (fcmp : FieldCmp κ β) (r : List (RangeField β)) : SearchFn κ := fun keys =>
  sortSearch keys.length (fun i => match keys[i]? with
    | some k => !belowStop fcmp k 0 r
    | none => true)

/-- `Map.IterRange(rng)` without the `KeyRangeLookup` shortcut (`rng.Tup == nil`):
`treeIterFromRange` + `filteredIter` -/
def Tree.iterRange (t : Tree κ ν) (fcmp : FieldCmp κ β) (r : List (RangeField β)) : Option (List (κ × ν)) :=
  match seekPath (rangeStartSearch fcmp r) t.height t.root, seekPath (rangeStopSearch fcmp r) t.height t.root with
  | some lo, some hi => (t.iterPaths lo hi).map (·.filter (fun kv => rangeMatches fcmp kv.1 0 r))
  | _, _ => none

end DoltVerif.Prolly
