/-
L2 journal, part 1: bytes, CRC-32C, the journal record codec of `go/store/nbs/journal_record.go`
(`writeChunkRecord`, `writeRootHashRecord`, `readJournalRecord`, `validateJournalRecord`).
Core Lean only.  Transliteration: same field order, same early exits, same panics (class `panic`).
-/
namespace DoltVerif.Journal

abbrev Bytes := List UInt8

/-! ### CRC-32C (Castagnoli, reflected polynomial 0x82F63B78), table-free -/

@[inline] def crcBit (c : UInt32) : UInt32 :=
  if c &&& 1 == 1 then (c >>> 1) ^^^ 0x82F63B78 else c >>> 1

def crcStep (c : UInt32) (b : UInt8) : UInt32 :=
  crcBit (crcBit (crcBit (crcBit (crcBit (crcBit (crcBit (crcBit (c ^^^ b.toUInt32))))))))

/-- Go `crc32.Update(crc, castagnoliTable, p)`. -/
def crcUpdate (crc : UInt32) (bs : Bytes) : UInt32 := ~~~ (bs.foldl crcStep (~~~ crc))

/-- Go `crc(b)` of table.go = `crc32.Update(0, crcTable, b)`. -/
def crc32c (bs : Bytes) : UInt32 := crcUpdate 0 bs

/-! ### big-endian integers -/

def be32 (n : Nat) : Bytes :=
  [UInt8.ofNat (n / 16777216 % 256), UInt8.ofNat (n / 65536 % 256), UInt8.ofNat (n / 256 % 256), UInt8.ofNat (n % 256)]

def be64 (n : Nat) : Bytes := be32 (n / 4294967296 % 4294967296) ++ be32 (n % 4294967296)

/-- `binary.BigEndian.Uint32(buf)`; `none` = the Go code would panic (fewer than 4 bytes). -/
def readU32? : Bytes → Option Nat
  | a :: b :: c :: d :: _ => some (a.toNat * 16777216 + b.toNat * 65536 + c.toNat * 256 + d.toNat)
  | _ => none

def readU64? (bs : Bytes) : Option Nat :=
  match readU32? bs, readU32? (bs.drop 4) with
  | some hi, some lo => some (hi * 4294967296 + lo)
  | _, _ => none

def zeros (n : Nat) : Bytes := List.replicate n 0

/-! ### constants (tied to the Go source by `Tie/Journal.lean`) -/

def kindRoot : Nat := 1
def kindChunk : Nat := 2
def tagKind : UInt8 := 1
def tagAddr : UInt8 := 2
def tagPayload : UInt8 := 3
def tagTimestamp : UInt8 := 4
def addrSz : Nat := 20
def checksumSz : Nat := 4
def lenSz : Nat := 4
def timestampSz : Nat := 8
/-- `rootHashRecordSize()` -/
def rootRecSz : Nat := lenSz + (1 + 1) + (1 + addrSz) + (1 + timestampSz) + checksumSz
/-- payload offset of `chunkRecordSize` -/
def chunkPayloadOff : Nat := lenSz + (1 + 1) + (1 + addrSz) + 1
def chunkRecSz (payloadLen : Nat) : Nat := chunkPayloadOff + payloadLen + checksumSz

/-! ### writers -/

/-- `writeChunkRecord`: length, kind tag+kind, addr tag+addr, payload tag+payload, crc. -/
def encodeChunk (addr payload : Bytes) : Bytes :=
  let body := be32 (chunkRecSz payload.length) ++ [tagKind, UInt8.ofNat kindChunk] ++ [tagAddr] ++ addr
    ++ [tagPayload] ++ payload
  body ++ be32 (crc32c body).toNat

/-- `writeRootHashRecord`: length, kind tag+kind, timestamp tag+seconds, addr tag+addr, crc. -/
def encodeRoot (addr : Bytes) (ts : Nat) : Bytes :=
  let body := be32 rootRecSz ++ [tagKind, UInt8.ofNat kindRoot] ++ [tagTimestamp] ++ be64 ts ++ [tagAddr] ++ addr
  body ++ be32 (crc32c body).toNat

/-- A journal record at the level the writer API sees it. -/
inductive Rec where
  | chunk (addr payload : Bytes)
  | root (addr : Bytes) (ts : Nat)
  deriving Repr, DecidableEq

def Rec.encode : Rec → Bytes
  | .chunk a p => encodeChunk a p
  | .root a t => encodeRoot a t

def encAll (rs : List Rec) : Bytes := (rs.map Rec.encode).flatten

/-! ### reader -/

/-- what `readJournalRecord` fills in (`journalRec`) -/
structure Parsed where
  length : Nat
  kind : Nat := 0
  addr : Bytes := zeros 20
  ts : Option Nat := none
  payload : Bytes := []
  deriving Repr, DecidableEq

inductive RErr where
  | unknownTag (t : Nat)   -- `unknown record field tag`
  | panic                  -- slice out of range in the Go code (CRC-valid but malformed record)
  | unknownKind (k : Nat)  -- raised by the bootstrap callback
  deriving Repr, DecidableEq

/-- the tag loop of `readJournalRecord` (`for len(buf) > journalRecChecksumSz`). -/
def readFields (buf : Bytes) (r : Parsed) : Except RErr Parsed :=
  if _h : buf.length > checksumSz then
    match buf with
    | [] => .ok r
    | tag :: rest =>
      if tag = tagKind then
        match rest with
        | [] => .error .panic
        | k :: rest' => readFields rest' { r with kind := k.toNat }
      else if tag = tagAddr then
        if rest.length < addrSz then .error .panic
        else readFields (rest.drop addrSz) { r with addr := rest.take addrSz }
      else if tag = tagTimestamp then
        match readU64? rest with
        | none => .error .panic
        | some t => readFields (rest.drop timestampSz) { r with ts := some t }
      else if tag = tagPayload then
        let sz := rest.length - checksumSz
        readFields (rest.drop sz) { r with payload := rest.take sz }
      else .error (.unknownTag tag.toNat)
  else .ok r
termination_by buf.length
decreasing_by
  all_goals simp_all [List.length_drop, checksumSz, addrSz, timestampSz]
  all_goals omega

/-- `readJournalRecord(buf)`; the trailing checksum read never fails in the callers (the slices
have spare capacity), so it is not modelled as an error. -/
def readRecord (buf : Bytes) : Except RErr Parsed :=
  match readU32? buf with
  | none => .error .panic
  | some l => readFields (buf.drop lenSz) { length := l }

inductive VErr where
  | tooSmall | lenExceeds | crcMismatch | panic
  deriving Repr, DecidableEq

/-- `validateJournalRecord(buf)` -/
def validate (buf : Bytes) : Except VErr Unit :=
  if buf.length < lenSz + checksumSz then .error .tooSmall
  else match readU32? buf with
    | none => .error .tooSmall
    | some l =>
      if l > buf.length then .error .lenExceeds
      else if l < checksumSz then .error .panic   -- uint32 underflow of `off -= 4`, then slice panic
      else match readU32? (buf.drop (l - checksumSz)) with
        | none => .error .panic
        | some c => if (crc32c (buf.take (l - checksumSz))).toNat = c then .ok () else .error .crcMismatch

def isValid (buf : Bytes) : Bool := match validate buf with | .ok _ => true | .error _ => false

/-- `payloadOffset()` = `length - (len(payload) + 4)` in uint32 arithmetic. -/
def Parsed.payloadOffset (r : Parsed) : Nat :=
  (r.length + 4294967296 - (r.payload.length + checksumSz) % 4294967296) % 4294967296

/-- what a correctly encoded record parses to -/
def Rec.parsed : Rec → Parsed
  | .chunk a p => { length := chunkRecSz p.length, kind := kindChunk, addr := a, payload := p }
  | .root a t => { length := rootRecSz, kind := kindRoot, addr := a, ts := some t }

end DoltVerif.Journal
