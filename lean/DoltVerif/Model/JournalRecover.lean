import DoltVerif.Model.JournalRec
/-
L2 journal, part 2: recovery.  `scan` = `processJournalRecordsReader` (every early exit),
`dlc` = `possibleDataLossCheck` (byte-wise resynchronisation; the 2x-buffer windowing of the Go loop
is abstracted to a scan of the whole remaining suffix -- every in-range candidate length is
`≤ B <` window, so a candidate that fits the file always fits the refilled window; compared
behaviourally with a lowered `journalWriterBuffSize`), `recover` = `processJournalRecords` with
the kind check of `bootstrapJournal`'s callback, `boot` = the state `bootstrapJournal` derives.
`B` is `journalWriterBuffSize`.
-/
namespace DoltVerif.Journal

inductive Stop where
  | eof          -- fewer than 4 bytes left: `Peek(4)` fails, `recovered` stays false
  | recovered    -- l = 0, l > B, short read, or validation failure
  | fatal (e : RErr)
  deriving Repr, DecidableEq

structure ScanOut where
  recs : List (Nat × Parsed)
  off : Nat
  stop : Stop
  deriving Repr, DecidableEq

def kindKnown (k : Nat) : Bool := k == kindChunk || k == kindRoot

/-- `processJournalRecordsReader` over the remaining bytes `bs` located at file offset `off`;
`kinds` = apply the callback's kind check. -/
def scan (B : Nat) (kinds : Bool) (bs : Bytes) (off : Nat) : ScanOut :=
  match readU32? bs with
  | none => ⟨[], off, .eof⟩
  | some l =>
    if h0 : l = 0 then ⟨[], off, .recovered⟩
    else if l > B then ⟨[], off, .recovered⟩
    else if hl : l > bs.length then ⟨[], off, .recovered⟩
    else if isValid (bs.take l) then
      match readRecord (bs.take l) with
      | .error e => ⟨[], off, .fatal e⟩
      | .ok r =>
        if kinds && !kindKnown r.kind then ⟨[], off, .fatal (.unknownKind r.kind)⟩
        else
          let s := scan B kinds (bs.drop l) (off + l)
          { s with recs := (off, r) :: s.recs }
    else ⟨[], off, .recovered⟩
termination_by bs.length
decreasing_by simp [List.length_drop]; omega

/-- `possibleDataLossCheck` on the bytes from the reader position to EOF.  `.error` = the
`readJournalRecord` failure after a successful validation (reported by the caller as a warning). -/
def dlc (B : Nat) (bs : Bytes) (firstRoot : Bool) : Except RErr Bool :=
  if hlen : bs.length < rootRecSz then .ok false
  else
    match readU32? bs with
    | none => .ok false
    | some sz =>
      if hsz : 0 < sz ∧ sz ≤ B ∧ sz ≤ bs.length ∧ isValid (bs.take sz) = true then
        match readRecord (bs.take sz) with
        | .error e => .error e
        | .ok r =>
          if firstRoot then .ok true
          else dlc B (bs.drop sz) (r.kind == kindRoot)
      else dlc B bs.tail firstRoot
termination_by bs.length
decreasing_by
  · simp [List.length_drop]; omega
  · simp [rootRecSz, lenSz, addrSz, timestampSz, checksumSz] at hlen; simp; omega

inductive Outcome where
  | ok (recs : List (Nat × Parsed)) (off : Nat)
  | dataLoss (off : Nat)
  | fatal (e : RErr)
  deriving Repr, DecidableEq

/-- `processJournalRecords(…, off = start, …)` as called by `bootstrapJournal` (callback with kind
check); `.ok recs off`: `off` is the truncation offset. -/
def recoverFrom (B : Nat) (file : Bytes) (start : Nat) : Outcome :=
  let s := scan B true (file.drop start) start
  match s.stop with
  | .fatal e => .fatal e
  | .eof => .ok s.recs s.off
  | .recovered =>
    match dlc B (file.drop s.off) false with
    | .ok true => .dataLoss s.off
    | _ => .ok s.recs s.off

def recover (B : Nat) (file : Bytes) : Outcome := recoverFrom B file 0

/-- last root record -/
def lastRoot : List (Nat × Parsed) → Option Bytes
  | [] => none
  | (_, r) :: rest =>
    match lastRoot rest with
    | some x => some x
    | none => if r.kind = kindRoot then some r.addr else none

structure RangeEnt where
  addr : Bytes
  off : Nat
  len : Nat
  deriving Repr, DecidableEq

/-- the `Range`s `bootstrapJournal` puts into `wr.ranges`, in journal order -/
def rangesOf : List (Nat × Parsed) → List RangeEnt
  | [] => []
  | (o, r) :: rest =>
    if r.kind = kindChunk then ⟨r.addr, o + r.payloadOffset, r.payload.length⟩ :: rangesOf rest
    else rangesOf rest

/-- last-wins lookup (a Go map keyed by the address) -/
def lookupRange (rs : List RangeEnt) (a : Bytes) : Option RangeEnt :=
  rs.foldl (fun acc e => if e.addr = a then some e else acc) none

def readRange (file : Bytes) (e : RangeEnt) : Bytes := (file.drop e.off).take e.len

end DoltVerif.Journal
