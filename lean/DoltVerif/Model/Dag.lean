/-
Commit graph model (family Dag: C18, C19).  Core Lean only.

Transliterates, from go/store/datas:
  * `newCommitForValue` / `commit_flatbuffer`          -> `addCommit` (height = maxheight + 1)
  * `writeFbCommitParentClosure`                        -> `parentClosure`
  * `FindCommonAncestor` (closure merge-walk)           -> `mergeWalk`, `findCommonAncestor`
  * `findCommonAncestorUsingParentsList`                -> `viaParentsLoop`, `viaParents`
and from go/libraries/doltcore/doltdb/commit.go:
  * `Commit.GetAncestor`                                -> `getAncestor`
  * `Commit.CanFastForwardTo`                           -> `canFastForward`

Commits are identified by their address (the 20-byte hash read as a big-endian natural number, so
`Nat` order is `bytes.Compare` order); the address of a new commit is an *input* (content
addressing is a parameter, never computed here).  A closure is the list of its `(height, addr)`
keys in ascending key order, exactly what iterating the prolly map yields; the prolly tree that
stores it is abstracted to that sorted list (its faithfulness is C11's subject and is
correspondence-checked here by comparing every closure iteration).  `container/heap` is
abstracted to a multiset (list) with "pop every element of maximal height".
-/
namespace DoltVerif.Dag

/-- addresses are natural numbers (scoped notation, so that `omega` sees `Nat`) -/
scoped notation "Addr" => Nat
/-- closure key: `(height, addr)`; `commitClosureKeyOrdering.Compare` is the lexicographic order -/
abbrev Key := Nat × Addr

/-- `CommitClosureKey.Less` -/
def klt (a b : Key) : Prop := a.1 < b.1 ∨ (a.1 = b.1 ∧ a.2 < b.2)

instance : DecidableRel klt := fun a b => by unfold klt; exact inferInstance

structure Commit where
  addr : Addr
  parents : List Addr
  height : Nat
  closure : List Key
deriving Repr, DecidableEq

def Commit.key (c : Commit) : Key := (c.height, c.addr)

/-- the store: newest commit first -/
abbrev Graph := List Commit

inductive Err where
  | missingParent      -- "GetCommitParents: Did not find parent Commit in ValueReader"
  | dupAddr            -- model-only: the harness supplied an address twice
  | invalidAncestorSpec
  | fuel               -- model-only: never returned on graphs built by `addCommit` (theorem)
deriving Repr, DecidableEq

def lookup (g : Graph) (a : Addr) : Option Commit := g.find? (fun c => c.addr == a)

/-- the `maxheight` loop of `commit_flatbuffer` -/
def maxHeight (hs : List Nat) : Nat := hs.foldl (fun m h => if h > m then h else m) 0

/-- `commit_flatbuffer`: `CommitAddHeight(builder, maxheight+1)` (tied to the source by `Tie.Dag.heightStep`) -/
def heightStep : Nat := 1

/-- `MutableMap.Put` on the key set followed by `Flush`: sorted insert, idempotent -/
def insertKey (k : Key) : List Key → List Key
  | [] => [k]
  | x :: xs => if klt k x then k :: x :: xs else if k = x then x :: xs else x :: insertKey k xs

/-- `writeFbCommitParentClosure`: start from parent 0's closure, add the `AddedDiff` keys of
`DiffCommitClosures(closures[0], closures[i])` for i ≥ 1, then the parents themselves. -/
def parentClosure : List Commit → List Key
  | [] => []
  | p0 :: rest =>
    let added := rest.flatMap (fun p => p.closure.filter (fun k => !p0.closure.contains k))
    let puts := added ++ (p0 :: rest).map Commit.key
    puts.foldl (fun acc k => insertKey k acc) p0.closure

def loadParents (g : Graph) : List Addr → Except Err (List Commit)
  | [] => .ok []
  | a :: as =>
    match lookup g a with
    | none => .error .missingParent
    | some c => match loadParents g as with
      | .ok cs => .ok (c :: cs)
      | .error e => .error e

/-- `newCommitForValue`: read the parents, height = max parent height + 1, closure as above. -/
def mkCommit (g : Graph) (addr : Addr) (parents : List Addr) : Except Err Commit :=
  match loadParents g parents with
  | .error e => .error e
  | .ok ps =>
    if (lookup g addr).isSome then .error .dupAddr
    else .ok { addr := addr, parents := parents,
               height := maxHeight (ps.map (·.height)) + heightStep, closure := parentClosure ps }

def addCommit (g : Graph) (addr : Addr) (parents : List Addr) : Except Err Graph :=
  match mkCommit g addr parents with
  | .ok c => .ok (c :: g)
  | .error e => .error e

/-- a history: each commit names its address and its parents -/
def build : List (Addr × List Addr) → Except Err Graph
  | [] => .ok []
  | (a, ps) :: rest =>
    match build rest with
    | .ok g => addCommit g a ps
    | .error e => .error e

/-! ### merge bases -/

/-- what the two `fbParentsClosureIterator`s of `FindCommonAncestor` yield: the commit's own key,
then its closure in descending key order (`IterAllReverse`) -/
def descKeys (c : Commit) : List Key := c.key :: c.closure.reverse

/-- the loop of `FindCommonAncestor`: equal hash → found; `pi1.Less(pi2)` → advance `pi2`,
otherwise advance `pi1`; an exhausted iterator → not found. -/
def mergeWalk : List Key → List Key → Option Addr
  | [], _ => none
  | _ :: _, [] => none
  | k1 :: r1, k2 :: r2 =>
    if k1.2 = k2.2 then some k1.2
    else if klt k1 k2 then mergeWalk (k1 :: r1) r2
    else mergeWalk r1 (k2 :: r2)
termination_by l1 l2 => l1.length + l2.length

def maxH (q : List Commit) : Nat := maxHeight (q.map (·.height))

/-- `parentsToQueue`: push the parents of every distinct commit of `cs` -/
def parentsToQueue (g : Graph) : List Commit → List Addr → List Commit → Except Err (List Commit)
  | [], _, q => .ok q
  | c :: cs, seen, q =>
    if seen.contains c.addr then parentsToQueue g cs seen q
    else match loadParents g c.parents with
      | .error e => .error e
      | .ok ps => parentsToQueue g cs (c.addr :: seen) (ps ++ q)

def minAddr : List Addr → Option Addr
  | [] => none
  | a :: as => match minAddr as with
    | none => some a
    | some m => some (if a < m then a else m)

/-- `findCommonCommit`: the common addresses, smallest address first -/
def findCommonCommit (a b : List Commit) : Option Addr :=
  minAddr ((a.map (·.addr)).filter (fun x => (b.map (·.addr)).contains x))

/-- the loop of `findCommonAncestorUsingParentsList` (heaps as multisets) -/
def viaParentsLoop (g : Graph) : Nat → List Commit → List Commit → Except Err (Option Addr)
  | 0, _, _ => .error .fuel
  | n + 1, q1, q2 =>
    if q1.isEmpty || q2.isEmpty then .ok none
    else
      let h1 := maxH q1
      let h2 := maxH q2
      if h1 = h2 then
        let p1 := q1.filter (fun c => c.height == h1)
        let p2 := q2.filter (fun c => c.height == h2)
        match findCommonCommit p1 p2 with
        | some a => .ok (some a)
        | none =>
          match parentsToQueue g p1 [] (q1.filter (fun c => c.height != h1)) with
          | .error e => .error e
          | .ok q1' =>
            match parentsToQueue g p2 [] (q2.filter (fun c => c.height != h2)) with
            | .error e => .error e
            | .ok q2' => viaParentsLoop g n q1' q2'
      else if h1 > h2 then
        match parentsToQueue g (q1.filter (fun c => c.height == h1)) [] (q1.filter (fun c => c.height != h1)) with
        | .error e => .error e
        | .ok q1' => viaParentsLoop g n q1' q2
      else
        match parentsToQueue g (q2.filter (fun c => c.height == h2)) [] (q2.filter (fun c => c.height != h2)) with
        | .error e => .error e
        | .ok q2' => viaParentsLoop g n q1 q2'

def viaParents (g : Graph) (c1 c2 : Commit) : Except Err (Option Addr) :=
  viaParentsLoop g (max c1.height c2.height + 1) [c1] [c2]

/-- `FindCommonAncestor`: a commit without materialised closure (`newParentsClosureIterator`
returns nil: empty closure address, i.e. a root commit) delegates to the parents-list walk. -/
def findCommonAncestor (g : Graph) (c1 c2 : Commit) : Except Err (Option Addr) :=
  if c1.closure.isEmpty then viaParents g c1 c2
  else if c2.closure.isEmpty then viaParents g c1 c2
  else .ok (mergeWalk (descKeys c1) (descKeys c2))

/-! ### ancestor specs and fast-forward -/

/-- `Commit.GetAncestor`: each instruction is a parent index -/
def getAncestor (g : Graph) (c : Commit) : List Nat → Except Err Commit
  | [] => .ok c
  | i :: is =>
    match c.parents[i]? with
    | none => .error .invalidAncestorSpec
    | some pa =>
      match lookup g pa with
      | none => .error .missingParent
      | some p => getAncestor g p is

inductive FF where
  | ff          -- (true, nil)
  | upToDate    -- (true, ErrUpToDate)
  | ahead       -- (false, ErrIsAhead)
  | no          -- (false, nil)
  | noCommon    -- (false, ErrNoCommonAncestor)
  | err (e : Err)
deriving Repr, DecidableEq

/-- `Commit.CanFastForwardTo` -/
def canFastForward (g : Graph) (c new : Commit) : FF :=
  match findCommonAncestor g c new with
  | .error e => .err e
  | .ok none => .noCommon
  | .ok (some a) =>
    if a = c.addr then (if a = new.addr then .upToDate else .ff)
    else if a = new.addr then .ahead
    else .no

end DoltVerif.Dag
