/-
`compareCursors` on two cursors positioned by monotone predicate searches in a well-formed tree
agrees with their ordinals, and a cursor that compares smaller sits on an item.
-/
import DoltVerif.Lemmas.SeekP
namespace DoltVerif.Prolly
open DoltVerif.SortedDict

variable {κ ν : Type} [Inhabited κ]

/-- the index a predicate search picks in an internal node -/
theorem psearch_index {cmp : κ → κ → Ordering} (hc : TotalPreorder cmp) {p : κ → Bool} (hp : Mono cmp p)
    (n : Nat) (nd : NodeH κ ν (n+1)) (hwf : WFNode (n+1) nd) (hs : Sorted cmp (flatten (n+1) nd)) :
    psearch p (nodeKeys (n+1) nd) = (nd.takeWhile (fun it => !p (keyOf (n+1) it))).length := by
  rw [psearch_eq_takeWhile hp _ (keys_sorted hc n nd hwf hs)]
  unfold nodeKeys; rw [List.takeWhile_map]; simp [Function.comp_def]

theorem seekPath_succ (s : SearchFn κ) (n : Nat) (nd : NodeH κ ν (n+1)) :
    seekPath s (n+1) nd = match nd[min (s (nodeKeys (n+1) nd)) (nd.length - 1)]? with
      | none => none
      | some it => (seekPath s n (childOf it)).map (min (s (nodeKeys (n+1) nd)) (nd.length - 1) :: ·) := rfl

theorem child_sorted {cmp : κ → κ → Ordering} (n : Nat) (nd : NodeH κ ν (n+1)) (it : ItemH κ ν (n+1))
    (hit : it ∈ nd) (hs : Sorted cmp (flatten (n+1) nd)) : Sorted cmp (flatten n (childOf it)) := by
  obtain ⟨l1, l2, hl⟩ := List.append_of_mem hit
  rw [hl, flatten_append, flatten_cons] at hs
  exact sorted_append_left (sorted_append_right hs)

/-- a search whose predicate holds for the node's last key lands on an item -/
theorem seekPath_valid {cmp : κ → κ → Ordering} (hc : TotalPreorder cmp) {p : κ → Bool} (hp : Mono cmp p) :
    ∀ (n : Nat) (nd : NodeH κ ν n), WFNode n nd → Sorted cmp (flatten n nd) → nd ≠ [] →
      p (lastKey n nd) = true →
      ∃ path kv, seekPath (psearch p) n nd = some path ∧ pathItem n nd path = some kv
  | 0, nd, _, hs, hne, hlast => by
    have hkeys : (nd.map (·.1)).Pairwise (fun a b => cmp a b = .lt) := List.pairwise_map.mpr hs
    have hidx : psearch p (nodeKeys 0 nd) = ((nd.map (·.1)).takeWhile (fun x => !p x)).length :=
      psearch_eq_takeWhile hp _ hkeys
    -- the scan stops before the end because the last key satisfies p
    have hlt : ((nd.map (·.1)).takeWhile (fun x => !p x)).length < nd.length := by
      have hle : ((nd.map (·.1)).takeWhile (fun x => !p x)).length ≤ (nd.map (·.1)).length :=
        (List.takeWhile_sublist _).length_le
      rw [List.length_map] at hle
      rcases Nat.lt_or_ge ((nd.map (·.1)).takeWhile (fun x => !p x)).length nd.length with h | h
      · exact h
      · exfalso
        have hlen : ((nd.map (·.1)).takeWhile (fun x => !p x)).length = nd.length := by omega
        -- every key is in the prefix, in particular the last
        have hall : (nd.map (·.1)).takeWhile (fun x => !p x) = nd.map (·.1) := by
          have hsub := List.takeWhile_sublist (fun x => !p x) (l := nd.map (·.1))
          exact hsub.eq_of_length (by rw [hlen, List.length_map])
        have hmem : lastKey 0 nd ∈ nd.map (·.1) := by
          unfold lastKey
          rw [List.getLast?_eq_some_getLast hne]
          exact List.mem_map.mpr ⟨_, List.getLast_mem hne, rfl⟩
        rw [← hall] at hmem
        have := mem_takeWhile_true _ _ _ hmem
        simp [hlast] at this
    have hb : psearch p (nodeKeys 0 nd) < nd.length := by rw [hidx]; exact hlt
    refine ⟨[psearch p (nodeKeys 0 nd)], nd[psearch p (nodeKeys 0 nd)]'hb, rfl, ?_⟩
    show nd[psearch p (nodeKeys 0 nd)]? = _
    exact List.getElem?_eq_getElem hb
  | n+1, nd, hwf, hs, hne, hlast => by
    have hidx := psearch_index hc hp n nd hwf hs
    have hsplit := List.takeWhile_append_dropWhile (p := fun it : ItemH κ ν (n+1) => !p (keyOf (n+1) it)) (l := nd)
    cases hB : nd.dropWhile (fun it => !p (keyOf (n+1) it)) with
    | nil =>
      -- impossible: the last item's key is the node's last key
      exfalso
      rw [hB, List.append_nil] at hsplit
      have hmem : nd.getLast hne ∈ nd.takeWhile (fun it => !p (keyOf (n+1) it)) := by
        rw [hsplit]; exact List.getLast_mem hne
      have := mem_takeWhile_true _ _ _ hmem
      have hk : keyOf (n+1) (nd.getLast hne) = lastKey (n+1) nd := by
        unfold lastKey; rw [List.getLast?_eq_some_getLast hne]
      rw [hk, hlast] at this; simp at this
    | cons it B =>
      rw [hB] at hsplit
      generalize hA : nd.takeWhile (fun it => !p (keyOf (n+1) it)) = A at hsplit hidx
      have hnot : (!p (keyOf (n+1) it)) = false :=
        dropWhile_head (fun it : ItemH κ ν (n+1) => !p (keyOf (n+1) it)) nd it B hB
      have hmin : min A.length (nd.length - 1) = A.length := by rw [← hsplit]; simp
      have hget : nd[A.length]? = some it := by rw [← hsplit]; simp
      have hitnd : it ∈ nd := by rw [← hsplit]; simp
      obtain ⟨hch, hkey, _, hwfc⟩ := hwf it hitnd
      have hpc : p (lastKey n (childOf it)) = true := by rw [← hkey]; simpa using hnot
      obtain ⟨path, kv, h1, h2⟩ := seekPath_valid hc hp n (childOf it) hwfc (child_sorted n nd it hitnd hs) hch hpc
      refine ⟨A.length :: path, kv, ?_, ?_⟩
      · rw [seekPath_succ, hidx, hmin, hget]; simp [h1]
      · simp [pathItem, hget, h2]

theorem seekPath_succ_some (s : SearchFn κ) (n : Nat) (nd : NodeH κ ν (n+1)) (path : List Nat)
    (h : seekPath s (n+1) nd = some path) :
    ∃ it rest, nd[min (s (nodeKeys (n+1) nd)) (nd.length - 1)]? = some it ∧
      seekPath s n (childOf it) = some rest ∧ path = min (s (nodeKeys (n+1) nd)) (nd.length - 1) :: rest := by
  rw [seekPath_succ] at h
  cases hit : nd[min (s (nodeKeys (n+1) nd)) (nd.length - 1)]? with
  | none => rw [hit] at h; cases h
  | some it =>
    rw [hit] at h
    simp only at h
    cases hr : seekPath s n (childOf it) with
    | none => rw [hr] at h; cases h
    | some rest =>
      rw [hr] at h
      simp only [Option.map_some, Option.some.injEq] at h
      exact ⟨it, rest, rfl, hr, h.symm⟩

theorem take_sum_succ {α : Type} (c : α → Nat) : ∀ (l : List α) (i : Nat) (x : α), l[i]? = some x →
    ((l.take (i+1)).map c).sum = ((l.take i).map c).sum + c x
  | [], i, x, h => by simp at h
  | y :: l, 0, x, h => by simp at h; simp [h]
  | y :: l, i+1, x, h => by
    simp only [List.getElem?_cons_succ] at h
    simp only [List.take_succ_cons, List.map_cons, List.sum_cons]
    rw [take_sum_succ c l i x h]; omega

theorem take_sum_mono {α : Type} (c : α → Nat) (l : List α) : ∀ (i j : Nat), i ≤ j →
    ((l.take i).map c).sum ≤ ((l.take j).map c).sum := by
  intro i j hij
  induction l generalizing i j with
  | nil => simp
  | cons y l ih =>
    cases i with
    | zero => simp
    | succ i =>
      cases j with
      | zero => omega
      | succ j =>
        simp only [List.take_succ_cons, List.map_cons, List.sum_cons]
        have := ih i j (by omega); omega

/-- the ordinal of a search cursor never exceeds the number of entries -/
theorem seek_ordinal_le {cmp : κ → κ → Ordering} (hc : TotalPreorder cmp) {p : κ → Bool} (hp : Mono cmp p)
    (n : Nat) (nd : NodeH κ ν n) (hwf : WFNode n nd) (hs : Sorted cmp (flatten n nd)) (hne : n = 0 ∨ nd ≠ [])
    (path : List Nat) (o : Nat) (h1 : seekPath (psearch p) n nd = some path)
    (h2 : pathOrdinal n nd path = some o) : o ≤ (flatten n nd).length := by
  have h := ordAtP_refines hc hp n nd hwf hs hne
  rw [← ordViaP_eq_ordAtP] at h
  unfold ordViaP at h
  rw [h1] at h
  simp only at h
  rw [h2] at h
  cases h
  exact (List.takeWhile_sublist _).length_le

/-- **`compareCursors` agrees with the ordinals for two search cursors; the smaller one is on an item** -/
theorem seek_cursors_consistent {cmp : κ → κ → Ordering} (hc : TotalPreorder cmp) {pLo pHi : κ → Bool}
    (hLo : Mono cmp pLo) (hHi : Mono cmp pHi) :
    ∀ (n : Nat) (nd : NodeH κ ν n), WFNode n nd → Sorted cmp (flatten n nd) → (n = 0 ∨ nd ≠ []) →
      ∀ (lo hi : List Nat), seekPath (psearch pLo) n nd = some lo → seekPath (psearch pHi) n nd = some hi →
        (cmpPath lo hi ≠ .lt → ∀ a b, pathOrdinal n nd lo = some a → pathOrdinal n nd hi = some b → b ≤ a) ∧
        (cmpPath lo hi = .lt → (pathItem n nd lo).isSome = true)
  | 0, nd, _, hs, _, lo, hi, hlo, hhi => by
    have hkeys : (nd.map (·.1)).Pairwise (fun a b => cmp a b = .lt) := List.pairwise_map.mpr hs
    simp only [seekPath, Option.some.injEq] at hlo hhi
    subst hlo; subst hhi
    have hj : psearch pHi (nodeKeys 0 nd) ≤ nd.length := by
      have : psearch pHi (nodeKeys 0 nd) = ((nd.map (·.1)).takeWhile (fun x => !pHi x)).length :=
        psearch_eq_takeWhile hHi _ hkeys
      rw [this]
      have := (List.takeWhile_sublist (fun x => !pHi x) (l := nd.map (·.1))).length_le
      rw [List.length_map] at this; exact this
    generalize psearch pLo (nodeKeys 0 nd) = i at *
    generalize psearch pHi (nodeKeys 0 nd) = j at *
    constructor
    · intro hcmp a b ha hb
      simp only [pathOrdinal, Option.some.injEq] at ha hb
      subst ha; subst hb
      by_cases hij : i < j
      · simp [cmpPath, hij] at hcmp
      · omega
    · intro hcmp
      have hij : i < j := by
        by_cases hij : i < j
        · exact hij
        · by_cases hji : j < i <;> simp [cmpPath, hij, hji] at hcmp
      show (nd[i]?).isSome = true
      rw [List.getElem?_eq_getElem (by omega)]; rfl
  | n+1, nd, hwf, hs, hne, lo, hi, hlo, hhi => by
    have hne : nd ≠ [] := by rcases hne with h | h; exact absurd h (by simp); exact h
    obtain ⟨itL, loT, hgL, hsL, hlo'⟩ := seekPath_succ_some _ n nd lo hlo
    obtain ⟨itH, hiT, hgH, hsH, hhi'⟩ := seekPath_succ_some _ n nd hi hhi
    generalize hiL : min (psearch pLo (nodeKeys (n+1) nd)) (nd.length - 1) = iL at hgL hlo'
    generalize hiH : min (psearch pHi (nodeKeys (n+1) nd)) (nd.length - 1) = iH at hgH hhi'
    subst hlo'; subst hhi'
    have hiLlt : iL < nd.length := (List.getElem?_eq_some_iff.mp hgL).1
    have hiHlt : iH < nd.length := (List.getElem?_eq_some_iff.mp hgH).1
    have hmemL : itL ∈ nd := List.mem_of_getElem? hgL
    have hmemH : itH ∈ nd := List.mem_of_getElem? hgH
    obtain ⟨hchL, hkeyL, hcntL, hwfL⟩ := hwf itL hmemL
    obtain ⟨hchH, _, hcntH, hwfH⟩ := hwf itH hmemH
    have hsLc := child_sorted n nd itL hmemL hs
    have hsHc := child_sorted n nd itH hmemH hs
    have hordL : ∀ a, pathOrdinal (n+1) nd (iL :: loT) = some a →
        ∃ a', pathOrdinal n (childOf itL) loT = some a' ∧ a = a' + ((nd.take iL).map (countOf (n+1))).sum := by
      intro a ha
      simp only [pathOrdinal] at ha
      have : min iL (nd.length - 1) = iL := by omega
      rw [this, hgL] at ha
      simp only at ha
      cases hp : pathOrdinal n (childOf itL) loT with
      | none => rw [hp] at ha; cases ha
      | some a' => rw [hp] at ha; simp only [Option.map_some, Option.some.injEq] at ha; exact ⟨a', rfl, ha.symm⟩
    have hordH : ∀ b, pathOrdinal (n+1) nd (iH :: hiT) = some b →
        ∃ b', pathOrdinal n (childOf itH) hiT = some b' ∧ b = b' + ((nd.take iH).map (countOf (n+1))).sum := by
      intro b hb
      simp only [pathOrdinal] at hb
      have : min iH (nd.length - 1) = iH := by omega
      rw [this, hgH] at hb
      simp only at hb
      cases hp : pathOrdinal n (childOf itH) hiT with
      | none => rw [hp] at hb; cases hb
      | some b' => rw [hp] at hb; simp only [Option.map_some, Option.some.injEq] at hb; exact ⟨b', rfl, hb.symm⟩
    by_cases hlt : iL < iH
    · -- lo is in an earlier child: it compares smaller and must be on an item
      constructor
      · intro hcmp; simp [cmpPath, hlt] at hcmp
      · intro _
        -- iL is not clamped, so pLo holds for the key of child iL
        have hidx := psearch_index hc hLo n nd hwf hs
        have hsplit := List.takeWhile_append_dropWhile (p := fun it : ItemH κ ν (n+1) => !pLo (keyOf (n+1) it)) (l := nd)
        have htl : (nd.takeWhile (fun it => !pLo (keyOf (n+1) it))).length = iL := by
          rw [hidx] at hiL; omega
        cases hB : nd.dropWhile (fun it => !pLo (keyOf (n+1) it)) with
        | nil =>
          exfalso
          rw [hB, List.append_nil] at hsplit
          have := congrArg List.length hsplit
          rw [htl] at this; omega
        | cons it B =>
          rw [hB] at hsplit
          generalize nd.takeWhile (fun it => !pLo (keyOf (n+1) it)) = A at hsplit htl
          have hget : nd[iL]? = some it := by
            rw [← hsplit, ← htl]; simp
          rw [hgL] at hget
          cases hget
          have hnot : (!pLo (keyOf (n+1) itL)) = false :=
            dropWhile_head (fun it : ItemH κ ν (n+1) => !pLo (keyOf (n+1) it)) nd itL B hB
          have hpc : pLo (lastKey n (childOf itL)) = true := by rw [← hkeyL]; simpa using hnot
          obtain ⟨path, kv, h1, h2⟩ := seekPath_valid hc hLo n (childOf itL) hwfL hsLc hchL hpc
          rw [hsL] at h1; cases h1
          simp [pathItem, hgL, h2]
    · by_cases hgt : iH < iL
      · constructor
        · intro _ a b ha hb
          obtain ⟨a', _, rfl⟩ := hordL a ha
          obtain ⟨b', hb', rfl⟩ := hordH b hb
          have hb'le := seek_ordinal_le hc hHi n (childOf itH) hwfH hsHc (Or.inr hchH) hiT b' hsH hb'
          rw [← treeCount_eq_length n _ hwfH, ← hcntH] at hb'le
          have h1 := take_sum_succ (countOf (n+1)) nd iH itH hgH
          have h2 := take_sum_mono (countOf (n+1)) nd (iH+1) iL (by omega)
          omega
        · intro hcmp; simp [cmpPath, hlt, hgt] at hcmp
      · have heq : iL = iH := by omega
        subst heq
        rw [hgL] at hgH; cases hgH
        obtain ⟨ih1, ih2⟩ := seek_cursors_consistent hc hLo hHi n (childOf itL) hwfL hsLc (Or.inr hchL) loT hiT hsL hsH
        have hcp : cmpPath (iL :: loT) (iL :: hiT) = cmpPath loT hiT := by simp [cmpPath]
        constructor
        · intro hcmp a b ha hb
          obtain ⟨a', ha', rfl⟩ := hordL a ha
          obtain ⟨b', hb', rfl⟩ := hordH b hb
          rw [hcp] at hcmp
          have := ih1 hcmp a' b' ha' hb'
          omega
        · intro hcmp
          rw [hcp] at hcmp
          have := ih2 hcmp
          simp only [pathItem, hgL]; exact this

end DoltVerif.Prolly
