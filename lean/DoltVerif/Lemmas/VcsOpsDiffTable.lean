import DoltVerif.Model.VcsOpsQuery
/-!
`dolt_diff_<t>` on a linear history: the commit walk visits the first-parent chain in order, and the
scan compares every commit with the one visited just before it.
-/
namespace DoltVerif.VcsOps

/-- a linear history, newest first: every commit's parent list is exactly the next element of the
list, the last commit has no parents (no merge commit, no second child anywhere on the way) -/
def IsChain (d : Db) : List Nat → Prop
  | [] => True
  | [c] => (d.commit? c).map (·.parents) = some []
  | c :: p :: rest => (d.commit? c).map (·.parents) = some [p] ∧ IsChain d (p :: rest)

/-- the adjacent-pair diffs along a chain, newest first.  `cid` / `ctbl` are the commit (`none` =
WORKING) and table the first commit of the chain is compared with; the scan ends where the newer
side has no table (a dropped table is a different table from there on). -/
def chainDiff (d : Db) (t : String) (target : List Col) : Option Nat → Option Table → List Nat → List DiffTableRow
  | _, _, [] => []
  | cid, ctbl, c :: rest =>
    if get (d.rootOf c) t ≠ ctbl then
      if ctbl.isNone then []
      else (diffPartitionRows target (get (d.rootOf c) t) ctbl).map (fun r => ⟨cid, c, r⟩) ++
        chainDiff d t target (some c) (get (d.rootOf c) t) rest
    else chainDiff d t target (some c) (get (d.rootOf c) t) rest

theorem parents_of_chain_cons (d : Db) (c p : Nat) (rest : List Nat) (h : IsChain d (c :: p :: rest)) :
    d.parentsOf c = [p] := by
  have := h.1
  unfold Db.parentsOf
  cases hc : d.commit? c with
  | none => rw [hc] at this; cases this
  | some cm => rw [hc] at this; simpa using this

theorem parents_of_chain_last (d : Db) (c : Nat) (h : IsChain d [c]) :
    d.parentsOf c = [] := by
  have : (d.commit? c).map (·.parents) = some [] := h
  unfold Db.parentsOf
  cases hc : d.commit? c with
  | none => rfl
  | some cm => rw [hc] at this; simpa using this

/-! ### the walk -/

theorem walkAux_chain (d : Db) (rest : List Nat) :
    ∀ (c : Nat) (acc : List Nat) (fuel : Nat), IsChain d (c :: rest) → (∀ x ∈ rest, x ∉ acc) → rest.Nodup →
      rest.length + 1 ≤ fuel → d.walkAux fuel c [] acc acc = acc.reverse ++ rest := by
  induction rest with
  | nil =>
    intro c acc fuel hch _ _ hf
    obtain ⟨f, rfl⟩ : ∃ f, fuel = f + 1 := ⟨fuel - 1, by omega⟩
    simp only [Db.walkAux, parents_of_chain_last d c hch, List.foldl_nil, List.getLast?_nil, List.append_nil]
  | cons p rest' ih =>
    intro c acc fuel hch hnot hnd hf
    obtain ⟨f, rfl⟩ : ∃ f, fuel = f + 1 := ⟨fuel - 1, by simp at hf; omega⟩
    have hp : p ∉ acc := hnot p List.mem_cons_self
    have hcontains : acc.contains p = false := by simpa using hp
    have hnd' := List.nodup_cons.mp hnd
    simp only [Db.walkAux, parents_of_chain_cons d c p rest' hch, List.foldl_cons, List.foldl_nil, hcontains,
      Bool.false_eq_true, if_false, List.nil_append, List.getLast?_singleton, List.dropLast_singleton]
    rw [ih p (p :: acc) f hch.2 ?_ hnd'.2 (by simp at hf; omega)]
    · simp
    · intro x hx hmem
      rcases List.mem_cons.mp hmem with e | h'
      · exact hnd'.1 (e ▸ hx)
      · exact hnot x (List.mem_cons_of_mem _ hx) h'

theorem walk_chain (d : Db) (h : Nat) (rest : List Nat) (hch : IsChain d (h :: rest)) (hnd : (h :: rest).Nodup)
    (hlen : rest.length + 1 ≤ d.commits.length) : d.walk h = h :: rest := by
  unfold Db.walk
  have hnd' := List.nodup_cons.mp hnd
  rw [walkAux_chain d rest h [h] _ hch ?_ hnd'.2 (by omega)]
  · simp
  · intro x hx hmem
    simp only [List.mem_singleton] at hmem
    exact hnd'.1 (hmem ▸ hx)

/-! ### the scan -/

theorem diffTableAux_chain (d : Db) (t : String) (target : List Col) (chain : List Nat) :
    ∀ (info : List (Nat × Option Nat × Option Table)) (acc : List DiffTableRow) (cid : Option Nat) (ctbl : Option Table),
      IsChain d chain → chain.Nodup →
      (∀ c rest, chain = c :: rest → info.find? (fun e => e.1 = c) = some (c, cid, ctbl)) →
      d.diffTableAux t target chain info acc = acc ++ chainDiff d t target cid ctbl chain := by
  induction chain with
  | nil => intro info acc cid ctbl _ _ _; simp [Db.diffTableAux, chainDiff]
  | cons c rest ih =>
    intro info acc cid ctbl hch hnd hinfo
    have hfind := hinfo c rest rfl
    have hnd' := List.nodup_cons.mp hnd
    cases rest with
    | nil =>
      simp only [Db.diffTableAux, hfind, parents_of_chain_last d c hch, List.foldl_nil, chainDiff]
      by_cases h1 : get (d.rootOf c) t ≠ ctbl
      · simp only [h1, ne_eq, not_false_eq_true, if_true]
        by_cases h2 : ctbl.isNone = true
        · simp [h2]
        · simp [h2]
      · simp only [h1, if_false, List.append_nil]
    | cons p rest' =>
      have hps := parents_of_chain_cons d c p rest' hch
      have hnext : ∀ c' rest'', p :: rest' = c' :: rest'' →
          (((p, some c, get (d.rootOf c) t) :: info.filter (fun e => e.1 ≠ p)).find? (fun e => e.1 = c'))
            = some (c', some c, get (d.rootOf c) t) := by
        intro c' rest'' e
        cases e
        simp
      rw [Db.diffTableAux]
      simp only [hfind, hps, List.foldl_cons, List.foldl_nil]
      rw [chainDiff]
      by_cases h1 : get (d.rootOf c) t ≠ ctbl
      · simp only [h1, ne_eq, not_false_eq_true, if_true]
        by_cases h2 : ctbl.isNone = true
        · simp [h2]
        · simp only [h2, Bool.false_eq_true, if_false]
          rw [ih _ _ (some c) (get (d.rootOf c) t) hch.2 hnd'.2 hnext]
          simp [List.append_assoc]
      · simp only [h1, if_false]
        exact ih _ _ (some c) (get (d.rootOf c) t) hch.2 hnd'.2 hnext

end DoltVerif.VcsOps
