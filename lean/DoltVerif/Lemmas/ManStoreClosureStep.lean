import DoltVerif.Lemmas.ManStoreClosure
/-! Every step of the ManStore system preserves the closure invariant `RInv` (C07). -/
namespace DoltVerif.ManStore

theorem rinv_commitResume (env : Env) (s : Sys) (hr : RInv env s) (i : Nat) (p : Pending) (hp : (s.hs i).pc = some p)
    (x : Disk × Handle × CRes) (hx : x = commitResume env s.disk (s.hs i) p) :
    RInv env { disk := x.1, hs := fun j => if j = i then x.2.1 else s.hs j } := by
  have hi := hr.hs i
  have setH : ∀ h', HInv env s.disk h' → RInv env { disk := s.disk, hs := fun j => if j = i then h' else s.hs j } :=
    fun h' hh => hr.setHandle i h' hh
  unfold commitResume at hx
  rcases hu : s.disk.update (s.hs i).upstream.lock p.new with ⟨d', ur⟩
  rw [hu] at hx
  have hu1 : (s.disk.update (s.hs i).upstream.lock p.new).1 = d' := by rw [hu]
  have hu2 : (s.disk.update (s.hs i).upstream.lock p.new).2 = ur := by rw [hu]
  cases ur with
  | fail e =>
    simp only at hx
    have hd : d' = s.disk := by
      rcases update_cases s.disk (s.hs i).upstream.lock p.new with ⟨h1, _⟩ | ⟨_, h2, _⟩
      · rw [← hu1, h1]
      · rw [hu2] at h2; simp at h2
    subst hx; subst hd
    exact setH _ hi.clearPc
  | wrote c =>
    simp only at hx
    rcases update_cases s.disk (s.hs i).upstream.lock p.new with ⟨_, h2⟩ | ⟨h1, h2, h3, _⟩
    · exact absurd hu2 (h2 c)
    · rw [hu2] at h2; simp at h2; subst h2
      rw [hu1] at h1
      subst hx; subst h1
      exact hr.wrote i p hp h3
  | stale up =>
    simp only at hx
    obtain ⟨hm, hd⟩ := update_stale s.disk _ _ up hu2
    rw [hu1] at hd; subst hd
    by_cases hsame : up.lock == p.new.lock
    · simp only [hsame, if_true] at hx
      subst hx
      exact setH _ (hr.coincide i p up hp hm (by simpa using hsame))
    · simp only [hsame, Bool.false_eq_true, if_false] at hx
      by_cases hco : canOpen s.disk { s.hs i with pc := none } up.specs
      · simp only [hco, Bool.not_true, Bool.false_eq_true, if_false] at hx
        have h1i : HInv env s.disk (Handle.rebaseTo { s.hs i with pc := none } up) :=
          hi.clearPc.rebaseTo rfl up (hr.dwf up hm) (by intro t ht; simpa [Disk.specs, hm] using ht)
        by_cases hl : p.last != up.root
        · simp only [hl, if_true] at hx
          subst hx
          exact setH _ h1i
        · simp only [hl, Bool.false_eq_true, if_false] at hx
          subst hx
          exact setH _ (h1i.prepare rfl p.cur p.last)
      · simp only [hco, Bool.not_false, if_true] at hx
        subst hx
        exact setH _ hi.clearPc

/-- the manifest `updateManifestAddFiles` writes -/
def addedContents (c : Contents) (add : List Table) : Contents :=
  { root := c.root, lock := mkLock c.root (c.specs ++ add), specs := c.specs ++ add }

/-- what `AddTableFilesToManifest` needs for the closure invariant: a root to check against, and nothing of the
handle's own that is not persisted yet (the store's `refCheck` also accepts references into the memtable and
into novel tables) -/
def AddSafe (s : Sys) : Op → Prop
  | .addTables i _ => (s.hs i).upstream.root ≠ 0 ∧ MemEmpty (s.hs i) ∧ ∀ a, ¬ N (s.hs i) a
  | .conjoin _ => False      -- conjoin is outside the C07 development (it replaces tables; C02 and C05 cover it)
  | _ => True

theorem rinv_addTables (env : Env) (s : Sys) (hr : RInv env s) (i : Nat) (ts : List Table) (hpc : (s.hs i).pc = none)
    (hsafe : AddSafe s (.addTables i ts))
    (x : Disk × Handle × Option Err) (hx : x = addTables env s.disk (s.hs i) ts) :
    RInv env { disk := x.1, hs := fun j => if j = i then x.2.1 else s.hs j } := by
  have hi := hr.hs i
  obtain ⟨hroot, hmem, hnov⟩ := hsafe
  have setH : ∀ h', HInv env s.disk h' → RInv env { disk := s.disk, hs := fun j => if j = i then h' else s.hs j } :=
    fun h' hh => hr.setHandle i h' hh
  have hcwf : (s.disk.manifest.getD Contents.initial).WF2 := by
    cases hm : s.disk.manifest with
    | none => exact initial_wf2
    | some m => exact hr.dwf m hm
  have hcspecs : (s.disk.manifest.getD Contents.initial).specs = s.disk.specs := by
    cases hm : s.disk.manifest <;> simp [Disk.specs, hm, Contents.initial]
  have hcroot : (s.disk.manifest.getD Contents.initial).root = s.disk.root := by
    cases hm : s.disk.manifest <;> simp [Disk.root, hm, Contents.initial]
  unfold addTables at hx
  simp only at hx
  split at hx
  · subst hx; exact setH _ hi
  · split at hx
    · subst hx; exact setH _ hi
    · split at hx
      · subst hx; exact setH _ hi
      · rename_i hchk
        -- the reference check passed (the root is not empty)
        have hrefs : ∀ t ∈ ts.filter (fun t => !t.isEmpty), ∀ c ∈ t, ∀ r ∈ env.refs c,
            P s.disk r ∨ ∃ u ∈ ts.filter (fun t => !t.isEmpty), r ∈ u := by
          intro t ht c hc r hr'
          have h0 : ((s.hs i).upstream.root != 0) = true := by simpa using hroot
          have hall : (List.all (ts.filter (fun t => !t.isEmpty)) fun t => t.all fun c => (env.refs c).all fun r =>
              (s.hs i).has r || (ts.filter (fun t => !t.isEmpty)).any (·.contains r)) = true := by
            cases hb : (List.all (ts.filter (fun t => !t.isEmpty)) fun t => t.all fun c => (env.refs c).all fun r =>
              (s.hs i).has r || (ts.filter (fun t => !t.isEmpty)).any (·.contains r)) with
            | true => rfl
            | false => exact absurd (by rw [h0, hb]; rfl) hchk
          rw [List.all_eq_true] at hall
          have h1 := hall t ht
          rw [List.all_eq_true] at h1
          have h2 := h1 c hc
          rw [List.all_eq_true] at h2
          have h3 := h2 r hr'
          simp only [Bool.or_eq_true, List.any_eq_true, List.contains_iff_mem] at h3
          rcases h3 with hh | ⟨u, hu, hru⟩
          · rcases hi.inTables_NP (has_of_memEmpty hmem hh) with hn | hp
            · exact absurd hn (hnov r)
            · exact Or.inl hp
          · exact Or.inr ⟨u, hu, hru⟩
        split at hx
        · split at hx
          · split at hx
            · rename_i hco
              subst hx
              refine setH _ (hi.rebaseTo hpc _ hcwf (by intro t ht; rw [hcspecs] at ht; exact ht))
            · subst hx; exact setH _ hi
          · subst hx; exact setH _ hi
        · split at hx
          · rename_i d' c hu
            subst hx
            rcases update_cases s.disk (s.disk.manifest.getD Contents.initial).lock _ with ⟨_, h2⟩ | ⟨h1, h2, _, _⟩
            · rw [hu] at h2; exact absurd rfl (h2 c)
            · rw [hu] at h1 h2
              dsimp only at h1 h2
              injection h2 with h2
              subst h2
              subst h1
              -- the new manifest: old specs ++ added tables
              generalize hadd : dedup (List.filter (fun t => !(s.disk.manifest.getD Contents.initial).specs.contains t)
                (List.filter (fun t => !t.isEmpty) ts)) = add
              have haddsub : ∀ t ∈ add, t ∈ ts.filter (fun t => !t.isEmpty) := by
                intro t ht; rw [← hadd, mem_dedup] at ht; exact (List.mem_filter.1 ht).1
              have haddcov : ∀ t ∈ ts.filter (fun t => !t.isEmpty), t ∈ s.disk.specs ∨ t ∈ add := by
                intro t ht
                by_cases hin : t ∈ s.disk.specs
                · exact Or.inl hin
                · right; rw [← hadd, mem_dedup]
                  exact List.mem_filter.2 ⟨ht, by rw [hcspecs]; simpa using hin⟩
              have hspecs' : ∀ t, t ∈ ({ s.disk with manifest := some (addedContents (s.disk.manifest.getD Contents.initial) add) } : Disk).specs ↔
                  (t ∈ s.disk.specs ∨ t ∈ add) := by
                intro t; simp [Disk.specs, addedContents, hcspecs]
              have hmono : ∀ t ∈ s.disk.specs,
                  t ∈ ({ s.disk with manifest := some (addedContents (s.disk.manifest.getD Contents.initial) add) } : Disk).specs :=
                fun t ht => (hspecs' t).2 (Or.inl ht)
              have hrootd : ({ s.disk with manifest := some (addedContents (s.disk.manifest.getD Contents.initial) add) } : Disk).root = s.disk.root := by
                simp [Disk.root, addedContents, hcroot]
              show RInv env { disk := { s.disk with manifest := some (addedContents (s.disk.manifest.getD Contents.initial) add) },
                              hs := fun j => if j = i then (s.hs i).rebaseTo (addedContents (s.disk.manifest.getD Contents.initial) add) else s.hs j }
              refine ⟨?_, ?_, ?_, ?_⟩
              · intro m hm; simp at hm; subst hm; exact mk_wf2 _ _
              · intro a ha b hb
                obtain ⟨t, ht, hat⟩ := (P_iff _ a).1 ha
                rcases (hspecs' t).1 ht with hold | hnew
                · exact P_mono hmono (hr.closed a ((P_iff _ a).2 ⟨t, hold, hat⟩) b hb)
                · rcases hrefs t (haddsub t hnew) a hat b hb with hp | ⟨u, hu', hbu⟩
                  · exact P_mono hmono hp
                  · rcases haddcov u hu' with h1 | h1
                    · exact (P_iff _ b).2 ⟨u, (hspecs' u).2 (Or.inl h1), hbu⟩
                    · exact (P_iff _ b).2 ⟨u, (hspecs' u).2 (Or.inr h1), hbu⟩
              · rw [hrootd]
                exact hr.root.imp id (P_mono hmono)
              · intro j
                simp only
                split
                · exact (hi.mono hmono).rebaseTo hpc _ (mk_wf2 _ _)
                    (by intro t ht; exact (hspecs' t).2 (by simpa [addedContents, hcspecs] using ht))
                · exact (hr.hs j).mono hmono
          · rename_i d' c hu
            subst hx
            have := update_stale s.disk _ _ c (by rw [hu])
            rw [hu] at this
            simp only at this
            rw [this.2]
            exact setH _ hi
          · rename_i d' e hu
            subst hx
            rcases update_cases s.disk (s.disk.manifest.getD Contents.initial).lock
              { root := (s.disk.manifest.getD Contents.initial).root,
                lock := mkLock (s.disk.manifest.getD Contents.initial).root
                  ((s.disk.manifest.getD Contents.initial).specs ++ dedup (List.filter (fun t => !(s.disk.manifest.getD Contents.initial).specs.contains t) (List.filter (fun t => !t.isEmpty) ts))),
                specs := (s.disk.manifest.getD Contents.initial).specs ++ dedup (List.filter (fun t => !(s.disk.manifest.getD Contents.initial).specs.contains t) (List.filter (fun t => !t.isEmpty) ts)) }
              with ⟨h1, _⟩ | ⟨_, h2, _, _⟩
            · rw [hu] at h1; simp at h1
              rw [h1]; exact setH _ hi
            · rw [hu] at h2; simp at h2


theorem rinv_congr {env : Env} {s t : Sys} (hm : t.disk.manifest = s.disk.manifest) (hh : t.hs = s.hs) (hr : RInv env s) :
    RInv env t := by
  have hsp : t.disk.specs = s.disk.specs := by simp [Disk.specs, hm]
  have hP : ∀ a, P t.disk a ↔ P s.disk a := by intro a; simp [P_iff, hsp]
  have hroot : t.disk.root = s.disk.root := by simp [Disk.root, hm]
  refine ⟨by rw [hm]; exact hr.dwf, ?_, ?_, ?_⟩
  · intro a ha b hb; exact (hP b).2 (hr.closed a ((hP a).1 ha) b hb)
  · rw [hroot]; exact hr.root.imp id (hP _).2
  · intro i; rw [hh]
    exact (hr.hs i).mono (d' := t.disk) (by intro u hu; rw [hsp]; exact hu)

theorem hinv_fresh (env : Env) (d : Disk) (mm : Nat) : HInv env d { Handle.closed with opened := true, memMax := mm } :=
  ⟨by intro t h; simp [Handle.closed] at h, by intro t; simp [Handle.closed, Contents.initial], initial_wf2,
   by intro a h; simp [N, Handle.closed] at h, by intro a h; simp [Handle.closed] at h, by intro p h; simp [Handle.closed] at h⟩

theorem rinv_step (env : Env) (s : Sys) (hr : RInv env s) (op : Op) (hsafe : AddSafe s op) : RInv env (s.step env op).1 := by
  cases op with
  | openH i mm =>
    simp only [Sys.step]
    split
    · exact hr
    · unfold openHandle
      split
      · rename_i h hrb
        have e1 : h = (Handle.rebase s.disk { Handle.closed with opened := true, memMax := mm }).1 := by rw [hrb]
        rw [e1]
        exact hr.setHandle i _ ((hinv_fresh env s.disk mm).rebase rfl hr.dwf)
      · exact hr
  | closeH i =>
    simp only [Sys.step]
    split
    · exact hr
    · exact hr.setHandle i _ (hinv_closed env _)
  | put i a =>
    simp only [Sys.step]
    split
    · exact hr
    · rename_i hg
      have hpc : (s.hs i).pc = none := by cases h : (s.hs i).pc <;> simp [h] at hg ⊢
      exact hr.setHandle i _ ((hr.hs i).put hpc a)
  | cstart i cur last =>
    simp only [Sys.step]
    split
    · exact hr
    · rename_i hg
      have hpc : (s.hs i).pc = none := by cases h : (s.hs i).pc <;> simp [h] at hg ⊢
      unfold commitStart
      simp only
      split
      · split
        · rename_i h' hrb
          have e1 : h' = (Handle.rebase s.disk (s.hs i)).1 := by rw [hrb]
          rw [e1]; exact hr.setHandle i _ ((hr.hs i).rebase hpc hr.dwf)
        · rename_i h' e hrb
          have e1 : h' = (Handle.rebase s.disk (s.hs i)).1 := by rw [hrb]
          rw [e1]; exact hr.setHandle i _ ((hr.hs i).rebase hpc hr.dwf)
      · exact hr.setHandle i _ ((hr.hs i).prepare hpc cur last)
  | cresume i =>
    simp only [Sys.step]
    split
    · exact hr
    · rename_i p hp
      exact rinv_commitResume env s hr i p hp _ rfl
  | ctimeout i =>
    simp only [Sys.step]
    split
    · exact hr
    · exact hr.setHandle i _ (hr.hs i).clearPc
  | rebase i =>
    simp only [Sys.step]
    split
    · exact hr
    · rename_i hg
      have hpc : (s.hs i).pc = none := by cases h : (s.hs i).pc <;> simp [h] at hg ⊢
      split
      · rename_i h' hrb
        have e1 : h' = (Handle.rebase s.disk (s.hs i)).1 := by rw [hrb]
        rw [e1]; exact hr.setHandle i _ ((hr.hs i).rebase hpc hr.dwf)
      · rename_i h' e hrb
        have e1 : h' = (Handle.rebase s.disk (s.hs i)).1 := by rw [hrb]
        rw [e1]; exact hr.setHandle i _ ((hr.hs i).rebase hpc hr.dwf)
  | writeTable t =>
    simp only [Sys.step]
    split
    · exact hr
    · exact rinv_congr (s := s) rfl rfl hr
  | addTables i ts =>
    simp only [Sys.step]
    split
    · exact hr
    · rename_i hg
      have hpc : (s.hs i).pc = none := by cases h : (s.hs i).pc <;> simp [h] at hg ⊢
      exact rinv_addTables env s hr i ts hpc hsafe _ rfl
  | conjoin i => exact absurd hsafe (by simp [AddSafe])

theorem rinv_next (env : Env) (s : Sys) (hr : RInv env s) (op : Op) (hsafe : AddSafe s op) : RInv env (s.next env op).1 :=
  rinv_congr (next_manifest env s op) (next_hs env s op) (rinv_step env s hr op hsafe)

end DoltVerif.ManStore
