/-
Looking a key up in a dictionary to which a sorted edit batch was applied = looking it up in
the batch first, then in the dictionary (the overlay read of `MutableMap.Get`).
-/
import DoltVerif.Lemmas.EditAlgebra
namespace DoltVerif.SortedDict
open DoltVerif.Prolly (TotalPreorder)

variable {κ ν : Type}

theorem cutAt_decomp (cmp : κ → κ → Ordering) (k : κ) : ∀ (l : List (κ × ν)),
    ∃ mid, l = (cutAt cmp k l).1 ++ mid ++ (cutAt cmp k l).2 ∧ ∀ x ∈ mid, cmp k x.1 = .eq
  | [] => ⟨[], rfl, by simp⟩
  | kv :: l => by
    simp only [cutAt]
    cases hc : cmp k kv.1 with
    | lt => exact ⟨[], by simp, by simp⟩
    | eq => exact ⟨[kv], by simp, by simp [hc]⟩
    | gt =>
      obtain ⟨mid, h1, h2⟩ := cutAt_decomp cmp k l
      exact ⟨mid, by simp only [List.cons_append]; rw [← h1], h2⟩

/-- the entry a sorted edit batch holds for a key -/
def editFor (cmp : κ → κ → Ordering) (es : Edits κ ν) (k : κ) : Option (κ × Option ν) :=
  es.find? (fun e => cmp k e.1 == .eq)

theorem lookup_append (cmp : κ → κ → Ordering) (k : κ) (a b : List (κ × ν)) :
    lookup cmp (a ++ b) k = (lookup cmp a k).or (lookup cmp b k) := by
  unfold lookup; exact List.find?_append

theorem lookup_nil_of (cmp : κ → κ → Ordering) (k : κ) (l : List (κ × ν)) (h : ∀ x ∈ l, cmp k x.1 ≠ .eq) :
    lookup cmp l k = none := by
  unfold lookup; rw [List.find?_eq_none]; intro x hx; simp [h x hx]

/-- **overlay lookup** -/
theorem lookup_applyEdits {cmp : κ → κ → Ordering} (hc : TotalPreorder cmp) (k : κ) :
    ∀ (es : Edits κ ν) (l : List (κ × ν)), Sorted cmp l → es.Pairwise (fun a b => cmp a.1 b.1 = .lt) →
      lookup cmp (applyEdits cmp l es) k =
        match editFor cmp es k with
        | some (k', some v) => some (k', v)
        | some (_, none) => none
        | none => lookup cmp l k
  | [], l, _, _ => rfl
  | e :: es, l, hs, hes => by
    rw [List.pairwise_cons] at hes
    have hpost : Sorted cmp (cutAt cmp e.1 l).2 := by
      unfold Sorted at hs ⊢; exact List.Pairwise.sublist (cutAt_snd_sublist cmp e.1 l) hs
    have hR : ∀ z ∈ applyEdits cmp (cutAt cmp e.1 l).2 es, cmp e.1 z.1 = .lt := by
      intro z hz
      rcases mem_applyEdits cmp es _ z hz with h | ⟨f, hf, hzf⟩
      · exact cutAt_snd_lt hc e.1 l hs z h
      · rw [hzf]; exact hes.1 f hf
    obtain ⟨mid, hdec, hmid⟩ := cutAt_decomp cmp e.1 l
    have hA : applyEdits cmp l (e :: es)
        = (cutAt cmp e.1 l).1 ++ (emit e.1 e.2 ++ applyEdits cmp (cutAt cmp e.1 l).2 es) := by
      show (cutAt cmp e.1 l).1 ++ emit e.1 e.2 ++ applyEdits cmp (cutAt cmp e.1 l).2 es = _
      rw [List.append_assoc]
    have hemitk : ∀ x ∈ emit e.1 e.2, x.1 = e.1 := by
      intro x hx
      cases he : e.2 with
      | none => rw [he] at hx; simp [emit] at hx
      | some v => rw [he] at hx; simp [emit] at hx; rw [hx]
    cases hke : cmp k e.1 with
    | eq =>
      -- the edit decides
      have hek : cmp e.1 k = .eq := hc.swap_eq k e.1 hke
      have hfind : editFor cmp (e :: es) k = some e := by simp [editFor, List.find?_cons, hke]
      have hpre : lookup cmp (cutAt cmp e.1 l).1 k = none := by
        apply lookup_nil_of; intro x hx
        rw [cmp_congr hc k e.1 x.1 hke, cutAt_fst_gt cmp e.1 l x hx]; simp
      rw [hA, lookup_append, hpre, Option.none_or, lookup_append, hfind]
      cases he2 : e.2 with
      | some v =>
        have : e = (e.1, some v) := by rw [← he2]
        rw [this]
        simp [emit, lookup, hke]
      | none =>
        have : e = (e.1, none) := by rw [← he2]
        rw [this]
        simp only [emit]
        have : lookup cmp (applyEdits cmp (cutAt cmp e.1 l).2 es) k = none := by
          apply lookup_nil_of; intro x hx
          rw [cmp_congr hc k e.1 x.1 hke, hR x hx]; simp
        simp [lookup, this] at *
        exact this
    | lt =>
      -- k is below this and every later edit
      have hfind : editFor cmp (e :: es) k = none := by
        unfold editFor
        rw [List.find?_eq_none]
        intro f hf
        rcases List.mem_cons.mp hf with rfl | hf
        · simp [hke]
        · have := hc.lt_trans k e.1 f.1 hke (hes.1 f hf); simp [this]
      have hrest : lookup cmp (emit e.1 e.2 ++ applyEdits cmp (cutAt cmp e.1 l).2 es) k = none := by
        apply lookup_nil_of; intro x hx
        rcases List.mem_append.mp hx with hx | hx
        · rw [hemitk x hx, hke]; simp
        · have := hc.lt_trans k e.1 x.1 hke (hR x hx); rw [this]; simp
      have hsuf : lookup cmp (mid ++ (cutAt cmp e.1 l).2) k = none := by
        apply lookup_nil_of; intro x hx
        rcases List.mem_append.mp hx with hx | hx
        · have hxe : cmp e.1 x.1 = .eq := hmid x hx
          have : cmp k x.1 = .lt := hc.lt_of_lt_of_le k e.1 x.1 hke (by rw [hxe]; simp)
          rw [this]; simp
        · have := hc.lt_trans k e.1 x.1 hke (cutAt_snd_lt hc e.1 l hs x hx); rw [this]; simp
      rw [hA, lookup_append, hrest, Option.or_none, hfind]
      simp only
      conv => rhs; rw [hdec, List.append_assoc, lookup_append, hsuf, Option.or_none]
    | gt =>
      have hek : cmp e.1 k = .lt := (hc.swap_lt e.1 k).mpr hke
      have hfind : editFor cmp (e :: es) k = editFor cmp es k := by simp [editFor, List.find?_cons, hke]
      have hpre : lookup cmp (cutAt cmp e.1 l).1 k = none := by
        apply lookup_nil_of; intro x hx
        have hxe : cmp x.1 e.1 = .lt := (hc.swap_lt _ _).mpr (cutAt_fst_gt cmp e.1 l x hx)
        have := hc.gt_of_lt _ _ (hc.lt_trans x.1 e.1 k hxe hek); rw [this]; simp
      have hem : lookup cmp (emit e.1 e.2) k = none := by
        apply lookup_nil_of; intro x hx; rw [hemitk x hx, hke]; simp
      have hmidn : lookup cmp mid k = none := by
        apply lookup_nil_of; intro x hx
        have hxe : cmp x.1 e.1 = .eq := hc.swap_eq _ _ (hmid x hx)
        have : cmp x.1 k = .lt := hc.lt_of_le_of_lt x.1 e.1 k (by rw [hxe]; simp) hek
        rw [hc.gt_of_lt _ _ this]; simp
      rw [hA, lookup_append, hpre, Option.none_or, lookup_append, hem, Option.none_or,
        lookup_applyEdits hc k es _ hpost hes.2, hfind]
      have hl : lookup cmp l k = lookup cmp (cutAt cmp e.1 l).2 k := by
        conv => lhs; rw [hdec, List.append_assoc, lookup_append, hpre, Option.none_or, lookup_append, hmidn,
          Option.none_or]
      rw [hl]

end DoltVerif.SortedDict
