/-
Lemmas about the sorted-dictionary specification: applying a sorted edit batch distributes over
a cut of the dictionary at a key (what lets `ApplyMutations` hand each leaf its own edits).
-/
import DoltVerif.Lemmas.Search
namespace DoltVerif.SortedDict
open DoltVerif.Prolly (TotalPreorder)

variable {κ ν : Type}

/-- cutting `l ++ rest` at `k` when every key of `rest` is above `k`: the cut falls inside `l` -/
theorem cutAt_append_left (cmp : κ → κ → Ordering) (k : κ) (rest : List (κ × ν))
    (hr : ∀ x ∈ rest, cmp k x.1 = .lt) : ∀ (l : List (κ × ν)),
    cutAt cmp k (l ++ rest) = ((cutAt cmp k l).1, (cutAt cmp k l).2 ++ rest)
  | [] => by
    cases rest with
    | nil => rfl
    | cons x xs => simp [cutAt, hr x (by simp)]
  | kv :: l => by
    simp only [List.cons_append, cutAt]
    cases hc : cmp k kv.1 with
    | lt => simp
    | eq => simp
    | gt => simp [cutAt_append_left cmp k rest hr l]

/-- cutting `l ++ rest` at `k` when every key of `l` is below `k`: the cut falls inside `rest` -/
theorem cutAt_append_right (cmp : κ → κ → Ordering) (k : κ) (rest : List (κ × ν)) : ∀ (l : List (κ × ν)),
    (∀ x ∈ l, cmp k x.1 = .gt) →
    cutAt cmp k (l ++ rest) = (l ++ (cutAt cmp k rest).1, (cutAt cmp k rest).2)
  | [], _ => by simp
  | kv :: l, h => by
    have hk := h kv (by simp)
    simp only [List.cons_append, cutAt, hk]
    rw [cutAt_append_right cmp k rest l (fun x hx => h x (by simp [hx]))]

theorem cutAt_snd_subset (cmp : κ → κ → Ordering) (k : κ) : ∀ (l : List (κ × ν)), ∀ x ∈ (cutAt cmp k l).2, x ∈ l
  | [], x, h => by simp [cutAt] at h
  | kv :: l, x, h => by
    simp only [cutAt] at h
    cases hc : cmp k kv.1 with
    | lt => rw [hc] at h; simpa using h
    | eq => rw [hc] at h; simp only at h; simp [h]
    | gt => rw [hc] at h; simp only at h; simp [cutAt_snd_subset cmp k l x h]

/-- **A sorted edit batch distributes over a cut of the dictionary**: if every key of `l` is
≤ `b` < every key of `rest`, applying the edits to `l ++ rest` is applying the edits with key ≤ `b`
to `l` and the others to `rest`.  (`b` = the last key of a leaf: the rule by which
`ApplyMutations` finds the leaf of an edit.) -/
theorem applyEdits_append {cmp : κ → κ → Ordering} (hc : TotalPreorder cmp) (b : κ) (rest : List (κ × ν))
    (hrest : ∀ x ∈ rest, cmp b x.1 = .lt) :
    ∀ (es : Edits κ ν) (l : List (κ × ν)), (∀ x ∈ l, cmp x.1 b ≠ .gt) →
      applyEdits cmp (l ++ rest) es =
        applyEdits cmp l (es.takeWhile (fun e => cmp e.1 b != .gt)) ++
        applyEdits cmp rest (es.dropWhile (fun e => cmp e.1 b != .gt))
  | [], l, _ => by simp [applyEdits]
  | e :: es, l, hl => by
    by_cases he : cmp e.1 b ≠ .gt
    · -- the edit belongs to `l`
      have hp : (cmp e.1 b != .gt) = true := by simpa using he
      simp only [List.takeWhile_cons, List.dropWhile_cons, hp, if_true, applyEdits]
      have hr : ∀ x ∈ rest, cmp e.1 x.1 = .lt := fun x hx => hc.lt_of_le_of_lt e.1 b x.1 he (hrest x hx)
      rw [cutAt_append_left cmp e.1 rest hr l]
      simp only
      rw [applyEdits_append hc b rest hrest es (cutAt cmp e.1 l).2
        (fun x hx => hl x (cutAt_snd_subset cmp e.1 l x hx))]
      simp [List.append_assoc]
    · -- the edit (and, by `takeWhile`, everything after it) belongs to `rest`
      have hgt : cmp e.1 b = .gt := by
        cases hcb : cmp e.1 b <;> simp_all
      have hp : (cmp e.1 b != .gt) = false := by simp [hgt]
      simp only [List.takeWhile_cons, List.dropWhile_cons, hp, Bool.false_eq_true, if_false, applyEdits]
      have hlgt : ∀ x ∈ l, cmp e.1 x.1 = .gt := by
        intro x hx
        -- x ≤ b < e
        have hbe : cmp b e.1 = .lt := (hc.swap_lt b e.1).mpr hgt
        exact hc.gt_of_lt _ _ (hc.lt_of_le_of_lt x.1 b e.1 (hl x hx) hbe)
      rw [cutAt_append_right cmp e.1 rest l hlgt]
      simp [List.append_assoc]

end DoltVerif.SortedDict
