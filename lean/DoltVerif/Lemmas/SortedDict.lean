/-
Lemmas about the sorted-dictionary specification: applying a sorted edit batch distributes over
a cut of the dictionary at a key (what lets `ApplyMutations` hand each leaf its own edits).
-/
import DoltVerif.Lemmas.Search
namespace DoltVerif.SortedDict
open DoltVerif.Prolly (TotalPreorder)

variable {κ ν : Type}

/-- cutting `l ++ rest` at `k` when every key of `rest` is above `k`: the cut falls inside `l` -/
theorem cutAt_append_left (cmp : κ → κ → Ordering) (k : κ) (rest : List (κ × ν))
    (hr : ∀ x ∈ rest, cmp k x.1 = .lt) : ∀ (l : List (κ × ν)),
    cutAt cmp k (l ++ rest) = ((cutAt cmp k l).1, (cutAt cmp k l).2 ++ rest)
  | [] => by
    cases rest with
    | nil => rfl
    | cons x xs => simp [cutAt, hr x (by simp)]
  | kv :: l => by
    simp only [List.cons_append, cutAt]
    cases hc : cmp k kv.1 with
    | lt => simp
    | eq => simp
    | gt => simp [cutAt_append_left cmp k rest hr l]

/-- cutting `l ++ rest` at `k` when every key of `l` is below `k`: the cut falls inside `rest` -/
theorem cutAt_append_right (cmp : κ → κ → Ordering) (k : κ) (rest : List (κ × ν)) : ∀ (l : List (κ × ν)),
    (∀ x ∈ l, cmp k x.1 = .gt) →
    cutAt cmp k (l ++ rest) = (l ++ (cutAt cmp k rest).1, (cutAt cmp k rest).2)
  | [], _ => by simp
  | kv :: l, h => by
    have hk := h kv (by simp)
    simp only [List.cons_append, cutAt, hk]
    rw [cutAt_append_right cmp k rest l (fun x hx => h x (by simp [hx]))]

theorem cutAt_snd_subset (cmp : κ → κ → Ordering) (k : κ) : ∀ (l : List (κ × ν)), ∀ x ∈ (cutAt cmp k l).2, x ∈ l
  | [], x, h => by simp [cutAt] at h
  | kv :: l, x, h => by
    simp only [cutAt] at h
    cases hc : cmp k kv.1 with
    | lt => rw [hc] at h; simpa using h
    | eq => rw [hc] at h; simp only at h; simp [h]
    | gt => rw [hc] at h; simp only at h; simp [cutAt_snd_subset cmp k l x h]

/-- **A sorted edit batch distributes over a cut of the dictionary**: if every key of `l` is
≤ `b` < every key of `rest`, applying the edits to `l ++ rest` is applying the edits with key ≤ `b`
to `l` and the others to `rest`.  (`b` = the last key of a leaf: the rule by which
`ApplyMutations` finds the leaf of an edit.) -/
theorem applyEdits_append {cmp : κ → κ → Ordering} (hc : TotalPreorder cmp) (b : κ) (rest : List (κ × ν))
    (hrest : ∀ x ∈ rest, cmp b x.1 = .lt) :
    ∀ (es : Edits κ ν) (l : List (κ × ν)), (∀ x ∈ l, cmp x.1 b ≠ .gt) →
      applyEdits cmp (l ++ rest) es =
        applyEdits cmp l (es.takeWhile (fun e => cmp e.1 b != .gt)) ++
        applyEdits cmp rest (es.dropWhile (fun e => cmp e.1 b != .gt))
  | [], l, _ => by simp [applyEdits]
  | e :: es, l, hl => by
    by_cases he : cmp e.1 b ≠ .gt
    · -- the edit belongs to `l`
      have hp : (cmp e.1 b != .gt) = true := by simpa using he
      simp only [List.takeWhile_cons, List.dropWhile_cons, hp, if_true, applyEdits]
      have hr : ∀ x ∈ rest, cmp e.1 x.1 = .lt := fun x hx => hc.lt_of_le_of_lt e.1 b x.1 he (hrest x hx)
      rw [cutAt_append_left cmp e.1 rest hr l]
      simp only
      rw [applyEdits_append hc b rest hrest es (cutAt cmp e.1 l).2
        (fun x hx => hl x (cutAt_snd_subset cmp e.1 l x hx))]
      simp [List.append_assoc]
    · -- the edit (and, by `takeWhile`, everything after it) belongs to `rest`
      have hgt : cmp e.1 b = .gt := by
        cases hcb : cmp e.1 b <;> simp_all
      have hp : (cmp e.1 b != .gt) = false := by simp [hgt]
      simp only [List.takeWhile_cons, List.dropWhile_cons, hp, Bool.false_eq_true, if_false, applyEdits]
      have hlgt : ∀ x ∈ l, cmp e.1 x.1 = .gt := by
        intro x hx
        -- x ≤ b < e
        have hbe : cmp b e.1 = .lt := (hc.swap_lt b e.1).mpr hgt
        exact hc.gt_of_lt _ _ (hc.lt_of_le_of_lt x.1 b e.1 (hl x hx) hbe)
      rw [cutAt_append_right cmp e.1 rest l hlgt]
      simp [List.append_assoc]

end DoltVerif.SortedDict

namespace DoltVerif.SortedDict
open DoltVerif.Prolly (TotalPreorder)
variable {κ ν : Type}

theorem cutAt_fst_gt (cmp : κ → κ → Ordering) (k : κ) : ∀ (l : List (κ × ν)), ∀ x ∈ (cutAt cmp k l).1, cmp k x.1 = .gt
  | [], x, h => by simp [cutAt] at h
  | kv :: l, x, h => by
    simp only [cutAt] at h
    cases hc : cmp k kv.1 with
    | lt => rw [hc] at h; simp at h
    | eq => rw [hc] at h; simp at h
    | gt =>
      rw [hc] at h
      simp only [List.mem_cons] at h
      rcases h with rfl | h
      · exact hc
      · exact cutAt_fst_gt cmp k l x h

/-- an edit is a no-op on a sorted list: deleting an absent key, or putting the pair that is
already there (same key bytes, same value) -/
def NoopOn [BEq κ] [BEq ν] (cmp : κ → κ → Ordering) (l : List (κ × ν)) (e : κ × Option ν) : Prop :=
  match l.find? (fun kv => cmp e.1 kv.1 == .eq), e.2 with
  | none, none => True
  | some kv, some v => (kv.1 == e.1 && kv.2 == v) = true
  | _, _ => False

/-- a single no-op edit leaves a sorted list as it is -/
theorem noop_single [BEq κ] [BEq ν] [LawfulBEq κ] [LawfulBEq ν] {cmp : κ → κ → Ordering} (hc : TotalPreorder cmp)
    (e : κ × Option ν) : ∀ (l : List (κ × ν)), Sorted cmp l → NoopOn cmp l e →
      (cutAt cmp e.1 l).1 ++ emit e.1 e.2 ++ (cutAt cmp e.1 l).2 = l
  | [], _, h => by
    unfold NoopOn at h
    simp only [List.find?_nil] at h
    cases he : e.2 with
    | none => simp [cutAt, emit]
    | some v => rw [he] at h; exact absurd h (by simp)
  | kv :: l, hs, h => by
    unfold Sorted at hs
    rw [List.pairwise_cons] at hs
    simp only [cutAt]
    cases hck : cmp e.1 kv.1 with
    | lt =>
      -- nothing in the list equals the key: the edit must be a delete
      have hnone : (kv :: l).find? (fun x => cmp e.1 x.1 == .eq) = none := by
        rw [List.find?_eq_none]
        intro x hx
        rcases List.mem_cons.mp hx with rfl | hx
        · simp [hck]
        · have := hc.lt_trans e.1 kv.1 x.1 hck (hs.1 x hx)
          simp [this]
      unfold NoopOn at h
      rw [hnone] at h
      cases he : e.2 with
      | none => simp [emit]
      | some v => rw [he] at h; exact absurd h (by simp)
    | eq =>
      have hsome : (kv :: l).find? (fun x => cmp e.1 x.1 == .eq) = some kv := by
        simp [List.find?_cons, hck]
      unfold NoopOn at h
      rw [hsome] at h
      cases he : e.2 with
      | none => rw [he] at h; exact absurd h (by simp)
      | some v =>
        rw [he] at h
        simp only [Bool.and_eq_true, beq_iff_eq] at h
        have : (e.1, v) = kv := by rw [← h.1, ← h.2]
        simp [emit, this]
    | gt =>
      have hfind : (kv :: l).find? (fun x => cmp e.1 x.1 == .eq) = l.find? (fun x => cmp e.1 x.1 == .eq) := by
        simp [List.find?_cons, hck]
      have h' : NoopOn cmp l e := by unfold NoopOn at h ⊢; rw [hfind] at h; exact h
      have ih := noop_single hc e l hs.2 h'
      simp only [List.cons_append]
      rw [ih]

theorem cutAt_snd_sublist (cmp : κ → κ → Ordering) (k : κ) : ∀ (l : List (κ × ν)), ((cutAt cmp k l).2).Sublist l
  | [] => by simp [cutAt]
  | kv :: l => by
    simp only [cutAt]
    cases hc : cmp k kv.1 with
    | lt => simp
    | eq => simp
    | gt => exact (cutAt_snd_sublist cmp k l).cons kv

/-- **a batch of no-op edits leaves a sorted list as it is** -/
theorem noop_all [BEq κ] [BEq ν] [LawfulBEq κ] [LawfulBEq ν] {cmp : κ → κ → Ordering} (hc : TotalPreorder cmp) :
    ∀ (es : Edits κ ν) (l : List (κ × ν)), Sorted cmp l → es.Pairwise (fun a b => cmp a.1 b.1 = .lt) →
      (∀ e ∈ es, NoopOn cmp l e) → applyEdits cmp l es = l
  | [], l, _, _, _ => rfl
  | e :: es, l, hs, hes, hno => by
    rw [List.pairwise_cons] at hes
    have hsingle := noop_single hc e l hs (hno e (by simp))
    have hspost : Sorted cmp (cutAt cmp e.1 l).2 := by
      unfold Sorted at hs ⊢; exact List.Pairwise.sublist (cutAt_snd_sublist cmp e.1 l) hs
    have hnopost : ∀ e' ∈ es, NoopOn cmp (cutAt cmp e.1 l).2 e' := by
      intro e' he'
      have h := hno e' (by simp [he'])
      have hlt : cmp e.1 e'.1 = .lt := hes.1 e' he'
      unfold NoopOn at h ⊢
      have hfind : l.find? (fun kv => cmp e'.1 kv.1 == .eq)
          = (cutAt cmp e.1 l).2.find? (fun kv => cmp e'.1 kv.1 == .eq) := by
        conv => lhs; rw [← hsingle]
        rw [List.find?_append, List.find?_append]
        have h1 : (cutAt cmp e.1 l).1.find? (fun kv => cmp e'.1 kv.1 == .eq) = none := by
          rw [List.find?_eq_none]
          intro x hx
          have hx1 : cmp x.1 e.1 = .lt := (hc.swap_lt _ _).mpr (cutAt_fst_gt cmp e.1 l x hx)
          have := hc.gt_of_lt _ _ (hc.lt_trans x.1 e.1 e'.1 hx1 hlt)
          simp [this]
        have h2 : (emit e.1 e.2).find? (fun kv => cmp e'.1 kv.1 == .eq) = none := by
          rw [List.find?_eq_none]
          intro x hx
          have hxk : x.1 = e.1 := by
            cases he2 : e.2 with
            | none => rw [he2] at hx; simp [emit] at hx
            | some v => rw [he2] at hx; simp [emit] at hx; rw [hx]
          have := hc.gt_of_lt _ _ hlt
          rw [hxk]; simp [this]
        rw [h1, h2]; simp
      rw [← hfind]; exact h
    have ih := noop_all hc es (cutAt cmp e.1 l).2 hspost hes.2 hnopost
    show (cutAt cmp e.1 l).1 ++ emit e.1 e.2 ++ applyEdits cmp (cutAt cmp e.1 l).2 es = l
    rw [ih]; exact hsingle

theorem cutAt_fst_sublist (cmp : κ → κ → Ordering) (k : κ) : ∀ (l : List (κ × ν)), ((cutAt cmp k l).1).Sublist l
  | [] => by simp [cutAt]
  | kv :: l => by
    simp only [cutAt]
    cases hc : cmp k kv.1 with
    | lt => simp
    | eq => simp
    | gt => exact (cutAt_fst_sublist cmp k l).cons₂ kv

theorem cutAt_snd_lt {cmp : κ → κ → Ordering} (hc : TotalPreorder cmp) (k : κ) : ∀ (l : List (κ × ν)), Sorted cmp l →
    ∀ x ∈ (cutAt cmp k l).2, cmp k x.1 = .lt
  | [], _, x, h => by simp [cutAt] at h
  | kv :: l, hs, x, h => by
    unfold Sorted at hs
    rw [List.pairwise_cons] at hs
    simp only [cutAt] at h
    cases hck : cmp k kv.1 with
    | lt =>
      rw [hck] at h
      rcases List.mem_cons.mp h with rfl | hx
      · exact hck
      · exact hc.lt_trans k kv.1 x.1 hck (hs.1 x hx)
    | eq =>
      rw [hck] at h
      simp only at h
      have hle : cmp k kv.1 ≠ .gt := by rw [hck]; simp
      exact hc.lt_of_le_of_lt k kv.1 x.1 hle (hs.1 x h)
    | gt =>
      rw [hck] at h
      exact cutAt_snd_lt hc k l hs.2 x h

theorem mem_applyEdits (cmp : κ → κ → Ordering) : ∀ (es : Edits κ ν) (l : List (κ × ν)) (x : κ × ν),
    x ∈ applyEdits cmp l es → x ∈ l ∨ ∃ e ∈ es, x.1 = e.1
  | [], l, x, h => Or.inl h
  | e :: es, l, x, h => by
    simp only [applyEdits, List.mem_append] at h
    rcases h with (h | h) | h
    · exact Or.inl ((cutAt_fst_sublist cmp e.1 l).subset h)
    · right
      refine ⟨e, by simp, ?_⟩
      cases he : e.2 with
      | none => rw [he] at h; simp [emit] at h
      | some v => rw [he] at h; simp [emit] at h; rw [h]
    · rcases mem_applyEdits cmp es _ x h with h | ⟨e', he', hx⟩
      · exact Or.inl (cutAt_snd_subset cmp e.1 l x h)
      · exact Or.inr ⟨e', by simp [he'], hx⟩

/-- **applying a sorted batch to a sorted dictionary gives a sorted dictionary** -/
theorem applyEdits_sorted {cmp : κ → κ → Ordering} (hc : TotalPreorder cmp) :
    ∀ (es : Edits κ ν) (l : List (κ × ν)), Sorted cmp l → es.Pairwise (fun a b => cmp a.1 b.1 = .lt) →
      Sorted cmp (applyEdits cmp l es)
  | [], l, hs, _ => hs
  | e :: es, l, hs, hes => by
    rw [List.pairwise_cons] at hes
    have hpost : Sorted cmp (cutAt cmp e.1 l).2 := by
      unfold Sorted at hs ⊢; exact List.Pairwise.sublist (cutAt_snd_sublist cmp e.1 l) hs
    have hpre : Sorted cmp (cutAt cmp e.1 l).1 := by
      unfold Sorted at hs ⊢; exact List.Pairwise.sublist (cutAt_fst_sublist cmp e.1 l) hs
    have ih := applyEdits_sorted hc es (cutAt cmp e.1 l).2 hpost hes.2
    -- everything after the cut is above the edit key
    have hafter : ∀ x ∈ applyEdits cmp (cutAt cmp e.1 l).2 es, cmp e.1 x.1 = .lt := by
      intro x hx
      rcases mem_applyEdits cmp es _ x hx with h | ⟨e', he', hxe⟩
      · exact cutAt_snd_lt hc e.1 l hs x h
      · rw [hxe]; exact hes.1 e' he'
    have hemit : ∀ x ∈ emit e.1 e.2, x.1 = e.1 := by
      intro x hx
      cases he : e.2 with
      | none => rw [he] at hx; simp [emit] at hx
      | some v => rw [he] at hx; simp [emit] at hx; rw [hx]
    show Sorted cmp ((cutAt cmp e.1 l).1 ++ emit e.1 e.2 ++ applyEdits cmp (cutAt cmp e.1 l).2 es)
    unfold Sorted at *
    rw [List.append_assoc, List.pairwise_append]
    refine ⟨hpre, ?_, ?_⟩
    · rw [List.pairwise_append]
      refine ⟨?_, ih, ?_⟩
      · cases he : e.2 with
        | none => simp [emit]
        | some v => simp [emit]
      · intro a ha b hb
        rw [hemit a ha]; exact hafter b hb
    · intro a ha b hb
      have hae : cmp a.1 e.1 = .lt := (hc.swap_lt _ _).mpr (cutAt_fst_gt cmp e.1 l a ha)
      rcases List.mem_append.mp hb with hb | hb
      · rw [hemit b hb]; exact hae
      · exact hc.lt_trans a.1 e.1 b.1 hae (hafter b hb)

end DoltVerif.SortedDict
