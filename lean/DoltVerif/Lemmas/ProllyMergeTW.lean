import DoltVerif.Model.ProllyMerge
import DoltVerif.Lemmas.ProllyDiffSpec
/-!
C14 helper lemmas: `ThreeWayDiffer.Next` over two ascending diff streams classifies every key of
either stream exactly once, ascending.
-/
namespace DoltVerif.ProllyMerge
open DoltVerif.ProllyDiff

/-- strictly ascending event keys -/
def AscE (cmp : Bytes → Bytes → Ordering) (l : List Event) : Prop := l.Pairwise (fun e1 e2 => cmp e1.key e2.key = .lt)

/-- what the results of the three-way differ must be, stated per pair of diff events -/
def TWSpec (cmp : Bytes → Bytes → Ordering) (resolve : ResolveCb) (dl dr : List Event) (d : TWDiff) : Prop :=
  (∃ l ∈ dl, d = newLeftEdit l ∧ ∀ r ∈ dr, cmp l.key r.key ≠ .eq) ∨
  (∃ r ∈ dr, d = newRightEdit r ∧ ∀ l ∈ dl, cmp l.key r.key ≠ .eq) ∨
  (∃ l ∈ dl, ∃ r ∈ dr, d = matchEdit resolve l r ∧ cmp l.key r.key = .eq)

theorem newLeftEdit_key (e : Event) : (newLeftEdit e).key = e.key := rfl
theorem newRightEdit_key (e : Event) : (newRightEdit e).key = e.key := rfl
theorem matchEdit_key (resolve : ResolveCb) (l r : Event) : (matchEdit resolve l r).key = l.key := by
  unfold matchEdit
  split
  · rfl
  · split
    · split <;> rfl
    · split
      · rfl
      · split <;> rfl

theorem ascE_head {cmp} {x : Event} {l : List Event} (h : AscE cmp (x :: l)) : ∀ y ∈ l, cmp x.key y.key = .lt :=
  (List.pairwise_cons.mp h).1
theorem ascE_tail {cmp} {x : Event} {l : List Event} (h : AscE cmp (x :: l)) : AscE cmp l :=
  (List.pairwise_cons.mp h).2

/-- **twNext_mem** -/
theorem twNext_mem {cmp} (ol : OrdLaws cmp) (resolve : ResolveCb) : ∀ (a b : List Event), AscE cmp a → AscE cmp b →
    ∀ d, d ∈ twNext cmp resolve a b ↔ TWSpec cmp resolve a b d
  | [], [], _, _, d => by simp [twNext, TWSpec]
  | x :: as, [], sa, _, d => by
    have ih := twNext_mem ol resolve as [] (ascE_tail sa) (by simp [AscE]) d
    rw [twNext, List.mem_cons, ih]
    constructor
    · rintro (rfl | h)
      · exact Or.inl ⟨x, by simp, rfl, by simp⟩
      · rcases h with ⟨l, hl, rfl, hno⟩ | ⟨r, hr, _⟩ | ⟨_, _, r, hr, _⟩
        · exact Or.inl ⟨l, by simp [hl], rfl, hno⟩
        · simp at hr
        · simp at hr
    · rintro (⟨l, hl, rfl, hno⟩ | ⟨r, hr, _⟩ | ⟨_, _, r, hr, _⟩)
      · simp at hl
        rcases hl with rfl | hl
        · exact Or.inl rfl
        · exact Or.inr (Or.inl ⟨l, hl, rfl, hno⟩)
      · simp at hr
      · simp at hr
  | [], y :: bs, _, sb, d => by
    have ih := twNext_mem ol resolve [] bs (by simp [AscE]) (ascE_tail sb) d
    rw [twNext, List.mem_cons, ih]
    constructor
    · rintro (rfl | h)
      · exact Or.inr (Or.inl ⟨y, by simp, rfl, by simp⟩)
      · rcases h with ⟨l, hl, _⟩ | ⟨r, hr, rfl, hno⟩ | ⟨l, hl, _⟩
        · simp at hl
        · exact Or.inr (Or.inl ⟨r, by simp [hr], rfl, hno⟩)
        · simp at hl
    · rintro (⟨l, hl, _⟩ | ⟨r, hr, rfl, hno⟩ | ⟨l, hl, _⟩)
      · simp at hl
      · simp at hr
        rcases hr with rfl | hr
        · exact Or.inl rfl
        · exact Or.inr (Or.inr (Or.inl ⟨r, hr, rfl, hno⟩))
      · simp at hl
  | x :: as, y :: bs, sa, sb, d => by
    have hxa := ascE_head sa
    have hyb := ascE_head sb
    rw [twNext]
    cases hc : cmp x.key y.key with
    | lt =>
      simp only []
      have ih := twNext_mem ol resolve as (y :: bs) (ascE_tail sa) sb d
      have hxb : ∀ y' ∈ y :: bs, cmp x.key y'.key = .lt := by
        intro y' hy'
        simp at hy'
        rcases hy' with rfl | hy'
        · exact hc
        · exact ol.lt_trans _ _ _ hc (hyb y' hy')
      rw [List.mem_cons, ih]
      constructor
      · rintro (rfl | h)
        · exact Or.inl ⟨x, by simp, rfl, fun y' hy' => by rw [hxb y' hy']; simp⟩
        · rcases h with ⟨x', hx', rfl, hno⟩ | ⟨y', hy', rfl, hno⟩ | ⟨x', hx', y', hy', rfl, he⟩
          · exact Or.inl ⟨x', by simp [hx'], rfl, hno⟩
          · refine Or.inr (Or.inl ⟨y', hy', rfl, ?_⟩)
            intro x'' hx''
            simp at hx''
            rcases hx'' with rfl | hx''
            · rw [hxb y' hy']; simp
            · exact hno x'' hx''
          · exact Or.inr (Or.inr ⟨x', by simp [hx'], y', hy', rfl, he⟩)
      · rintro (⟨x', hx', rfl, hno⟩ | ⟨y', hy', rfl, hno⟩ | ⟨x', hx', y', hy', rfl, he⟩)
        · simp at hx'
          rcases hx' with rfl | hx'
          · exact Or.inl rfl
          · exact Or.inr (Or.inl ⟨x', hx', rfl, hno⟩)
        · exact Or.inr (Or.inr (Or.inl ⟨y', hy', rfl, fun x'' hx'' => hno x'' (by simp [hx''])⟩))
        · simp at hx'
          rcases hx' with rfl | hx'
          · rw [hxb y' hy'] at he; simp at he
          · exact Or.inr (Or.inr (Or.inr ⟨x', hx', y', hy', rfl, he⟩))
    | gt =>
      simp only []
      have hlt : cmp y.key x.key = .lt := (ol.gt_iff _ _).mp hc
      have ih := twNext_mem ol resolve (x :: as) bs sa (ascE_tail sb) d
      have hya : ∀ x' ∈ x :: as, cmp y.key x'.key = .lt := by
        intro x' hx'
        simp at hx'
        rcases hx' with rfl | hx'
        · exact hlt
        · exact ol.lt_trans _ _ _ hlt (hxa x' hx')
      have hne : ∀ x' ∈ x :: as, cmp x'.key y.key ≠ .eq := by
        intro x' hx' he
        have := ol.eq_symm he; rw [hya x' hx'] at this; simp at this
      rw [List.mem_cons, ih]
      constructor
      · rintro (rfl | h)
        · exact Or.inr (Or.inl ⟨y, by simp, rfl, hne⟩)
        · rcases h with ⟨x', hx', rfl, hno⟩ | ⟨y', hy', rfl, hno⟩ | ⟨x', hx', y', hy', rfl, he⟩
          · refine Or.inl ⟨x', hx', rfl, ?_⟩
            intro y'' hy''
            simp at hy''
            rcases hy'' with rfl | hy''
            · exact hne x' hx'
            · exact hno y'' hy''
          · exact Or.inr (Or.inl ⟨y', by simp [hy'], rfl, hno⟩)
          · exact Or.inr (Or.inr ⟨x', hx', y', by simp [hy'], rfl, he⟩)
      · rintro (⟨x', hx', rfl, hno⟩ | ⟨y', hy', rfl, hno⟩ | ⟨x', hx', y', hy', rfl, he⟩)
        · exact Or.inr (Or.inl ⟨x', hx', rfl, fun y'' hy'' => hno y'' (by simp [hy''])⟩)
        · simp at hy'
          rcases hy' with rfl | hy'
          · exact Or.inl rfl
          · exact Or.inr (Or.inr (Or.inl ⟨y', hy', rfl, hno⟩))
        · simp at hy'
          rcases hy' with rfl | hy'
          · exact absurd he (hne x' hx')
          · exact Or.inr (Or.inr (Or.inr ⟨x', hx', y', hy', rfl, he⟩))
    | eq =>
      simp only []
      have ih := twNext_mem ol resolve as bs (ascE_tail sa) (ascE_tail sb) d
      have hxb : ∀ y' ∈ bs, cmp x.key y'.key = .lt := fun y' hy' => ol.eq_lt _ _ _ hc (hyb y' hy')
      have hya : ∀ x' ∈ as, cmp y.key x'.key = .lt := fun x' hx' => ol.eq_lt _ _ _ (ol.eq_symm hc) (hxa x' hx')
      have hya' : ∀ x' ∈ as, cmp x'.key y.key ≠ .eq := by
        intro x' hx' he
        have := ol.eq_symm he; rw [hya x' hx'] at this; simp at this
      rw [List.mem_cons, ih]
      constructor
      · rintro (rfl | h)
        · exact Or.inr (Or.inr ⟨x, by simp, y, by simp, rfl, hc⟩)
        · rcases h with ⟨x', hx', rfl, hno⟩ | ⟨y', hy', rfl, hno⟩ | ⟨x', hx', y', hy', rfl, he⟩
          · refine Or.inl ⟨x', by simp [hx'], rfl, ?_⟩
            intro y'' hy''
            simp at hy''
            rcases hy'' with rfl | hy''
            · exact hya' x' hx'
            · exact hno y'' hy''
          · refine Or.inr (Or.inl ⟨y', by simp [hy'], rfl, ?_⟩)
            intro x'' hx''
            simp at hx''
            rcases hx'' with rfl | hx''
            · rw [hxb y' hy']; simp
            · exact hno x'' hx''
          · exact Or.inr (Or.inr ⟨x', by simp [hx'], y', by simp [hy'], rfl, he⟩)
      · rintro (⟨x', hx', rfl, hno⟩ | ⟨y', hy', rfl, hno⟩ | ⟨x', hx', y', hy', rfl, he⟩)
        · simp at hx'
          rcases hx' with rfl | hx'
          · exact absurd hc (hno y (by simp))
          · exact Or.inr (Or.inl ⟨x', hx', rfl, fun y'' hy'' => hno y'' (by simp [hy''])⟩)
        · simp at hy'
          rcases hy' with rfl | hy'
          · exact absurd hc (hno x (by simp))
          · exact Or.inr (Or.inr (Or.inl ⟨y', hy', rfl, fun x'' hx'' => hno x'' (by simp [hx''])⟩))
        · simp at hx' hy'
          rcases hx' with rfl | hx'
          · rcases hy' with rfl | hy'
            · exact Or.inl rfl
            · rw [hxb y' hy'] at he; simp at he
          · rcases hy' with rfl | hy'
            · exact absurd he (hya' x' hx')
            · exact Or.inr (Or.inr (Or.inr ⟨x', hx', y', hy', rfl, he⟩))
termination_by a b => a.length + b.length

theorem TWSpec.key_mem {cmp resolve dl dr d} (h : TWSpec cmp resolve dl dr d) :
    (∃ l ∈ dl, d.key = l.key) ∨ (∃ r ∈ dr, d.key = r.key) := by
  rcases h with ⟨l, hl, rfl, _⟩ | ⟨r, hr, rfl, _⟩ | ⟨l, hl, r, _, rfl, _⟩
  · exact Or.inl ⟨l, hl, rfl⟩
  · exact Or.inr ⟨r, hr, rfl⟩
  · exact Or.inl ⟨l, hl, matchEdit_key _ _ _⟩

/-- **twNext_ascending**: result keys strictly ascend -/
theorem twNext_ascending {cmp} (ol : OrdLaws cmp) (resolve : ResolveCb) : ∀ (a b : List Event), AscE cmp a → AscE cmp b →
    (twNext cmp resolve a b).Pairwise (fun d1 d2 => cmp d1.key d2.key = .lt)
  | [], [], _, _ => by simp [twNext]
  | x :: as, [], sa, sb => by
    rw [twNext]
    refine List.pairwise_cons.mpr ⟨?_, twNext_ascending ol resolve as [] (ascE_tail sa) sb⟩
    intro d hd
    rcases ((twNext_mem ol resolve _ _ (ascE_tail sa) sb d).mp hd).key_mem with ⟨l, hl, hk⟩ | ⟨r, hr, _⟩
    · rw [hk]; exact ascE_head sa l hl
    · simp at hr
  | [], y :: bs, sa, sb => by
    rw [twNext]
    refine List.pairwise_cons.mpr ⟨?_, twNext_ascending ol resolve [] bs sa (ascE_tail sb)⟩
    intro d hd
    rcases ((twNext_mem ol resolve _ _ sa (ascE_tail sb) d).mp hd).key_mem with ⟨l, hl, _⟩ | ⟨r, hr, hk⟩
    · simp at hl
    · rw [hk]; exact ascE_head sb r hr
  | x :: as, y :: bs, sa, sb => by
    have hxa := ascE_head sa
    have hyb := ascE_head sb
    rw [twNext]
    cases hc : cmp x.key y.key with
    | lt =>
      simp only []
      refine List.pairwise_cons.mpr ⟨?_, twNext_ascending ol resolve as (y :: bs) (ascE_tail sa) sb⟩
      intro d hd
      rcases ((twNext_mem ol resolve _ _ (ascE_tail sa) sb d).mp hd).key_mem with ⟨l, hl, hk⟩ | ⟨r, hr, hk⟩
      · rw [hk]; exact hxa l hl
      · rw [hk]
        simp at hr
        rcases hr with rfl | hr
        · exact hc
        · exact ol.lt_trans _ _ _ hc (hyb r hr)
    | gt =>
      simp only []
      have hlt : cmp y.key x.key = .lt := (ol.gt_iff _ _).mp hc
      refine List.pairwise_cons.mpr ⟨?_, twNext_ascending ol resolve (x :: as) bs sa (ascE_tail sb)⟩
      intro d hd
      rcases ((twNext_mem ol resolve _ _ sa (ascE_tail sb) d).mp hd).key_mem with ⟨l, hl, hk⟩ | ⟨r, hr, hk⟩
      · rw [hk]
        simp at hl
        rcases hl with rfl | hl
        · exact hlt
        · exact ol.lt_trans _ _ _ hlt (hxa l hl)
      · rw [hk]; exact hyb r hr
    | eq =>
      simp only []
      refine List.pairwise_cons.mpr ⟨?_, twNext_ascending ol resolve as bs (ascE_tail sa) (ascE_tail sb)⟩
      intro d hd
      rw [matchEdit_key]
      rcases ((twNext_mem ol resolve _ _ (ascE_tail sa) (ascE_tail sb) d).mp hd).key_mem with ⟨l, hl, hk⟩ | ⟨r, hr, hk⟩
      · rw [hk]; exact hxa l hl
      · rw [hk]; exact ol.eq_lt _ _ _ hc (hyb r hr)
termination_by a b => a.length + b.length

end DoltVerif.ProllyMerge
