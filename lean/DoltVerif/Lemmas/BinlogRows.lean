import DoltVerif.Lemmas.BinlogBytes
/-! NULL bitmap and row-image framing lemmas for C40. Core only. -/
namespace DoltVerif.Binlog

theorem packByte_lt : ∀ l : List Bool, packByte l < 2 ^ l.length
  | [] => by simp [packByte]
  | b :: r => by
    have := packByte_lt r
    simp only [packByte, List.length_cons, Nat.pow_succ]
    split <;> omega

theorem unpackByte_packByte : ∀ l : List Bool, unpackByte l.length (packByte l) = l
  | [] => rfl
  | b :: r => by
    have ih := unpackByte_packByte r
    simp only [packByte, List.length_cons, unpackByte]
    cases b
    · have e1 : (0 + 2 * packByte r) % 2 = 0 := by omega
      have e2 : (0 + 2 * packByte r) / 2 = packByte r := by omega
      simp [e1, e2, ih]
    · have e1 : (1 + 2 * packByte r) % 2 = 1 := by omega
      have e2 : (1 + 2 * packByte r) / 2 = packByte r := by omega
      simp [e1, e2, ih]

theorem unpackBits_packBits (fl : List Bool) : unpackBits fl.length (packBits fl) = some fl := by
  induction h : fl.length using Nat.strongRecOn generalizing fl with
  | _ n ih =>
    subst h
    unfold packBits unpackBits
    by_cases h0 : fl.length = 0
    · simp [h0, List.eq_nil_of_length_eq_zero h0]
    · simp only [h0, dite_false]
      have hd : (fl.drop 8).length = fl.length - 8 := by simp
      have := ih (fl.drop 8).length (by rw [hd]; omega) (fl.drop 8) rfl
      rw [hd] at this
      rw [this]
      have ht : (fl.take 8).length = min fl.length 8 := by simp [Nat.min_comm]
      have hlt : packByte (fl.take 8) < 256 := by
        have := packByte_lt (fl.take 8)
        have : 2 ^ (fl.take 8).length ≤ 2 ^ 8 := Nat.pow_le_pow_right (by decide) (by rw [ht]; omega)
        omega
      rw [byteOf_toNat, Nat.mod_eq_of_lt hlt, ← ht, unpackByte_packByte]
      simp [List.take_append_drop]

theorem packBits_length (fl : List Bool) : (packBits fl).length = (fl.length + 7) / 8 := by
  induction h : fl.length using Nat.strongRecOn generalizing fl with
  | _ n ih =>
    subst h
    unfold packBits
    by_cases h0 : fl.length = 0
    · simp [h0]
    · simp only [h0, dite_false, List.length_cons]
      have hd : (fl.drop 8).length = fl.length - 8 := by simp
      rw [ih (fl.drop 8).length (by rw [hd]; omega) (fl.drop 8) rfl, hd]
      omega

/-- generic row framing: if every non-NULL cell decodes back (with any continuation), the
concatenated row image decodes back to exactly the row. -/
theorem decodeRow_encodeRow (cols : List (ColType × Option Cell))
    (hcell : ∀ t c, (t, some c) ∈ cols → ∀ b r, encode t c = .ok b →
      decodeCell (signedOf t) (colMeta t).1 (colMeta t).2 (b ++ r) = some (c, r)) :
    ∀ d fl r, encodeRow cols = .ok (d, fl) →
      decodeRow (cols.map (fun tc => colDesc tc.1)) fl (d ++ r) = some (cols.map (·.2), r) ∧ fl.length = cols.length := by
  induction cols with
  | nil =>
    intro d fl r h
    simp [encodeRow] at h
    obtain ⟨rfl, rfl⟩ := h
    simp [decodeRow]
  | cons x xs ih =>
    intro d fl r h
    obtain ⟨t, oc⟩ := x
    have ih' := ih (fun t c hm => hcell t c (List.mem_cons_of_mem _ hm))
    cases oc with
    | none =>
      simp only [encodeRow] at h
      split at h
      · rename_i d' fl' he
        simp only [Except.ok.injEq, Prod.mk.injEq] at h
        obtain ⟨rfl, rfl⟩ := h
        obtain ⟨h1, h2⟩ := ih' d' fl' r he
        simp only [colDesc] at h1
        simp [decodeRow, colDesc, h1, h2]
      · simp at h
    | some c =>
      simp only [encodeRow] at h
      split at h
      · simp at h
      · rename_i b hb
        split at h
        · rename_i d' fl' he
          simp only [Except.ok.injEq, Prod.mk.injEq] at h
          obtain ⟨rfl, rfl⟩ := h
          obtain ⟨h1, h2⟩ := ih' d' fl' r he
          have hc := hcell t c (List.mem_cons_self) b (d' ++ r) hb
          simp only [colDesc] at h1
          simp only [List.map_cons, decodeRow, colDesc, List.append_assoc, hc, h1]
          simp [h2]
        · simp at h

end DoltVerif.Binlog
